//! vls - the language server's analysis entry points driven in-process (C20 symbol ranges, C06 no-crash).
//! The language server is a binary crate, so its modules are included by path.
#![allow(dead_code, unused_imports)]
#[path = "/repo/dora-language-server/src/document_symbols.rs"]
mod document_symbols;
#[path = "/repo/dora-language-server/src/formatting.rs"]
mod formatting;
#[path = "/repo/dora-language-server/src/goto_def.rs"]
mod goto_def;
#[path = "/repo/dora-language-server/src/position.rs"]
mod position;
#[path = "/repo/dora-language-server/src/server.rs"]
mod server;
#[path = "/repo/dora-language-server/src/workspace_symbols.rs"]
mod workspace_symbols;

use lsp_types::{DocumentSymbol, Position, Range};
use serde_json::json;
use std::sync::Arc;

fn le(a: Position, b: Position) -> bool { (a.line, a.character) <= (b.line, b.character) }
fn inside(inner: Range, outer: Range) -> bool { le(outer.start, inner.start) && le(inner.end, outer.end) && le(inner.start, inner.end) }

fn check(sym: &DocumentSymbol, parent: Option<Range>, doc: Range, bad: &mut Vec<String>) {
    if !inside(sym.range, doc) { bad.push(format!("symbol {} range {:?} outside document {:?}", sym.name, sym.range, doc)); }
    if !inside(sym.selection_range, sym.range) { bad.push(format!("symbol {} selection {:?} outside its range {:?}", sym.name, sym.selection_range, sym.range)); }
    if let Some(p) = parent { if !inside(sym.range, p) { bad.push(format!("symbol {} range {:?} outside parent {:?}", sym.name, sym.range, p)); } }
    if let Some(ch) = &sym.children { for c in ch { check(c, Some(sym.range), doc, bad); } }
}
fn count(s: &[DocumentSymbol]) -> usize { s.iter().map(|x| 1 + x.children.as_ref().map(|c| count(c)).unwrap_or(0)).sum() }

/// vls symbols <list-file>: each line of the list file is a path to a text; prints one JSON line per failing
/// text and a summary
fn symbols(args: &[String]) -> i32 {
    let list = std::fs::read_to_string(&args[0]).expect("list");
    std::panic::set_hook(Box::new(|_| {}));
    let (mut texts, mut syms, mut fails) = (0usize, 0usize, 0usize);
    for path in list.lines() {
        let Ok(bytes) = std::fs::read(path) else { continue };
        let Ok(content) = String::from_utf8(bytes) else { continue };
        texts += 1;
        let c = Arc::new(content.clone());
        let r = std::panic::catch_unwind(move || document_symbols::verif_scan_single_file(c));
        match r {
            Err(_) => { fails += 1; println!("{}", json!({"kind":"panic","path":path})); }
            Ok(list) => {
                let ls = dora_parser::compute_line_starts(&content);
                let end = position::utf8_offset_to_utf16_position(&content, &ls, content.len() as u32);
                let doc = Range { start: Position::new(0, 0), end };
                let mut bad = Vec::new();
                for s in &list { check(s, None, doc, &mut bad); }
                syms += count(&list);
                if !bad.is_empty() { fails += 1; println!("{}", json!({"kind":"range","path":path,"problems":bad.iter().take(5).collect::<Vec<_>>()})); }
            }
        }
    }
    println!("{}", json!({"kind":"summary","texts":texts,"symbols":syms,"failures":fails}));
    0
}

fn main() {
    let args: Vec<String> = std::env::args().collect();
    let rc = match args.get(1).map(|s| s.as_str()) {
        Some("symbols") => symbols(&args[2..]),
        _ => { eprintln!("usage: vls symbols <list>"); 2 }
    };
    std::process::exit(rc);
}
