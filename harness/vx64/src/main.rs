//! C07 harness: recorder and label-program replayer for the real `dora_asm::x64::AssemblerX64`.
//!
//!   vx64 methods                          names of the instruction methods the recorder drives (one per line)
//!   vx64 record <out.ndjson> <seed> <quick|thorough>
//!                                         calls every instruction method over registers x addressing shapes x boundary
//!                                         displacements / immediates / condition codes; one NDJSON record per call:
//!                                         {"m":method,"r":[regs in parameter order],"a":{..},"imm":[8 LE bytes],"cc":name,
//!                                          "u8":n,"rel":n,"lbl":{"before":0|1,"pad":n},"bytes":[..]} or ...,"refused":true
//!   vx64 labels <programs.ndjson> <out.ndjson>
//!                                         replays label programs {"id":n,"nl":labels,"items":[{"op":..},..]} and writes
//!                                         {"id":n,"bytes":[..]} or {"id":n,"refused":true}
//!
//! A panic (assert) of the code under test is data ("refused"), never a harness failure.
use dora_asm::Label;
use dora_asm::x64::*;
use std::io::{BufRead, BufWriter, Write};

#[derive(Clone, Copy, Debug)]
enum Addr {
    None,
    Offset { base: u8, disp: i32 },
    Array { base: u8, index: u8, scale: u8, disp: i32 },
    Index { index: u8, scale: u8, disp: i32 },
    Rip { disp: i32 },
}

#[derive(Clone, Copy, Debug)]
struct Ops {
    r: [u8; 3],
    a: Addr,
    imm: i64,
    cc: usize,
    u8v: u8,
    rel: i32,
    before: bool,
    pad: u32,
}

impl Ops {
    fn new() -> Ops {
        Ops { r: [0; 3], a: Addr::None, imm: 0, cc: 0, u8v: 0, rel: 0, before: false, pad: 0 }
    }
}

fn g(v: u8) -> Register {
    Register::new(v)
}
fn x(v: u8) -> XmmRegister {
    XmmRegister::new(v)
}
fn sf(i: u8) -> ScaleFactor {
    match i {
        0 => ScaleFactor::One,
        1 => ScaleFactor::Two,
        2 => ScaleFactor::Four,
        _ => ScaleFactor::Eight,
    }
}
fn ad(a: Addr) -> Address {
    match a {
        Addr::Offset { base, disp } => Address::offset(g(base), disp),
        Addr::Array { base, index, scale, disp } => Address::array(g(base), g(index), sf(scale), disp),
        Addr::Index { index, scale, disp } => Address::index(g(index), sf(scale), disp),
        Addr::Rip { disp } => Address::rip(disp),
        Addr::None => unreachable!(),
    }
}

const CONDS: [(&str, Condition); 28] = [
    ("Overflow", Condition::Overflow),
    ("NoOverflow", Condition::NoOverflow),
    ("Below", Condition::Below),
    ("NeitherAboveNorEqual", Condition::NeitherAboveNorEqual),
    ("NotBelow", Condition::NotBelow),
    ("AboveOrEqual", Condition::AboveOrEqual),
    ("Equal", Condition::Equal),
    ("Zero", Condition::Zero),
    ("NotEqual", Condition::NotEqual),
    ("NotZero", Condition::NotZero),
    ("BelowOrEqual", Condition::BelowOrEqual),
    ("NotAbove", Condition::NotAbove),
    ("NeitherBelowNorEqual", Condition::NeitherBelowNorEqual),
    ("Above", Condition::Above),
    ("Sign", Condition::Sign),
    ("NoSign", Condition::NoSign),
    ("Parity", Condition::Parity),
    ("ParityEven", Condition::ParityEven),
    ("NoParity", Condition::NoParity),
    ("ParityOdd", Condition::ParityOdd),
    ("Less", Condition::Less),
    ("NeitherGreaterNorEqual", Condition::NeitherGreaterNorEqual),
    ("NotLess", Condition::NotLess),
    ("GreaterOrEqual", Condition::GreaterOrEqual),
    ("LessOrEqual", Condition::LessOrEqual),
    ("NotGreater", Condition::NotGreater),
    ("NeitherLessNorEqual", Condition::NeitherLessNorEqual),
    ("Greater", Condition::Greater),
];

fn cond(i: usize) -> Condition {
    CONDS[i].1
}
fn cond_by_name(n: &str) -> Option<Condition> {
    CONDS.iter().find(|c| c.0 == n).map(|c| c.1)
}

/// operand signature classes (parameter lists of the public methods)
#[derive(Clone, Copy, PartialEq, Eq, Debug)]
enum Sig {
    None,   // ()
    R,      // (Register)
    RR,     // (Register, Register) - also Xmm/Register mixes: every register operand is a number 0..15
    RRR,    // three register operands
    RRU8,   // (Xmm, Xmm, u8)
    RRRU8,  // (Xmm, Xmm, Xmm, u8)
    CR,     // (Condition, Register)
    CRR,    // (Condition, Register, Register)
    RI,     // (Register, Immediate)
    RA,     // (reg, Address)  (either order in the method; r[0] is the register)
    RRA,    // (Xmm, Xmm, Address)
    AI,     // (Address, Immediate)
    L,      // (Label)
    CL,     // (Condition, Label)
    RL,     // (reg, Label)
    RRL,    // (Xmm, Xmm, Label)
    Rel,    // (i32)
}

type F = fn(&mut AssemblerX64, &Ops);
struct M {
    name: &'static str,
    sig: Sig,
    f: F,
}

fn with_label(a: &mut AssemblerX64, o: &Ops, f: impl FnOnce(&mut AssemblerX64, Label)) {
    let l = a.create_label();
    if o.before {
        a.bind_label(l);
        for _ in 0..o.pad {
            a.nop();
        }
        f(a, l);
    } else {
        f(a, l);
        for _ in 0..o.pad {
            a.nop();
        }
        a.bind_label(l);
    }
}

macro_rules! reg_gg { ($v:ident; $sig:expr; $($n:ident)*) => { $( $v.push(M { name: stringify!($n), sig: $sig, f: |a, o| a.$n(g(o.r[0]), g(o.r[1])) }); )* } }
macro_rules! reg_xx { ($v:ident; $($n:ident)*) => { $( $v.push(M { name: stringify!($n), sig: Sig::RR, f: |a, o| a.$n(x(o.r[0]), x(o.r[1])) }); )* } }
macro_rules! reg_gx { ($v:ident; $($n:ident)*) => { $( $v.push(M { name: stringify!($n), sig: Sig::RR, f: |a, o| a.$n(g(o.r[0]), x(o.r[1])) }); )* } }
macro_rules! reg_xg { ($v:ident; $($n:ident)*) => { $( $v.push(M { name: stringify!($n), sig: Sig::RR, f: |a, o| a.$n(x(o.r[0]), g(o.r[1])) }); )* } }
macro_rules! reg_g { ($v:ident; $($n:ident)*) => { $( $v.push(M { name: stringify!($n), sig: Sig::R, f: |a, o| a.$n(g(o.r[0])) }); )* } }
macro_rules! reg_xxx { ($v:ident; $($n:ident)*) => { $( $v.push(M { name: stringify!($n), sig: Sig::RRR, f: |a, o| a.$n(x(o.r[0]), x(o.r[1]), x(o.r[2])) }); )* } }
macro_rules! reg_xxg { ($v:ident; $($n:ident)*) => { $( $v.push(M { name: stringify!($n), sig: Sig::RRR, f: |a, o| a.$n(x(o.r[0]), x(o.r[1]), g(o.r[2])) }); )* } }
macro_rules! reg_none { ($v:ident; $($n:ident)*) => { $( $v.push(M { name: stringify!($n), sig: Sig::None, f: |a, _o| a.$n() }); )* } }
macro_rules! reg_gi { ($v:ident; $($n:ident)*) => { $( $v.push(M { name: stringify!($n), sig: Sig::RI, f: |a, o| a.$n(g(o.r[0]), Immediate(o.imm)) }); )* } }
macro_rules! reg_ga { ($v:ident; $($n:ident)*) => { $( $v.push(M { name: stringify!($n), sig: Sig::RA, f: |a, o| a.$n(g(o.r[0]), ad(o.a)) }); )* } }
macro_rules! reg_ag { ($v:ident; $($n:ident)*) => { $( $v.push(M { name: stringify!($n), sig: Sig::RA, f: |a, o| a.$n(ad(o.a), g(o.r[0])) }); )* } }
macro_rules! reg_xa { ($v:ident; $($n:ident)*) => { $( $v.push(M { name: stringify!($n), sig: Sig::RA, f: |a, o| a.$n(x(o.r[0]), ad(o.a)) }); )* } }
macro_rules! reg_ax { ($v:ident; $($n:ident)*) => { $( $v.push(M { name: stringify!($n), sig: Sig::RA, f: |a, o| a.$n(ad(o.a), x(o.r[0])) }); )* } }
macro_rules! reg_xxa { ($v:ident; $($n:ident)*) => { $( $v.push(M { name: stringify!($n), sig: Sig::RRA, f: |a, o| a.$n(x(o.r[0]), x(o.r[1]), ad(o.a)) }); )* } }
macro_rules! reg_ai { ($v:ident; $($n:ident)*) => { $( $v.push(M { name: stringify!($n), sig: Sig::AI, f: |a, o| a.$n(ad(o.a), Immediate(o.imm)) }); )* } }
macro_rules! reg_xl { ($v:ident; $($n:ident)*) => { $( $v.push(M { name: stringify!($n), sig: Sig::RL, f: |a, o| with_label(a, o, |a, l| a.$n(x(o.r[0]), l)) }); )* } }
macro_rules! reg_xxl { ($v:ident; $($n:ident)*) => { $( $v.push(M { name: stringify!($n), sig: Sig::RRL, f: |a, o| with_label(a, o, |a, l| a.$n(x(o.r[0]), x(o.r[1]), l)) }); )* } }

fn table() -> Vec<M> {
    let mut v: Vec<M> = Vec::new();
    reg_none!(v; cdq cqo int3 mfence nop retq);
    reg_g!(v; call_r idivl_r idivq_r jmp_r negl negq notl notq popq_r pushq_r roll_r rolq_r rorl_r rorq_r
              sarl_r sarq_r shll_r shlq_r shrl_r shrq_r);
    reg_gg!(v; Sig::RR; addl_rr addq_rr andl_rr andq_rr cmpb_rr cmpl_rr cmpq_rr imull_rr imulq_rr lzcntl_rr lzcntq_rr
              movl_rr movq_rr movsxbl_rr movsxbq_rr movsxlq_rr movzxb_rr orl_rr orq_rr popcntl_rr popcntq_rr
              subl_rr subq_rr testb_rr testl_rr testq_rr tzcntl_rr tzcntq_rr xorl_rr xorq_rr);
    reg_gx!(v; cvttsd2sid_rr cvttsd2siq_rr cvttss2sid_rr cvttss2siq_rr movd_rx movq_rx
              vcvttsd2sid_rr vcvttsd2siq_rr vcvttss2sid_rr vcvttss2siq_rr vmovd_rx vmovq_rx);
    reg_xg!(v; cvtsi2sdd_rr cvtsi2sdq_rr cvtsi2ssd_rr cvtsi2ssq_rr movd_xr movq_xr vmovd_xr vmovq_xr);
    reg_xx!(v; addsd_rr addss_rr cvtsd2ss_rr cvtss2sd_rr divsd_rr divss_rr movsd_rr movss_rr mulsd_rr mulss_rr pxor_rr
              sqrtsd_rr sqrtss_rr subsd_rr subss_rr ucomisd_rr ucomiss_rr vmovapd_rr vmovaps_rr vucomisd_rr
              vucomiss_rr xorps_rr);
    reg_xxx!(v; vaddsd_rr vaddss_rr vcvtsd2ss_rr vcvtss2sd_rr vdivsd_rr vdivss_rr vmovsd_rr vmovss_rr vmulsd_rr
              vmulss_rr vsqrtsd_rr vsqrtss_rr vsubsd_rr vsubss_rr vxorps_rr);
    reg_xxg!(v; vcvtsi2sdd_rr vcvtsi2sdq_rr vcvtsi2ssd_rr vcvtsi2ssq_rr);
    v.push(M { name: "roundsd_ri", sig: Sig::RRU8, f: |a, o| a.roundsd_ri(x(o.r[0]), x(o.r[1]), o.u8v) });
    v.push(M { name: "roundss_ri", sig: Sig::RRU8, f: |a, o| a.roundss_ri(x(o.r[0]), x(o.r[1]), o.u8v) });
    v.push(M { name: "vroundsd_ri", sig: Sig::RRRU8, f: |a, o| a.vroundsd_ri(x(o.r[0]), x(o.r[1]), x(o.r[2]), o.u8v) });
    v.push(M { name: "vroundss_ri", sig: Sig::RRRU8, f: |a, o| a.vroundss_ri(x(o.r[0]), x(o.r[1]), x(o.r[2]), o.u8v) });
    v.push(M { name: "setcc_r", sig: Sig::CR, f: |a, o| a.setcc_r(cond(o.cc), g(o.r[0])) });
    v.push(M { name: "cmovl", sig: Sig::CRR, f: |a, o| a.cmovl(cond(o.cc), g(o.r[0]), g(o.r[1])) });
    v.push(M { name: "cmovq", sig: Sig::CRR, f: |a, o| a.cmovq(cond(o.cc), g(o.r[0]), g(o.r[1])) });
    reg_gi!(v; addl_ri addq_ri andq_ri cmpl_ri cmpq_ri movl_ri movq_ri sarl_ri sarq_ri shll_ri shlq_ri shrl_ri shrq_ri
              subq_ri testl_ri xorl_ri);
    reg_ga!(v; lea movb_ra movl_ra movq_ra movsxbl_ra movsxbq_ra movzxb_ra);
    reg_ag!(v; cmpb_ar cmpl_ar cmpq_ar cmpxchgl_ar cmpxchgq_ar lock_cmpxchgl_ar lock_cmpxchgq_ar lock_xaddl_ar
              lock_xaddq_ar movb_ar movl_ar movq_ar testl_ar testq_ar xaddl_ar xaddq_ar xchgb_ar xchgl_ar xchgq_ar);
    reg_xa!(v; andps_ra movsd_ra movss_ra vmovsd_ra vmovss_ra xorpd_ra xorps_ra);
    reg_ax!(v; movaps_ar movsd_ar movss_ar movups_ar vmovsd_ar vmovss_ar);
    reg_xxa!(v; vandpd_ra vandps_ra vxorpd_ra vxorps_ra);
    reg_ai!(v; cmpb_ai cmpl_ai cmpq_ai movb_ai movl_ai movq_ai testb_ai testl_ai testq_ai);
    v.push(M { name: "jmp", sig: Sig::L, f: |a, o| with_label(a, o, |a, l| a.jmp(l)) });
    v.push(M { name: "jmp_near", sig: Sig::L, f: |a, o| with_label(a, o, |a, l| a.jmp_near(l)) });
    v.push(M { name: "jcc", sig: Sig::CL, f: |a, o| with_label(a, o, |a, l| a.jcc(cond(o.cc), l)) });
    v.push(M { name: "jcc_near", sig: Sig::CL, f: |a, o| with_label(a, o, |a, l| a.jcc_near(cond(o.cc), l)) });
    v.push(M { name: "movq_rl", sig: Sig::RL, f: |a, o| with_label(a, o, |a, l| a.movq_rl(g(o.r[0]), l)) });
    reg_xl!(v; andps_rl movsd_rl movss_rl vmovsd_rl vmovss_rl xorpd_rl xorps_rl);
    reg_xxl!(v; vandpd_rl vandps_rl vxorpd_rl vxorps_rl);
    v.push(M { name: "call_rel32", sig: Sig::Rel, f: |a, o| a.call_rel32(o.rel) });
    v
}

// ---------------------------------------------------------------------------------------------
// deterministic pseudo random numbers (splitmix64)

struct Rng(u64);
impl Rng {
    fn new(seed: u64, salt: &str) -> Rng {
        let mut h: u64 = 0xcbf29ce484222325 ^ seed.wrapping_mul(0x9E3779B97F4A7C15);
        for b in salt.bytes() {
            h = (h ^ b as u64).wrapping_mul(0x100000001b3);
        }
        Rng(h)
    }
    fn next(&mut self) -> u64 {
        self.0 = self.0.wrapping_add(0x9E3779B97F4A7C15);
        let mut z = self.0;
        z = (z ^ (z >> 30)).wrapping_mul(0xBF58476D1CE4E5B9);
        z = (z ^ (z >> 27)).wrapping_mul(0x94D049BB133111EB);
        z ^ (z >> 31)
    }
    fn below(&mut self, n: u64) -> u64 {
        self.next() % n
    }
    fn pick<T: Copy>(&mut self, xs: &[T]) -> T {
        xs[self.below(xs.len() as u64) as usize]
    }
}

const DISPS: [i32; 13] = [0, 1, -1, 127, 128, -128, -129, i32::MAX, i32::MIN, 8, 256, -4096, 0x12345678];
const IMMS: [i64; 26] = [
    0, 1, -1, 2, 31, 32, 63, 64, 127, 128, -128, -129, 255, 256, 32767, 65535, 0x12345678,
    0x7fff_ffff, 0x8000_0000, -0x8000_0000, -0x8000_0001, 0xffff_ffff, 0x1_0000_0000,
    i64::MAX, i64::MIN, 0x1234_5678_9abc_def0,
];
const PADS_SMALL: [u32; 4] = [0, 1, 5, 16];
const PADS_JUMP: [u32; 12] = [0, 1, 5, 121, 122, 124, 125, 126, 127, 128, 129, 200];

fn rand_disp(r: &mut Rng) -> i32 {
    match r.below(4) {
        0 => r.pick(&DISPS),
        1 => (r.below(512) as i32) - 256,
        2 => r.next() as i32,
        _ => r.pick(&[127, 128, -128, -129, 0]),
    }
}

fn rand_imm(r: &mut Rng) -> i64 {
    match r.below(4) {
        0 | 1 => r.pick(&IMMS),
        2 => (r.below(1024) as i64) - 512,
        _ => (r.next() as i32) as i64,
    }
}

fn rand_addr(r: &mut Rng) -> Addr {
    match r.below(10) {
        0..=3 => Addr::Offset { base: r.below(16) as u8, disp: rand_disp(r) },
        4..=7 => Addr::Array { base: r.below(16) as u8, index: r.below(16) as u8, scale: r.below(4) as u8, disp: rand_disp(r) },
        8 => Addr::Index { index: r.below(16) as u8, scale: r.below(4) as u8, disp: rand_disp(r) },
        _ => Addr::Rip { disp: rand_disp(r) },
    }
}

/// structured core of addressing shapes: every base (incl. rsp/r12, rbp/r13) x every boundary displacement,
/// every index register and scale, the no-base and RIP-relative forms
fn core_addrs(r: &mut Rng) -> Vec<Addr> {
    let mut v = Vec::new();
    for base in 0..16u8 {
        for &disp in &DISPS[..9] {
            v.push(Addr::Offset { base, disp });
        }
    }
    for index in 0..16u8 {
        v.push(Addr::Array { base: r.below(16) as u8, index, scale: r.below(4) as u8, disp: r.pick(&DISPS[..9]) });
        v.push(Addr::Index { index, scale: r.below(4) as u8, disp: r.pick(&DISPS[..9]) });
    }
    for base in 0..16u8 {
        for &disp in &[0, 127, 128, -128, -129] {
            let mut index = r.below(16) as u8;
            if index == 4 || index == 12 {
                index = 1;
            }
            v.push(Addr::Array { base, index, scale: r.below(4) as u8, disp });
        }
    }
    for scale in 0..4u8 {
        v.push(Addr::Array { base: 3, index: 9, scale, disp: 0 });
        v.push(Addr::Index { index: 9, scale, disp: 64 });
    }
    for &disp in &DISPS[..9] {
        v.push(Addr::Rip { disp });
        v.push(Addr::Index { index: 1, scale: 2, disp });
    }
    v
}

// ---------------------------------------------------------------------------------------------

fn write_rec(out: &mut impl Write, m: &M, o: &Ops, bytes: Option<Vec<u8>>) {
    let mut s = String::with_capacity(160);
    s.push_str("{\"m\":\"");
    s.push_str(m.name);
    s.push('"');
    let nr = match m.sig {
        Sig::R | Sig::CR | Sig::RI | Sig::RA | Sig::RL => 1,
        Sig::RR | Sig::RRU8 | Sig::CRR | Sig::RRA | Sig::RRL => 2,
        Sig::RRR | Sig::RRRU8 => 3,
        _ => 0,
    };
    s.push_str(",\"r\":[");
    for i in 0..nr {
        if i > 0 {
            s.push(',');
        }
        s.push_str(&o.r[i].to_string());
    }
    s.push(']');
    match o.a {
        Addr::None => {}
        Addr::Offset { base, disp } => s.push_str(&format!(",\"a\":{{\"k\":\"offset\",\"base\":{},\"index\":0,\"scale\":0,\"disp\":{}}}", base, disp)),
        Addr::Array { base, index, scale, disp } => s.push_str(&format!(",\"a\":{{\"k\":\"array\",\"base\":{},\"index\":{},\"scale\":{},\"disp\":{}}}", base, index, scale, disp)),
        Addr::Index { index, scale, disp } => s.push_str(&format!(",\"a\":{{\"k\":\"index\",\"base\":0,\"index\":{},\"scale\":{},\"disp\":{}}}", index, scale, disp)),
        Addr::Rip { disp } => s.push_str(&format!(",\"a\":{{\"k\":\"rip\",\"base\":0,\"index\":0,\"scale\":0,\"disp\":{}}}", disp)),
    }
    if matches!(m.sig, Sig::RI | Sig::AI) {
        let b = (o.imm as u64).to_le_bytes();
        s.push_str(&format!(",\"imm\":[{},{},{},{},{},{},{},{}],\"immv\":\"{}\"", b[0], b[1], b[2], b[3], b[4], b[5], b[6], b[7], o.imm));
    }
    if matches!(m.sig, Sig::CR | Sig::CRR | Sig::CL) {
        s.push_str(&format!(",\"cc\":\"{}\"", CONDS[o.cc].0));
    }
    if matches!(m.sig, Sig::RRU8 | Sig::RRRU8) {
        s.push_str(&format!(",\"u8\":{}", o.u8v));
    }
    if matches!(m.sig, Sig::Rel) {
        s.push_str(&format!(",\"rel\":{}", o.rel));
    }
    if matches!(m.sig, Sig::L | Sig::CL | Sig::RL | Sig::RRL) {
        s.push_str(&format!(",\"lbl\":{{\"before\":{},\"pad\":{}}}", if o.before { 1 } else { 0 }, o.pad));
    }
    match bytes {
        Some(b) => {
            s.push_str(",\"bytes\":[");
            for (i, x) in b.iter().enumerate() {
                if i > 0 {
                    s.push(',');
                }
                s.push_str(&x.to_string());
            }
            s.push_str("]}");
        }
        None => s.push_str(",\"bytes\":[],\"refused\":true}"),
    }
    writeln!(out, "{}", s).unwrap();
}

fn run_one(m: &M, o: Ops) -> Option<Vec<u8>> {
    let avx = m.name.starts_with('v');
    let f = m.f;
    std::panic::catch_unwind(move || {
        let mut a = AssemblerX64::new(avx);
        f(&mut a, &o);
        a.finalize(1).code()
    })
    .ok()
}

struct Budget {
    three_full: bool, // three-register forms: full 16^3 product
    rand3: u64,
    rand_addr: u64,
    rand_ai: u64,
    rand_ri: u64,
    crr_full: bool,
}

fn record(path: &str, seed: u64, thorough: bool) {
    let mut out = BufWriter::with_capacity(1 << 20, std::fs::File::create(path).unwrap());
    let b = if thorough {
        Budget { three_full: true, rand3: 0, rand_addr: 6000, rand_ai: 6000, rand_ri: 600, crr_full: true }
    } else {
        Budget { three_full: false, rand3: 250, rand_addr: 150, rand_ai: 250, rand_ri: 60, crr_full: false }
    };
    let mut n: u64 = 0;
    let mut refused: u64 = 0;
    let t = table();
    for m in &t {
        let mut r = Rng::new(seed, m.name);
        let mut cases: Vec<Ops> = Vec::new();
        let o0 = Ops::new();
        match m.sig {
            Sig::None => cases.push(o0),
            Sig::R => {
                for a in 0..16 {
                    cases.push(Ops { r: [a, 0, 0], ..o0 });
                }
            }
            Sig::RR => {
                for a in 0..16 {
                    for c in 0..16 {
                        cases.push(Ops { r: [a, c, 0], ..o0 });
                    }
                }
            }
            Sig::RRR | Sig::RRRU8 | Sig::RRU8 => {
                let three = m.sig != Sig::RRU8;
                let modes: Vec<u8> = if m.sig == Sig::RRR { vec![0] } else { vec![0, 1, 2, 3, 4, 8, 12, 255] };
                if three && b.three_full && m.sig == Sig::RRR {
                    for a in 0..16 {
                        for c in 0..16 {
                            for d in 0..16 {
                                cases.push(Ops { r: [a, c, d], ..o0 });
                            }
                        }
                    }
                } else {
                    // core: each operand sweeps 0..16 against low and high partners
                    let k = if three { 3 } else { 2 };
                    for pos in 0..k {
                        for v in 0..16u8 {
                            for &(p, q) in &[(1u8, 2u8), (9, 10), (3, 12), (13, 5)] {
                                let mut rr = [p, q, if three { (p + q) % 16 } else { 0 }];
                                rr[pos] = v;
                                cases.push(Ops { r: rr, u8v: r.pick(&modes), ..o0 });
                            }
                        }
                    }
                    if !three {
                        for a in 0..16 {
                            for c in 0..16 {
                                cases.push(Ops { r: [a, c, 0], u8v: r.pick(&modes), ..o0 });
                            }
                        }
                    }
                    for &u in &modes {
                        cases.push(Ops { r: [r.below(16) as u8, r.below(16) as u8, if three { r.below(16) as u8 } else { 0 }], u8v: u, ..o0 });
                    }
                    let extra = if thorough { 3000 } else { b.rand3 };
                    for _ in 0..extra {
                        cases.push(Ops {
                            r: [r.below(16) as u8, r.below(16) as u8, if three { r.below(16) as u8 } else { 0 }],
                            u8v: if m.sig == Sig::RRR { 0 } else if r.below(2) == 0 { r.pick(&modes) } else { r.below(256) as u8 },
                            ..o0
                        });
                    }
                }
            }
            Sig::CR => {
                for cc in 0..CONDS.len() {
                    for a in 0..16 {
                        cases.push(Ops { r: [a, 0, 0], cc, ..o0 });
                    }
                }
            }
            Sig::CRR => {
                if b.crr_full {
                    for cc in 0..CONDS.len() {
                        for a in 0..16 {
                            for c in 0..16 {
                                cases.push(Ops { r: [a, c, 0], cc, ..o0 });
                            }
                        }
                    }
                } else {
                    for a in 0..16 {
                        for c in 0..16 {
                            cases.push(Ops { r: [a, c, 0], cc: r.below(CONDS.len() as u64) as usize, ..o0 });
                        }
                    }
                    for cc in 0..CONDS.len() {
                        for _ in 0..6 {
                            cases.push(Ops { r: [r.below(16) as u8, r.below(16) as u8, 0], cc, ..o0 });
                        }
                    }
                }
            }
            Sig::RI => {
                for a in 0..16 {
                    for &imm in &IMMS {
                        cases.push(Ops { r: [a, 0, 0], imm, ..o0 });
                    }
                }
                for _ in 0..b.rand_ri {
                    cases.push(Ops { r: [r.below(16) as u8, 0, 0], imm: rand_imm(&mut r), ..o0 });
                }
            }
            Sig::RA | Sig::RRA => {
                let two = m.sig == Sig::RRA;
                let core = core_addrs(&mut r);
                // every register value of the register operand(s) against a rotating slice of the core shapes, and
                // every core shape against a low and a high register
                for (i, a) in core.iter().enumerate() {
                    let lo = (i % 8) as u8;
                    let hi = 8 + ((i / 8) % 8) as u8;
                    if thorough || i % 2 == (seed % 2) as usize {
                        cases.push(Ops { r: [lo, hi, 0], a: *a, ..o0 });
                    }
                    if thorough || i % 2 != (seed % 2) as usize {
                        cases.push(Ops { r: [hi, lo, 0], a: *a, ..o0 });
                    }
                }
                for v in 0..16u8 {
                    for _ in 0..(if thorough { 12 } else { 3 }) {
                        cases.push(Ops { r: [v, r.below(16) as u8, 0], a: r.pick(&core), ..o0 });
                        if two {
                            cases.push(Ops { r: [r.below(16) as u8, v, 0], a: r.pick(&core), ..o0 });
                        }
                    }
                }
                for _ in 0..b.rand_addr {
                    cases.push(Ops { r: [r.below(16) as u8, r.below(16) as u8, 0], a: rand_addr(&mut r), ..o0 });
                }
                if !two {
                    for c in cases.iter_mut() {
                        c.r[1] = 0;
                    }
                }
            }
            Sig::AI => {
                let core = core_addrs(&mut r);
                for (i, a) in core.iter().enumerate() {
                    if thorough || i % 2 == (seed % 2) as usize {
                        cases.push(Ops { a: *a, imm: IMMS[(i + seed as usize) % 18], ..o0 });
                    }
                }
                for &imm in &IMMS {
                    for _ in 0..(if thorough { 8 } else { 2 }) {
                        cases.push(Ops { a: r.pick(&core), imm, ..o0 });
                    }
                }
                for _ in 0..b.rand_ai {
                    cases.push(Ops { a: rand_addr(&mut r), imm: rand_imm(&mut r), ..o0 });
                }
            }
            Sig::L | Sig::CL => {
                let ccs: Vec<usize> = if m.sig == Sig::CL { (0..CONDS.len()).collect() } else { vec![0] };
                for (k, &cc) in ccs.iter().enumerate() {
                    for before in [false, true] {
                        for (j, &pad) in PADS_JUMP.iter().enumerate() {
                            // all paddings for a rotating third of the condition codes, the boundary ones for all
                            if m.sig == Sig::L || thorough || (k + j + seed as usize) % 3 == 0 || (124..=129).contains(&pad) {
                                cases.push(Ops { cc, before, pad, ..o0 });
                            }
                        }
                    }
                }
            }
            Sig::RL | Sig::RRL => {
                for a in 0..16u8 {
                    for c in 0..(if m.sig == Sig::RRL { 16u8 } else { 1 }) {
                        if m.sig == Sig::RRL && !thorough && (a as u64 + c as u64 + seed) % 4 != 0 && a != c {
                            continue;
                        }
                        for before in [false, true] {
                            cases.push(Ops { r: [a, c, 0], before, pad: r.pick(&PADS_SMALL), ..o0 });
                        }
                    }
                }
                for &pad in &[0u32, 1, 127, 128, 300] {
                    for before in [false, true] {
                        cases.push(Ops { r: [r.below(16) as u8, r.below(16) as u8, 0], before, pad, ..o0 });
                    }
                }
            }
            Sig::Rel => {
                for &d in &DISPS {
                    cases.push(Ops { rel: d, ..o0 });
                }
                for _ in 0..20 {
                    cases.push(Ops { rel: r.next() as i32, ..o0 });
                }
            }
        }
        for o in cases {
            let bytes = run_one(m, o);
            if bytes.is_none() {
                refused += 1;
            }
            write_rec(&mut out, m, &o, bytes);
            n += 1;
        }
    }
    out.flush().unwrap();
    println!("{{\"kind\":\"summary\",\"records\":{},\"refused\":{},\"methods\":{}}}", n, refused, t.len());
}

// ---------------------------------------------------------------------------------------------
// label programs

fn replay_program(p: &serde_json::Value) -> Option<Vec<u8>> {
    let nl = p["nl"].as_u64().unwrap_or(0) as usize;
    let items: Vec<serde_json::Value> = p["items"].as_array().cloned().unwrap_or_default();
    std::panic::catch_unwind(move || {
        let mut a = AssemblerX64::new(false);
        let labels: Vec<Label> = (0..nl).map(|_| a.create_label()).collect();
        for it in &items {
            let op = it["op"].as_str().unwrap();
            let l = || labels[it["l"].as_u64().unwrap() as usize - 1];
            let cc = || cond_by_name(it["cc"].as_str().unwrap()).unwrap();
            match op {
                "pad" => {
                    for _ in 0..it["n"].as_u64().unwrap() {
                        a.nop();
                    }
                }
                "bind" => a.bind_label(l()),
                "ins" => match it["m"].as_str().unwrap() {
                    "jmp" => a.jmp(l()),
                    "jmp_near" => a.jmp_near(l()),
                    "jcc" => a.jcc(cc(), l()),
                    "jcc_near" => a.jcc_near(cc(), l()),
                    "movq_rl" => a.movq_rl(g(it["r"][0].as_u64().unwrap() as u8), l()),
                    "movsd_rl" => a.movsd_rl(x(it["r"][0].as_u64().unwrap() as u8), l()),
                    _ => panic!("unknown item"),
                },
                _ => panic!("unknown item"),
            }
        }
        a.finalize(1).code()
    })
    .ok()
}

fn labels(inp: &str, outp: &str) {
    let f = std::io::BufReader::new(std::fs::File::open(inp).unwrap());
    let mut out = BufWriter::with_capacity(1 << 20, std::fs::File::create(outp).unwrap());
    let mut n = 0u64;
    let mut refused = 0u64;
    for line in f.lines() {
        let line = line.unwrap();
        if !line.starts_with('{') {
            continue;
        }
        let p: serde_json::Value = match serde_json::from_str(&line) {
            Ok(v) => v,
            Err(_) => continue,
        };
        for it in p["items"].as_array().unwrap() {
            let op = it["op"].as_str().unwrap_or("");
            let m = it["m"].as_str().unwrap_or("");
            let known = match op {
                "pad" | "bind" => true,
                "ins" => ["jmp", "jmp_near", "jcc", "jcc_near", "movq_rl", "movsd_rl"].contains(&m),
                _ => false,
            };
            if !known {
                eprintln!("unknown item {} {}", op, m);
                std::process::exit(2);
            }
        }
        let id = p["id"].clone();
        match replay_program(&p) {
            Some(b) => writeln!(out, "{{\"id\":{},\"bytes\":{:?}}}", id, b).unwrap(),
            None => {
                refused += 1;
                writeln!(out, "{{\"id\":{},\"refused\":true}}", id).unwrap()
            }
        }
        n += 1;
    }
    out.flush().unwrap();
    println!("{{\"kind\":\"summary\",\"programs\":{},\"refused\":{}}}", n, refused);
}

fn main() {
    std::panic::set_hook(Box::new(|_| {}));
    let args: Vec<String> = std::env::args().collect();
    match args.get(1).map(|s| s.as_str()) {
        Some("methods") => {
            for m in table() {
                println!("{}", m.name);
            }
        }
        Some("record") => {
            let seed: u64 = args[3].parse().unwrap();
            record(&args[2], seed, args.get(4).map(|s| s == "thorough").unwrap_or(false));
        }
        Some("labels") => labels(&args[2], &args[3]),
        _ => {
            eprintln!("usage: vx64 methods | record <out> <seed> <quick|thorough> | labels <in> <out>");
            std::process::exit(2);
        }
    }
}
