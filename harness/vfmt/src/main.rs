//! C17 harness: formatter corpus records for FormatRel.tla, Render.tla replay, layout mutants.
//!
//!   vfmt corpus  <list-file> <width>... -o <records.ndjson> -d <diag.ndjson> -t <tables.json> [-b <id base>]
//!   vfmt render  <rows-file>
//!   vfmt mutants <list-file> <out-dir> <seed> <per-file>
//!   vfmt one     <file> <width>
//!   vfmt explain <jobs.ndjson>        (jobs: {file, origin, w, law: comments|idem|parses})
use std::collections::{HashMap, HashSet};
use std::io::Write;
use std::panic::{AssertUnwindSafe, catch_unwind};
use std::sync::{Arc, Mutex};

use dora_format::doc::{Doc, DocBuilder};
use dora_parser::ast::{SyntaxElement, SyntaxNode, SyntaxNodeBase};
use dora_parser::{Parser, TokenKind, lex};
use rand::rngs::StdRng;
use rand::{Rng, SeedableRng};
use serde_json::{Value, json};

static LAST_PANIC: Mutex<String> = Mutex::new(String::new());

fn install_hook() {
    std::panic::set_hook(Box::new(|info| {
        let msg = if let Some(s) = info.payload().downcast_ref::<&str>() {
            s.to_string()
        } else if let Some(s) = info.payload().downcast_ref::<String>() {
            s.clone()
        } else {
            "<non-string panic>".to_string()
        };
        let loc = info
            .location()
            .map(|l| format!("{}:{}", l.file(), l.line()))
            .unwrap_or_default();
        *LAST_PANIC.lock().unwrap() = format!("{} @ {}", msg, loc);
    }));
}

fn guarded<T>(f: impl FnOnce() -> T) -> Result<T, String> {
    match catch_unwind(AssertUnwindSafe(f)) {
        Ok(v) => Ok(v),
        Err(_) => Err(LAST_PANIC.lock().unwrap().clone()),
    }
}

// ------------------------------------------------------------------------------------------------
// interning

struct Interner {
    map: HashMap<String, u32>,
    list: Vec<String>,
}

impl Interner {
    fn new() -> Self {
        Interner { map: HashMap::new(), list: Vec::new() }
    }
    /// ids are 1-based
    fn id(&mut self, s: &str) -> u32 {
        if let Some(&i) = self.map.get(s) {
            return i;
        }
        self.list.push(s.to_string());
        let i = self.list.len() as u32;
        self.map.insert(s.to_string(), i);
        i
    }
}

const OR_CLOSE: &str = "OR_CLOSE";
const COMMA_SOLE: &str = "COMMA_OF_ONE_ELEMENT_TUPLE";

/// The token table starts with the kinds FormatRel.tla knows by number:
/// 1 = `,`   2 = `)`   3 = `]`   4 = `}`   5 = `|` that closes a lambda parameter list
fn token_interner() -> Interner {
    let mut t = Interner::new();
    assert_eq!(t.id("COMMA\u{0},"), 1);
    assert_eq!(t.id("R_PAREN\u{0})"), 2);
    assert_eq!(t.id("R_BRACKET\u{0}]"), 3);
    assert_eq!(t.id("R_BRACE\u{0}}"), 4);
    assert_eq!(t.id(&format!("{}\u{0}|", OR_CLOSE)), 5);
    t
}

// ------------------------------------------------------------------------------------------------
// lexing / tree facts

struct Lexed {
    /// code tokens: (kind name, text, start offset)
    code: Vec<(String, String, u32)>,
    /// comments, trailing whitespace removed
    comments: Vec<String>,
    lex_errors: usize,
}

fn lex_text(text: &str) -> Lexed {
    let r = lex(text);
    let mut code = Vec::new();
    let mut comments = Vec::new();
    let n = r.starts.len();
    for i in 0..n {
        let k = r.tokens[i];
        let s = r.starts[i] as usize;
        let e = if i + 1 < n { r.starts[i + 1] as usize } else { text.len() };
        match k {
            TokenKind::LINE_COMMENT | TokenKind::MULTILINE_COMMENT => {
                comments.push(text[s..e].trim_end().to_string())
            }
            _ if k.is_trivia() => {}
            _ => code.push((format!("{:?}", k), text[s..e].to_string(), s as u32)),
        }
    }
    Lexed { code, comments, lex_errors: r.errors.len() }
}

#[derive(Default)]
struct TreeFacts {
    /// start offsets of `|` tokens that close a lambda parameter list
    closing_or: HashSet<u32>,
    /// start offsets of the `,` of one-element tuple expressions `(x,)`: not an optional separator (`(x)` is not a tuple)
    sole_commas: HashSet<u32>,
    /// byte ranges of USE items and MODIFIER_LIST nodes
    use_ranges: Vec<(u32, u32)>,
    /// per MODIFIER_LIST (outside `use` items): the byte ranges of its MODIFIER nodes
    modifier_lists: Vec<Vec<(u32, u32)>>,
    /// offsets of `,` tokens that separate a block-like match arm from the next one
    arm_commas: Vec<u32>,
    /// comment start offset -> (kind of the parent node)
    comment_parent: HashMap<u32, String>,
    /// code token start offset -> kind of the parent node
    token_parent: HashMap<u32, String>,
}

fn is_blocklike(kind: TokenKind) -> bool {
    matches!(
        kind,
        TokenKind::BLOCK_EXPR | TokenKind::FOR_EXPR | TokenKind::IF_EXPR | TokenKind::MATCH_EXPR | TokenKind::WHILE_EXPR | TokenKind::LAMBDA_EXPR
    )
}

fn walk(node: &SyntaxNode, facts: &mut TreeFacts, in_use: bool) {
    let kind = node.syntax_kind();
    let span = node.span();
    if kind == TokenKind::USE {
        facts.use_ranges.push((span.start(), span.end()));
    }
    let in_use = in_use || kind == TokenKind::USE;
    if kind == TokenKind::MODIFIER_LIST && !in_use {
        let mods = node
            .children()
            .filter(|n| n.syntax_kind() == TokenKind::MODIFIER)
            .map(|n| (n.span().start(), n.span().end()))
            .collect();
        facts.modifier_lists.push(mods);
    }
    if kind == TokenKind::TUPLE_EXPR {
        let items: Vec<SyntaxNode> = node.children().filter(|n| n.syntax_kind() == TokenKind::LIST_ITEM).collect();
        if items.len() == 1 {
            for el in items[0].children_with_tokens() {
                if let SyntaxElement::Token(t) = el {
                    if t.syntax_kind() == TokenKind::COMMA {
                        facts.sole_commas.insert(t.offset().value());
                    }
                }
            }
        }
    }
    if kind == TokenKind::MATCH_EXPR {
        let mut last_arm_blocklike = false;
        for el in node.children_with_tokens() {
            match el {
                SyntaxElement::Node(n) if n.syntax_kind() == TokenKind::MATCH_ARM => {
                    last_arm_blocklike = n.children().last().map(|v| is_blocklike(v.syntax_kind())).unwrap_or(false);
                }
                SyntaxElement::Token(t) if t.syntax_kind() == TokenKind::COMMA => {
                    if last_arm_blocklike {
                        facts.arm_commas.push(t.offset().value());
                    }
                    last_arm_blocklike = false;
                }
                _ => {}
            }
        }
    }
    let mut ors: Vec<u32> = Vec::new();
    let mut first_code: Option<TokenKind> = None;
    for el in node.children_with_tokens() {
        match el {
            SyntaxElement::Token(t) => {
                let k = t.syntax_kind();
                if k == TokenKind::LINE_COMMENT || k == TokenKind::MULTILINE_COMMENT {
                    facts.comment_parent.insert(t.offset().value(), format!("{:?}", kind));
                }
                if !k.is_trivia() {
                    facts.token_parent.insert(t.offset().value(), format!("{:?}", kind));
                    if first_code.is_none() {
                        first_code = Some(k);
                    }
                    if k == TokenKind::OR {
                        ors.push(t.offset().value());
                    }
                }
            }
            SyntaxElement::Node(n) => {
                if first_code.is_none() {
                    first_code = Some(n.syntax_kind());
                }
                walk(&n, facts, in_use);
            }
        }
    }
    if kind == TokenKind::PARAM_LIST && first_code == Some(TokenKind::OR) && ors.len() >= 2 {
        facts.closing_or.insert(*ors.last().unwrap());
    }
}

/// parse: Ok((number of errors, facts)) or Err(panic message)
fn parse_facts(text: &str) -> Result<(usize, TreeFacts), String> {
    let content = Arc::new(text.to_string());
    guarded(move || {
        let (file, errors) = Parser::from_shared_string(content).parse();
        let mut facts = TreeFacts::default();
        if errors.is_empty() {
            walk(&file.root(), &mut facts, false);
        }
        (errors.len(), facts)
    })
}

fn token_ids(lx: &Lexed, facts: Option<&TreeFacts>, toks: &mut Interner) -> Vec<u32> {
    lx.code
        .iter()
        .map(|(k, t, off)| {
            let closing = k == "OR" && facts.map(|f| f.closing_or.contains(off)).unwrap_or(false);
            let sole = k == "COMMA" && facts.map(|f| f.sole_commas.contains(off)).unwrap_or(false);
            let kind = if closing { OR_CLOSE } else if sole { COMMA_SOLE } else { k.as_str() };
            toks.id(&format!("{}\u{0}{}", kind, t))
        })
        .collect()
}

fn index_ranges(lx: &Lexed, ranges: &[(u32, u32)]) -> Vec<[usize; 2]> {
    // byte ranges -> 0-based [from, to) ranges of code-token indices
    let mut out = Vec::new();
    for &(s, e) in ranges {
        let a = lx.code.partition_point(|c| c.2 < s);
        let b = lx.code.partition_point(|c| c.2 < e);
        if b > a {
            out.push([a, b]);
        }
    }
    out
}

fn modifier_index_lists(lx: &Lexed, lists: &[Vec<(u32, u32)>]) -> Vec<Vec<[usize; 2]>> {
    lists.iter().map(|l| index_ranges(lx, l)).collect()
}

fn offsets_to_indices(lx: &Lexed, offs: &[u32]) -> Vec<usize> {
    offs.iter().filter_map(|o| lx.code.binary_search_by_key(o, |c| c.2).ok()).collect()
}

fn format_pipeline(text: &str, width: u32) -> Result<Result<String, usize>, String> {
    // the public pieces of format_source_with_line_length without its self-check
    let content = Arc::new(text.to_string());
    guarded(move || {
        let (file, errors) = Parser::from_shared_string(content).parse();
        if !errors.is_empty() {
            return Err(errors.len());
        }
        let doc = dora_format::doc::format(file.root());
        Ok(dora_format::render::render_doc_with_line_length(&doc, width))
    })
}

fn format_api(text: &str, width: u32) -> Result<Result<String, usize>, String> {
    let t = text.to_string();
    guarded(move || match dora_format::format_source_with_line_length(&t, width) {
        Ok(s) => Ok((*s).clone()),
        Err(e) => Err(e.len()),
    })
}

fn sorted(mut v: Vec<u32>) -> Vec<u32> {
    v.sort();
    v
}

struct Tables {
    toks: Interner,
    comments: Interner,
    lines: Interner,
}

struct RunOut {
    record: Value,
    diag: Value,
    out_text: Option<String>,
    out2_text: Option<String>,
}

/// One formatter run on `text` (already known to parse without errors; `in_facts` are its tree facts).
fn run_one(id: usize, path: &str, text: &str, lx_in: &Lexed, in_facts: &TreeFacts, width: u32, tb: &mut Tables) -> RunOut {
    let api = format_api(text, width);
    let pipe = format_pipeline(text, width);
    let (api_state, api_msg) = match &api {
        Ok(Ok(_)) => (0, String::new()),
        Err(m) => (1, m.clone()),
        Ok(Err(n)) => (2, format!("{} parse errors reported for the input", n)),
    };
    let mut pipe_msg = String::new();
    let out: Option<String> = match (&api, &pipe) {
        (Ok(Ok(s)), _) => Some(s.clone()),
        (_, Ok(Ok(s))) => Some(s.clone()),
        (_, Err(m)) => {
            pipe_msg = m.clone();
            None
        }
        _ => None,
    };
    let api_differs = matches!((&api, &pipe), (Ok(Ok(a)), Ok(Ok(b))) if a != b);

    let i_ids = token_ids(lx_in, Some(in_facts), &mut tb.toks);
    let ci = sorted(lx_in.comments.iter().map(|c| tb.comments.id(c)).collect());
    let mut rec = json!({"id": id, "w": width, "api": api_state, "has": if out.is_some() { 1 } else { 0 },
                         "I": i_ids, "ci": ci, "O": [], "co": [], "pe": 0, "f2": 3, "ol": [], "o2l": []});
    let mut diag = json!({"id": id, "file": path, "w": width, "api": api_state, "api_msg": api_msg, "pipe_msg": pipe_msg,
                          "api_differs": api_differs,
                          "iu": index_ranges(lx_in, &in_facts.use_ranges), "im": modifier_index_lists(lx_in, &in_facts.modifier_lists),
                          "iac": offsets_to_indices(lx_in, &in_facts.arm_commas)});
    let mut out2_text = None;
    if let Some(o) = &out {
        let lx_out = lex_text(o);
        let pf = parse_facts(o);
        let (pe, of, pmsg): (i64, Option<TreeFacts>, String) = match pf {
            Ok((n, f)) => (n as i64 + lx_out.lex_errors as i64 * 0, Some(f), String::new()),
            Err(m) => (-1, None, m),
        };
        rec["O"] = json!(token_ids(&lx_out, of.as_ref(), &mut tb.toks));
        rec["co"] = json!(sorted(lx_out.comments.iter().map(|c| tb.comments.id(c)).collect()));
        rec["pe"] = json!(pe);
        rec["ol"] = json!(o.split('\n').map(|l| tb.lines.id(l)).collect::<Vec<_>>());
        diag["parse_msg"] = json!(pmsg);
        if let Some(f) = &of {
            diag["ou"] = json!(index_ranges(&lx_out, &f.use_ranges));
            diag["om"] = json!(modifier_index_lists(&lx_out, &f.modifier_lists));
            diag["oac"] = json!(offsets_to_indices(&lx_out, &f.arm_commas));
        }
        if pe == 0 {
            // second formatting of the output, same width
            match format_api(o, width) {
                Ok(Ok(o2)) => {
                    rec["f2"] = json!(0);
                    rec["o2l"] = json!(o2.split('\n').map(|l| tb.lines.id(l)).collect::<Vec<_>>());
                    out2_text = Some(o2);
                }
                Err(m) => {
                    rec["f2"] = json!(1);
                    diag["f2_msg"] = json!(m);
                }
                Ok(Err(n)) => {
                    rec["f2"] = json!(2);
                    diag["f2_msg"] = json!(format!("{} parse errors reported for the formatted text", n));
                }
            }
        }
    }
    RunOut { record: rec, diag, out_text: out, out2_text }
}

fn read_list(path: &str) -> Vec<String> {
    std::fs::read_to_string(path)
        .expect("list file")
        .lines()
        .map(|l| l.trim().to_string())
        .filter(|l| !l.is_empty())
        .collect()
}

fn opt(args: &mut Vec<String>, flag: &str) -> Option<String> {
    if let Some(p) = args.iter().position(|a| a == flag) {
        let v = args.get(p + 1).cloned();
        args.drain(p..(p + 2).min(args.len()));
        v
    } else {
        None
    }
}

fn cmd_corpus(mut args: Vec<String>) {
    let out_path = opt(&mut args, "-o").expect("-o records");
    let diag_path = opt(&mut args, "-d").expect("-d diag");
    let tab_path = opt(&mut args, "-t").expect("-t tables");
    let id_base: usize = opt(&mut args, "-b").map(|b| b.parse().expect("id base")).unwrap_or(0);
    let files = read_list(&args[0]);
    let widths: Vec<u32> = args[1..].iter().map(|w| w.parse().expect("width")).collect();
    let mut rec_f = std::io::BufWriter::new(std::fs::File::create(&out_path).unwrap());
    let mut diag_f = std::io::BufWriter::new(std::fs::File::create(&diag_path).unwrap());
    let mut tb = Tables { toks: token_interner(), comments: Interner::new(), lines: Interner::new() };
    let (mut unreadable, mut syntax_err, mut in_panic, mut nrec, mut ntok) = (0usize, 0usize, 0usize, 0usize, 0usize);
    let mut skipped: Vec<Value> = Vec::new();
    for (fi, path) in files.iter().enumerate() {
        let text = match std::fs::read_to_string(path) {
            Ok(t) => t,
            Err(_) => {
                unreadable += 1;
                skipped.push(json!({"file": path, "why": "unreadable"}));
                continue;
            }
        };
        let facts = match parse_facts(&text) {
            Ok((0, f)) => f,
            Ok((n, _)) => {
                syntax_err += 1;
                skipped.push(json!({"file": path, "why": "syntax errors", "n": n}));
                continue;
            }
            Err(m) => {
                in_panic += 1;
                skipped.push(json!({"file": path, "why": "parser panic on the input", "msg": m}));
                continue;
            }
        };
        let lx = lex_text(&text);
        for &w in &widths {
            nrec += 1;
            let r = run_one(id_base + nrec, path, &text, &lx, &facts, w, &mut tb);
            ntok += lx.code.len();
            let mut d = r.diag;
            d["fi"] = json!(fi);
            writeln!(rec_f, "{}", r.record).unwrap();
            writeln!(diag_f, "{}", d).unwrap();
        }
    }
    rec_f.flush().unwrap();
    diag_f.flush().unwrap();
    let toks: Vec<Value> = tb
        .toks
        .list
        .iter()
        .map(|s| {
            let mut it = s.splitn(2, '\u{0}');
            json!([it.next().unwrap(), it.next().unwrap_or("")])
        })
        .collect();
    std::fs::write(&tab_path, serde_json::to_string(&json!({"tokens": toks, "comments": tb.comments.list})).unwrap()).unwrap();
    println!();
    println!(
        "{}",
        json!({"kind": "summary", "files": files.len(), "unreadable": unreadable, "input_syntax_errors": syntax_err,
               "input_parser_panic": in_panic, "records": nrec, "input_tokens": ntok, "skipped": skipped,
               "distinct_tokens": tb.toks.list.len(), "distinct_comments": tb.comments.list.len()})
    );
}

// ------------------------------------------------------------------------------------------------
// Render.tla replay

const TEXTS: [&str; 4] = ["a", "bb", "c ", ""];

fn text_doc(s: &str) -> Doc {
    let mut b = DocBuilder::new();
    b.text(s);
    b.finish()
}

fn build_doc(j: &Value) -> Doc {
    let kind = j[0].as_u64().unwrap();
    let arg = j[1].as_u64().unwrap();
    let kids = j[2].as_array().unwrap();
    match kind {
        1 => text_doc(TEXTS[arg as usize - 1]),
        2 => Doc::SoftLine,
        3 => Doc::SoftBreak,
        4 => Doc::HardLine,
        5 => Doc::IfBreak { doc: Box::new(build_doc(&kids[0])) },
        6 => Doc::Group { doc: Box::new(build_doc(&kids[0])) },
        7 => Doc::Nest { indent: arg as u32, doc: Box::new(build_doc(&kids[0])) },
        8 => Doc::Concat { children: kids.iter().map(build_doc).collect() },
        _ => panic!("unknown doc kind {}", kind),
    }
}

fn cmd_render(args: Vec<String>) {
    let text = std::fs::read_to_string(&args[0]).expect("rows file");
    let (mut rows, mut mism, mut panics) = (0usize, 0usize, 0usize);
    let mut kinds_seen = [0usize; 9];
    for line in text.lines() {
        if !line.starts_with("\"{") {
            continue;
        }
        let inner: String = match serde_json::from_str(line) {
            Ok(s) => s,
            Err(_) => continue,
        };
        let row: Value = serde_json::from_str(&inner).expect("row json");
        rows += 1;
        let w = row["w"].as_u64().unwrap() as u32;
        let expected: String = row["o"].as_array().unwrap().iter().map(|c| c.as_u64().unwrap() as u8 as char).collect();
        kinds_seen[row["d"][0].as_u64().unwrap() as usize] += 1;
        let d = row["d"].clone();
        let actual = guarded(move || {
            let doc = build_doc(&d);
            dora_format::render::render_doc_with_line_length(&doc, w)
        });
        match actual {
            Ok(a) if a == expected => {}
            Ok(a) => {
                mism += 1;
                if mism <= 200 {
                    println!(
                        "{}",
                        json!({"kind": "mismatch", "d": row["d"], "w": w, "expected": expected,
                               "actual": a, "o": a.bytes().map(|b| b as u32).collect::<Vec<_>>()})
                    );
                }
            }
            Err(m) => {
                panics += 1;
                if panics <= 20 {
                    println!("{}", json!({"kind": "panic", "d": row["d"], "w": w, "msg": m}));
                }
            }
        }
    }
    println!("{}", json!({"kind": "summary", "rows": rows, "mismatch": mism, "panics": panics, "top_kinds": kinds_seen[1..].to_vec()}));
}

// ------------------------------------------------------------------------------------------------
// layout mutants

struct Pieces {
    /// code token texts and the trivia text ("gap") before each of them; tail = trivia after the last token
    toks: Vec<String>,
    gaps: Vec<String>,
    tail: String,
}

fn pieces(text: &str) -> Pieces {
    let r = lex(text);
    let n = r.starts.len();
    let (mut toks, mut gaps) = (Vec::new(), Vec::new());
    let mut gap = String::new();
    for i in 0..n {
        let s = r.starts[i] as usize;
        let e = if i + 1 < n { r.starts[i + 1] as usize } else { text.len() };
        if r.tokens[i].is_trivia() {
            gap.push_str(&text[s..e]);
        } else {
            toks.push(text[s..e].to_string());
            gaps.push(std::mem::take(&mut gap));
        }
    }
    Pieces { toks, gaps, tail: gap }
}

fn assemble(p: &Pieces) -> String {
    let mut s = String::new();
    for (g, t) in p.gaps.iter().zip(p.toks.iter()) {
        s.push_str(g);
        s.push_str(t);
    }
    s.push_str(&p.tail);
    s
}

fn has_comment(gap: &str) -> bool {
    gap.contains("//") || gap.contains("/*")
}

fn random_ws(rng: &mut StdRng) -> String {
    match rng.random_range(0..8) {
        0 => String::new(),
        1 => " ".into(),
        2 => "  ".into(),
        3 => "\n".into(),
        4 => "\n\n".into(),
        5 => " \n   ".into(),
        6 => "\t".into(),
        _ => "\n\n\n  ".into(),
    }
}

fn code_seq(text: &str) -> Vec<(String, String)> {
    lex_text(text).code.into_iter().map(|(k, t, _)| (k, t)).collect()
}

fn cmd_mutants(args: Vec<String>) {
    let files = read_list(&args[0]);
    let outdir = &args[1];
    let seed: u64 = args[2].parse().unwrap();
    let per_file: usize = args[3].parse().unwrap();
    // "every-gap": instead of per_file random mutants, one comment mutant per token boundary and comment style
    let every_gap = args.get(4).map(|a| a == "every-gap").unwrap_or(false);
    std::fs::create_dir_all(outdir).unwrap();
    let mut rng = StdRng::seed_from_u64(seed);
    let mut manifest = std::io::BufWriter::new(std::fs::File::create(format!("{}/manifest.ndjson", outdir)).unwrap());
    let mut list = std::io::BufWriter::new(std::fs::File::create(format!("{}/list.txt", outdir)).unwrap());
    let kinds = ["respace", "join", "split", "comment-block", "comment-line"];
    let mut counts: HashMap<String, usize> = HashMap::new();
    let (mut made, mut rejected_lex, mut rejected_parse, mut origins) = (0usize, 0usize, 0usize, 0usize);
    for path in &files {
        let text = match std::fs::read_to_string(path) {
            Ok(t) => t,
            Err(_) => continue,
        };
        match parse_facts(&text) {
            Ok((0, _)) => {}
            _ => continue,
        }
        let base = pieces(&text);
        if base.toks.len() < 2 || assemble(&base) != text {
            continue;
        }
        origins += 1;
        let orig_code = code_seq(&text);
        let orig_comments = lex_text(&text).comments.len();
        let njobs = if every_gap { 2 * (base.toks.len() + 1) } else { per_file };
        for k in 0..njobs {
            let kind = if every_gap { kinds[3 + k % 2] } else { kinds[(k + rng.random_range(0..kinds.len())) % kinds.len()] };
            let mut p = Pieces { toks: base.toks.clone(), gaps: base.gaps.clone(), tail: base.tail.clone() };
            let n = p.toks.len();
            let mut where_ = json!(null);
            let mut expect_comments = orig_comments;
            match kind {
                "respace" => {
                    for g in 0..n {
                        if !has_comment(&p.gaps[g]) && rng.random_range(0..100) < 30 {
                            p.gaps[g] = random_ws(&mut rng);
                        }
                    }
                }
                "join" => {
                    // join lines: gaps without comments collapse to one space (all, or a random half)
                    let all = rng.random_range(0..2) == 0;
                    for g in 1..n {
                        if !has_comment(&p.gaps[g]) && p.gaps[g].contains('\n') && (all || rng.random_range(0..2) == 0) {
                            p.gaps[g] = " ".into();
                        }
                    }
                }
                "split" => {
                    let pct = [10, 40, 100][rng.random_range(0..3)];
                    for g in 1..n {
                        if !has_comment(&p.gaps[g]) && rng.random_range(0..100) < pct {
                            p.gaps[g] = format!("{}\n", p.gaps[g]);
                        }
                    }
                }
                _ => {
                    let g = if every_gap { k / 2 } else { rng.random_range(0..=n) };
                    let c = if kind == "comment-block" { format!("/* c{} */", k) } else { format!("// c{}\n", k) };
                    // keep the surrounding layout, put the comment right before the code token (or at the end)
                    if g == n {
                        p.tail = format!("{} {}", p.tail, c);
                    } else {
                        p.gaps[g] = format!("{} {} ", p.gaps[g], c);
                    }
                    where_ = json!(g);
                    expect_comments += 1;
                }
            }
            let m = assemble(&p);
            if m == text {
                continue;
            }
            let lx = lex_text(&m);
            let code: Vec<(String, String)> = lx.code.iter().map(|(k, t, _)| (k.clone(), t.clone())).collect();
            if code != orig_code || lx.comments.len() != expect_comments {
                rejected_lex += 1;
                continue;
            }
            let facts = match parse_facts(&m) {
                Ok((0, f)) => f,
                _ => {
                    rejected_parse += 1;
                    if rejected_parse <= 10 {
                        // kept for inspection: same code tokens as the origin, but the parser reports errors
                        let _ = std::fs::create_dir_all(format!("{}/rejected", outdir));
                        let _ = std::fs::write(format!("{}/rejected/r{:02}-{}.dora", outdir, rejected_parse, kind), &m);
                    }
                    continue;
                }
            };
            made += 1;
            *counts.entry(kind.to_string()).or_default() += 1;
            let mpath = format!("{}/m{:06}.dora", outdir, made);
            std::fs::write(&mpath, &m).unwrap();
            let mut ctx = json!(null);
            if let Some(g) = where_.as_u64() {
                // syntactic context of the inserted comment in the mutant's own tree
                let needle = if kind == "comment-block" { format!("/* c{} */", k) } else { format!("// c{}", k) };
                let mut off = None;
                let r = lex(&m);
                for i in 0..r.starts.len() {
                    let s = r.starts[i] as usize;
                    let e = if i + 1 < r.starts.len() { r.starts[i + 1] as usize } else { m.len() };
                    if (r.tokens[i] == TokenKind::LINE_COMMENT || r.tokens[i] == TokenKind::MULTILINE_COMMENT) && m[s..e].trim_end() == needle {
                        off = Some(s as u32);
                    }
                }
                let parent = off.and_then(|o| facts.comment_parent.get(&o).cloned()).unwrap_or("?".into());
                let g = g as usize;
                let prev = if g > 0 { orig_code[g - 1].0.clone() } else { "BOF".into() };
                let next = if g < n { orig_code[g].0.clone() } else { "EOF".into() };
                ctx = json!({"parent": parent, "prev": prev, "next": next, "comment": needle});
            }
            writeln!(manifest, "{}", json!({"file": mpath, "origin": path, "kind": kind, "gap": where_, "ctx": ctx})).unwrap();
            writeln!(list, "{}", mpath).unwrap();
        }
    }
    manifest.flush().unwrap();
    list.flush().unwrap();
    println!(
        "{}",
        json!({"kind": "summary", "origins": origins, "mutants": made, "by_kind": counts,
               "rejected_token_sequence_changed": rejected_lex, "rejected_not_parsable": rejected_parse})
    );
}

// ------------------------------------------------------------------------------------------------
// which changed gap of a mutant makes a law fail (the origin passes it)

fn law_fails(law: &str, text: &str, w: u32) -> Option<bool> {
    // None: not a valid experiment (input does not parse)
    match parse_facts(text) {
        Ok((0, _)) => {}
        _ => return None,
    }
    let out = match format_pipeline(text, w) {
        Ok(Ok(o)) => o,
        _ => return Some(true),
    };
    let parses = matches!(parse_facts(&out), Ok((0, _)));
    Some(match law {
        "comments" => {
            let mut a = lex_text(text).comments;
            let mut b = lex_text(&out).comments;
            a.sort();
            b.sort();
            a != b
        }
        "parses" => !parses,
        "idem" => parses && !matches!(format_pipeline(&out, w), Ok(Ok(o2)) if o2 == out),
        _ => panic!("unknown law"),
    })
}

fn gap_shape(g: &str) -> &'static str {
    if g.contains("//") {
        "line-comment"
    } else if g.contains("/*") {
        "block-comment"
    } else {
        match g.matches('\n').count() {
            0 if g.is_empty() => "none",
            0 => "space",
            1 => "newline",
            _ => "blank-line",
        }
    }
}

fn describe_gap(x: &str, p: &Pieces, g: usize, mutant_gap: &str, origin_gap: &str) -> Value {
    // x = assemble(p); code token g follows the gap (g == number of tokens: the tail)
    let lx = lex_text(x);
    let facts = parse_facts(x).ok().map(|r| r.1).unwrap_or_default();
    let kind_of = |i: usize| lx.code.get(i).map(|c| c.0.clone()).unwrap_or("EOF".into());
    let before = kind_of(g);
    let after = if g > 0 { kind_of(g - 1) } else { "BOF".into() };
    let before_parent = lx.code.get(g).and_then(|c| facts.token_parent.get(&c.2).cloned()).unwrap_or("-".into());
    let after_parent = if g > 0 { lx.code.get(g - 1).and_then(|c| facts.token_parent.get(&c.2).cloned()).unwrap_or("-".into()) } else { "-".into() };
    // parent of the first comment inside the gap, if any
    let mut comment_parent = "-".to_string();
    let lo = if g > 0 { lx.code[g - 1].2 } else { 0 };
    let hi = lx.code.get(g).map(|c| c.2).unwrap_or(x.len() as u32);
    let mut offs: Vec<&u32> = facts.comment_parent.keys().filter(|o| **o >= lo && **o < hi).collect();
    offs.sort();
    if let Some(o) = offs.first() {
        comment_parent = facts.comment_parent[*o].clone();
    }
    let _ = p;
    json!({"gap": g, "shape": gap_shape(mutant_gap), "was": gap_shape(origin_gap), "before": before, "before_parent": before_parent,
           "after": after, "after_parent": after_parent, "comment_parent": comment_parent})
}

fn cmd_explain(args: Vec<String>) {
    for line in std::fs::read_to_string(&args[0]).expect("jobs").lines() {
        let job: Value = match serde_json::from_str(line) {
            Ok(j) => j,
            Err(_) => continue,
        };
        let (file, origin, law) = (job["file"].as_str().unwrap(), job["origin"].as_str().unwrap(), job["law"].as_str().unwrap());
        let w = job["w"].as_u64().unwrap() as u32;
        let m = pieces(&std::fs::read_to_string(file).expect("mutant"));
        let o = pieces(&std::fs::read_to_string(origin).expect("origin"));
        let mut res = json!({"kind": "explain", "file": file, "origin": origin, "w": w, "law": law, "culprits": [], "how": "none"});
        if m.toks != o.toks {
            res["how"] = json!("token sequences differ");
            println!("{}", res);
            continue;
        }
        let n = o.toks.len();
        let gap_of = |p: &Pieces, g: usize| if g == n { p.tail.clone() } else { p.gaps[g].clone() };
        let with_gap = |base: &Pieces, g: usize, v: String| {
            let mut p = Pieces { toks: base.toks.clone(), gaps: base.gaps.clone(), tail: base.tail.clone() };
            if g == n { p.tail = v } else { p.gaps[g] = v }
            p
        };
        let changed: Vec<usize> = (0..=n).filter(|&g| gap_of(&m, g) != gap_of(&o, g)).collect();
        res["changed_gaps"] = json!(changed.len());
        let origin_text = assemble(&o);
        if law_fails(law, &origin_text, w) != Some(false) {
            res["how"] = json!("origin fails too");
            println!("{}", res);
            continue;
        }
        let mut culprits = Vec::new();
        for &g in &changed {
            let p = with_gap(&o, g, gap_of(&m, g));
            let x = assemble(&p);
            if law_fails(law, &x, w) == Some(true) {
                culprits.push(describe_gap(&x, &p, g, &gap_of(&m, g), &gap_of(&o, g)));
                if culprits.len() >= 8 {
                    break;
                }
            }
        }
        if !culprits.is_empty() {
            res["how"] = json!("single gap");
        } else {
            // no single gap reproduces it: shortest failing prefix of the changed gaps
            let mut p = Pieces { toks: o.toks.clone(), gaps: o.gaps.clone(), tail: o.tail.clone() };
            for &g in &changed {
                p = with_gap(&p, g, gap_of(&m, g));
                let x = assemble(&p);
                if law_fails(law, &x, w) == Some(true) {
                    culprits.push(describe_gap(&x, &p, g, &gap_of(&m, g), &gap_of(&o, g)));
                    res["how"] = json!("combination of gaps (last one of the shortest failing prefix)");
                    break;
                }
            }
        }
        res["culprits"] = json!(culprits);
        println!("{}", res);
    }
    println!("{}", json!({"kind": "summary"}));
}

fn cmd_one(args: Vec<String>) {
    let text = std::fs::read_to_string(&args[0]).expect("file");
    let w: u32 = args.get(1).map(|w| w.parse().unwrap()).unwrap_or(90);
    let mut tb = Tables { toks: token_interner(), comments: Interner::new(), lines: Interner::new() };
    match parse_facts(&text) {
        Ok((0, facts)) => {
            let lx = lex_text(&text);
            let r = run_one(1, &args[0], &text, &lx, &facts, w, &mut tb);
            println!("== DIAG\n{}", r.diag);
            println!("== OUTPUT\n{}", r.out_text.unwrap_or("<none>".into()));
            if let Some(o2) = r.out2_text {
                println!("== SECOND OUTPUT\n{}", o2);
            }
        }
        Ok((n, _)) => println!("input has {} syntax errors: outside the property", n),
        Err(m) => println!("parser panics on the input: {}", m),
    }
}

fn main() {
    install_hook();
    let mut args: Vec<String> = std::env::args().skip(1).collect();
    if args.is_empty() {
        eprintln!("usage: vfmt corpus|render|mutants|one ...");
        std::process::exit(2);
    }
    let cmd = args.remove(0);
    match cmd.as_str() {
        "corpus" => cmd_corpus(args),
        "render" => cmd_render(args),
        "mutants" => cmd_mutants(args),
        "one" => cmd_one(args),
        "explain" => cmd_explain(args),
        _ => {
            eprintln!("unknown sub-command {}", cmd);
            std::process::exit(2);
        }
    }
}
