//! Write(Read(body)) = body on REAL front-end output: every bytecode body of a package is read with the real reader,
//! re-emitted through the real writer's public API (labels re-created from the decoded jump targets, constant-pool
//! entries re-added in order of first use, locations taken from the body's line table) and compared: code bytes,
//! constant pool and line table must come out identical.  A body whose pool is not in first-use order (or shares an
//! emit_const_* entry) cannot be reproduced byte-identically through the public API and is counted as `not_replayable`.
use crate::replay::{emit_generic, inst_vals, panic_msg};
use dora_bytecode::opcode as opc;
use dora_bytecode::{BytecodeBody, BytecodeReader, BytecodeWriter, ConstPoolEntry, Label, Register, decode_program_from_bytes};
use serde_json::json;
use std::collections::{BTreeSet, HashMap};

fn pool_pos(op: u8) -> Option<usize> {
    match op {
        opc::BYTECODE_OPCODE_LOAD_ENUM_ELEMENT | opc::BYTECODE_OPCODE_LOAD_ENUM_VARIANT | opc::BYTECODE_OPCODE_LOAD_FIELD
        | opc::BYTECODE_OPCODE_STORE_FIELD | opc::BYTECODE_OPCODE_NEW_ARRAY | opc::BYTECODE_OPCODE_NEW_TRAIT_OBJECT
        | opc::BYTECODE_OPCODE_GET_FIELD_REF => Some(2),
        opc::BYTECODE_OPCODE_CONST_CHAR | opc::BYTECODE_OPCODE_CONST_INT32 | opc::BYTECODE_OPCODE_CONST_INT64
        | opc::BYTECODE_OPCODE_CONST_FLOAT32 | opc::BYTECODE_OPCODE_CONST_FLOAT64 | opc::BYTECODE_OPCODE_CONST_STRING
        | opc::BYTECODE_OPCODE_SWITCH | opc::BYTECODE_OPCODE_INVOKE_DIRECT | opc::BYTECODE_OPCODE_INVOKE_VIRTUAL
        | opc::BYTECODE_OPCODE_INVOKE_STATIC | opc::BYTECODE_OPCODE_INVOKE_GENERIC_STATIC | opc::BYTECODE_OPCODE_INVOKE_GENERIC_DIRECT
        | opc::BYTECODE_OPCODE_NEW_OBJECT | opc::BYTECODE_OPCODE_NEW_TUPLE | opc::BYTECODE_OPCODE_NEW_ENUM
        | opc::BYTECODE_OPCODE_NEW_STRUCT => Some(1),
        _ => None,
    }
}

fn is_const_op(op: u8) -> bool {
    matches!(op, opc::BYTECODE_OPCODE_CONST_CHAR | opc::BYTECODE_OPCODE_CONST_INT32 | opc::BYTECODE_OPCODE_CONST_INT64
        | opc::BYTECODE_OPCODE_CONST_FLOAT32 | opc::BYTECODE_OPCODE_CONST_FLOAT64 | opc::BYTECODE_OPCODE_CONST_STRING)
}

enum Out { Same, NotReplayable(String), Differs(String) }

fn rewrite(bc: &BytecodeBody) -> Out {
    let code = bc.code();
    let insts: Vec<(usize, u8, Vec<u32>)> = BytecodeReader::new(code).map(|(s, _, i)| { let (o, v) = inst_vals(&i); (s, o, v) }).collect();
    let pool = bc.const_pool_entries();
    // all jump targets
    let mut targets: BTreeSet<usize> = BTreeSet::new();
    for (s, op, v) in &insts {
        match *op {
            opc::BYTECODE_OPCODE_JUMP => { targets.insert(s + v[0] as usize); }
            opc::BYTECODE_OPCODE_JUMP_IF_FALSE | opc::BYTECODE_OPCODE_JUMP_IF_TRUE => { targets.insert(s + v[1] as usize); }
            opc::BYTECODE_OPCODE_JUMP_LOOP => { if v[0] as usize > *s { return Out::Differs(format!("JumpLoop at {} goes {} back", s, v[0])); } targets.insert(s - v[0] as usize); }
            opc::BYTECODE_OPCODE_SWITCH => match pool.get(v[1] as usize) {
                Some(ConstPoolEntry::JumpTable { targets: ts, default_target }) => { for t in ts { targets.insert(*t as usize); } targets.insert(*default_target as usize); }
                other => return Out::Differs(format!("Switch at {} refers to pool entry {:?}", s, other)),
            },
            _ => {}
        }
    }
    let starts: BTreeSet<usize> = insts.iter().map(|x| x.0).chain(std::iter::once(code.len())).collect();
    for t in &targets { if !starts.contains(t) { return Out::Differs(format!("jump target {} is not the start of an instruction (or the end)", t)); } }
    let mut w = BytecodeWriter::new();
    let mut labels: HashMap<usize, (Label, bool)> = HashMap::new();           // target offset -> (label, bound)
    let mut next_idx: u32 = 0;
    let bind_here = |w: &mut BytecodeWriter, labels: &mut HashMap<usize, (Label, bool)>, o: usize| {
        match labels.get_mut(&o) {
            Some((l, bound)) => if !*bound { w.bind_label(*l); *bound = true; },
            None => { let l = w.define_label(); labels.insert(o, (l, true)); }
        }
    };
    for (s, op, v) in &insts {
        if targets.contains(s) { bind_here(&mut w, &mut labels, *s); }
        if dora_bytecode::BytecodeOpcode::try_from(*op).map(|o| o.needs_location()).unwrap_or(false) { w.set_location(bc.offset_location(*s as u32)); }
        let fwd = |w: &mut BytecodeWriter, labels: &mut HashMap<usize, (Label, bool)>, t: usize| -> Label {
            if let Some((l, _)) = labels.get(&t) { return *l; }
            let l = w.create_label(); labels.insert(t, (l, false)); l
        };
        match *op {
            opc::BYTECODE_OPCODE_JUMP => { let l = fwd(&mut w, &mut labels, s + v[0] as usize); w.emit_jump(l); continue; }
            opc::BYTECODE_OPCODE_JUMP_IF_FALSE => { let l = fwd(&mut w, &mut labels, s + v[1] as usize); w.emit_jump_if_false(Register(v[0] as usize), l); continue; }
            opc::BYTECODE_OPCODE_JUMP_IF_TRUE => { let l = fwd(&mut w, &mut labels, s + v[1] as usize); w.emit_jump_if_true(Register(v[0] as usize), l); continue; }
            opc::BYTECODE_OPCODE_JUMP_LOOP => { let l = labels[&(s - v[0] as usize)].0; w.emit_jump_loop(l); continue; }
            _ => {}
        }
        if let Some(p) = pool_pos(*op) {
            let orig = v[p];
            let Some(entry) = pool.get(orig as usize) else { return Out::Differs(format!("instruction at {} refers to pool index {} of {}", s, orig, pool.len())) };
            // entries are only ever added in their original order, so indices stay what they were
            let upto = if is_const_op(*op) { orig } else { orig + 1 };
            while next_idx < upto {
                let e = &pool[next_idx as usize];
                let n = if let ConstPoolEntry::JumpTable { targets: ts, default_target } = e {
                    let ls: Vec<Label> = ts.iter().map(|t| fwd(&mut w, &mut labels, *t as usize)).collect();
                    let d = fwd(&mut w, &mut labels, *default_target as usize);
                    w.add_const_jump_table(ls, d)
                } else { w.add_const(e.clone()) };
                if n.0 != next_idx { return Out::Differs(format!("add_const returned index {} for the {}th entry", n.0, next_idx)); }
                next_idx += 1;
            }
            if is_const_op(*op) {
                if orig != next_idx { return Out::NotReplayable(format!("the entry {} of an emit_const_* instruction had to be added before it", orig)); }
                let r = Register(v[0] as usize);
                match (entry, *op) {
                    (ConstPoolEntry::Char(c), opc::BYTECODE_OPCODE_CONST_CHAR) => w.emit_const_char(r, *c),
                    (ConstPoolEntry::Int32(c), opc::BYTECODE_OPCODE_CONST_INT32) => w.emit_const_int32(r, *c),
                    (ConstPoolEntry::Int64(c), opc::BYTECODE_OPCODE_CONST_INT64) => w.emit_const_int64(r, *c),
                    (ConstPoolEntry::Float32(c), opc::BYTECODE_OPCODE_CONST_FLOAT32) => w.emit_const_float32(r, *c),
                    (ConstPoolEntry::Float64(c), opc::BYTECODE_OPCODE_CONST_FLOAT64) => w.emit_const_float64(r, *c),
                    (ConstPoolEntry::String(c), opc::BYTECODE_OPCODE_CONST_STRING) => w.emit_const_string(r, c.clone()),
                    (e, _) => return Out::Differs(format!("const instruction at {} (opcode {}) refers to pool entry {:?}", s, op, e)),
                }
                next_idx += 1;
                continue;
            }
        }
        let v2 = v.clone();
        if let Err(e) = emit_generic(&mut w, *op, &v2) { return Out::Differs(e); }
    }
    if targets.contains(&code.len()) { bind_here(&mut w, &mut labels, code.len()); }
    while (next_idx as usize) < pool.len() {
        let e = &pool[next_idx as usize];
        if let ConstPoolEntry::JumpTable { .. } = e { return Out::NotReplayable("a jump table no Switch refers to".into()); }
        w.add_const(e.clone());
        next_idx += 1;
    }
    let body = w.generate_with_registers(bc.registers().to_vec());
    if body.code() != code {
        let at = body.code().iter().zip(code).position(|(a, b)| a != b).unwrap_or(code.len().min(body.code().len()));
        return Out::Differs(format!("re-written code differs at byte {} (lengths {} / {})", at, body.code().len(), code.len()));
    }
    if body.const_pool_entries() != pool { return Out::Differs("re-written constant pool differs".into()); }
    if body.locations() != bc.locations() { return Out::Differs(format!("re-written line table differs: {:?} vs {:?}", &body.locations()[..body.locations().len().min(6)], &bc.locations()[..bc.locations().len().min(6)])); }
    Out::Same
}

/// vbc pkg-bodies <pkg>
pub fn bodies_cmd(args: &[String]) -> i32 {
    std::panic::set_hook(Box::new(|_| {}));
    let b = std::fs::read(&args[0]).expect("package");
    let p = decode_program_from_bytes(&b).expect("valid package");
    let (mut bodies, mut insts, mut same, mut notrep) = (0u64, 0u64, 0u64, 0u64);
    let (mut reader_failed, mut differs, mut why_not) = (Vec::new(), Vec::new(), Vec::new());
    let (mut wide, mut longest, mut fwd_max, mut tables) = (0u64, 0usize, 0u32, 0u64);
    for (i, f) in p.functions.iter().enumerate() {
        let Some(bc) = &f.bytecode else { continue };
        bodies += 1;
        longest = longest.max(bc.code().len());
        if bc.registers().len() > 128 { wide += 1; }
        tables += bc.const_pool_entries().iter().filter(|e| matches!(e, ConstPoolEntry::JumpTable { .. })).count() as u64;
        let bc2 = bc.clone();
        match std::panic::catch_unwind(move || {
            let n = BytecodeReader::new(bc2.code()).count();
            let mx = BytecodeReader::new(bc2.code()).map(|(_, _, i)| { let (o, v) = inst_vals(&i); if o == opc::BYTECODE_OPCODE_JUMP { v[0] } else if o == opc::BYTECODE_OPCODE_JUMP_IF_FALSE || o == opc::BYTECODE_OPCODE_JUMP_IF_TRUE { v[1] } else { 0 } }).max().unwrap_or(0);
            (n, mx)
        }) {
            Ok((n, mx)) => { insts += n as u64; fwd_max = fwd_max.max(mx); }
            Err(_) => { if reader_failed.len() < 5 { reader_failed.push(json!({"function": i, "name": f.name})); } continue; }
        }
        let bc3 = bc.clone();
        match std::panic::catch_unwind(move || rewrite(&bc3)) {
            Ok(Out::Same) => same += 1,
            Ok(Out::NotReplayable(w)) => { notrep += 1; if why_not.len() < 3 { why_not.push(json!({"function": i, "name": f.name, "why": w})); } }
            Ok(Out::Differs(d)) => if differs.len() < 5 { differs.push(json!({"function": i, "name": f.name, "detail": d})) },
            Err(e) => if differs.len() < 5 { differs.push(json!({"function": i, "name": f.name, "detail": format!("panic: {}", panic_msg(&e))})) },
        }
    }
    println!("{}", json!({"kind":"summary","bodies":bodies,"instructions":insts,"reader_failed":reader_failed,"rewritten_identical":same,
        "not_replayable":notrep,"not_replayable_examples":why_not,"rewrite_differs":differs,
        "bodies_with_more_than_128_registers":wide,"longest_body_bytes":longest,"longest_forward_jump":fwd_max,"jump_tables":tables}));
    0
}
