//! S->I binding of spec/codec/Bytecode.tla: every row printed by TLC (an API call sequence + the bytes, the
//! instruction list, the constant pool and the line table the specification expects) is replayed into the REAL
//! `BytecodeWriter`; the produced body is compared byte by byte, read back through both public readers
//! (`BytecodeReader` iterator and `read` + `BytecodeVisitor`) and compared instruction by instruction.
use dora_bytecode::opcode as opc;
use dora_bytecode::program::Id;
use dora_bytecode::{
    BytecodeBody, BytecodeInstruction, BytecodeOffset, BytecodeOpcode, BytecodeReader, BytecodeVisitor, BytecodeWriter, ConstId,
    ConstPoolEntry, ConstPoolIdx, GlobalId, Label, Location, Register, read,
};
use serde_json::{Value, json};
use std::collections::BTreeMap;
use std::io::BufRead;

const PAD_OP: i64 = -1;

fn reg(x: u32) -> Register { Register(x as usize) }

/// one generic entry point per opcode: wire-order operand values -> the writer's emit_* method
pub fn emit_generic(w: &mut BytecodeWriter, op: u8, v: &[u32]) -> Result<(), String> {
    let need = |n: usize| if v.len() == n { Ok(()) } else { Err(format!("opcode {} expects {} operands, row has {}", op, n, v.len())) };
    let r = |i: usize| reg(v[i]);
    let c = |i: usize| ConstPoolIdx(v[i]);
    let g = |i: usize| GlobalId::from(v[i] as usize);
    let args = || -> Result<Vec<Register>, String> {
        if v.len() < 3 || v[2] as usize != v.len() - 3 { return Err(format!("opcode {}: bad argument list {:?}", op, v)); }
        Ok(v[3..].iter().map(|x| reg(*x)).collect())
    };
    macro_rules! r3 { ($m:ident) => {{ need(3)?; w.$m(r(0), r(1), r(2)) }}; }
    macro_rules! r2 { ($m:ident) => {{ need(2)?; w.$m(r(0), r(1)) }}; }
    macro_rules! r1 { ($m:ident) => {{ need(1)?; w.$m(r(0)) }}; }
    macro_rules! rrc { ($m:ident) => {{ need(3)?; w.$m(r(0), r(1), c(2)) }}; }
    macro_rules! rg { ($m:ident) => {{ need(2)?; w.$m(r(0), g(1)) }}; }
    macro_rules! call { ($m:ident) => {{ let a = args()?; w.$m(r(0), c(1), &a) }}; }
    match op {
        opc::BYTECODE_OPCODE_ADD => r3!(emit_add),
        opc::BYTECODE_OPCODE_SUB => r3!(emit_sub),
        opc::BYTECODE_OPCODE_NEG => r2!(emit_neg),
        opc::BYTECODE_OPCODE_MUL => r3!(emit_mul),
        opc::BYTECODE_OPCODE_DIV => r3!(emit_div),
        opc::BYTECODE_OPCODE_MOD => r3!(emit_mod),
        opc::BYTECODE_OPCODE_CHECKED_ADD => r3!(emit_checked_add),
        opc::BYTECODE_OPCODE_CHECKED_SUB => r3!(emit_checked_sub),
        opc::BYTECODE_OPCODE_CHECKED_NEG => r2!(emit_checked_neg),
        opc::BYTECODE_OPCODE_CHECKED_MUL => r3!(emit_checked_mul),
        opc::BYTECODE_OPCODE_CHECKED_DIV => r3!(emit_checked_div),
        opc::BYTECODE_OPCODE_CHECKED_MOD => r3!(emit_checked_mod),
        opc::BYTECODE_OPCODE_AND => r3!(emit_and),
        opc::BYTECODE_OPCODE_OR => r3!(emit_or),
        opc::BYTECODE_OPCODE_XOR => r3!(emit_xor),
        opc::BYTECODE_OPCODE_NOT => r2!(emit_not),
        opc::BYTECODE_OPCODE_SHL => r3!(emit_shl),
        opc::BYTECODE_OPCODE_SHR => r3!(emit_shr),
        opc::BYTECODE_OPCODE_SAR => r3!(emit_sar),
        opc::BYTECODE_OPCODE_MOV => r2!(emit_mov),
        opc::BYTECODE_OPCODE_LOAD_ENUM_ELEMENT => rrc!(emit_load_enum_element),
        opc::BYTECODE_OPCODE_LOAD_ENUM_VARIANT => rrc!(emit_load_enum_variant),
        opc::BYTECODE_OPCODE_LOAD_FIELD => rrc!(emit_load_field),
        opc::BYTECODE_OPCODE_STORE_FIELD => rrc!(emit_store_field),
        opc::BYTECODE_OPCODE_LOAD_GLOBAL => rg!(emit_load_global),
        opc::BYTECODE_OPCODE_STORE_GLOBAL => rg!(emit_store_global),
        opc::BYTECODE_OPCODE_GET_GLOBAL_REF => rg!(emit_get_global_ref),
        opc::BYTECODE_OPCODE_LOAD_CONST => { need(2)?; w.emit_load_const(r(0), ConstId::from(v[1] as usize)) }
        opc::BYTECODE_OPCODE_CONST_TRUE => r1!(emit_const_true),
        opc::BYTECODE_OPCODE_CONST_FALSE => r1!(emit_const_false),
        opc::BYTECODE_OPCODE_CONST_UINT8 => { need(2)?; if v[1] > 255 { return Err("u8 immediate out of range".into()); } w.emit_const_uint8(r(0), v[1] as u8) }
        opc::BYTECODE_OPCODE_TEST_IDENTITY => r3!(emit_test_identity),
        opc::BYTECODE_OPCODE_TEST_EQ => r3!(emit_test_eq),
        opc::BYTECODE_OPCODE_TEST_NE => r3!(emit_test_ne),
        opc::BYTECODE_OPCODE_TEST_GT => r3!(emit_test_gt),
        opc::BYTECODE_OPCODE_TEST_GE => r3!(emit_test_ge),
        opc::BYTECODE_OPCODE_TEST_LT => r3!(emit_test_lt),
        opc::BYTECODE_OPCODE_TEST_LE => r3!(emit_test_le),
        opc::BYTECODE_OPCODE_LOOP_START => { need(0)?; w.emit_loop_start() }
        opc::BYTECODE_OPCODE_SWITCH => { need(2)?; w.emit_switch(r(0), c(1)) }
        opc::BYTECODE_OPCODE_INVOKE_DIRECT => call!(emit_invoke_direct),
        opc::BYTECODE_OPCODE_INVOKE_VIRTUAL => call!(emit_invoke_virtual),
        opc::BYTECODE_OPCODE_INVOKE_STATIC => call!(emit_invoke_static),
        opc::BYTECODE_OPCODE_INVOKE_GENERIC_STATIC => call!(emit_invoke_generic_static),
        opc::BYTECODE_OPCODE_INVOKE_GENERIC_DIRECT => call!(emit_invoke_generic_direct),
        opc::BYTECODE_OPCODE_NEW_OBJECT => call!(emit_new_object),
        opc::BYTECODE_OPCODE_NEW_ARRAY => rrc!(emit_new_array),
        opc::BYTECODE_OPCODE_NEW_TUPLE => call!(emit_new_tuple),
        opc::BYTECODE_OPCODE_NEW_ENUM => call!(emit_new_enum),
        opc::BYTECODE_OPCODE_NEW_STRUCT => call!(emit_new_struct),
        opc::BYTECODE_OPCODE_NEW_TRAIT_OBJECT => { need(3)?; w.emit_new_trait_object(r(0), c(2), r(1)) }   // wire order: dest, src, idx
        opc::BYTECODE_OPCODE_ARRAY_LENGTH => r2!(emit_array_length),
        opc::BYTECODE_OPCODE_LOAD_ARRAY => r3!(emit_load_array),
        opc::BYTECODE_OPCODE_STORE_ARRAY => r3!(emit_store_array),
        opc::BYTECODE_OPCODE_GET_ARRAY_REF => r3!(emit_get_array_ref),
        opc::BYTECODE_OPCODE_GET_FIELD_REF => rrc!(emit_get_field_ref),
        opc::BYTECODE_OPCODE_STORE_REF => r2!(emit_store_ref),
        opc::BYTECODE_OPCODE_LOAD_REF => r2!(emit_load_ref),
        opc::BYTECODE_OPCODE_GET_REGISTER_REF => r2!(emit_get_register_ref),
        opc::BYTECODE_OPCODE_RET => r1!(emit_ret),
        _ => return Err(format!("the harness has no generic emitter for opcode {}", op)),
    }
    Ok(())
}

/// opcodes that are emitted through dedicated items (labels / own pool entry), not through emit_generic
fn special_ops() -> Vec<u8> {
    vec![opc::BYTECODE_OPCODE_JUMP, opc::BYTECODE_OPCODE_JUMP_IF_FALSE, opc::BYTECODE_OPCODE_JUMP_IF_TRUE, opc::BYTECODE_OPCODE_JUMP_LOOP,
         opc::BYTECODE_OPCODE_CONST_CHAR, opc::BYTECODE_OPCODE_CONST_INT32, opc::BYTECODE_OPCODE_CONST_INT64,
         opc::BYTECODE_OPCODE_CONST_FLOAT32, opc::BYTECODE_OPCODE_CONST_FLOAT64, opc::BYTECODE_OPCODE_CONST_STRING]
}

fn const_entry(op: u8, c: i64) -> Option<ConstPoolEntry> {
    Some(match op {
        opc::BYTECODE_OPCODE_CONST_CHAR => ConstPoolEntry::Char(char::from_u32(c as u32)?),
        opc::BYTECODE_OPCODE_CONST_INT32 => ConstPoolEntry::Int32(c as i32),
        opc::BYTECODE_OPCODE_CONST_INT64 => ConstPoolEntry::Int64(c),
        opc::BYTECODE_OPCODE_CONST_FLOAT32 => ConstPoolEntry::Float32(c as f32),
        opc::BYTECODE_OPCODE_CONST_FLOAT64 => ConstPoolEntry::Float64(c as f64),
        opc::BYTECODE_OPCODE_CONST_STRING => ConstPoolEntry::String(format!("s{}", c)),
        _ => return None,
    })
}

fn emit_const(w: &mut BytecodeWriter, op: u8, r: Register, c: i64) -> Result<(), String> {
    match op {
        opc::BYTECODE_OPCODE_CONST_CHAR => w.emit_const_char(r, char::from_u32(c as u32).ok_or("bad char")?),
        opc::BYTECODE_OPCODE_CONST_INT32 => w.emit_const_int32(r, c as i32),
        opc::BYTECODE_OPCODE_CONST_INT64 => w.emit_const_int64(r, c),
        opc::BYTECODE_OPCODE_CONST_FLOAT32 => w.emit_const_float32(r, c as f32),
        opc::BYTECODE_OPCODE_CONST_FLOAT64 => w.emit_const_float64(r, c as f64),
        opc::BYTECODE_OPCODE_CONST_STRING => w.emit_const_string(r, format!("s{}", c)),
        _ => return Err(format!("opcode {} is not an emit_const_* opcode", op)),
    }
    Ok(())
}

fn filler() -> ConstPoolEntry { ConstPoolEntry::Int64(-1) }

trait Put { fn put(&self, v: &mut Vec<u32>); }
impl Put for Register { fn put(&self, v: &mut Vec<u32>) { v.push(self.0 as u32) } }
impl Put for ConstPoolIdx { fn put(&self, v: &mut Vec<u32>) { v.push(self.0) } }
impl<T> Put for Id<T> { fn put(&self, v: &mut Vec<u32>) { v.push(self.index_as_u32()) } }
impl Put for u32 { fn put(&self, v: &mut Vec<u32>) { v.push(*self) } }
impl Put for u8 { fn put(&self, v: &mut Vec<u32>) { v.push(*self as u32) } }
impl Put for Vec<Register> { fn put(&self, v: &mut Vec<u32>) { v.push(self.len() as u32); for r in self { v.push(r.0 as u32) } } }

/// instruction VARIANT -> (opcode number, wire-order operand values); independent of the opcode byte the reader reports
pub fn inst_vals(inst: &BytecodeInstruction) -> (u8, Vec<u32>) {
    use BytecodeInstruction as I;
    let mut v: Vec<u32> = Vec::new();
    macro_rules! p { ($op:ident; $($a:expr),*) => {{ $( $a.put(&mut v); )* opc::$op }}; }
    let op = match inst {
        I::Add { dest, lhs, rhs } => p!(BYTECODE_OPCODE_ADD; dest, lhs, rhs),
        I::Sub { dest, lhs, rhs } => p!(BYTECODE_OPCODE_SUB; dest, lhs, rhs),
        I::Neg { dest, src } => p!(BYTECODE_OPCODE_NEG; dest, src),
        I::Mul { dest, lhs, rhs } => p!(BYTECODE_OPCODE_MUL; dest, lhs, rhs),
        I::Div { dest, lhs, rhs } => p!(BYTECODE_OPCODE_DIV; dest, lhs, rhs),
        I::Mod { dest, lhs, rhs } => p!(BYTECODE_OPCODE_MOD; dest, lhs, rhs),
        I::CheckedAdd { dest, lhs, rhs } => p!(BYTECODE_OPCODE_CHECKED_ADD; dest, lhs, rhs),
        I::CheckedSub { dest, lhs, rhs } => p!(BYTECODE_OPCODE_CHECKED_SUB; dest, lhs, rhs),
        I::CheckedNeg { dest, src } => p!(BYTECODE_OPCODE_CHECKED_NEG; dest, src),
        I::CheckedMul { dest, lhs, rhs } => p!(BYTECODE_OPCODE_CHECKED_MUL; dest, lhs, rhs),
        I::CheckedDiv { dest, lhs, rhs } => p!(BYTECODE_OPCODE_CHECKED_DIV; dest, lhs, rhs),
        I::CheckedMod { dest, lhs, rhs } => p!(BYTECODE_OPCODE_CHECKED_MOD; dest, lhs, rhs),
        I::And { dest, lhs, rhs } => p!(BYTECODE_OPCODE_AND; dest, lhs, rhs),
        I::Or { dest, lhs, rhs } => p!(BYTECODE_OPCODE_OR; dest, lhs, rhs),
        I::Xor { dest, lhs, rhs } => p!(BYTECODE_OPCODE_XOR; dest, lhs, rhs),
        I::Not { dest, src } => p!(BYTECODE_OPCODE_NOT; dest, src),
        I::Shl { dest, lhs, rhs } => p!(BYTECODE_OPCODE_SHL; dest, lhs, rhs),
        I::Shr { dest, lhs, rhs } => p!(BYTECODE_OPCODE_SHR; dest, lhs, rhs),
        I::Sar { dest, lhs, rhs } => p!(BYTECODE_OPCODE_SAR; dest, lhs, rhs),
        I::Mov { dest, src } => p!(BYTECODE_OPCODE_MOV; dest, src),
        I::LoadEnumElement { dest, src, idx } => p!(BYTECODE_OPCODE_LOAD_ENUM_ELEMENT; dest, src, idx),
        I::LoadEnumVariant { dest, src, idx } => p!(BYTECODE_OPCODE_LOAD_ENUM_VARIANT; dest, src, idx),
        I::LoadField { dest, obj, field } => p!(BYTECODE_OPCODE_LOAD_FIELD; dest, obj, field),
        I::StoreField { src, obj, field } => p!(BYTECODE_OPCODE_STORE_FIELD; src, obj, field),
        I::LoadGlobal { dest, global_id } => p!(BYTECODE_OPCODE_LOAD_GLOBAL; dest, global_id),
        I::StoreGlobal { src, global_id } => p!(BYTECODE_OPCODE_STORE_GLOBAL; src, global_id),
        I::LoadConst { dest, const_id } => p!(BYTECODE_OPCODE_LOAD_CONST; dest, const_id),
        I::ConstTrue { dest } => p!(BYTECODE_OPCODE_CONST_TRUE; dest),
        I::ConstFalse { dest } => p!(BYTECODE_OPCODE_CONST_FALSE; dest),
        I::ConstUInt8 { dest, value } => p!(BYTECODE_OPCODE_CONST_UINT8; dest, value),
        I::ConstChar { dest, idx } => p!(BYTECODE_OPCODE_CONST_CHAR; dest, idx),
        I::ConstInt32 { dest, idx } => p!(BYTECODE_OPCODE_CONST_INT32; dest, idx),
        I::ConstInt64 { dest, idx } => p!(BYTECODE_OPCODE_CONST_INT64; dest, idx),
        I::ConstFloat32 { dest, idx } => p!(BYTECODE_OPCODE_CONST_FLOAT32; dest, idx),
        I::ConstFloat64 { dest, idx } => p!(BYTECODE_OPCODE_CONST_FLOAT64; dest, idx),
        I::ConstString { dest, idx } => p!(BYTECODE_OPCODE_CONST_STRING; dest, idx),
        I::TestIdentity { dest, lhs, rhs } => p!(BYTECODE_OPCODE_TEST_IDENTITY; dest, lhs, rhs),
        I::TestEq { dest, lhs, rhs } => p!(BYTECODE_OPCODE_TEST_EQ; dest, lhs, rhs),
        I::TestNe { dest, lhs, rhs } => p!(BYTECODE_OPCODE_TEST_NE; dest, lhs, rhs),
        I::TestGt { dest, lhs, rhs } => p!(BYTECODE_OPCODE_TEST_GT; dest, lhs, rhs),
        I::TestGe { dest, lhs, rhs } => p!(BYTECODE_OPCODE_TEST_GE; dest, lhs, rhs),
        I::TestLt { dest, lhs, rhs } => p!(BYTECODE_OPCODE_TEST_LT; dest, lhs, rhs),
        I::TestLe { dest, lhs, rhs } => p!(BYTECODE_OPCODE_TEST_LE; dest, lhs, rhs),
        I::JumpLoop { offset } => p!(BYTECODE_OPCODE_JUMP_LOOP; offset),
        I::LoopStart => opc::BYTECODE_OPCODE_LOOP_START,
        I::Jump { offset } => p!(BYTECODE_OPCODE_JUMP; offset),
        I::JumpIfFalse { opnd, offset } => p!(BYTECODE_OPCODE_JUMP_IF_FALSE; opnd, offset),
        I::JumpIfTrue { opnd, offset } => p!(BYTECODE_OPCODE_JUMP_IF_TRUE; opnd, offset),
        I::Switch { opnd, idx } => p!(BYTECODE_OPCODE_SWITCH; opnd, idx),
        I::InvokeDirect { dest, fct, arguments } => p!(BYTECODE_OPCODE_INVOKE_DIRECT; dest, fct, arguments),
        I::InvokeVirtual { dest, fct, arguments } => p!(BYTECODE_OPCODE_INVOKE_VIRTUAL; dest, fct, arguments),
        I::InvokeStatic { dest, fct, arguments } => p!(BYTECODE_OPCODE_INVOKE_STATIC; dest, fct, arguments),
        I::InvokeGenericStatic { dest, fct, arguments } => p!(BYTECODE_OPCODE_INVOKE_GENERIC_STATIC; dest, fct, arguments),
        I::InvokeGenericDirect { dest, fct, arguments } => p!(BYTECODE_OPCODE_INVOKE_GENERIC_DIRECT; dest, fct, arguments),
        I::NewObject { dest, cls, arguments } => p!(BYTECODE_OPCODE_NEW_OBJECT; dest, cls, arguments),
        I::NewArray { dest, length, idx } => p!(BYTECODE_OPCODE_NEW_ARRAY; dest, length, idx),
        I::NewTuple { dest, idx, arguments } => p!(BYTECODE_OPCODE_NEW_TUPLE; dest, idx, arguments),
        I::NewEnum { dest, idx, arguments } => p!(BYTECODE_OPCODE_NEW_ENUM; dest, idx, arguments),
        I::NewStruct { dest, idx, arguments } => p!(BYTECODE_OPCODE_NEW_STRUCT; dest, idx, arguments),
        I::NewTraitObject { dest, src, idx } => p!(BYTECODE_OPCODE_NEW_TRAIT_OBJECT; dest, src, idx),
        I::ArrayLength { dest, arr } => p!(BYTECODE_OPCODE_ARRAY_LENGTH; dest, arr),
        I::LoadArray { dest, arr, idx } => p!(BYTECODE_OPCODE_LOAD_ARRAY; dest, arr, idx),
        I::StoreArray { src, arr, idx } => p!(BYTECODE_OPCODE_STORE_ARRAY; src, arr, idx),
        I::GetArrayRef { dest, arr, idx } => p!(BYTECODE_OPCODE_GET_ARRAY_REF; dest, arr, idx),
        I::GetFieldRef { dest, obj, field } => p!(BYTECODE_OPCODE_GET_FIELD_REF; dest, obj, field),
        I::StoreRef { src, reference } => p!(BYTECODE_OPCODE_STORE_REF; src, reference),
        I::LoadRef { dest, reference } => p!(BYTECODE_OPCODE_LOAD_REF; dest, reference),
        I::GetRegisterRef { dest, src } => p!(BYTECODE_OPCODE_GET_REGISTER_REF; dest, src),
        I::GetGlobalRef { dest, global_id } => p!(BYTECODE_OPCODE_GET_GLOBAL_REF; dest, global_id),
        I::Ret { opnd } => p!(BYTECODE_OPCODE_RET; opnd),
    };
    (op, v)
}

/// expected instruction stream (pads compressed) consumed one real instruction at a time
#[derive(Clone)]
struct Exp { off: u64, op: i64, v: Vec<u32> }
fn parse_exp(insts: &[Value]) -> Vec<Exp> {
    insts.iter().map(|e| Exp { off: e["off"].as_u64().unwrap(), op: e["op"].as_i64().unwrap(), v: u32s(&e["v"]) }).collect()
}
struct Matcher<'a> {
    exp: &'a [Exp],
    i: usize,
    pad_done: u64,
    count: u64,
    err: Option<String>,
}

impl<'a> Matcher<'a> {
    fn new(exp: &'a [Exp]) -> Matcher<'a> { Matcher { exp, i: 0, pad_done: 0, count: 0, err: None } }
    #[inline]
    fn feed(&mut self, off: u32, op: u8, v: &[u32]) {
        if self.err.is_some() { return; }
        self.count += 1;
        let Some(e) = self.exp.get(self.i) else { self.err = Some(format!("extra instruction read at offset {}: op {} {:?}", off, op, v)); return };
        if e.op == PAD_OP {
            let n = e.v[0] as u64;
            if op != opc::BYTECODE_OPCODE_LOOP_START || !v.is_empty() || off as u64 != e.off + self.pad_done {
                self.err = Some(format!("inside Pad({}) at {}+{}: read op {} {:?} at offset {}", n, e.off, self.pad_done, op, v, off));
                return;
            }
            self.pad_done += 1;
            if self.pad_done == n { self.pad_done = 0; self.i += 1; }
            return;
        }
        if e.op != op as i64 || e.off != off as u64 || e.v != v {
            self.err = Some(format!("instruction #{}: spec (off {}, op {}, {:?}) vs. read back (off {}, op {}, {:?})", self.i, e.off, e.op, e.v, off, op, v));
            return;
        }
        self.i += 1;
    }
    fn finish(&mut self) -> Option<String> {
        if self.err.is_none() && self.i != self.exp.len() {
            self.err = Some(format!("reader stopped after {} of {} expected instructions", self.i, self.exp.len()));
        }
        self.err.take()
    }
}

struct Recorder<'a> { m: Matcher<'a>, off: u32 }
impl<'a> Recorder<'a> { fn push(&mut self, op: u8, v: Vec<u32>) { let off = self.off; self.m.feed(off, op, &v); } }
macro_rules! vis {
    ($($f:ident($($a:ident: $t:ty),*) => $op:ident;)*) => {
        $(fn $f(&mut self, $($a: $t),*) { #[allow(unused_mut)] let mut v: Vec<u32> = Vec::new(); $( $a.put(&mut v); )* self.push(opc::$op, v); })*
    };
}
type R = Register;
type C = ConstPoolIdx;
impl<'a> BytecodeVisitor for Recorder<'a> {
    fn visit_instruction(&mut self, offset: BytecodeOffset) { self.off = offset.to_u32(); }
    vis! {
        visit_add(a: R, b: R, c: R) => BYTECODE_OPCODE_ADD;
        visit_sub(a: R, b: R, c: R) => BYTECODE_OPCODE_SUB;
        visit_neg(a: R, b: R) => BYTECODE_OPCODE_NEG;
        visit_mul(a: R, b: R, c: R) => BYTECODE_OPCODE_MUL;
        visit_div(a: R, b: R, c: R) => BYTECODE_OPCODE_DIV;
        visit_mod(a: R, b: R, c: R) => BYTECODE_OPCODE_MOD;
        visit_checked_add(a: R, b: R, c: R) => BYTECODE_OPCODE_CHECKED_ADD;
        visit_checked_sub(a: R, b: R, c: R) => BYTECODE_OPCODE_CHECKED_SUB;
        visit_checked_neg(a: R, b: R) => BYTECODE_OPCODE_CHECKED_NEG;
        visit_checked_mul(a: R, b: R, c: R) => BYTECODE_OPCODE_CHECKED_MUL;
        visit_checked_div(a: R, b: R, c: R) => BYTECODE_OPCODE_CHECKED_DIV;
        visit_checked_mod(a: R, b: R, c: R) => BYTECODE_OPCODE_CHECKED_MOD;
        visit_and(a: R, b: R, c: R) => BYTECODE_OPCODE_AND;
        visit_or(a: R, b: R, c: R) => BYTECODE_OPCODE_OR;
        visit_xor(a: R, b: R, c: R) => BYTECODE_OPCODE_XOR;
        visit_not(a: R, b: R) => BYTECODE_OPCODE_NOT;
        visit_shl(a: R, b: R, c: R) => BYTECODE_OPCODE_SHL;
        visit_shr(a: R, b: R, c: R) => BYTECODE_OPCODE_SHR;
        visit_sar(a: R, b: R, c: R) => BYTECODE_OPCODE_SAR;
        visit_mov(a: R, b: R) => BYTECODE_OPCODE_MOV;
        visit_load_enum_element(a: R, b: R, c: C) => BYTECODE_OPCODE_LOAD_ENUM_ELEMENT;
        visit_load_enum_variant(a: R, b: R, c: C) => BYTECODE_OPCODE_LOAD_ENUM_VARIANT;
        visit_load_field(a: R, b: R, c: C) => BYTECODE_OPCODE_LOAD_FIELD;
        visit_store_field(a: R, b: R, c: C) => BYTECODE_OPCODE_STORE_FIELD;
        visit_load_global(a: R, b: GlobalId) => BYTECODE_OPCODE_LOAD_GLOBAL;
        visit_store_global(a: R, b: GlobalId) => BYTECODE_OPCODE_STORE_GLOBAL;
        visit_get_global_ref(a: R, b: GlobalId) => BYTECODE_OPCODE_GET_GLOBAL_REF;
        visit_load_const(a: R, b: ConstId) => BYTECODE_OPCODE_LOAD_CONST;
        visit_const_true(a: R) => BYTECODE_OPCODE_CONST_TRUE;
        visit_const_false(a: R) => BYTECODE_OPCODE_CONST_FALSE;
        visit_const_char(a: R, b: C) => BYTECODE_OPCODE_CONST_CHAR;
        visit_const_uint8(a: R, b: u8) => BYTECODE_OPCODE_CONST_UINT8;
        visit_const_int32(a: R, b: C) => BYTECODE_OPCODE_CONST_INT32;
        visit_const_int64(a: R, b: C) => BYTECODE_OPCODE_CONST_INT64;
        visit_const_float32(a: R, b: C) => BYTECODE_OPCODE_CONST_FLOAT32;
        visit_const_float64(a: R, b: C) => BYTECODE_OPCODE_CONST_FLOAT64;
        visit_const_string(a: R, b: C) => BYTECODE_OPCODE_CONST_STRING;
        visit_test_identity(a: R, b: R, c: R) => BYTECODE_OPCODE_TEST_IDENTITY;
        visit_test_eq(a: R, b: R, c: R) => BYTECODE_OPCODE_TEST_EQ;
        visit_test_ne(a: R, b: R, c: R) => BYTECODE_OPCODE_TEST_NE;
        visit_test_gt(a: R, b: R, c: R) => BYTECODE_OPCODE_TEST_GT;
        visit_test_ge(a: R, b: R, c: R) => BYTECODE_OPCODE_TEST_GE;
        visit_test_lt(a: R, b: R, c: R) => BYTECODE_OPCODE_TEST_LT;
        visit_test_le(a: R, b: R, c: R) => BYTECODE_OPCODE_TEST_LE;
        visit_jump_if_false(a: R, b: u32) => BYTECODE_OPCODE_JUMP_IF_FALSE;
        visit_jump_if_true(a: R, b: u32) => BYTECODE_OPCODE_JUMP_IF_TRUE;
        visit_jump_loop(a: u32) => BYTECODE_OPCODE_JUMP_LOOP;
        visit_loop_start() => BYTECODE_OPCODE_LOOP_START;
        visit_jump(a: u32) => BYTECODE_OPCODE_JUMP;
        visit_switch(a: R, b: C) => BYTECODE_OPCODE_SWITCH;
        visit_invoke_direct(a: R, b: C, c: Vec<R>) => BYTECODE_OPCODE_INVOKE_DIRECT;
        visit_invoke_virtual(a: R, b: C, c: Vec<R>) => BYTECODE_OPCODE_INVOKE_VIRTUAL;
        visit_invoke_static(a: R, b: C, c: Vec<R>) => BYTECODE_OPCODE_INVOKE_STATIC;
        visit_invoke_generic_static(a: R, b: C, c: Vec<R>) => BYTECODE_OPCODE_INVOKE_GENERIC_STATIC;
        visit_invoke_generic_direct(a: R, b: C, c: Vec<R>) => BYTECODE_OPCODE_INVOKE_GENERIC_DIRECT;
        visit_new_object(a: R, b: C, c: Vec<R>) => BYTECODE_OPCODE_NEW_OBJECT;
        visit_new_array(a: R, b: R, c: C) => BYTECODE_OPCODE_NEW_ARRAY;
        visit_new_tuple(a: R, b: C, c: Vec<R>) => BYTECODE_OPCODE_NEW_TUPLE;
        visit_new_enum(a: R, b: C, c: Vec<R>) => BYTECODE_OPCODE_NEW_ENUM;
        visit_new_struct(a: R, b: C, c: Vec<R>) => BYTECODE_OPCODE_NEW_STRUCT;
        visit_new_trait_object(a: R, b: R, c: C) => BYTECODE_OPCODE_NEW_TRAIT_OBJECT;
        visit_array_length(a: R, b: R) => BYTECODE_OPCODE_ARRAY_LENGTH;
        visit_load_array(a: R, b: R, c: R) => BYTECODE_OPCODE_LOAD_ARRAY;
        visit_store_array(a: R, b: R, c: R) => BYTECODE_OPCODE_STORE_ARRAY;
        visit_get_array_ref(a: R, b: R, c: R) => BYTECODE_OPCODE_GET_ARRAY_REF;
        visit_get_field_ref(a: R, b: R, c: C) => BYTECODE_OPCODE_GET_FIELD_REF;
        visit_store_ref(a: R, b: R) => BYTECODE_OPCODE_STORE_REF;
        visit_load_ref(a: R, b: R) => BYTECODE_OPCODE_LOAD_REF;
        visit_get_register_ref(a: R, b: R) => BYTECODE_OPCODE_GET_REGISTER_REF;
        visit_ret(a: R) => BYTECODE_OPCODE_RET;
    }
}

fn u32s(v: &Value) -> Vec<u32> { v.as_array().map(|a| a.iter().map(|x| x.as_u64().unwrap_or(0) as u32).collect()).unwrap_or_default() }

/// drive the real writer with the items of one row
fn write_row(items: &[Value]) -> Result<BytecodeBody, String> {
    let mut w = BytecodeWriter::new();
    let mut labels: Vec<Label> = Vec::new();
    let lab = |labels: &Vec<Label>, l: u64| -> Result<Label, String> { labels.get((l as usize).wrapping_sub(1)).copied().ok_or(format!("row refers to label {} that was not created", l)) };
    for it in items {
        let k = it["k"].as_str().unwrap_or("");
        let op = it["op"].as_u64().unwrap_or(0) as u8;
        let loc = it["loc"].as_u64().unwrap_or(0) as u32;
        let l = it["l"].as_u64().unwrap_or(0);
        let n = it["n"].as_u64().unwrap_or(0);
        if loc != 0 { w.set_location(Location::new(loc, loc + 10)); }
        match k {
            "inst" => emit_generic(&mut w, op, &u32s(&it["v"]))?,
            "const" => { let r = reg(it["v"][0].as_u64().unwrap() as u32); emit_const(&mut w, op, r, it["v"][1].as_i64().unwrap())? }
            "cpad" => for _ in 0..n { w.add_const(filler()); },
            "pad" => for _ in 0..n { w.emit_loop_start(); },
            "create" => labels.push(w.create_label()),
            "define" => labels.push(w.define_label()),
            "bind" => { let x = lab(&labels, l)?; w.bind_label(x) }
            "jump" => {
                let x = lab(&labels, l)?;
                match op {
                    opc::BYTECODE_OPCODE_JUMP => w.emit_jump(x),
                    opc::BYTECODE_OPCODE_JUMP_IF_FALSE => w.emit_jump_if_false(reg(it["v"][0].as_u64().unwrap() as u32), x),
                    opc::BYTECODE_OPCODE_JUMP_IF_TRUE => w.emit_jump_if_true(reg(it["v"][0].as_u64().unwrap() as u32), x),
                    _ => return Err(format!("opcode {} is not a forward jump", op)),
                }
            }
            "loop" => { let x = lab(&labels, l)?; w.emit_jump_loop(x) }
            "jtable" => {
                let ts: Result<Vec<Label>, String> = it["v"].as_array().unwrap().iter().map(|x| lab(&labels, x.as_u64().unwrap())).collect();
                let d = lab(&labels, l)?;
                w.add_const_jump_table(ts?, d);
            }
            other => return Err(format!("unknown item kind {:?}", other)),
        }
    }
    Ok(w.generate())
}

fn cmp_code(code: &[u8], segs: &[Value]) -> Option<String> {
    let mut pos = 0usize;
    for s in segs {
        if s["t"] == "b" {
            for (j, b) in s["b"].as_array().unwrap().iter().enumerate() {
                let e = b.as_u64().unwrap() as u8;
                match code.get(pos) {
                    Some(&x) if x == e => {}
                    got => return Some(format!("code byte {} (segment byte {}): spec {} vs. writer {:?}; writer bytes around: {:?}", pos, j, e, got, &code[pos.saturating_sub(6)..code.len().min(pos + 6)])),
                }
                pos += 1;
            }
        } else {
            let n = s["n"].as_u64().unwrap() as usize;
            if code.len() < pos + n || code[pos..pos + n].iter().any(|&x| x != opc::BYTECODE_OPCODE_LOOP_START) {
                return Some(format!("Pad({}) at {} is not {} LoopStart bytes in the writer's code (len {})", n, pos, n, code.len()));
            }
            pos += n;
        }
    }
    if pos != code.len() { return Some(format!("writer produced {} bytes, spec {}", code.len(), pos)); }
    None
}

fn cmp_pool(body: &BytecodeBody, pool: &[Value]) -> Option<String> {
    let got = body.const_pool_entries();
    let mut i = 0usize;
    for e in pool {
        let t = e["t"].as_str().unwrap();
        match t {
            "fill" => {
                let n = e["n"].as_u64().unwrap() as usize;
                if got.len() < i + n || got[i..i + n].iter().any(|x| *x != filler()) { return Some(format!("pool filler run of {} at {} differs", n, i)); }
                i += n;
            }
            "const" => {
                let exp = const_entry(e["n"].as_u64().unwrap() as u8, e["c"].as_i64().unwrap());
                if got.get(i) != exp.as_ref() { return Some(format!("pool entry {}: spec {:?} vs. writer {:?}", i, exp, got.get(i))); }
                i += 1;
            }
            "jt" => {
                let exp = ConstPoolEntry::JumpTable { targets: u32s(&e["ts"]), default_target: e["d"].as_u64().unwrap() as u32 };
                if got.get(i) != Some(&exp) { return Some(format!("pool entry {}: spec {:?} vs. writer {:?}", i, exp, got.get(i))); }
                i += 1;
            }
            _ => return Some(format!("unknown pool entry kind {}", t)),
        }
    }
    if i != got.len() { return Some(format!("writer's pool has {} entries, spec {}", got.len(), i)); }
    None
}

fn cmp_lines(body: &BytecodeBody, lines: &[Value]) -> Option<String> {
    let got: Vec<(u32, u32, u32)> = body.locations().iter().map(|(o, l)| (o.to_u32(), l.line(), l.column())).collect();
    let exp: Vec<(u32, u32, u32)> = lines.iter().map(|e| { let l = e["loc"].as_u64().unwrap() as u32; (e["off"].as_u64().unwrap() as u32, l, l + 10) }).collect();
    if got != exp { return Some(format!("line table: spec {:?} vs. writer {:?}", exp, got)); }
    None
}

/// Some((what, detail)) on the first disagreement
pub fn check_row(row: &Value) -> Option<(String, String)> {
    let items = row["items"].as_array().unwrap().clone();
    let body = match std::panic::catch_unwind(move || write_row(&items)) {
        Err(p) => return Some(("writer-panic".into(), panic_msg(&p))),
        Ok(Err(e)) => return Some(("harness".into(), e)),
        Ok(Ok(b)) => b,
    };
    let segs = row["code"].as_array().unwrap();
    if let Some(d) = cmp_code(body.code(), segs) { return Some(("code-bytes".into(), d)); }
    let exp = parse_exp(row["insts"].as_array().unwrap());
    // reader 1: the BytecodeReader iterator
    let code = body.code().to_vec();
    let exp1 = exp.clone();
    let r1 = std::panic::catch_unwind(move || {
        let mut m = Matcher::new(&exp1);
        for (start, opcode, inst) in BytecodeReader::new(&code) {
            if let BytecodeInstruction::LoopStart = inst {
                if opcode != BytecodeOpcode::LoopStart { return Some(format!("reader reports a LoopStart instruction for opcode byte {} at {}", u8::from(opcode), start)); }
                m.feed(start as u32, opc::BYTECODE_OPCODE_LOOP_START, &[]);
                continue;
            }
            let (op, v) = inst_vals(&inst);
            let byte: u8 = opcode.into();
            if byte != op { return Some(format!("reader reports opcode {} with an instruction of opcode {} at {}", byte, op, start)); }
            if BytecodeReader::read_opcode_at(&code, start) != opcode { return Some(format!("read_opcode_at({}) disagrees with the iterator", start)); }
            m.feed(start as u32, op, &v);
        }
        m.finish()
    });
    match r1 { Err(p) => return Some(("reader-panic".into(), panic_msg(&p))), Ok(Some(d)) => return Some(("read-back".into(), d)), Ok(None) => {} }
    // reader 2: read() + visitor dispatch
    let code = body.code().to_vec();
    let exp2 = exp.clone();
    let r2 = std::panic::catch_unwind(move || { let mut rec = Recorder { m: Matcher::new(&exp2), off: 0 }; read(&code, &mut rec); rec.m.finish() });
    match r2 { Err(p) => return Some(("visitor-panic".into(), panic_msg(&p))), Ok(Some(d)) => return Some(("visitor".into(), d)), Ok(None) => {} }
    if let Some(d) = cmp_pool(&body, row["pool"].as_array().unwrap()) { return Some(("const-pool".into(), d)); }
    if let Some(d) = cmp_lines(&body, row["lines"].as_array().unwrap()) { return Some(("line-table".into(), d)); }
    None
}

pub fn panic_msg(p: &Box<dyn std::any::Any + Send>) -> String {
    p.downcast_ref::<String>().cloned().or_else(|| p.downcast_ref::<&str>().map(|s| s.to_string())).unwrap_or_else(|| "panic".into())
}

#[derive(Default, Clone)]
struct OpStat { ok: u64, narrow: u64, wide: u64 }

fn leb_len(x: u32) -> usize { let mut n = 1; let mut v = x >> 7; while v != 0 { n += 1; v >>= 7; } n }

/// values with bit 31 set cannot be TLC integers: the harness's own round trip for every generically emitted opcode
fn beyond_tlc(optable: &[Value], bad: &mut Vec<Value>) -> u64 {
    let mut n = 0;
    for e in optable {
        let op = e["op"].as_u64().unwrap() as u8;
        if special_ops().contains(&op) { continue; }
        let fields: Vec<&str> = e["fields"].as_array().unwrap().iter().map(|x| x.as_str().unwrap()).collect();
        for &x in &[0x8000_0000u32, 0xFFFF_FFFF, 0xDEAD_BEEF] {
            for p in 0..fields.len().max(1) {
                let mut v: Vec<u32> = Vec::new();
                let mut len = 1usize;
                for (i, f) in fields.iter().enumerate() {
                    let val = if i == p { x } else { i as u32 + 1 };
                    match *f {
                        "V" => { v.push(val); len += leb_len(val); }
                        "B" => { v.push(val & 0xFF); len += 1; }
                        "A" => { v.push(1); v.push(val); len += 1 + leb_len(val); }
                        _ => {}
                    }
                }
                let v2 = v.clone();
                let res = std::panic::catch_unwind(move || {
                    let mut w = BytecodeWriter::new();
                    w.set_location(Location::new(1, 11));
                    emit_generic(&mut w, op, &v2)?;
                    let body = w.generate();
                    let got: Vec<(usize, u8, Vec<u32>)> = BytecodeReader::new(body.code()).map(|(s, _, i)| { let (o, vv) = inst_vals(&i); (s, o, vv) }).collect();
                    Ok::<_, String>((body.code().len(), got))
                });
                n += 1;
                match res {
                    Ok(Ok((l, got))) => if l != len || got != vec![(0usize, op, v.clone())] {
                        bad.push(json!({"kind":"mismatch","what":"beyond-tlc-domain","op":op,"v":v,"detail":format!("code length {} (expected {}), read back {:?}", l, len, got)}));
                    },
                    Ok(Err(e)) => bad.push(json!({"kind":"mismatch","what":"harness","op":op,"detail":e})),
                    Err(p) => bad.push(json!({"kind":"mismatch","what":"panic-beyond-tlc-domain","op":op,"v":v,"detail":panic_msg(&p)})),
                }
            }
        }
    }
    n
}

fn tree_opcodes(path: &str) -> Vec<(String, u8)> {
    let text = std::fs::read_to_string(path).expect("opcode.rs");
    let mut out = Vec::new();
    for line in text.lines() {
        if let Some(rest) = line.trim().strip_prefix("pub const BYTECODE_OPCODE_") {
            if let Some((name, tail)) = rest.split_once(": u8 = ") {
                if let Ok(n) = tail.trim_end_matches(';').trim().parse::<u8>() { out.push((name.to_string(), n)); }
            }
        }
    }
    out
}

#[derive(Default)]
struct Part {
    stats: BTreeMap<u8, OpStat>, bad: Vec<Value>, rows: u64, nbad: u64, insts: u64, with_fwd: u64, with_loop: u64, with_table: u64, max_code: u64,
    st_tried: u64, st_detected: u64, first_undetected: Option<Value>,
}

fn perturb(row: &Value, mode: u32) -> Option<Value> {
    let mut r2 = row.clone();
    let changed = match mode {
        0 => { let mut done = false; for s in r2["code"].as_array_mut().unwrap() { if s["t"] == "b" { let b = s["b"].as_array_mut().unwrap(); let k = b.len() - 1; let x = b[k].as_u64().unwrap(); b[k] = json!((x + 1) % 256); done = true; break; } } done }
        1 => { let mut done = false; for e in r2["insts"].as_array_mut().unwrap() { if e["op"].as_i64().unwrap() >= 0 { if let Some(v) = e["v"].as_array_mut() { if let Some(x) = v.last_mut() { *x = json!(x.as_u64().unwrap() + 1); done = true; break; } } } } done }
        _ => { let mut done = false; for it in r2["items"].as_array_mut().unwrap() { if it["k"] == "pad" { it["n"] = json!(it["n"].as_u64().unwrap() + 1); done = true; break; } if it["k"] == "inst" && it["v"].as_array().map(|v| !v.is_empty() && v[0].as_u64().unwrap() < 0x7FFF_FFFF).unwrap_or(false) { let v = it["v"].as_array_mut().unwrap(); v[0] = json!(v[0].as_u64().unwrap() + 1); done = true; break; } } done }
    };
    if changed { Some(r2) } else { None }
}

fn process(lines: Vec<(usize, String)>, files: &[String], selftest: bool, st_budget: u64) -> Part {
    let mut p = Part::default();
    for (fi, line) in lines {
        let inner: String = serde_json::from_str(&line).unwrap();
        let row: Value = serde_json::from_str(&inner).unwrap();
        if row.get("items").is_none() { continue; }
        p.rows += 1;
        match check_row(&row) {
            Some((what, detail)) => { p.nbad += 1; if p.bad.len() < 10 { p.bad.push(json!({"kind":"mismatch","what":what,"detail":detail,"items":row["items"],"row":row,"file":files[fi]})); } }
            None => {
                let mut len = 0u64;
                for s in row["code"].as_array().unwrap() { len += if s["t"] == "b" { s["b"].as_array().unwrap().len() as u64 } else { s["n"].as_u64().unwrap() }; }
                p.max_code = p.max_code.max(len);
                let (mut fw, mut lp) = (false, false);
                for e in row["insts"].as_array().unwrap() {
                    let op = e["op"].as_i64().unwrap();
                    if op == PAD_OP { p.insts += e["v"][0].as_u64().unwrap(); p.stats.entry(opc::BYTECODE_OPCODE_LOOP_START).or_default().ok += 1; continue; }
                    p.insts += 1;
                    let v = u32s(&e["v"]);
                    let s = p.stats.entry(op as u8).or_default();
                    s.ok += 1;
                    if v.iter().any(|&x| x >= 128) { s.wide += 1 } else { s.narrow += 1 }
                    let op = op as u8;
                    fw |= op == opc::BYTECODE_OPCODE_JUMP || op == opc::BYTECODE_OPCODE_JUMP_IF_FALSE || op == opc::BYTECODE_OPCODE_JUMP_IF_TRUE;
                    lp |= op == opc::BYTECODE_OPCODE_JUMP_LOOP;
                }
                p.with_fwd += fw as u64; p.with_loop += lp as u64;
                let big_pool = row["pool"].as_array().unwrap().iter().any(|e| e["n"].as_u64().unwrap_or(0) > 20_000 && e["t"] == "fill");
                p.with_table += row["pool"].as_array().unwrap().iter().any(|e| e["t"] == "jt") as u64;
                // negative control: a perturbed expectation (bytes / instruction list) or a perturbed call sequence must be noticed
                if selftest && p.st_tried < st_budget && p.rows % 5 == 0 && len > 0 && len < 70_000 && !big_pool {
                    for mode in 0..3 {
                        let Some(r2) = perturb(&row, mode) else { continue };
                        p.st_tried += 1;
                        if check_row(&r2).is_some() { p.st_detected += 1 } else if p.first_undetected.is_none() { p.first_undetected = Some(json!({"mode":mode,"items":r2["items"]})); }
                    }
                }
            }
        }
    }
    p
}

/// vbc replay <rows-file>... [--opcodes <opcode.rs>] [--selftest] [--threads N]
pub fn run(args: &[String]) -> i32 {
    std::panic::set_hook(Box::new(|_| {}));
    let mut files: Vec<String> = Vec::new();
    let mut opcode_rs: Option<String> = None;
    let mut selftest = false;
    let mut nthreads = std::thread::available_parallelism().map(|n| n.get()).unwrap_or(4).min(12);
    let mut i = 0;
    while i < args.len() {
        match args[i].as_str() {
            "--opcodes" => { opcode_rs = Some(args[i + 1].clone()); i += 1; }
            "--threads" => { nthreads = args[i + 1].parse().unwrap(); i += 1; }
            "--selftest" => selftest = true,
            f => files.push(f.to_string()),
        }
        i += 1;
    }
    let nthreads = nthreads.max(1);
    let mut optable: Vec<Value> = Vec::new();
    let mut buckets: Vec<Vec<(usize, String)>> = (0..nthreads).map(|_| Vec::new()).collect();
    let mut k = 0usize;
    for (fi, f) in files.iter().enumerate() {
        let fh = std::io::BufReader::new(std::fs::File::open(f).expect("rows file"));
        for line in fh.lines() {
            let line = line.unwrap();
            if !line.starts_with("\"{") { continue; }
            if line.starts_with("\"{\\\"optable") {
                if optable.is_empty() { let inner: String = serde_json::from_str(&line).unwrap(); let row: Value = serde_json::from_str(&inner).unwrap(); optable = row["optable"].as_array().unwrap().clone(); }
                continue;
            }
            buckets[k % nthreads].push((fi, line));
            k += 1;
        }
    }
    let st_budget = (900 / nthreads as u64).max(30);
    let handles: Vec<_> = buckets.into_iter().map(|b| { let files = files.clone(); std::thread::Builder::new().stack_size(64 << 20).spawn(move || process(b, &files, selftest, st_budget)).unwrap() }).collect();
    let mut stats: BTreeMap<u8, OpStat> = BTreeMap::new();
    let mut bad: Vec<Value> = Vec::new();
    let (mut rows, mut nbad, mut insts, mut with_fwd, mut with_loop, mut with_table, mut max_code) = (0u64, 0u64, 0u64, 0u64, 0u64, 0u64, 0u64);
    let (mut st_tried, mut st_detected) = (0u64, 0u64);
    let mut first_undetected: Option<Value> = None;
    for h in handles {
        let p = h.join().expect("worker");
        for (k, s) in p.stats { let e = stats.entry(k).or_default(); e.ok += s.ok; e.narrow += s.narrow; e.wide += s.wide; }
        if bad.len() < 40 { bad.extend(p.bad); }
        rows += p.rows; nbad += p.nbad; insts += p.insts; with_fwd += p.with_fwd; with_loop += p.with_loop; with_table += p.with_table; max_code = max_code.max(p.max_code);
        st_tried += p.st_tried; st_detected += p.st_detected;
        if first_undetected.is_none() { first_undetected = p.first_undetected; }
    }
    for b in &bad { println!("{}", b); }
    let mut summary = json!({"kind":"summary","rows":rows,"mismatches":nbad,"instructions_read_back":insts,"rows_with_forward_jump":with_fwd,
        "rows_with_loop_jump":with_loop,"rows_with_jump_table":with_table,"longest_body_bytes":max_code,
        "selftest":{"tried":st_tried,"detected":st_detected,"first_undetected":first_undetected}});
    if let Some(path) = opcode_rs {
        let mut extra_bad = Vec::new();
        let beyond = beyond_tlc(&optable, &mut extra_bad);
        for b in &extra_bad { println!("{}", b); }
        let tree = tree_opcodes(&path);
        let spec: BTreeMap<String, u8> = optable.iter().map(|e| (e["name"].as_str().unwrap().to_string(), e["op"].as_u64().unwrap() as u8)).collect();
        let (mut uncovered, mut spec_missing, mut renumbered, mut not_decodable) = (Vec::new(), Vec::new(), Vec::new(), Vec::new());
        let mut covered = 0;
        for (name, num) in &tree {
            match spec.get(name) { None => spec_missing.push(name.clone()), Some(n) if n != num => renumbered.push(format!("{}: tree {} spec {}", name, num, n)), _ => {} }
            if BytecodeOpcode::try_from(*num).is_err() { not_decodable.push(name.clone()); }
            let s = stats.get(num).cloned().unwrap_or_default();
            let has_operands = optable.iter().any(|e| e["op"].as_u64() == Some(*num as u64) && !e["fields"].as_array().unwrap().is_empty());
            if s.ok > 0 && (!has_operands || (s.narrow > 0 && s.wide > 0)) { covered += 1 } else { uncovered.push(format!("{} (ok {}, narrow {}, wide {})", name, s.ok, s.narrow, s.wide)); }
        }
        let tree_names: Vec<&String> = tree.iter().map(|x| &x.0).collect();
        let spec_extra: Vec<&String> = spec.keys().filter(|k| !tree_names.contains(k)).collect();
        let accepted_bytes = (0u16..=255).filter(|b| BytecodeOpcode::try_from(*b as u8).is_ok()).count();
        summary["opcodes"] = json!({"tree":tree.len(),"covered":covered,"uncovered":uncovered,"not_in_spec":spec_missing,"renumbered":renumbered,
            "spec_only":spec_extra,"not_decodable":not_decodable,"opcode_bytes_accepted_by_reader":accepted_bytes,
            "beyond_tlc_domain_cases":beyond,"beyond_tlc_domain_mismatches":extra_bad.len(),
            "per_opcode": tree.iter().map(|(n, k)| { let s = stats.get(k).cloned().unwrap_or_default(); json!([n, s.ok, s.narrow, s.wide]) }).collect::<Vec<_>>()});
    }
    println!("{}", summary);
    0
}
