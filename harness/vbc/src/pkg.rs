//! Package level of C18 (I->S): the harness records what the real encoder/decoder did as NDJSON events; the verdicts
//! are decided by TLC (spec/codec/CodecLaws.tla) from that history.
//!   pkg-encode <src.dora> <out.pkg> [<name> <events>]   front end in-process (check_program + emit_program) + the driver's bincode config
//!   pkg-laws <pkg> <name> <events> <seed> <ntrunc|all|none> <nflips> <workdir> <nsave>
//!   pkg-child <pkg> <faults> <from> <to>       decodes corrupted copies; a crash only takes this process down
//! Every decode of corrupted bytes runs in a child (`pkg-child`): a damaged length prefix can abort through the allocator.
use crate::sha::sha256;
use dora_bytecode::{Program, decode_program_from_bytes};
#[cfg(feature = "frontend")]
use dora_frontend::sema::{Sema, SemaCreationParams};
use serde_json::{Value, json};
use std::io::Write;
use std::path::PathBuf;
use std::sync::Mutex;

fn encode(p: &Program) -> Vec<u8> {
    // dora/src/driver/compile.rs compile_to_package: bincode::encode_to_vec(prog, bincode::config::standard())
    bincode::encode_to_vec(p, bincode::config::standard()).expect("program serialization failed")
}

fn program_sha(p: &Program) -> String { sha256(format!("{:?}", p).as_bytes()) }

#[cfg(not(feature = "frontend"))]
pub fn encode_cmd(_args: &[String]) -> i32 { eprintln!("built without the front end"); 2 }

#[cfg(feature = "frontend")]
pub fn encode_cmd(args: &[String]) -> i32 {
    let src = PathBuf::from(&args[0]);
    let boots = args.iter().any(|a| a == "--boots");
    let params = SemaCreationParams::new().set_program_path(src);
    let mut sa = Sema::new(if boots { params.set_boots(true) } else { params });
    let ok = dora_frontend::check_program(&mut sa);
    if !ok || sa.diag.borrow().has_errors() {
        println!("{}", json!({"kind":"encoded","ok":false}));
        return 0;
    }
    let prog = dora_frontend::emit_program(sa);
    let bytes = encode(&prog);
    std::fs::write(&args[1], &bytes).expect("write package");
    let nbody = prog.functions.iter().filter(|f| f.bytecode.is_some()).count();
    let (hp, hb) = (program_sha(&prog), sha256(&bytes));
    let mut law = json!(null);
    if args.len() >= 4 {
        // Decode(Encode(p)) = p and Encode(Decode(b)) = b for the program the front end just produced
        let name = &args[2];
        let rec = |op: &str, i: &str, o: &str, res: &str| json!({"op":op,"pkg":name,"in":i,"out":o,"res":res,"cls":"","via":"inproc","k":0});
        let mut ev = vec![rec("encode", &hp, &hb, "ok")];
        match decode_program_from_bytes(&bytes) {
            Ok(p1) => { let b1 = encode(&p1); ev.push(rec("decode", &hb, &program_sha(&p1), "ok")); ev.push(rec("reencode", &program_sha(&p1), &sha256(&b1), "ok")); law = json!(b1 == bytes); }
            Err(e) => { let mut r = rec("decode", &hb, "", "err"); r["cls"] = json!(e); ev.push(r); law = json!(false); }
        }
        write_events(&args[3], &ev);
    }
    println!("{}", json!({"kind":"encoded","ok":true,"program_sha":hp,"bytes_sha":hb,"len":bytes.len(),
        "functions":prog.functions.len(),"bodies":nbody,"roundtrip_bytes_equal":law}));
    0
}

static LAST_PANIC: Mutex<String> = Mutex::new(String::new());

fn panic_class(loc: &str) -> String {
    // "path/file.rs:line:col" -> "file.rs:line" for repository files, "std:file.rs" for the standard library
    let mut parts = loc.rsplitn(3, ':');
    let _col = parts.next();
    let line = parts.next().unwrap_or("");
    let path = parts.next().unwrap_or(loc);
    let file = path.rsplit('/').next().unwrap_or(path);
    if path.contains("/rustc/") || path.contains("library/") {
        // toolchain files: directory/file without the line (it moves between toolchain versions)
        let mut it = path.rsplit('/');
        let (f, d) = (it.next().unwrap_or(""), it.next().unwrap_or(""));
        format!("std:{}/{}", d, f)
    } else { format!("{}:{}", file, line) }
}

fn corrupt(base: &[u8], fault: &str) -> Vec<u8> {
    let (k, n) = fault.split_once(' ').unwrap();
    let n: usize = n.parse().unwrap();
    match k {
        "T" => base[..n].to_vec(),
        // trailing bytes: n = 0: one 0x00, 1: one 0xFF, 2: a copy of the first 9 bytes, 3: the whole package again, else n pseudo-random bytes
        "A" => { let mut b = base.to_vec(); match n { 0 => b.push(0), 1 => b.push(0xFF), 2 => b.extend_from_slice(&base[..9.min(base.len())]), 3 => b.extend_from_slice(base),
                 _ => { let mut r = Rng(n as u64); for _ in 0..n { b.push(r.next() as u8); } } } b }
        _ => { let mut b = base.to_vec(); b[n / 8] ^= 1 << (n % 8); b }
    }
}

pub fn child_cmd(args: &[String]) -> i32 {
    let base = std::fs::read(&args[0]).expect("package");
    let faults: Vec<String> = std::fs::read_to_string(&args[1]).expect("faults").lines().map(|s| s.to_string()).collect();
    let (from, to): (usize, usize) = (args[2].parse().unwrap(), args[3].parse().unwrap());
    std::panic::set_hook(Box::new(|info| {
        let loc = info.location().map(|l| format!("{}:{}:{}", l.file(), l.line(), l.column())).unwrap_or_default();
        *LAST_PANIC.lock().unwrap() = loc;
    }));
    let out = std::io::stdout();
    for i in from..to.min(faults.len()) {
        { let mut o = out.lock(); writeln!(o, "B {}", i).unwrap(); o.flush().unwrap(); }
        let bytes = corrupt(&base, &faults[i]);
        let b2 = bytes.clone();
        let base2 = base.clone();
        let r = std::panic::catch_unwind(move || match decode_program_from_bytes(&b2) {
            Err(e) => format!("err {}", e.replace('\n', " ").chars().take(100).collect::<String>()),
            Ok(p) => {
                let re = encode(&p);
                if re == base2 { "same".to_string() } else { format!("ok {:016x}{:016x}{:016x}{:016x} {}", fnv(&re, 1), fnv(&re, 2), fnv(&re, 3), fnv(&re, 4), if re == b2 { "canonical" } else { "noncanonical" }) }
            }
        });
        let line = match r { Ok(s) => s, Err(_) => format!("panic {}", panic_class(&LAST_PANIC.lock().unwrap())) };
        let mut o = out.lock();
        writeln!(o, "R {} {}", i, line).unwrap();
        o.flush().unwrap();
    }
    0
}

/// cheap identity of a program decoded from corrupted bytes (4 x FNV-1a 64 with different offsets; sha256 is too slow
/// unoptimized for tens of thousands of 90 KB packages)
fn fnv(data: &[u8], salt: u64) -> u64 {
    let mut h: u64 = 0xcbf29ce484222325 ^ salt.wrapping_mul(0x9E3779B97F4A7C15);
    for &b in data { h ^= b as u64; h = h.wrapping_mul(0x100000001b3); }
    h
}

struct Rng(u64);
impl Rng {
    fn next(&mut self) -> u64 { self.0 = self.0.wrapping_add(0x9E3779B97F4A7C15); let mut z = self.0; z = (z ^ (z >> 30)).wrapping_mul(0xBF58476D1CE4E5B9); z = (z ^ (z >> 27)).wrapping_mul(0x94D049BB133111EB); z ^ (z >> 31) }
    fn below(&mut self, n: u64) -> u64 { self.next() % n }
}

/// run faults[from..to) in child processes; returns one outcome string per fault
fn run_children(exe: &str, pkg: &str, faults_file: &str, from: usize, to: usize, work: &str, tag: usize) -> Vec<String> {
    let mut out: Vec<String> = vec![String::new(); to - from];
    let mut start = from;
    while start < to {
        let so = format!("{}/child-{}.out", work, tag);
        let se = format!("{}/child-{}.err", work, tag);
        let mut child = std::process::Command::new(exe)
            .args(["pkg-child", pkg, faults_file, &start.to_string(), &to.to_string()])
            .stdout(std::fs::File::create(&so).unwrap()).stderr(std::fs::File::create(&se).unwrap())
            .spawn().expect("spawn child");
        let t0 = std::time::Instant::now();
        let mut last_progress = (0u64, std::time::Instant::now());
        let status = loop {
            if let Some(s) = child.try_wait().unwrap() { break Some(s); }
            std::thread::sleep(std::time::Duration::from_millis(15));
            let sz = std::fs::metadata(&so).map(|m| m.len()).unwrap_or(0);
            if sz != last_progress.0 { last_progress = (sz, std::time::Instant::now()); }
            if last_progress.1.elapsed().as_secs() > 120 || t0.elapsed().as_secs() > 3600 { let _ = child.kill(); let _ = child.wait(); break None; }
        };
        let text = std::fs::read_to_string(&so).unwrap_or_default();
        let mut begun: Option<usize> = None;
        let mut done_upto = start;
        for l in text.lines() {
            if let Some(r) = l.strip_prefix("B ") { begun = r.parse().ok(); }
            else if let Some(r) = l.strip_prefix("R ") {
                if let Some((i, o)) = r.split_once(' ') { if let Ok(i) = i.parse::<usize>() { if i >= from && i < to { out[i - from] = o.to_string(); done_upto = i + 1; begun = None; } } }
            }
        }
        if done_upto >= to { break; }
        // the child died (or hung) inside case `begun`
        let i = begun.unwrap_or(done_upto);
        let err = std::fs::read_to_string(&se).unwrap_or_default();
        let cls = match status {
            None => "hang".to_string(),
            Some(s) => {
                use std::os::unix::process::ExitStatusExt;
                if err.contains("memory allocation of") { "abort alloc".to_string() }
                else if err.contains("stack overflow") { "abort stack-overflow".to_string() }
                else if let Some(sig) = s.signal() { format!("abort signal-{}", sig) }
                else { format!("abort exit-{}", s.code().unwrap_or(-1)) }
            }
        };
        let detail: String = err.lines().last().unwrap_or("").chars().take(160).collect();
        out[i - from] = format!("{} {}", cls, detail);
        start = i + 1;
    }
    out
}

pub fn laws_cmd(args: &[String]) -> i32 {
    let (pkg, name, events, seed, trunc, nflips, work, nsave) =
        (&args[0], &args[1], &args[2], args[3].parse::<u64>().unwrap(), &args[4], args[5].parse::<usize>().unwrap(), &args[6], args[7].parse::<usize>().unwrap());
    let exe = std::env::current_exe().unwrap().to_string_lossy().to_string();
    std::fs::create_dir_all(work).unwrap();
    let b = std::fs::read(pkg).expect("package");
    let hb = sha256(&b);
    let mut ev: Vec<Value> = Vec::new();
    let rec = |op: &str, i: &str, o: &str, extra: Value| -> Value {
        let (out, res) = if o.len() == 64 { (o, "ok") } else if let Some(h) = o.strip_prefix("ok:") { (h, "ok") } else { ("", o) };
        let mut r = json!({"op":op,"pkg":name,"in":i,"out":out,"res":res,"cls":"","via":"","k":0});
        if let Some(m) = extra.as_object() { for (k, v) in m { r[k] = v.clone(); } }
        r
    };
    // the laws on the valid package (decode of valid bytes in-process)
    let p = match decode_program_from_bytes(&b) {
        Ok(p) => p,
        Err(e) => { ev.push(rec("decode", &hb, "err", json!({"cls": e}))); write_events(events, &ev); println!("{}", json!({"kind":"summary","decode_failed":true})); return 0; }
    };
    let hp = program_sha(&p);
    ev.push(rec("decode", &hb, &hp, json!({})));
    let b2 = encode(&p);
    ev.push(rec("reencode", &hp, &sha256(&b2), json!({})));
    // second generation: Decode(Encode(Decode(b))) is the same program again
    if let Ok(p2) = decode_program_from_bytes(&b2) { ev.push(rec("decode", &sha256(&b2), &program_sha(&p2), json!({}))); }
    let nbody = p.functions.iter().filter(|f| f.bytecode.is_some()).count();

    // faults
    let mut rng = Rng(seed ^ 0xC18);
    let mut faults: Vec<String> = Vec::new();
    let len = b.len();
    if trunc == "all" { for k in 0..len { faults.push(format!("T {}", k)); } }
    else if trunc == "none" {}
    else {
        let n: usize = trunc.parse().unwrap();
        let edge = 768.min(len / 2);
        let mut ks: Vec<usize> = (0..edge).chain(len - edge..len).collect();
        for _ in 0..n { ks.push(rng.below(len as u64) as usize); }
        ks.sort(); ks.dedup();
        for k in ks { faults.push(format!("T {}", k)); }
    }
    if trunc != "none" { for n in [0usize, 1, 2, 3, 5, 64, 4096] { faults.push(format!("A {}", n)); } }
    let ntrunc = faults.iter().filter(|f| f.starts_with('T')).count();
    let nfirst_flip = faults.len();
    let mut bits: Vec<usize> = Vec::new();
    if nflips >= len * 8 { bits = (0..len * 8).collect(); }
    else {
        for _ in 0..nflips { bits.push(rng.below(len as u64 * 8) as usize); }
        // targeted: bincode's varint width markers (251 = u16, 252 = u32, 253 = u64 follows): bytes one bit away from a
        // marker, and the payload bytes behind existing markers - a damaged length prefix is the interesting fault class
        let mut cand: Vec<usize> = Vec::new();
        for i in 0..len {
            for bit in 0..8 { if (251..=253).contains(&(b[i] ^ (1 << bit))) { cand.push(i * 8 + bit); } }
            if (251..=253).contains(&b[i]) { for j in 1..=2 { if i + j < len { cand.push((i + j) * 8 + 7); cand.push((i + j) * 8 + 6); } } }
        }
        let want = (nflips / 2).min(cand.len());
        for _ in 0..want { let k = rng.below(cand.len() as u64) as usize; bits.push(cand[k]); }
    }
    bits.sort(); bits.dedup();
    for bit in &bits { faults.push(format!("F {}", bit)); }
    let ff = format!("{}/faults.txt", work);
    std::fs::write(&ff, faults.join("\n") + "\n").unwrap();
    let nthreads = std::env::var("VBC_THREADS").ok().and_then(|s| s.parse().ok()).unwrap_or_else(|| std::thread::available_parallelism().map(|n| n.get()).unwrap_or(4).min(12)).max(1);
    let chunk = (faults.len() + nthreads - 1) / nthreads.max(1);
    let mut handles = Vec::new();
    for t in 0..nthreads {
        let (from, to) = (t * chunk, ((t + 1) * chunk).min(faults.len()));
        if from >= to { continue; }
        let (exe, pkg, ff, work) = (exe.clone(), pkg.clone(), ff.clone(), work.clone());
        handles.push(std::thread::spawn(move || (from, run_children(&exe, &pkg, &ff, from, to, &work, t))));
    }
    let mut outcomes: Vec<String> = vec![String::new(); faults.len()];
    for h in handles { let (from, v) = h.join().unwrap(); for (j, o) in v.into_iter().enumerate() { outcomes[from + j] = o; } }

    let (mut t_refused, mut f_refused, mut f_same, mut f_diff, mut f_crash, mut t_bad, mut noncanon) = (0u64, 0u64, 0u64, 0u64, 0u64, 0u64, 0u64);
    let (mut ext_tried, mut ext_refused) = (0u64, 0u64);
    let _ = nfirst_flip;
    let mut saved: Vec<Value> = Vec::new();
    let mut classes: std::collections::BTreeMap<String, u64> = Default::default();
    for (i, f) in faults.iter().enumerate() {
        let o = &outcomes[i];
        let (kind, rest) = o.split_once(' ').unwrap_or((o.as_str(), ""));
        let (fk, n) = f.split_once(' ').unwrap();
        let n: usize = n.parse().unwrap();
        let (out, cls): (String, String) = match kind {
            "err" => ("err".into(), "".into()),
            "same" => ("same".into(), "".into()),
            "ok" => { let (h, c) = rest.split_once(' ').unwrap_or((rest, "")); if c == "noncanonical" { noncanon += 1; } (format!("ok:{}", h), c.to_string()) }
            "panic" => ("panic".into(), rest.to_string()),
            "abort" => { let (c, _d) = rest.split_once(' ').unwrap_or((rest, "")); ("abort".into(), c.to_string()) }
            "hang" => ("hang".into(), "".into()),
            _ => ("lost".into(), o.clone()),
        };
        if fk == "T" {
            if out == "err" { t_refused += 1 } else { t_bad += 1 }
            ev.push(rec("truncate", &hb, &out, json!({"k": n, "cls": cls})));
        } else if fk == "A" {
            ext_tried += 1;
            if out == "err" { ext_refused += 1 }
            ev.push(rec("extend", &hb, &out, json!({"k": n, "cls": cls})));
        } else {
            match out.as_str() { "err" => f_refused += 1, "same" => f_same += 1, "panic" | "abort" | "hang" | "lost" => { f_crash += 1; *classes.entry(format!("{}:{}", out, cls)).or_default() += 1; } _ => f_diff += 1 }
            ev.push(rec("flip", &hb, &out, json!({"k": n, "cls": cls})));
            if out.starts_with("ok:") && saved.len() < nsave {
                let path = format!("{}/flip-{}.dora-package", work, n);
                std::fs::write(&path, corrupt(&b, f)).unwrap();
                saved.push(json!({"bit": n, "path": path}));
            }
        }
    }
    write_events(events, &ev);
    println!("{}", json!({"kind":"summary","pkg":name,"len":len,"functions":p.functions.len(),"bodies":nbody,"bytes_sha":hb,"program_sha":hp,
        "reencode_equal": b2 == b, "truncations_tried": ntrunc, "truncations_refused": t_refused, "truncations_not_refused": t_bad, "extensions_tried": ext_tried, "extensions_refused": ext_refused,
        "flips_tried": bits.len(), "flips_refused": f_refused, "flips_same_program": f_same, "flips_accepted_different": f_diff,
        "flips_noncanonical": noncanon, "flips_crashed": f_crash, "crash_classes": classes, "saved": saved}));
    0
}

fn write_events(path: &str, ev: &[Value]) {
    let mut f = std::fs::OpenOptions::new().create(true).append(true).open(path).expect("events file");
    for e in ev { writeln!(f, "{}", e).unwrap(); }
}
