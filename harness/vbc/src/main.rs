fn main() { eprintln!("not built yet"); std::process::exit(2); }
