//! vbc - harness of check C18 (packages and bytecode survive write/read).
//!   replay <rows>... [--opcodes <opcode.rs>] [--selftest]   S->I for spec/codec/Bytecode.tla (+ opcode coverage)
//!   pkg-encode / pkg-laws / pkg-child / pkg-bodies           I->S event recording for spec/codec/CodecLaws.tla
mod pkg;
mod replay;
mod rewrite;
mod sha;

fn main() {
    let args: Vec<String> = std::env::args().collect();
    let rest = if args.len() > 2 { &args[2..] } else { &[][..] };
    let rc = match args.get(1).map(|s| s.as_str()) {
        Some("replay") | Some("opcodes") => replay::run(rest),
        Some("pkg-encode") => pkg::encode_cmd(rest),
        Some("pkg-laws") => pkg::laws_cmd(rest),
        Some("pkg-child") => pkg::child_cmd(rest),
        Some("pkg-bodies") => rewrite::bodies_cmd(rest),
        Some("sha256") => { println!("{}", sha::sha256(&std::fs::read(&rest[0]).expect("file"))); 0 }
        _ => { eprintln!("usage: vbc replay|opcodes|pkg-encode|pkg-laws|pkg-child|pkg-bodies ..."); 2 }
    };
    std::process::exit(rc);
}
