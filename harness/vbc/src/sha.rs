//! SHA-256 (FIPS 180-4); no crate for it is available offline.
const K: [u32; 64] = [
    0x428a2f98, 0x71374491, 0xb5c0fbcf, 0xe9b5dba5, 0x3956c25b, 0x59f111f1, 0x923f82a4, 0xab1c5ed5, 0xd807aa98, 0x12835b01,
    0x243185be, 0x550c7dc3, 0x72be5d74, 0x80deb1fe, 0x9bdc06a7, 0xc19bf174, 0xe49b69c1, 0xefbe4786, 0x0fc19dc6, 0x240ca1cc,
    0x2de92c6f, 0x4a7484aa, 0x5cb0a9dc, 0x76f988da, 0x983e5152, 0xa831c66d, 0xb00327c8, 0xbf597fc7, 0xc6e00bf3, 0xd5a79147,
    0x06ca6351, 0x14292967, 0x27b70a85, 0x2e1b2138, 0x4d2c6dfc, 0x53380d13, 0x650a7354, 0x766a0abb, 0x81c2c92e, 0x92722c85,
    0xa2bfe8a1, 0xa81a664b, 0xc24b8b70, 0xc76c51a3, 0xd192e819, 0xd6990624, 0xf40e3585, 0x106aa070, 0x19a4c116, 0x1e376c08,
    0x2748774c, 0x34b0bcb5, 0x391c0cb3, 0x4ed8aa4a, 0x5b9cca4f, 0x682e6ff3, 0x748f82ee, 0x78a5636f, 0x84c87814, 0x8cc70208,
    0x90befffa, 0xa4506ceb, 0xbef9a3f7, 0xc67178f2,
];

pub fn sha256(data: &[u8]) -> String {
    let mut h: [u32; 8] = [0x6a09e667, 0xbb67ae85, 0x3c6ef372, 0xa54ff53a, 0x510e527f, 0x9b05688c, 0x1f83d9ab, 0x5be0cd19];
    let mut msg = data.to_vec();
    let bitlen = (data.len() as u64).wrapping_mul(8);
    msg.push(0x80);
    while msg.len() % 64 != 56 { msg.push(0); }
    msg.extend_from_slice(&bitlen.to_be_bytes());
    let mut w = [0u32; 64];
    for chunk in msg.chunks(64) {
        for i in 0..16 { w[i] = u32::from_be_bytes([chunk[4 * i], chunk[4 * i + 1], chunk[4 * i + 2], chunk[4 * i + 3]]); }
        for i in 16..64 {
            let s0 = w[i - 15].rotate_right(7) ^ w[i - 15].rotate_right(18) ^ (w[i - 15] >> 3);
            let s1 = w[i - 2].rotate_right(17) ^ w[i - 2].rotate_right(19) ^ (w[i - 2] >> 10);
            w[i] = w[i - 16].wrapping_add(s0).wrapping_add(w[i - 7]).wrapping_add(s1);
        }
        let (mut a, mut b, mut c, mut d, mut e, mut f, mut g, mut hh) = (h[0], h[1], h[2], h[3], h[4], h[5], h[6], h[7]);
        for i in 0..64 {
            let s1 = e.rotate_right(6) ^ e.rotate_right(11) ^ e.rotate_right(25);
            let ch = (e & f) ^ (!e & g);
            let t1 = hh.wrapping_add(s1).wrapping_add(ch).wrapping_add(K[i]).wrapping_add(w[i]);
            let s0 = a.rotate_right(2) ^ a.rotate_right(13) ^ a.rotate_right(22);
            let maj = (a & b) ^ (a & c) ^ (b & c);
            let t2 = s0.wrapping_add(maj);
            hh = g; g = f; f = e; e = d.wrapping_add(t1); d = c; c = b; b = a; a = t1.wrapping_add(t2);
        }
        for (x, y) in h.iter_mut().zip([a, b, c, d, e, f, g, hh]) { *x = x.wrapping_add(y); }
    }
    h.iter().map(|x| format!("{:08x}", x)).collect()
}
