//! C12: the real `Terminator` driven (a) step by step along TLC behaviours, (b) by a seeded random
//! scheduler over the same gates, (c) free-running with an event log for trace validation.
//! Output: one JSON object per line on stdout; exit status 0 unless the harness itself failed.
use dora_runtime::verif::{At, ctl, finished, gate, install, reset, set_tid};
use dora_runtime::verif_api::Terminator;
use rand::rngs::StdRng;
use rand::{Rng, SeedableRng};
use std::sync::Arc;
use std::sync::atomic::{AtomicBool, AtomicI64, Ordering};
use std::time::Duration;

pub struct Pool {
    pub loc: Vec<AtomicI64>,
    pub dq: Vec<AtomicI64>,
    pub inj: AtomicI64,
    pub hold: Vec<AtomicBool>,
    pub early: AtomicBool,
}
impl Pool {
    fn new(n: usize, inj: i64) -> Pool {
        Pool {
            loc: (0..n).map(|_| AtomicI64::new(0)).collect(),
            dq: (0..n).map(|_| AtomicI64::new(0)).collect(),
            inj: AtomicI64::new(inj),
            hold: (0..n).map(|_| AtomicBool::new(false)).collect(),
            early: AtomicBool::new(false),
        }
    }
    fn items(&self) -> i64 {
        self.inj.load(Ordering::SeqCst)
            + self.loc.iter().map(|x| x.load(Ordering::SeqCst)).sum::<i64>()
            + self.dq.iter().map(|x| x.load(Ordering::SeqCst)).sum::<i64>()
            + self.hold.iter().filter(|h| h.load(Ordering::SeqCst)).count() as i64
    }
}

fn take(a: &AtomicI64, k: i64) {
    let old = a.fetch_sub(k, Ordering::SeqCst);
    assert!(old >= k, "harness: pool underflow");
}

/// worker loop with the shape of MarkingTask::run / CopyTask::trace_gray_objects
fn worker(w: usize, n: usize, start_proc: bool, term: Arc<Terminator>, pool: Arc<Pool>) {
    set_tid(w);
    let mut in_proc = start_proc;
    loop {
        let got = if in_proc {
            in_proc = false;
            true
        } else {
            let d = gate("pop").expect("directive");
            let p: Vec<&str> = d.split(' ').collect();
            match p[0] {
                "local" => { take(&pool.loc[w], 1); true }
                "deque" => { take(&pool.dq[w], 1); true }
                "inj" => { let k: i64 = p[1].parse().unwrap(); take(&pool.inj, k); pool.dq[w].fetch_add(k - 1, Ordering::SeqCst); true }
                "steal" => {
                    let k: i64 = p[1].parse().unwrap();
                    let v: usize = p[2].parse::<usize>().unwrap() - 1;
                    assert!(v < n && v != w);
                    take(&pool.dq[v], k);
                    pool.dq[w].fetch_add(k - 1, Ordering::SeqCst);
                    true
                }
                "fail" => false,
                _ => panic!("bad directive {}", d),
            }
        };
        if got {
            if !start_proc || pool.hold[w].load(Ordering::SeqCst) || true {
                // holding is set by the controller-visible directive handling below
            }
            loop {
                let d = gate("proc").expect("directive");
                let p: Vec<&str> = d.split(' ').collect();
                match p[0] {
                    "finish" => { pool.hold[w].store(false, Ordering::SeqCst); break; }
                    "push_local" => { pool.loc[w].fetch_add(1, Ordering::SeqCst); }
                    "push_deque" => { pool.dq[w].fetch_add(1, Ordering::SeqCst); term.wake_up(); }
                    "push_inj" => { pool.inj.fetch_add(1, Ordering::SeqCst); term.wake_up(); }
                    "share" => { let k: i64 = p[1].parse().unwrap(); take(&pool.loc[w], k); pool.inj.fetch_add(k, Ordering::SeqCst); term.wake_up(); }
                    _ => panic!("bad directive {}", d),
                }
            }
        } else if term.try_terminate() {
            // property-level observation point: a worker leaves only when nothing is left anywhere
            if pool.items() != 0 {
                pool.early.store(true, Ordering::SeqCst);
            }
            break;
        }
    }
    finished();
}

#[derive(serde::Deserialize, Clone)]
struct Ev { w: usize, a: String, arg: String, k: i64, v: i64, working: usize, awakening: usize, pcs: Vec<String> }

struct Run {
    n: usize,
    term: Arc<Terminator>,
    pool: Arc<Pool>,
    handles: Vec<std::thread::JoinHandle<()>>,
}
fn start(n: usize, inj: i64, start_proc: &[bool]) -> Run {
    reset(n);
    let term = Arc::new(Terminator::new(n));
    let pool = Arc::new(Pool::new(n, inj));
    let handles = (0..n).map(|w| {
        let (t, p, sp) = (term.clone(), pool.clone(), start_proc[w]);
        std::thread::spawn(move || {
            let r = std::panic::catch_unwind(std::panic::AssertUnwindSafe(|| worker(w, n, sp, t, p)));
            if r.is_err() { PANICKED.store(true, Ordering::SeqCst); finished(); }
        })
    }).collect();
    Run { n, term, pool, handles }
}
static PANICKED: AtomicBool = AtomicBool::new(false);

fn site_of(ev: &Ev) -> (&'static str, Option<String>) {
    match ev.a.as_str() {
        "pop" => ("pop", Some(match ev.arg.as_str() { "inj" => format!("inj {}", ev.k), "steal" => format!("steal {} {}", ev.k, ev.v), o => o.to_string() })),
        "proc" => ("proc", Some(match ev.arg.as_str() { "share" => format!("share {}", ev.k), o => o.to_string() })),
        "wu_r1" => ("wu_r1", None),
        "wu_r2" => ("wu_r2", None),
        "wu_slow" | "tt_enter" => ("lock", None),
        "tt_woke" => ("cv_wake", None),
        _ => panic!("unknown action {}", ev.a),
    }
}

/// P-level predicates on the implementation state (AbstractTermination): evaluated after every step
fn p_check(run: &Run, nd_done: usize) -> Option<String> {
    if run.pool.early.load(Ordering::SeqCst) { return Some("a worker terminated while work items exist".into()); }
    if PANICKED.load(Ordering::SeqCst) { return Some("panic (assertion) in the code under test".into()); }
    if nd_done > 0 && run.pool.items() != 0 { return Some("work exists after a worker left".into()); }
    None
}
fn done_count(n: usize) -> usize { ctl().positions().iter().take(n).filter(|a| **a == At::Done).count() }

/// seeded random scheduler over the real code's gates; returns (steps, verdict)
fn random_walk(run: &Run, rng: &mut StdRng, budget: &mut i64, tmo: Duration, sched: &mut Vec<String>) -> Result<usize, String> {
    let n = run.n;
    let mut steps = 0;
    loop {
        for t in 0..n { ctl().wait_parked(t, tmo).map_err(|e| format!("hang: {:?}", e))?; }
        if let Some(m) = p_check(run, done_count(n)) { return Err(m); }
        if done_count(n) == n { return Ok(steps); }
        let g = ctl().grantable();
        let g: Vec<_> = g.into_iter().filter(|(t, _)| *t < n).collect();
        if g.is_empty() {
            return Err(format!("deadlock: no thread can proceed, positions {:?}, items {}", ctl().positions(), run.pool.items()));
        }
        let (t, at) = g[rng.random_range(0..g.len())].clone();
        let dir = match at.site() {
            "pop" => {
                let p = &run.pool;
                Some(if p.loc[t].load(Ordering::SeqCst) > 0 { "local".to_string() }
                else if p.dq[t].load(Ordering::SeqCst) > 0 { "deque".to_string() }
                else if p.inj.load(Ordering::SeqCst) > 0 { let k = rng.random_range(1..=p.inj.load(Ordering::SeqCst)); format!("inj {}", k) }
                else {
                    let vs: Vec<usize> = (0..n).filter(|v| *v != t && p.dq[*v].load(Ordering::SeqCst) > 0).collect();
                    if !vs.is_empty() && rng.random_bool(0.6) { let v = vs[rng.random_range(0..vs.len())]; let k = rng.random_range(1..=p.dq[v].load(Ordering::SeqCst)); format!("steal {} {}", k, v + 1) }
                    else { "fail".to_string() }
                })
            }
            "proc" => {
                let p = &run.pool;
                let mut opts = vec!["finish".to_string()];
                if *budget > 0 { opts.push("push_local".into()); opts.push("push_deque".into()); opts.push("push_inj".into()); }
                let l = p.loc[t].load(Ordering::SeqCst);
                if l > 0 { opts.push(format!("share {}", rng.random_range(1..=l))); }
                let d = opts[rng.random_range(0..opts.len())].clone();
                if d.starts_with("push") { *budget -= 1; }
                Some(d)
            }
            _ => None,
        };
        if at.site() == "pop" && dir.as_deref() != Some("fail") { run.pool.hold[t].store(true, Ordering::SeqCst); }
        sched.push(format!("{} {} {}", t + 1, at.site(), dir.clone().unwrap_or_default()));
        ctl().grant(t, at.site(), dir, tmo).map_err(|e| format!("hang after grant: {:?}", e))?;
        steps += 1;
        if steps > 100000 { return Err("livelock: 100000 steps without termination".into()); }
    }
}

fn join_all(run: Run) { for h in run.handles { let _ = h.join(); } }

/// vh term-replay <behaviours.ndjson> <n> <seed>
pub fn replay(args: &[String]) -> i32 {
    let text = std::fs::read_to_string(&args[0]).expect("behaviours file");
    let n: usize = args[1].parse().unwrap();
    let seed: u64 = args.get(2).map(|s| s.parse().unwrap()).unwrap_or(1);
    std::panic::set_hook(Box::new(|_| {}));
    install(n);
    let tmo = Duration::from_secs(5);
    let mut rng = StdRng::seed_from_u64(seed);
    let (mut steps, mut ok, mut drift, mut viol) = (0usize, 0usize, 0usize, 0usize);
    for (bi, line) in text.lines().enumerate() {
        let evs: Vec<Ev> = serde_json::from_str(line).unwrap();
        let init = &evs[0];
        let sp: Vec<bool> = init.pcs.iter().map(|p| p == "proc").collect();
        PANICKED.store(false, Ordering::SeqCst);
        let run = start(n, init.k as i64, &sp);
        let mut diverged: Option<String> = None;
        let mut sched: Vec<String> = Vec::new();
        let mut budget: i64 = 0;
        for (i, ev) in evs.iter().enumerate().skip(1) {
            let t = ev.w - 1;
            let (site, dir) = site_of(ev);
            if site == "pop" && ev.arg != "fail" { run.pool.hold[t].store(true, Ordering::SeqCst); }
            sched.push(format!("{} {} {}", ev.w, site, dir.clone().unwrap_or_default()));
            match ctl().grant(t, site, dir, tmo) {
                Ok(_) => {}
                Err(e) => { diverged = Some(format!("step {} (w{} {} {}): {:?}", i, ev.w, ev.a, ev.arg, e)); break; }
            }
            let (wk, aw) = run.term.verif_counters();
            if (wk, aw) != (ev.working, ev.awakening) {
                diverged = Some(format!("step {} (w{} {} {}): impl counters {:?} model {:?}", i, ev.w, ev.a, ev.arg, (wk, aw), (ev.working, ev.awakening)));
            }
            if let Some(m) = p_check(&run, done_count(n)) {
                println!("{}", serde_json::json!({"kind":"violation","behaviour":bi,"step":i,"msg":m,"schedule":sched}));
                viol += 1; diverged = None; budget = -1; break;
            }
            if diverged.is_some() { break; }
            steps += 1;
        }
        if budget == -1 { std::process::exit(0); }
        match diverged {
            None => {
                let mut fin = None;
                for t in 0..n { match ctl().wait_parked(t, tmo) { Ok(At::Done) => {}, other => { fin = Some(format!("thread {} not done at the end of the behaviour: {:?}", t + 1, other)); break; } } }
                match fin {
                    None => { ok += 1; join_all(run); }
                    Some(m) => {
                        // model says everybody left; the implementation did not: drift, adjudicate by continuing
                        drift += 1;
                        println!("{}", serde_json::json!({"kind":"drift","behaviour":bi,"msg":m}));
                        let mut b = 0i64;
                        match random_walk(&run, &mut rng, &mut b, tmo, &mut sched) {
                            Ok(_) => join_all(run),
                            Err(m) => { println!("{}", serde_json::json!({"kind":"violation","behaviour":bi,"msg":m,"schedule":sched})); viol += 1; break; }
                        }
                    }
                }
            }
            Some(m) => {
                drift += 1;
                println!("{}", serde_json::json!({"kind":"drift","behaviour":bi,"msg":m}));
                // adjudication (DESIGN 2.8): keep exploring the real code from here with the P predicates
                let mut b = 2i64;
                match random_walk(&run, &mut rng, &mut b, tmo, &mut sched) {
                    Ok(_) => join_all(run),
                    Err(m) => { println!("{}", serde_json::json!({"kind":"violation","behaviour":bi,"msg":m,"schedule":sched})); viol += 1; break; }
                }
            }
        }
    }
    println!("{}", serde_json::json!({"kind":"summary","behaviours_ok":ok,"steps":steps,"drift":drift,"violations":viol}));
    // a violation may leave threads blocked for good: leave without joining
    std::process::exit(0);
}

/// vh term-random <n> <seed> <runs> <budget>
pub fn random(args: &[String]) -> i32 {
    let n: usize = args[0].parse().unwrap();
    let seed: u64 = args[1].parse().unwrap();
    let runs: usize = args[2].parse().unwrap();
    let bud: i64 = args[3].parse().unwrap();
    std::panic::set_hook(Box::new(|_| {}));
    install(n);
    let tmo = Duration::from_secs(5);
    let mut rng = StdRng::seed_from_u64(seed);
    let (mut steps, mut ok, mut viol) = (0usize, 0usize, 0usize);
    let mut distinct = std::collections::HashSet::new();
    for r in 0..runs {
        PANICKED.store(false, Ordering::SeqCst);
        let sp: Vec<bool> = (0..n).map(|_| rng.random_bool(0.3)).collect();
        let inj = rng.random_range(0..=1);
        let run = start(n, inj, &sp);
        let mut sched = vec![format!("init inj={} start_proc={:?}", inj, sp)];
        let mut b = bud;
        match random_walk(&run, &mut rng, &mut b, tmo, &mut sched) {
            Ok(s) => { steps += s; ok += 1; distinct.insert(sched.join(";")); join_all(run); }
            Err(m) => { println!("{}", serde_json::json!({"kind":"violation","run":r,"msg":m,"schedule":sched})); viol += 1; break; }
        }
    }
    println!("{}", serde_json::json!({"kind":"summary","runs_ok":ok,"steps":steps,"distinct":distinct.len(),"violations":viol}));
    std::process::exit(0);
}

/// vh term-free <n> <seed> <runs> <budget>: free-running workers on the real Terminator (no controller,
/// real parking_lot primitives), seeded perturbation; pool operations and return values are logged to
/// DORA_VERIF_TRACE next to the terminator's own records. P-level checks are evaluated here, the
/// trace is validated against TerminatorTrace.tla by the caller.
pub fn free(args: &[String]) -> i32 {
    use dora_runtime::verif::{log, log_guard};
    use std::sync::Mutex;
    let n: usize = args[0].parse().unwrap();
    let seed: u64 = args[1].parse().unwrap();
    let runs: usize = args[2].parse().unwrap();
    let bud: i64 = args[3].parse().unwrap();
    std::panic::set_hook(Box::new(|_| {}));
    struct P { loc: Vec<i64>, dq: Vec<i64>, inj: i64, hold: Vec<bool>, budget: i64 }
    let mut master = StdRng::seed_from_u64(seed);
    let (mut ok, mut viol) = (0usize, 0usize);
    for r in 0..runs {
        let sp: Vec<bool> = (0..n).map(|_| master.random_bool(0.3)).collect();
        let inj: i64 = master.random_range(0..=1);
        let pool = Arc::new(Mutex::new(P { loc: vec![0; n], dq: vec![0; n], inj, hold: vec![false; n], budget: bud }));
        let term = Arc::new(Terminator::new(n));
        let early = Arc::new(AtomicBool::new(false));
        let left = Arc::new(AtomicI64::new(0));
        set_tid(99);
        log("reset", &format!("\"run\":{},\"n\":{},\"inj\":{},\"sp\":[{}]", r, n, inj, sp.iter().map(|b| if *b { "true" } else { "false" }).collect::<Vec<_>>().join(",")));
        let hs: Vec<_> = (0..n).map(|w| {
            let (pool, term, early, left) = (pool.clone(), term.clone(), early.clone(), left.clone());
            let mut rng = StdRng::seed_from_u64(seed.wrapping_mul(1000003).wrapping_add((r * 64 + w) as u64));
            let start_proc = sp[w];
            std::thread::spawn(move || {
                set_tid(w);
                let res = std::panic::catch_unwind(std::panic::AssertUnwindSafe(|| {
                    let perturb = |rng: &mut StdRng| { match rng.random_range(0..12) { 0 => std::thread::sleep(Duration::from_micros(rng.random_range(1..200))), 1 | 2 => std::thread::yield_now(), _ => {} } };
                    let mut in_proc = start_proc;
                    loop {
                        perturb(&mut rng);
                        let got = if in_proc { in_proc = false; true } else {
                            let mut p = pool.lock().unwrap();
                            let g = log_guard();
                            if p.loc[w] > 0 { p.loc[w] -= 1; p.hold[w] = true; g.emit("pop", "\"arg\":\"local\",\"k\":0,\"v\":0"); true }
                            else if p.dq[w] > 0 { p.dq[w] -= 1; p.hold[w] = true; g.emit("pop", "\"arg\":\"deque\",\"k\":0,\"v\":0"); true }
                            else if p.inj > 0 { let k = rng.random_range(1..=p.inj); p.inj -= k; p.dq[w] += k - 1; p.hold[w] = true; g.emit("pop", &format!("\"arg\":\"inj\",\"k\":{},\"v\":0", k)); true }
                            else {
                                let vs: Vec<usize> = (0..n).filter(|v| *v != w && p.dq[*v] > 0).collect();
                                if !vs.is_empty() && rng.random_bool(0.6) {
                                    let v = vs[rng.random_range(0..vs.len())]; let k = rng.random_range(1..=p.dq[v]);
                                    p.dq[v] -= k; p.dq[w] += k - 1; p.hold[w] = true;
                                    g.emit("pop", &format!("\"arg\":\"steal\",\"k\":{},\"v\":{}", k, v + 1)); true
                                } else { g.emit("pop", "\"arg\":\"fail\",\"k\":0,\"v\":0"); false }
                            }
                        };
                        if got {
                            loop {
                                perturb(&mut rng);
                                let mut p = pool.lock().unwrap();
                                let g = log_guard();
                                let mut opts = vec![0, 0];
                                if p.budget > 0 { opts.extend([1, 2, 3, 1, 2, 3]); }
                                if p.loc[w] > 0 { opts.push(4); }
                                match opts[rng.random_range(0..opts.len())] {
                                    0 => { p.hold[w] = false; g.emit("proc", "\"arg\":\"finish\",\"k\":0"); break; }
                                    1 => { p.budget -= 1; p.loc[w] += 1; g.emit("proc", "\"arg\":\"push_local\",\"k\":0"); }
                                    2 => { p.budget -= 1; p.dq[w] += 1; g.emit("proc", "\"arg\":\"push_deque\",\"k\":0"); drop(p); perturb(&mut rng); term.wake_up(); }
                                    3 => { p.budget -= 1; p.inj += 1; g.emit("proc", "\"arg\":\"push_inj\",\"k\":0"); drop(p); perturb(&mut rng); term.wake_up(); }
                                    _ => { let k = rng.random_range(1..=p.loc[w]); p.loc[w] -= k; p.inj += k; g.emit("proc", &format!("\"arg\":\"share\",\"k\":{}", k)); drop(p); perturb(&mut rng); term.wake_up(); }
                                }
                            }
                        } else {
                            let ret = term.try_terminate();
                            log("tt_ret", &format!("\"ret\":{}", ret));
                            if ret {
                                let p = pool.lock().unwrap();
                                let items = p.inj + p.loc.iter().sum::<i64>() + p.dq.iter().sum::<i64>() + p.hold.iter().filter(|h| **h).count() as i64;
                                if items != 0 { early.store(true, Ordering::SeqCst); }
                                break;
                            }
                        }
                    }
                }));
                if res.is_err() { PANICKED.store(true, Ordering::SeqCst); }
                left.fetch_add(1, Ordering::SeqCst);
            })
        }).collect();
        // progress is part of P: every worker leaves (generous limit)
        let t0 = std::time::Instant::now();
        while left.load(Ordering::SeqCst) < n as i64 && t0.elapsed() < Duration::from_secs(20) { std::thread::sleep(Duration::from_millis(1)); }
        let hung = left.load(Ordering::SeqCst) < n as i64;
        let bad = if hung { Some("hang: not every worker left the phase within 20 s") } else if early.load(Ordering::SeqCst) { Some("a worker terminated while work items exist") } else if PANICKED.load(Ordering::SeqCst) { Some("panic (assertion) in the code under test") } else { None };
        if let Some(m) = bad {
            println!("{}", serde_json::json!({"kind":"violation","run":r,"msg":m}));
            viol += 1;
            dora_runtime::verif::flush();
            break;
        }
        for h in hs { let _ = h.join(); }
        ok += 1;
    }
    dora_runtime::verif::flush();
    println!("{}", serde_json::json!({"kind":"summary","runs_ok":ok,"violations":viol}));
    std::process::exit(0);
}
