//! Front end in-process: `vh sema <list-file>` runs parser + semantic analysis (+ bytecode emission when there
//! is no error) on every file of the list under catch_unwind and prints one JSON record per file:
//! diagnostics with descriptor text, level, line/column and span. Used by C11, C05, C06.
use dora_frontend::sema::{Sema, SemaCreationParams};
use serde_json::{Value, json};

fn diag_list(sa: &Sema, errs: &[dora_frontend::error::msg::ErrorDescriptor], content_len: usize) -> Vec<Value> {
    errs.iter().map(|e| {
        let (line, col) = e.line_column(sa).unwrap_or((0, 0));
        let (s, l) = e.span.map(|sp| (sp.start() as i64, sp.len() as i64)).unwrap_or((-1, -1));
        json!({"desc": e.desc.message, "line": line, "col": col, "start": s, "len": l,
               "in_file": e.span.map(|sp| (sp.end() as usize) <= content_len).unwrap_or(true)})
    }).collect()
}

/// source location of the last panic (set by the hook installed in `run`)
static PANIC_AT: std::sync::Mutex<String> = std::sync::Mutex::new(String::new());

pub fn check_text(content: &str, emit: bool) -> Value {
    let c = content.to_string();
    let r = std::panic::catch_unwind(move || {
        let mut sa = Sema::new(SemaCreationParams::new().set_program_content(c.clone()));
        let ok = dora_frontend::check_program(&mut sa);
        let d = sa.diag.borrow();
        let errors = diag_list(&sa, d.errors(), c.len());
        let warnings = diag_list(&sa, d.warnings(), c.len());
        drop(d);
        let mut emitted = Value::Null;
        if ok && emit {
            let prog = dora_frontend::emit_program(sa);
            emitted = json!({"functions": prog.functions.len()});
        }
        json!({"ok": ok, "errors": errors, "warnings": warnings, "emitted": emitted})
    });
    match r {
        Ok(v) => v,
        Err(p) => {
            let msg = p.downcast_ref::<String>().cloned().or_else(|| p.downcast_ref::<&str>().map(|s| s.to_string())).unwrap_or_default();
            let at = PANIC_AT.lock().map(|g| g.clone()).unwrap_or_default();
            json!({"panic": msg, "panic_at": at})
        }
    }
}

/// vh sema <list-file> [emit]
pub fn run(args: &[String]) -> i32 {
    let list = std::fs::read_to_string(&args[0]).expect("list");
    let emit = args.get(1).map(|s| s == "emit").unwrap_or(false);
    std::panic::set_hook(Box::new(|info| {
        if let (Some(l), Ok(mut g)) = (info.location(), PANIC_AT.lock()) {
            *g = format!("{}:{}", l.file(), l.line());
        }
    }));
    let mut n = 0;
    for path in list.lines() {
        let Ok(bytes) = std::fs::read(path) else { continue };
        let Ok(content) = String::from_utf8(bytes) else { println!("{}", json!({"kind":"file","path":path,"skipped":"not utf-8"})); continue };
        let mut v = check_text(&content, emit);
        v["kind"] = json!("file");
        v["path"] = json!(path);
        println!("{}", v);
        n += 1;
    }
    println!("{}", json!({"kind":"summary","files":n}));
    0
}
