//! vh - the in-process conformance harness. One binary, one sub-command per binding.
mod mangle;
mod parse;
mod pos;
mod sema;
mod sp;
mod term;

fn main() {
    let args: Vec<String> = std::env::args().collect();
    if args.len() < 2 {
        eprintln!("usage: vh <subcommand> ...");
        std::process::exit(2);
    }
    let rest = &args[2..];
    let rc = match args[1].as_str() {
        "mangle" => mangle::run(rest),
        "parse" => parse::run(rest),
        "soup" => parse::soup(rest),
        "position" => pos::run(rest),
        "sema" => sema::run(rest),
        "sp-replay" => sp::replay(rest),
        "sp-random" => sp::random(rest),
        "term-replay" => term::replay(rest),
        "term-random" => term::random(rest),
        "term-free" => term::free(rest),
        other => {
            eprintln!("unknown subcommand {}", other);
            2
        }
    };
    std::process::exit(rc);
}
