//! C16 / C06: lexer + parser in-process. `vh parse <list> <trace-out>`: for every file of the list: lex, parse with the
//! primitive recording on, write the abstract token kinds and the primitive log (for ParseEventsTrace.tla), and check the
//! projection of the real tree: token partition, lossless text, node lengths, span tiling, error spans inside the text.
//! `vh soup <len> <ctx>`: every sequence of up to <len> token texts from the alphabet in context templates through the parser.
use dora_parser::TokenKind;
use dora_parser::ast::{SyntaxElement, SyntaxNode, SyntaxNodeBase};
use serde_json::{Value, json};
use std::io::Write;
use std::sync::Arc;

fn kind_letter(kind: TokenKind, text: &str) -> &'static str {
    match kind {
        TokenKind::WHITESPACE => "w",
        TokenKind::NEWLINE => "n",
        TokenKind::LINE_COMMENT => "l",
        TokenKind::MULTILINE_COMMENT => if text.contains('\n') || text.contains('\r') { "B" } else { "b" },
        _ => "c",
    }
}

/// structural checks of the tree against the text; returns problems
fn check_tree(content: &str, root: &SyntaxNode) -> Vec<String> {
    let mut bad = Vec::new();
    if root.green().to_string() != content { bad.push("tree text differs from the input".to_string()); }
    if root.full_span().start() != 0 || root.full_span().end() as usize != content.len() { bad.push(format!("root range {:?} does not cover the text (len {})", root.full_span(), content.len())); }
    fn walk(node: &SyntaxNode, content: &str, bad: &mut Vec<String>, tokens: &mut usize) {
        let mut pos = node.full_span().start();
        let mut sum = 0u32;
        let inner = node.span();
        if inner.start() < node.full_span().start() || inner.end() > node.full_span().end() { bad.push(format!("span {:?} of {:?} outside its full range {:?}", inner, node.syntax_kind(), node.full_span())); }
        for ch in node.children_with_tokens() {
            let sp = match &ch { SyntaxElement::Node(n) => n.full_span(), SyntaxElement::Token(t) => t.span() };
            if sp.start() != pos { bad.push(format!("child of {:?} starts at {} but the previous sibling ended at {}", node.syntax_kind(), sp.start(), pos)); }
            pos = sp.end();
            sum += sp.len();
            match ch {
                SyntaxElement::Node(n) => walk(&n, content, bad, tokens),
                SyntaxElement::Token(t) => {
                    *tokens += 1;
                    let s = sp.start() as usize; let e = sp.end() as usize;
                    if e > content.len() || !content.is_char_boundary(s) || !content.is_char_boundary(e) { bad.push(format!("token span {:?} not on character boundaries", sp)); }
                    else if &content[s..e] != t.text() { bad.push(format!("token text differs at {:?}", sp)); }
                }
            }
            if bad.len() > 5 { return; }
        }
        if sum != node.full_span().len() { bad.push(format!("node {:?} length {} != sum of children {}", node.syntax_kind(), node.full_span().len(), sum)); }
        if pos != node.full_span().end() { bad.push(format!("children of {:?} end at {} but the node ends at {}", node.syntax_kind(), pos, node.full_span().end())); }
    }
    let mut tokens = 0usize;
    walk(root, content, &mut bad, &mut tokens);
    bad
}

pub fn parse_one(content: &str, record: bool) -> Value {
    let c = Arc::new(content.to_string());
    let res = std::panic::catch_unwind(move || {
        let lexed = dora_parser::lexer::lex(&c);
        let n = lexed.tokens.len() - 1;
        let mut problems: Vec<String> = Vec::new();
        // lexer partition: starts strictly increasing, first 0, all on character boundaries
        for i in 0..n {
            let s = lexed.starts[i] as usize;
            let e = if i + 1 < n { lexed.starts[i + 1] as usize } else { c.len() };
            if (i == 0 && s != 0) || e <= s || !c.is_char_boundary(s) { problems.push(format!("lexer: token {} [{}, {}) is not a proper part of the text", i, s, e)); break; }
        }
        let toks: Vec<&'static str> = (0..n).map(|i| {
            let s = lexed.starts[i] as usize;
            let e = if i + 1 < n { lexed.starts[i + 1] as usize } else { c.len() };
            kind_letter(lexed.tokens[i], c.get(s..e).unwrap_or(""))
        }).collect();
        if record { dora_parser::verif::start(); }
        let (file, errors) = dora_parser::parser::Parser::from_shared_string(c.clone()).parse();
        let log = if record { dora_parser::verif::take().map(|r| r.log).unwrap_or_default() } else { Vec::new() };
        problems.extend(check_tree(&c, &file.root()));
        for e in &errors {
            if e.span.end() as usize > c.len() { problems.push(format!("error span {:?} outside the text (len {})", e.span, c.len())); }
        }
        json!({"n": n, "toks": toks, "log": log, "errors": errors.len(), "problems": problems})
    });
    match res {
        Ok(v) => v,
        Err(p) => {
            let msg = p.downcast_ref::<String>().cloned().or_else(|| p.downcast_ref::<&str>().map(|s| s.to_string())).unwrap_or_default();
            json!({"panic": msg})
        }
    }
}

/// vh parse <list-file> <trace-out>
pub fn run(args: &[String]) -> i32 {
    let list = std::fs::read_to_string(&args[0]).expect("list");
    let mut out = std::io::BufWriter::new(std::fs::File::create(&args[1]).expect("trace out"));
    std::panic::set_hook(Box::new(|_| {}));
    let (mut files, mut prims) = (0usize, 0usize);
    let cap: usize = args.get(2).map(|s| s.parse().unwrap()).unwrap_or(usize::MAX);
    for path in list.lines() {
        let Ok(bytes) = std::fs::read(path) else { continue };
        let Ok(content) = String::from_utf8(bytes) else { continue };
        let v = parse_one(&content, true);
        files += 1;
        if v.get("panic").is_some() { println!("{}", json!({"kind":"panic","path":path,"msg":v["panic"]})); continue; }
        if !v["problems"].as_array().unwrap().is_empty() { println!("{}", json!({"kind":"tree","path":path,"problems":v["problems"]})); }
        if prims + v["log"].as_array().unwrap().len() > cap { continue; }   // tree checks done; log left out of the TLC batch
        writeln!(out, "{}", json!({"k":"file","toks":v["toks"],"n":v["n"],"path":path})).unwrap();
        for r in v["log"].as_array().unwrap() {
            writeln!(out, "{}", json!({"k":"p","r":[r[0], r[1], r[2], r[3]]})).unwrap();
            prims += 1;
        }
        writeln!(out, "{}", json!({"k":"end"})).unwrap();
    }
    println!("{}", json!({"kind":"summary","files":files,"primitives":prims}));
    0
}

const ALPHABET: [&str; 30] = ["x", "0", "1.5", "\"s\"", "'c'", "(", ")", "{", "}", "[", "]", ",", ";", ":", "::", ".", "=", "=>", "->", "|", "&&", "<", ">", "-", "!",
    "fn", "let", "if", "match", "// c\n"];
const KEYWORDS: [&str; 24] = ["class", "struct", "enum", "trait", "impl", "use", "mod", "const", "return", "while", "for", "in", "else", "self", "Self", "true", "as", "is", "pub", "static", "mut", "type", "where", "@pub"];
const CONTEXTS: [(&str, &str); 8] = [("", ""), ("fn f() { ", " }"), ("fn f(x: ", ") {}"), ("fn f() { match x { ", " => 1 } }"), ("class C { ", " }"), ("impl ", " {}"), ("use ", ";"), ("let g: ", " = 1;")];

/// vh soup <max-len> <seed> <sample-per-length-for-longer>
pub fn soup(args: &[String]) -> i32 {
    let maxlen: usize = args[0].parse().unwrap();
    std::panic::set_hook(Box::new(|_| {}));
    let mut alpha: Vec<&str> = ALPHABET.to_vec();
    alpha.extend(KEYWORDS.iter());
    let (mut n, mut bad) = (0usize, 0usize);
    let mut classes: std::collections::BTreeMap<String, (usize, String)> = std::collections::BTreeMap::new();
    let mut idxs = vec![0usize; 1];
    for len in 1..=maxlen {
        idxs = vec![0usize; len];
        loop {
            let body: Vec<&str> = idxs.iter().map(|i| alpha[*i]).collect();
            // separators: one blank, or line breaks of the three styles mixed inside one text (rotating start)
            const BREAKS: [&str; 3] = ["\n", "\r\n", "\r"];
            let mut mixed = String::new();
            for (k, t) in body.iter().enumerate() { mixed.push_str(BREAKS[(n / 16 + k) % 3]); mixed.push_str(t); }
            mixed.push_str(BREAKS[(n / 16 + body.len()) % 3]);
            let body = body.join(" ");
            for (pre, post, b) in CONTEXTS.iter().flat_map(|(pre, post)| [(pre, post, &body), (pre, post, &mixed)]) {
                let text = format!("{}{}{}", pre, b, post);
                let v = parse_one(&text, false);
                n += 1;
                let key = if let Some(p) = v.get("panic") { Some(format!("panic: {}", p.as_str().unwrap_or("").chars().take(120).collect::<String>())) }
                          else if !v["problems"].as_array().unwrap().is_empty() { Some(format!("tree: {}", v["problems"][0])) } else { None };
                if let Some(k) = key { bad += 1; let e = classes.entry(k).or_insert((0, text.clone())); e.0 += 1; }
            }
            // next index vector
            let mut p = len;
            loop {
                if p == 0 { break; }
                p -= 1;
                idxs[p] += 1;
                if idxs[p] < alpha.len() { break; }
                idxs[p] = 0;
                if p == 0 { p = usize::MAX; break; }
            }
            if p == usize::MAX { break; }
        }
    }
    for (k, (cnt, ex)) in classes.iter() { println!("{}", json!({"kind":"class","what":k,"count":cnt,"example":ex})); }
    println!("{}", json!({"kind":"summary","inputs":n,"failing":bad,"classes":classes.len(),"alphabet":alpha.len()}));
    let _ = idxs;
    0
}
