//! C19: dora-symbol's mangle_name / demangle_name / mangle_name_with_max_len compared with spec/codec/Mangle.tla
//! rows (exhaustive small scope), plus the cap laws on long names with long common prefixes.
use dora_symbol::{demangle_name, mangle_name, mangle_name_with_max_len};
use serde_json::{Value, json};
use std::collections::HashMap;

fn bytes(v: &Value) -> Vec<u8> { v.as_array().unwrap().iter().map(|x| x.as_i64().unwrap() as u8).collect() }

/// vh mangle <rows-file> <seed>
pub fn run(args: &[String]) -> i32 {
    let text = std::fs::read_to_string(&args[0]).expect("rows");
    let seed: u64 = args.get(1).map(|s| s.parse().unwrap()).unwrap_or(1);
    std::panic::set_hook(Box::new(|_| {}));
    let (mut names, mut skipped, mut syms) = (0usize, 0usize, 0usize);
    let mut bad: Vec<Value> = Vec::new();
    let mut seen: HashMap<String, String> = HashMap::new();
    for line in text.lines() {
        if !line.starts_with("\"{") { continue; }
        let inner: String = serde_json::from_str(line).unwrap();
        let row: Value = serde_json::from_str(&inner).unwrap();
        if row.get("s").is_some() {
            let s = bytes(&row["s"]);
            let Ok(name) = String::from_utf8(s) else { skipped += 1; continue };
            names += 1;
            let exp = String::from_utf8(bytes(&row["m"])).unwrap();
            let n2 = name.clone();
            match std::panic::catch_unwind(move || (mangle_name(&n2), demangle_name(&mangle_name(&n2)))) {
                Err(_) => bad.push(json!({"what":"panic","name":name})),
                Ok((m, d)) => {
                    if m != exp { bad.push(json!({"what":"mangle","name":name,"impl":m,"spec":exp})); }
                    if d.as_deref() != Some(name.as_str()) { bad.push(json!({"what":"round_trip","name":name,"mangled":m,"demangled":d})); }
                    if let Some(other) = seen.insert(m.clone(), name.clone()) { if other != name { bad.push(json!({"what":"collision","a":other,"b":name,"symbol":m})); } }
                }
            }
        } else {
            let y = String::from_utf8(bytes(&row["y"])).unwrap();
            syms += 1;
            let d = &row["d"];
            let exp: Option<String> = if d.as_array().map(|a| a.len() == 1 && a[0].as_i64() == Some(-1)).unwrap_or(false) { None } else { String::from_utf8(bytes(d)).ok() };
            let y2 = y.clone();
            match std::panic::catch_unwind(move || demangle_name(&y2)) {
                Err(_) => bad.push(json!({"what":"panic_demangle","symbol":y})),
                Ok(got) => if got != exp { bad.push(json!({"what":"demangle","symbol":y,"impl":got,"spec":exp})); }
            }
        }
        if bad.len() > 50 { break; }
    }
    // cap laws on long names (the hash value itself is outside the TLA+ model: shape, determinism, distinctness)
    let mut capped = 0usize;
    let mut x = seed.wrapping_mul(0x9E3779B97F4A7C15) | 1;
    let mut next = || { x ^= x << 13; x ^= x >> 7; x ^= x << 17; x };
    for &max in &[34usize, 35, 36, 40, 64, 200] {
        let mut out: HashMap<String, String> = HashMap::new();
        for plen in [0usize, 1, max / 3, max - 34, max - 6, max - 5, max, 280] {
            let prefix: String = std::iter::repeat("std::collections::HashMap[Int64, ".chars()).flatten().take(plen).collect();
            for k in 0..60 {
                let tail = match k % 4 { 0 => format!("{}", next() % 1000), 1 => format!("::f{}[é€]", next() % 50), 2 => format!("_{}", k), _ => format!("]#g{}", next() % 7) };
                let name = format!("{}{}", prefix, tail);
                let full = mangle_name(&name);
                let n2 = name.clone();
                let r = std::panic::catch_unwind(move || (mangle_name_with_max_len(&n2, max), mangle_name_with_max_len(&n2, max)));
                let Ok((c, c2)) = r else { bad.push(json!({"what":"panic_cap","name":name,"max":max})); continue };
                capped += 1;
                if c != c2 { bad.push(json!({"what":"cap_nondeterministic","name":name})); }
                if c.len() > max { bad.push(json!({"what":"cap_too_long","name":name,"max":max,"len":c.len()})); }
                if !c.bytes().all(|b| b.is_ascii_alphanumeric() || b == b'_') { bad.push(json!({"what":"cap_charset","name":name,"symbol":c})); }
                if full.len() <= max {
                    if c != full { bad.push(json!({"what":"cap_changed_short_symbol","name":name,"max":max})); }
                    if demangle_name(&c).as_deref() != Some(name.as_str()) { bad.push(json!({"what":"cap_unshortened_does_not_demangle","name":name})); }
                } else {
                    let ok_shape = c.len() == max && c[..max - 34] == full[..max - 34] && &c[max - 34..max - 32] == "_H"
                        && c[max - 32..].bytes().all(|b| b.is_ascii_digit() || (b'A'..=b'F').contains(&b));
                    if !ok_shape { bad.push(json!({"what":"cap_shape","name":name,"max":max,"symbol":c})); }
                }
                if let Some(other) = out.insert(c.clone(), name.clone()) { if other != name { bad.push(json!({"what":"cap_collision","a":other,"b":name,"symbol":c,"max":max})); } }
            }
        }
    }
    for b in bad.iter().take(20) { println!("{}", json!({"kind":"mismatch","case":b})); }
    println!("{}", json!({"kind":"summary","names":names,"invalid_utf8_skipped":skipped,"symbols":syms,"capped":capped,"mismatches":bad.len()}));
    0
}
