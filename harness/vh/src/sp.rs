//! C04: the real stop-the-world protocol (safepoint.rs / threads.rs) driven in-process by plain Rust
//! threads registered with a real Runtime (empty program, zero collector):
//!  sp-replay: TLC behaviours of Safepoint.tla stepped through the real code, projected state compared
//!  sp-random: seeded random scheduler over the real code's gates with the P predicates (AbstractStw)
use dora_compiler::ThreadState;
use dora_frontend::sema::{Sema, SemaCreationParams};
use dora_runtime::verif::{At, StepErr, ctl, finished, gate, install, reset, set_tid};
use dora_runtime::verif_api::*;
use dora_runtime::{CollectorName, MemSize, Runtime, RuntimeFlags, set_runtime};
use rand::rngs::StdRng;
use rand::{Rng, SeedableRng};
use std::sync::atomic::{AtomicBool, Ordering};
use std::sync::{Arc, Mutex};
use std::time::Duration;

const MAXT: usize = 8;
static MUT: [AtomicBool; MAXT] = [const { AtomicBool::new(false) }; MAXT];
static VIOL: AtomicBool = AtomicBool::new(false);
static PANICKED: AtomicBool = AtomicBool::new(false);

fn st(s: u8) -> &'static str {
    match s { 0 => "R", 1 => "P", 2 => "SR", 3 => "PSR", 4 => "S", _ => "?" }
}
type Slots = Arc<Vec<Mutex<Option<Arc<DoraThread>>>>>;

fn worker(rt: &'static Runtime, me: usize, threads: Slots) {
    set_tid(me);
    let th = current_thread();
    loop {
        let d = gate("idle").expect("directive");
        match d.as_str() {
            "mut_on" => MUT[me].store(true, Ordering::SeqCst),
            "mut_off" => MUT[me].store(false, Ordering::SeqCst),
            "poll" => { if th.tld.state.load(Ordering::SeqCst) != 0 { safepoint_slow(); } }
            "native" => parked_scope(|| { gate("native_body"); }),
            "stw" => stop_the_world(rt, |_ts| {
                // the property's own observation point: inside the real closure nobody else mutates
                for o in 0..MAXT { if o != me && MUT[o].load(Ordering::SeqCst) { VIOL.store(true, Ordering::SeqCst); } }
            }),
            s if s.starts_with("spawn") => {
                let c: usize = s[5..].parse().unwrap();
                let child = DoraThread::new(rt, ThreadState::Parked);
                *threads[c].lock().unwrap() = Some(child.clone());
                let tv = threads.clone();
                // the OS thread exists before registration but cannot move before it is granted
                std::thread::spawn(move || {
                    set_tid(c);
                    let r = std::panic::catch_unwind(std::panic::AssertUnwindSafe(|| {
                        let me_thread = tv[c].lock().unwrap().clone().unwrap();
                        let th = init_current_thread(me_thread);
                        th.unpark(rt);
                        worker(rt, c, tv);
                    }));
                    if r.is_err() { PANICKED.store(true, Ordering::SeqCst); finished(); }
                });
                rt.threads.add_thread(child);
            }
            "exit" => { rt.threads.remove_current_thread(); finished(); return; }
            other => panic!("bad directive {}", other),
        }
    }
}

#[derive(serde::Deserialize)]
struct Ev { t: usize, a: String, ts: Vec<String>, armed: bool, stopped: usize, rt: String, #[allow(dead_code)] reg: Vec<usize> }

fn site(a: &str) -> (&'static str, Option<&'static str>) {
    match a {
        "mut_on" => ("idle", Some("mut_on")), "mut_off" => ("idle", Some("mut_off")), "poll" => ("idle", Some("poll")),
        "native" => ("idle", Some("native")), "stw" => ("idle", Some("stw")), "spawn" => ("idle", Some("spawn")), "exit" => ("idle", Some("exit")),
        "native_body" => ("native_body", None),
        "park" => ("park.cas", None), "park_slow" => ("park_slow.cas", None), "unpark" => ("unpark.cas", None), "unpark_slow" => ("unpark_slow.cas", None),
        "slow_swap" => ("slow.swap", None), "request" => ("stw.request", None), "resume" => ("stw.resume", None),
        "op_begin" => ("op.begin", None), "op_end" => ("op.end", None),
        "notify_park" | "unpark_wait" | "sp_enter" | "stw_lock" | "arm" | "stw_wait" | "disarm" | "spawn_lock" | "exit_lock" => ("lock", None),
        "sp_wake" | "unpark_wake" | "stw_wake" => ("cv_wake", None),
        _ => panic!("unknown action {}", a),
    }
}

fn make_runtime() -> &'static Runtime {
    let mut sa = Sema::new(SemaCreationParams::new().set_program_content("fn main() {}"));
    assert!(dora_frontend::check_program(&mut sa));
    let prog = dora_frontend::emit_program(sa);
    let flags = RuntimeFlags { gc_stress: false, gc_stress_minor: false, gc_stats: false, gc_verbose: false, gc_verify: false, gc_worker: 1,
        gc_young_size: None, gc: Some(CollectorName::Zero), min_heap_size: None, max_heap_size: Some(MemSize(16 << 20)), readonly_size: None,
        disable_tlab: true, snapshot_on_oom: None };
    let mut rt = Runtime::new(prog, flags, vec![]);
    let dummy: Box<[u64; 64]> = Box::new([0; 64]);
    rt.set_shape_space((Box::leak(dummy) as *const _ as usize).into(), 512);
    let rt: &'static Runtime = Box::leak(rt);
    set_runtime(rt);
    rt
}

struct Run { n: usize, threads: Slots, next_child: usize, ops: Vec<i64>, muts: Vec<bool>, registered: Vec<bool>, pending: Vec<Option<usize>> }
impl Run {
    /// bookkeeping for the scheduler: a child may move only after its parent's add_thread critical section
    fn note(&mut self, rt: &Runtime, t: usize, dir: &Option<String>) {
        if let Some(d) = dir { if d.starts_with("spawn") { self.pending[t] = Some(d[5..].parse().unwrap()); } }
        if ctl().positions()[t] == At::Lock(rt.threads.threads.verif_id()) {
            if let Some(c) = self.pending[t].take() { self.registered[c] = true; }
        }
    }
}

fn start(rt: &'static Runtime, n: usize, k: i64) -> Run {
    reset(n);
    for m in MUT.iter() { m.store(false, Ordering::SeqCst); }
    VIOL.store(false, Ordering::SeqCst);
    PANICKED.store(false, Ordering::SeqCst);
    let threads: Slots = Arc::new((0..n).map(|_| Mutex::new(None)).collect());
    let tv = threads.clone();
    std::thread::spawn(move || {
        let r = std::panic::catch_unwind(std::panic::AssertUnwindSafe(|| {
            let main = DoraThread::new(rt, ThreadState::Running);
            init_current_thread(main.clone());
            rt.threads.add_main_thread(main.clone());
            set_tid(0);
            *tv[0].lock().unwrap() = Some(main);
            worker(rt, 0, tv);
        }));
        if r.is_err() { PANICKED.store(true, Ordering::SeqCst); finished(); }
    });
    let t0 = std::time::Instant::now();
    while threads[0].lock().unwrap().is_none() && t0.elapsed() < Duration::from_secs(5) { std::thread::yield_now(); }
    let mut registered = vec![false; n]; registered[0] = true;
    Run { n, threads, next_child: 1, ops: vec![k; n], muts: vec![false; n], registered, pending: vec![None; n] }
}

fn born(run: &Run, t: usize) -> bool { run.threads[t].lock().unwrap().is_some() }

/// P-level predicates (AbstractStw) on the implementation's own state
fn p_check(rt: &Runtime, run: &Run) -> Option<String> {
    if VIOL.load(Ordering::SeqCst) { return Some("a thread was mutating inside the stop-the-world closure".into()); }
    if PANICKED.load(Ordering::SeqCst) { return Some("panic (assertion) in the code under test".into()); }
    if rt.state() == RuntimeState::Safepoint {
        let muts: Vec<usize> = (0..run.n).filter(|t| MUT[*t].load(Ordering::SeqCst)).collect();
        if !muts.is_empty() { return Some(format!("runtime is in Safepoint state while threads {:?} are mutating", muts)); }
    }
    None
}

/// a thread that is born and not done must park somewhere within the time limit
fn settle(run: &Run, tmo: Duration) -> Result<(), String> {
    for t in 0..run.n {
        if born(run, t) { ctl().wait_parked(t, tmo).map_err(|e| format!("hang: {:?}", e))?; }
    }
    Ok(())
}
fn all_done(run: &Run) -> bool {
    let pos = ctl().positions();
    (0..run.n).all(|t| !born(run, t) || pos[t] == At::Done)
}

fn random_walk(rt: &'static Runtime, run: &mut Run, rng: &mut StdRng, tmo: Duration, sched: &mut Vec<String>) -> Result<usize, String> {
    let mut steps = 0;
    loop {
        settle(run, tmo)?;
        if let Some(m) = p_check(rt, run) { return Err(m); }
        if all_done(run) { return Ok(steps); }
        let g: Vec<_> = ctl().grantable().into_iter().filter(|(t, _)| *t < run.n && born(run, *t) && run.registered[*t]).collect();
        if g.is_empty() { return Err(format!("deadlock: no thread can proceed, positions {:?}", ctl().positions())); }
        let (t, at) = g[rng.random_range(0..g.len())].clone();
        let dir = if at.site() == "idle" {
            let state = run.threads[t].lock().unwrap().as_ref().unwrap().tld.state.load(Ordering::SeqCst);
            Some(if run.muts[t] { run.muts[t] = false; "mut_off".to_string() }
            else if state != 0 && rng.random_bool(0.7) { "poll".to_string() }
            else if run.ops[t] <= 0 { if state != 0 { "poll".to_string() } else { "exit".to_string() } }
            else {
                run.ops[t] -= 1;
                match rng.random_range(0..10) {
                    0 | 1 | 2 => { run.muts[t] = true; "mut_on".to_string() }
                    3 | 4 => "native".to_string(),
                    5 | 6 | 7 => "stw".to_string(),
                    _ => if run.next_child < run.n { let c = run.next_child; run.next_child += 1; format!("spawn{}", c) } else { "stw".to_string() },
                }
            })
        } else { None };
        sched.push(format!("{} {} {}", t + 1, at.site(), dir.clone().unwrap_or_default()));
        run.note(rt, t, &dir);
        match ctl().grant(t, at.site(), dir, tmo) {
            Ok(_) => {}
            Err(StepErr::Timeout(m)) => return Err(format!("hang after grant: {}", m)),
            Err(StepErr::WrongSite(m)) => return Err(format!("scheduler error: {}", m)),
        }
        steps += 1;
        if steps > 200000 { return Err("livelock: 200000 steps".into()); }
    }
}

fn compare(rt: &Runtime, run: &Run, ev: &Ev) -> Option<String> {
    for k in 0..run.n {
        let model = ev.ts[k].as_str();
        let imp = run.threads[k].lock().unwrap().as_ref().map(|t| st(t.tld.state.load(Ordering::SeqCst))).unwrap_or("none");
        if model == "none" { continue; }
        if imp != model { return Some(format!("thread {} state: impl {} model {}", k + 1, imp, model)); }
    }
    let (armed, stopped) = rt.threads.barrier.verif_state();
    let rts = if rt.state() == RuntimeState::Safepoint { "sp" } else { "run" };
    if armed != ev.armed || (armed && stopped != ev.stopped) || rts != ev.rt {
        return Some(format!("barrier/runtime: impl {:?} {} model {:?} {}", (armed, stopped), rts, (ev.armed, ev.stopped), ev.rt));
    }
    // the list lock is held across gates by an initiator; only look when it is free
    if let Some(l) = rt.threads.threads.inner_try_lock() {
        if l.len() != ev.reg.len() { return Some(format!("thread list length: impl {} model {}", l.len(), ev.reg.len())); }
    }
    None
}

/// vh sp-replay <behaviours.ndjson> <n> <k> <seed>
pub fn replay(args: &[String]) -> i32 {
    let text = std::fs::read_to_string(&args[0]).expect("behaviours file");
    let n: usize = args[1].parse().unwrap();
    let k: i64 = args[2].parse().unwrap();
    let seed: u64 = args[3].parse().unwrap();
    std::panic::set_hook(Box::new(|_| {}));
    install(n);
    let rt = make_runtime();
    let tmo = Duration::from_secs(5);
    let mut rng = StdRng::seed_from_u64(seed);
    let (mut steps, mut ok, mut drift, mut viol) = (0usize, 0usize, 0usize, 0usize);
    'outer: for (bi, line) in text.lines().enumerate() {
        let evs: Vec<Ev> = serde_json::from_str(line).unwrap();
        let mut run = start(rt, n, k);
        let mut sched: Vec<String> = Vec::new();
        let mut diverged: Option<String> = None;
        for (i, ev) in evs.iter().enumerate() {
            let t = ev.t - 1;
            let (s, d) = site(&ev.a);
            let dir = match ev.a.as_str() {
                "spawn" => { let c = run.next_child; run.next_child += 1; run.ops[t] -= 1; Some(format!("spawn{}", c)) }
                "mut_on" => { run.muts[t] = true; run.ops[t] -= 1; d.map(|x| x.to_string()) }
                "mut_off" => { run.muts[t] = false; d.map(|x| x.to_string()) }
                "native" | "stw" => { run.ops[t] -= 1; d.map(|x| x.to_string()) }
                _ => d.map(|x| x.to_string()),
            };
            sched.push(format!("{} {} {}", ev.t, s, dir.clone().unwrap_or_default()));
            run.note(rt, t, &dir);
            if let Err(e) = ctl().grant(t, s, dir, tmo) { diverged = Some(format!("step {} (t{} {}): {:?}", i, ev.t, ev.a, e)); }
            if let Some(m) = p_check(rt, &run) {
                println!("{}", serde_json::json!({"kind":"violation","behaviour":bi,"step":i,"msg":m,"schedule":sched}));
                viol += 1; break 'outer;
            }
            if diverged.is_none() { diverged = compare(rt, &run, ev).map(|m| format!("step {} (t{} {}): {}", i, ev.t, ev.a, m)); }
            if diverged.is_some() { break; }
            steps += 1;
        }
        if diverged.is_none() {
            if let Err(m) = settle(&run, tmo) { diverged = Some(m); }
            else if !all_done(&run) { diverged = Some(format!("threads not done at the end of the behaviour: {:?}", ctl().positions())); }
        }
        match diverged {
            None => ok += 1,
            Some(m) => {
                drift += 1;
                println!("{}", serde_json::json!({"kind":"drift","behaviour":bi,"msg":m}));
                // adjudication: keep exploring the real code with the P predicates
                for o in run.ops.iter_mut() { if *o < 0 { *o = 0; } }
                match random_walk(rt, &mut run, &mut rng, tmo, &mut sched) {
                    Ok(_) => {}
                    Err(m) => { println!("{}", serde_json::json!({"kind":"violation","behaviour":bi,"msg":m,"schedule":sched})); viol += 1; break 'outer; }
                }
            }
        }
    }
    println!("{}", serde_json::json!({"kind":"summary","behaviours_ok":ok,"steps":steps,"drift":drift,"violations":viol}));
    std::process::exit(0);
}

/// vh sp-random <n> <k> <seed> <runs>
pub fn random(args: &[String]) -> i32 {
    let n: usize = args[0].parse().unwrap();
    let k: i64 = args[1].parse().unwrap();
    let seed: u64 = args[2].parse().unwrap();
    let runs: usize = args[3].parse().unwrap();
    std::panic::set_hook(Box::new(|_| {}));
    install(n);
    let rt = make_runtime();
    let tmo = Duration::from_secs(5);
    let mut rng = StdRng::seed_from_u64(seed);
    let (mut steps, mut ok, mut viol) = (0usize, 0usize, 0usize);
    let mut distinct = std::collections::HashSet::new();
    for r in 0..runs {
        let mut run = start(rt, n, k);
        let mut sched = Vec::new();
        match random_walk(rt, &mut run, &mut rng, tmo, &mut sched) {
            Ok(s) => { steps += s; ok += 1; distinct.insert(sched.join(";")); }
            Err(m) => { println!("{}", serde_json::json!({"kind":"violation","run":r,"msg":m,"schedule":sched})); viol += 1; break; }
        }
    }
    println!("{}", serde_json::json!({"kind":"summary","runs_ok":ok,"steps":steps,"distinct":distinct.len(),"violations":viol}));
    std::process::exit(0);
}
