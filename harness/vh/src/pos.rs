//! C20: the real line-start table and UTF-8 <-> UTF-16 conversions compared with the expected tables
//! computed by spec/codec/Position.tla (one row per text).
#[path = "/repo/dora-language-server/src/position.rs"]
#[allow(dead_code)]
mod position;
use lsp_types::Position;
use serde_json::{Value, json};

/// Each abstract character class stands for every code point with that (UTF-8 length, UTF-16 length); the
/// harness instantiates it with the boundary code points of the class (first/last of each encoding range and
/// of each lead byte that matters), one variant per choice, so the abstraction is not trusted blindly.
const A: [&str; 3] = ["a", "\u{7f}", " "];
const E2: [&str; 3] = ["\u{e9}", "\u{80}", "\u{7ff}"];
const E3: [&str; 5] = ["\u{20ac}", "\u{800}", "\u{ffff}", "\u{d7ff}", "\u{e000}"];
const E4: [&str; 5] = ["\u{1f600}", "\u{10000}", "\u{10ffff}", "\u{100000}", "\u{fffff}"];
const VARIANTS: usize = 5;

fn text_of(row: &Value, variant: usize) -> String {
    let mut s = String::new();
    for (i, c) in row["text"].as_array().unwrap().iter().enumerate() {
        let v = if variant == 0 { 0 } else { variant + i };
        s.push_str(match c.as_str().unwrap() {
            "a" => A[v % A.len()], "e2" => E2[v % E2.len()], "e3" => E3[v % E3.len()], "e4" => E4[v % E4.len()],
            "cr" => "\r", "lf" => "\n", _ => panic!() });
    }
    s
}

/// vh position <rows-file>   (rows: lines of TLC output `"{...}"`)
pub fn run(args: &[String]) -> i32 {
    let text = std::fs::read_to_string(&args[0]).expect("rows file");
    std::panic::set_hook(Box::new(|_| {}));
    let (mut n, mut texts) = (0usize, 0usize);
    let mut bad: Vec<Value> = Vec::new();
    for line in text.lines() {
        if !line.starts_with("\"{") { continue; }
        let inner: String = serde_json::from_str(line).unwrap();
        let row: Value = serde_json::from_str(&inner).unwrap();
        texts += 1;
        for variant in 0..VARIANTS {
        let s = text_of(&row, variant);
        let row = &row;
        let r = std::panic::catch_unwind(move || {
            let mut bad: Vec<Value> = Vec::new();
            let mut n = 0usize;
            let ls = dora_parser::compute_line_starts(&s);
            let exp_starts: Vec<u64> = { let o = row["starts"].as_object().unwrap(); (0..o.len()).map(|i| o[&i.to_string()].as_u64().unwrap()).collect() };
            n += 1;
            if ls.iter().map(|x| *x as u64).collect::<Vec<_>>() != exp_starts { bad.push(json!({"what":"line_starts","text":s,"impl":ls,"spec":exp_starts})); return (n, bad); }
            for (_k, v) in row["pos"].as_object().unwrap() {
                let off = v[0].as_u64().unwrap() as u32;
                let p = position::utf8_offset_to_utf16_position(&s, &ls, off);
                n += 1;
                if (p.line as u64, p.character as u64) != (v[1].as_u64().unwrap(), v[2].as_u64().unwrap()) {
                    bad.push(json!({"what":"offset_to_position","text":s,"offset":off,"impl":[p.line,p.character],"spec":[v[1],v[2]]}));
                }
                // the property's own statement on the implementation: round trip on every boundary
                let back = position::utf16_position_to_utf8_offset(&s, &ls, p);
                n += 1;
                if back != off { bad.push(json!({"what":"round_trip","text":s,"offset":off,"position":[p.line,p.character],"back":back})); }
            }
            for (l, cols) in row["off"].as_object().unwrap() {
                for (c, exp) in cols.as_object().unwrap() {
                    let got = position::utf16_position_to_utf8_offset(&s, &ls, Position::new(l.parse().unwrap(), c.parse().unwrap()));
                    n += 1;
                    if got as u64 != exp.as_u64().unwrap() { bad.push(json!({"what":"position_to_offset","text":s,"line":l,"col":c,"impl":got,"spec":exp})); }
                    if got as usize > s.len() || !s.is_char_boundary(got as usize) { bad.push(json!({"what":"not_clamped_into_document","text":s,"line":l,"col":c,"impl":got})); }
                }
            }
            (n, bad)
        });
        match r {
            Ok((k, b)) => { n += k; bad.extend(b); }
            Err(_) => bad.push(json!({"what":"panic","text":text_of(&row, variant)})),
        }
        }
        if bad.len() > 50 { break; }
    }
    for b in bad.iter().take(20) { println!("{}", json!({"kind":"mismatch","case":b})); }
    println!("{}", json!({"kind":"summary","texts":texts,"compared":n,"mismatches":bad.len()}));
    0
}
