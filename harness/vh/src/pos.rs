//! C20: the real line-start table and UTF-8 <-> UTF-16 conversions compared with the expected tables
//! computed by spec/codec/Position.tla (one row per text).
#[path = "/repo/dora-language-server/src/position.rs"]
#[allow(dead_code)]
mod position;
use lsp_types::Position;
use serde_json::{Value, json};

fn text_of(row: &Value) -> String {
    let mut s = String::new();
    for c in row["text"].as_array().unwrap() {
        s.push_str(match c.as_str().unwrap() { "a" => "a", "e2" => "\u{e9}", "e3" => "\u{20ac}", "e4" => "\u{1f600}", "cr" => "\r", "lf" => "\n", _ => panic!() });
    }
    s
}

/// vh position <rows-file>   (rows: lines of TLC output `"{...}"`)
pub fn run(args: &[String]) -> i32 {
    let text = std::fs::read_to_string(&args[0]).expect("rows file");
    std::panic::set_hook(Box::new(|_| {}));
    let (mut n, mut texts) = (0usize, 0usize);
    let mut bad: Vec<Value> = Vec::new();
    for line in text.lines() {
        if !line.starts_with("\"{") { continue; }
        let inner: String = serde_json::from_str(line).unwrap();
        let row: Value = serde_json::from_str(&inner).unwrap();
        let s = text_of(&row);
        texts += 1;
        let r = std::panic::catch_unwind(|| {
            let mut bad: Vec<Value> = Vec::new();
            let mut n = 0usize;
            let ls = dora_parser::compute_line_starts(&s);
            let exp_starts: Vec<u64> = { let o = row["starts"].as_object().unwrap(); (0..o.len()).map(|i| o[&i.to_string()].as_u64().unwrap()).collect() };
            n += 1;
            if ls.iter().map(|x| *x as u64).collect::<Vec<_>>() != exp_starts { bad.push(json!({"what":"line_starts","text":s,"impl":ls,"spec":exp_starts})); return (n, bad); }
            for (_k, v) in row["pos"].as_object().unwrap() {
                let off = v[0].as_u64().unwrap() as u32;
                let p = position::utf8_offset_to_utf16_position(&s, &ls, off);
                n += 1;
                if (p.line as u64, p.character as u64) != (v[1].as_u64().unwrap(), v[2].as_u64().unwrap()) {
                    bad.push(json!({"what":"offset_to_position","text":s,"offset":off,"impl":[p.line,p.character],"spec":[v[1],v[2]]}));
                }
                // the property's own statement on the implementation: round trip on every boundary
                let back = position::utf16_position_to_utf8_offset(&s, &ls, p);
                n += 1;
                if back != off { bad.push(json!({"what":"round_trip","text":s,"offset":off,"position":[p.line,p.character],"back":back})); }
            }
            for (l, cols) in row["off"].as_object().unwrap() {
                for (c, exp) in cols.as_object().unwrap() {
                    let got = position::utf16_position_to_utf8_offset(&s, &ls, Position::new(l.parse().unwrap(), c.parse().unwrap()));
                    n += 1;
                    if got as u64 != exp.as_u64().unwrap() { bad.push(json!({"what":"position_to_offset","text":s,"line":l,"col":c,"impl":got,"spec":exp})); }
                    if got as usize > s.len() || !s.is_char_boundary(got as usize) { bad.push(json!({"what":"not_clamped_into_document","text":s,"line":l,"col":c,"impl":got})); }
                }
            }
            (n, bad)
        });
        match r {
            Ok((k, b)) => { n += k; bad.extend(b); }
            Err(_) => bad.push(json!({"what":"panic","text":text_of(&row)})),
        }
        if bad.len() > 50 { break; }
    }
    for b in bad.iter().take(20) { println!("{}", json!({"kind":"mismatch","case":b})); }
    println!("{}", json!({"kind":"summary","texts":texts,"compared":n,"mismatches":bad.len()}));
    0
}
