//! C08 harness: recorder and label-program replayer for the real `dora_asm::arm64::AssemblerArm64`.
//!
//!   va64 methods
//!       names + operand signatures of the instruction methods the recorder drives (one per line: "name sig")
//!   va64 record <out.ndjson> <seed> <quick|thorough|N>
//!       calls every instruction method over all register numbers per operand (0..30, zr, sp as the API
//!       exposes them; 0..31 for vector registers), every Extend/Shift/Cond value, boundary and seeded
//!       random immediates (encodable and not). One NDJSON record per call:
//!         {"m":method,"r":[registers in parameter order],"i":[immediates in parameter order],"x":"name",
//!          "ok":true,"w":[[hi16,lo16],..]}      or      ..."ok":false,"w":[]   when the assembler panics
//!       registers: 0..30, 31 = REG_ZERO, 32 = REG_SP; vector registers 0..31.
//!       immediates: i32 -> JSON integer; u32 -> [hi16,lo16]; u64/i64 -> [h3,h2,h1,h0] (16-bit limbs,
//!       most significant first, two's complement). "x": Extend / Shift / Cond variant name or "".
//!   va64 labels <programs.ndjson> <out.ndjson>
//!       replays label programs {"id":n,"nl":k,"prog":[["Pad",n],["Bind",l],["B",l],["BCond",cc,l],
//!       ["Cbz",variant,r,l],["Tbz",variant,r,bit,l],["Adr",r,l]]} and writes
//!       {"id":n,"ok":true,"sites":[[byte_pos,[[hi,lo],..]],..],"labs":[byte position of every label],"len":bytes}
//!       (one site per non-Pad, non-Bind item)
//!       or {"id":n,"ok":false}
//!
//! A panic (assert) of the code under test is data ("refused"), never a harness failure.
use dora_asm::Label;
use dora_asm::arm64::*;
use std::io::{BufRead, BufWriter, Write};
use std::panic::{AssertUnwindSafe, catch_unwind};

type Asm = AssemblerArm64;

#[derive(Clone, Copy, Debug, PartialEq)]
enum Imm {
    I32(i32),
    U32(u32),
    U64(u64),
    I64(i64),
}

#[derive(Clone, Debug)]
struct Ops {
    r: Vec<u8>,
    i: Vec<Imm>,
    x: u8,
}

impl Ops {
    fn g(&self, k: usize) -> Register {
        match self.r[k] {
            31 => REG_ZERO,
            32 => REG_SP,
            v => Register::new(v),
        }
    }
    fn v(&self, k: usize) -> NeonRegister {
        NeonRegister::new(self.r[k])
    }
    fn u(&self, k: usize) -> u32 {
        match self.i[k] {
            Imm::U32(v) => v,
            _ => unreachable!(),
        }
    }
    fn s(&self, k: usize) -> i32 {
        match self.i[k] {
            Imm::I32(v) => v,
            _ => unreachable!(),
        }
    }
    fn uu(&self, k: usize) -> u64 {
        match self.i[k] {
            Imm::U64(v) => v,
            _ => unreachable!(),
        }
    }
    fn ss(&self, k: usize) -> i64 {
        match self.i[k] {
            Imm::I64(v) => v,
            _ => unreachable!(),
        }
    }
    fn mem(&self, rk: usize, ik: usize) -> MemOperand {
        MemOperand::new(self.g(rk), self.ss(ik))
    }
    fn ext(&self) -> Extend {
        EXTENDS[self.x as usize].1
    }
    fn sh(&self) -> Shift {
        SHIFTS[self.x as usize].1
    }
    fn cc(&self) -> Cond {
        CONDS[self.x as usize].1
    }
}

const EXTENDS: [(&str, Extend); 9] = [
    ("UXTB", Extend::UXTB),
    ("UXTH", Extend::UXTH),
    ("LSL", Extend::LSL),
    ("UXTW", Extend::UXTW),
    ("UXTX", Extend::UXTX),
    ("SXTB", Extend::SXTB),
    ("SXTH", Extend::SXTH),
    ("SXTW", Extend::SXTW),
    ("SXTX", Extend::SXTX),
];
const SHIFTS: [(&str, Shift); 4] = [("LSL", Shift::LSL), ("LSR", Shift::LSR), ("ASR", Shift::ASR), ("ROR", Shift::ROR)];
const CONDS: [(&str, Cond); 16] = [
    ("EQ", Cond::EQ),
    ("NE", Cond::NE),
    ("CS", Cond::CS),
    ("HS", Cond::HS),
    ("CC", Cond::CC),
    ("LO", Cond::LO),
    ("MI", Cond::MI),
    ("PL", Cond::PL),
    ("VS", Cond::VS),
    ("VC", Cond::VC),
    ("HI", Cond::HI),
    ("LS", Cond::LS),
    ("GE", Cond::GE),
    ("LT", Cond::LT),
    ("GT", Cond::GT),
    ("LE", Cond::LE),
];

struct Method {
    name: &'static str,
    /// one char per parameter: G gpr, V vector register, X Extend, S Shift, C Cond, u u32, i i32, U u64, I i64,
    /// M MemOperand (base register + i64 offset)
    sig: &'static str,
    call: Box<dyn Fn(&mut Asm, &Ops)>,
}

macro_rules! def {
    ($t:ident, $sig:expr, [$($n:ident),* $(,)?], |$a:ident, $o:ident| $args:tt) => {
        $( $t.push(Method { name: stringify!($n), sig: $sig,
                            call: Box::new(|$a: &mut Asm, $o: &Ops| { def!(@call $a, $n, $args); }) }); )*
    };
    (@call $a:ident, $n:ident, ($($arg:expr),*)) => { $a.$n($($arg),*) };
}

fn methods() -> Vec<Method> {
    let mut t: Vec<Method> = Vec::new();
    def!(t, "GGG", [add, add_w, adds, adds_w, sub, sub_w, subs, subs_w, asrv, asrv_w, lsl, lsl_w, lsr, lsr_w, ror, ror_w,
                    sdiv, sdiv_w, udiv, udiv_w, mul, mul_w, smull, smulh,
                    cas, cas_w, casa, casa_w, casal, casal_w, casl, casl_w,
                    ldadd, ldadd_w, ldadda, ldadda_w, ldaddal, ldaddal_w, ldaddl, ldaddl_w,
                    swp, swp_w, swpa, swpa_w, swpal, swpal_w, swpl, swpl_w,
                    stxr, stxr_w, stlxr, stlxr_w],
         |a, o| (o.g(0), o.g(1), o.g(2)));
    def!(t, "GGGXu", [add_ext, add_ext_w, sub_ext, sub_ext_w, subs_ext, subs_ext_w,
                      ldrb_reg, ldr_reg, ldrh_reg, ldr_reg_w, str_reg, strb_reg, strh_reg, str_reg_w],
         |a, o| (o.g(0), o.g(1), o.g(2), o.ext(), o.u(0)));
    def!(t, "GGGSu", [add_sh, add_sh_w, adds_sh, adds_sh_w, sub_sh, sub_sh_w, subs_sh, subs_sh_w,
                      and_sh, and_sh_w, ands_sh, ands_sh_w, bic_sh, bic_sh_w, bics_sh, bics_sh_w,
                      eon_sh, eon_sh_w, eor_sh, eor_sh_w, orn_sh, orn_sh_w, orr_sh, orr_sh_w],
         |a, o| (o.g(0), o.g(1), o.g(2), o.sh(), o.u(0)));
    def!(t, "GGu", [add_imm, add_imm_w, adds_imm, adds_imm_w, sub_imm, sub_imm_w, subs_imm, subs_imm_w,
                    lsl_imm, lsl_imm_w, lsr_imm, lsr_imm_w,
                    ldr_imm_x, ldrb_imm, ldrh_imm, ldr_imm_w, str_imm, str_imm_x, strb_imm, strh_imm, str_imm_w],
         |a, o| (o.g(0), o.g(1), o.u(0)));
    def!(t, "GGU", [and_imm, and_imm_w], |a, o| (o.g(0), o.g(1), o.uu(0)));
    def!(t, "Gi", [adr_imm, adrp_imm, cbnz_imm, cbnz_imm_w, cbz_imm, cbz_imm_w, mov_imm_w], |a, o| (o.g(0), o.s(0)));
    def!(t, "GI", [mov_imm], |a, o| (o.g(0), o.ss(0)));
    def!(t, "i", [bl_imm], |a, o| (o.s(0)));
    def!(t, "G", [b_r, bl_r, ret], |a, o| (o.g(0)));
    def!(t, "GGuu", [bfm, bfm_w, sbfm, sbfm_w, ubfm, ubfm_w], |a, o| (o.g(0), o.g(1), o.u(0), o.u(1)));
    def!(t, "u", [brk, dmb], |a, o| (o.u(0)));
    def!(t, "", [dmb_ish, dmb_ishst, nop], |a, _o| ());
    def!(t, "GG", [cls, cls_w, clz, clz_w, rbit, rbit_w, rev, rev_w, cmp, cmp_w,
                   ldar, ldarb, ldarh, ldar_w, ldaxr, ldaxr_w, ldxr, ldxr_w, stlr, stlrb, stlrh, stlr_w,
                   mov, mov_w, sxtw, uxtb, uxtw],
         |a, o| (o.g(0), o.g(1)));
    def!(t, "GGXu", [cmp_ext, cmp_ext_w], |a, o| (o.g(0), o.g(1), o.ext(), o.u(0)));
    def!(t, "Gu", [cmn_imm, cmn_imm_w, cmp_imm, cmp_imm_w], |a, o| (o.g(0), o.u(0)));
    def!(t, "GGSu", [cmp_sh, cmp_sh_w], |a, o| (o.g(0), o.g(1), o.sh(), o.u(0)));
    def!(t, "uuVV", [addv, cnt], |a, o| (o.u(0), o.u(1), o.v(0), o.v(1)));
    def!(t, "GGGC", [csel, csel_w, csinc, csinc_w, csinv, csinv_w], |a, o| (o.g(0), o.g(1), o.g(2), o.cc()));
    def!(t, "GC", [cset, cset_w], |a, o| (o.g(0), o.cc()));
    def!(t, "VVV", [fadd_s, fadd_d, fsub_s, fsub_d, fmul_s, fmul_d, fdiv_s, fdiv_d], |a, o| (o.v(0), o.v(1), o.v(2)));
    def!(t, "VV", [fcmp_d, fcmp_s, fcmpe_d, fcmpe_s, fcvt_ds, fcvt_sd, fmov_d, fmov_s, fabs_d, fabs_s, fneg_d, fneg_s,
                   frintn_d, frintn_s, frintp_d, frintp_s, frintm_d, frintm_s, frintz_d, frintz_s, frinta_d, frinta_s,
                   fsqrt_d, fsqrt_s],
         |a, o| (o.v(0), o.v(1)));
    def!(t, "GV", [fcvtzs_d, fcvtzs_s, fcvtzs_wd, fcvtzs_ws, fmov_sf_d, fmov_sf_s], |a, o| (o.g(0), o.v(1)));
    def!(t, "VG", [fmov_fs_d, fmov_fs_s, scvtf_si_dw, scvtf_si_dx, scvtf_si_sw, scvtf_si_sx], |a, o| (o.v(0), o.g(1)));
    def!(t, "GGGi", [ldp, ldp_w, ldp_post, ldp_post_w, stp, stp_w, stp_post, stp_post_w, stp_pre, stp_pre_w],
         |a, o| (o.g(0), o.g(1), o.g(2), o.s(0)));
    def!(t, "GM", [ldr], |a, o| (o.g(0), o.mem(1, 0)));
    def!(t, "VGu", [ldr_imm_d, ldr_imm_s, str_imm_d, str_imm_s], |a, o| (o.v(0), o.g(1), o.u(0)));
    def!(t, "VGGXu", [ldr_reg_d, ldr_reg_s, str_reg_d, str_reg_s], |a, o| (o.v(0), o.g(1), o.g(2), o.ext(), o.u(0)));
    def!(t, "VMG", [ldr_mem_s, ldr_mem_d, str_mem_s, str_mem_d], |a, o| (o.v(0), o.mem(1, 0), o.g(2)));
    def!(t, "GMG", [ldr_mem_b, ldr_mem_w, ldr_mem_x, str_mem_b, str_mem_w, str_mem_x], |a, o| (o.g(0), o.mem(1, 0), o.g(2)));
    def!(t, "GGi", [ldur, ldurb, ldurh, ldur_w, stur, sturb, sturh, stur_w], |a, o| (o.g(0), o.g(1), o.s(0)));
    def!(t, "VGi", [ldur_d, ldur_s, stur_d, stur_s], |a, o| (o.v(0), o.g(1), o.s(0)));
    def!(t, "GGGG", [madd, madd_w, msub, msub_w, smaddl], |a, o| (o.g(0), o.g(1), o.g(2), o.g(3)));
    def!(t, "Guu", [movn, movn_w, movz, movz_w, movk, movk_w], |a, o| (o.g(0), o.u(0), o.u(1)));
    t
}

/// methods that take a Label; they are exercised by the `labels` sub-command
const LABEL_METHODS: [&str; 10] = ["b", "bc", "cbz", "cbz_w", "cbnz", "cbnz_w", "tbz", "tbnz", "adr_label", "bind_label"];

// ------------------------------------------------------------------------------------------------
// deterministic PRNG (splitmix64)
struct Rng(u64);
impl Rng {
    fn next(&mut self) -> u64 {
        self.0 = self.0.wrapping_add(0x9E3779B97F4A7C15);
        let mut z = self.0;
        z = (z ^ (z >> 30)).wrapping_mul(0xBF58476D1CE4E5B9);
        z = (z ^ (z >> 27)).wrapping_mul(0x94D049BB133111EB);
        z ^ (z >> 31)
    }
    fn below(&mut self, n: u64) -> u64 {
        self.next() % n
    }
    fn chance(&mut self, num: u64, den: u64) -> bool {
        self.below(den) < num
    }
    fn pick<T: Copy>(&mut self, v: &[T]) -> T {
        v[self.below(v.len() as u64) as usize]
    }
}

fn u64_boundaries() -> Vec<u64> {
    let mut v: Vec<u64> = Vec::new();
    for k in 0..64 {
        let p = 1u64 << k;
        v.extend_from_slice(&[p.wrapping_sub(1), p, p.wrapping_add(1)]);
    }
    v.extend_from_slice(&[u64::MAX, u64::MAX - 1, 3, 5, 6, 12, 24, 40, 48, 56, 504, 520, 252, 260, 1020, 1016, 8190, 8192 + 2,
                          16380, 16384 + 4, 32760, 32768 + 8, 0xfff000, 0xffe000, 0xfff001, 0x1001, 0x1fff, 0x2000, 0xffff_0000,
                          0x1234, 0xabcd_0000, 0x0001_0001, 0xffff_ffff_0000, 0xffff_0000_ffff_ffff, 0x0000_ffff_ffff_ffff,
                          0x5555_5555_5555_5555, 0xaaaa_aaaa_aaaa_aaaa, 0x00ff_00ff_00ff_00ff, 0x8000_0000_8000_0000,
                          0x7fff_ffff_7fff_ffff, 0xffff_fffe, 0x1_0000_0001]);
    v.sort();
    v.dedup();
    v
}

fn gen_u64(rng: &mut Rng, bounds: &[u64]) -> u64 {
    let mut v = if rng.chance(1, 2) {
        rng.pick(bounds)
    } else {
        let bits = rng.below(65);
        if bits == 0 { 0 } else { rng.next() >> (64 - bits) }
    };
    if rng.chance(1, 4) {
        v &= !7;
    }
    if rng.chance(1, 12) {
        v &= !0xfff;
    }
    v
}

fn gen_u32(rng: &mut Rng, bounds: &[u64]) -> u32 {
    let b32: u64 = if rng.chance(3, 4) {
        // most fields are narrow: prefer small magnitudes
        let mut v = if rng.chance(1, 2) {
            let cands: Vec<u64> = bounds.iter().copied().filter(|x| *x <= u32::MAX as u64).collect();
            rng.pick(&cands)
        } else {
            let bits = rng.below(33);
            if bits == 0 { 0 } else { (rng.next() >> (64 - bits)) & 0xffff_ffff }
        };
        if rng.chance(1, 4) {
            v &= !7;
        }
        if rng.chance(1, 12) {
            v &= !0xfff;
        }
        v
    } else {
        rng.pick(&[0u64, 1, 2, 3, 4, 5, 7, 8, 12, 15, 16, 24, 31, 32, 33, 48, 63, 64, 65, 4095, 4096, 65535, 65536])
    };
    b32 as u32
}

fn gen_i32(rng: &mut Rng, bounds: &[u64]) -> i32 {
    let m = gen_u32(rng, bounds);
    let v = if m > i32::MAX as u32 { if rng.chance(1, 2) { i32::MAX } else { i32::MIN } } else { m as i32 };
    if rng.chance(1, 2) { v.wrapping_neg() } else { v }
}

fn gen_i64(rng: &mut Rng, bounds: &[u64], small: bool) -> i64 {
    if small && rng.chance(2, 3) {
        return gen_i32(rng, bounds) as i64;
    }
    match rng.below(4) {
        0 => {
            // half-word patterns (move-wide sequences)
            let mut v: u64 = 0;
            for k in 0..4 {
                let h: u64 = match rng.below(4) {
                    0 => 0,
                    1 => 0xffff,
                    2 => rng.below(0x10000),
                    _ => rng.pick(&[1u64, 0x8000, 0x7fff, 0xfffe, 0x00ff]),
                };
                v |= h << (16 * k);
            }
            v as i64
        }
        1 => (gen_u64(rng, bounds) as i64).wrapping_neg(),
        _ => gen_u64(rng, bounds) as i64,
    }
}

/// a valid logical immediate (element size e, run of ones, rotation) or a near miss of one
fn gen_logimm(rng: &mut Rng, bounds: &[u64]) -> u64 {
    if rng.chance(1, 4) {
        return gen_u64(rng, bounds);
    }
    let e = rng.pick(&[2u32, 4, 8, 16, 32, 64]);
    let ones = 1 + rng.below((e - 1) as u64) as u32;
    let r = rng.below(e as u64) as u32;
    let mask = if e == 64 { u64::MAX } else { (1u64 << e) - 1 };
    let run = if ones == 64 { u64::MAX } else { (1u64 << ones) - 1 };
    let elem = if r == 0 { run } else { ((run >> r) | (run << (e - r))) & mask };
    let mut v = 0u64;
    let mut k = 0;
    while k < 64 {
        v |= elem << k;
        k += e;
    }
    match rng.below(6) {
        0 => v ^ (1u64 << rng.below(64)),          // near miss
        1 => v & 0xffff_ffff,                      // 32-bit form candidates
        2 => v & 0xffff_ffff,
        _ => v,
    }
}

fn domain(c: char) -> Vec<u8> {
    match c {
        'G' => (0..=32).collect(),
        'V' => (0..=31).collect(),
        _ => unreachable!(),
    }
}

fn x_count(sig: &str) -> usize {
    if sig.contains('X') { 9 } else if sig.contains('S') { 4 } else if sig.contains('C') { 16 } else { 0 }
}

fn x_name(sig: &str, x: u8) -> &'static str {
    if sig.contains('X') { EXTENDS[x as usize].0 } else if sig.contains('S') { SHIFTS[x as usize].0 } else if sig.contains('C') { CONDS[x as usize].0 } else { "" }
}

fn reg_kinds(sig: &str) -> Vec<char> {
    let mut v = Vec::new();
    for c in sig.chars() {
        match c {
            'G' | 'V' => v.push(c),
            'M' => v.push('G'),
            _ => {}
        }
    }
    v
}

fn imm_kinds(sig: &str) -> Vec<char> {
    let mut v = Vec::new();
    for c in sig.chars() {
        match c {
            'u' | 'i' | 'U' | 'I' => v.push(c),
            'M' => v.push('m'),
            _ => {}
        }
    }
    v
}

fn gen_imm(kind: char, name: &str, rng: &mut Rng, bounds: &[u64]) -> Imm {
    match kind {
        'u' => Imm::U32(gen_u32(rng, bounds)),
        'i' => Imm::I32(gen_i32(rng, bounds)),
        'U' => Imm::U64(if name.starts_with("and_imm") { gen_logimm(rng, bounds) } else { gen_u64(rng, bounds) }),
        'I' => Imm::I64(gen_i64(rng, bounds, false)),
        'm' => Imm::I64(gen_i64(rng, bounds, true)),
        _ => unreachable!(),
    }
}

fn plain_regs(kinds: &[char], rng: &mut Rng) -> Vec<u8> {
    // distinct plain registers so that a swapped operand is visible in the word
    let mut v: Vec<u8> = Vec::new();
    for _ in kinds {
        loop {
            let c = rng.below(31) as u8;
            if !v.contains(&c) {
                v.push(c);
                break;
            }
        }
    }
    v
}

fn any_regs(kinds: &[char], rng: &mut Rng) -> Vec<u8> {
    kinds.iter().map(|k| {
        let d = domain(*k);
        if rng.chance(1, 6) { d[d.len() - 1 - rng.below(2) as usize] } else { rng.pick(&d) }
    }).collect()
}

fn run_call(m: &Method, ops: &Ops) -> Option<Vec<u32>> {
    let r = catch_unwind(AssertUnwindSafe(|| {
        let mut a = Asm::new();
        (m.call)(&mut a, ops);
        a.finalize(1).code()
    }));
    match r {
        Ok(code) => {
            assert!(code.len() % 4 == 0);
            Some(code.chunks(4).map(|c| u32::from_le_bytes([c[0], c[1], c[2], c[3]])).collect())
        }
        Err(_) => None,
    }
}

fn imm_json(i: &Imm) -> String {
    match *i {
        Imm::I32(v) => format!("{}", v),
        Imm::U32(v) => format!("[{},{}]", v >> 16, v & 0xffff),
        Imm::U64(v) => format!("[{},{},{},{}]", v >> 48, (v >> 32) & 0xffff, (v >> 16) & 0xffff, v & 0xffff),
        Imm::I64(v) => {
            let v = v as u64;
            format!("[{},{},{},{}]", v >> 48, (v >> 32) & 0xffff, (v >> 16) & 0xffff, v & 0xffff)
        }
    }
}

fn words_json(w: &[u32]) -> String {
    let v: Vec<String> = w.iter().map(|x| format!("[{},{}]", x >> 16, x & 0xffff)).collect();
    format!("[{}]", v.join(","))
}

struct Scale {
    tries: usize,
    good: usize,
    sweep_combos: usize,
    pair_samples: usize,
    x_combos: usize,
    imm_random: usize,
    imm_perturb: usize,
}

fn record(out: &str, seed: u64, tier: &str) {
    let sc = match tier {
        "quick" => Scale { tries: 400, good: 6, sweep_combos: 1, pair_samples: 0, x_combos: 2, imm_random: 30, imm_perturb: 40 },
        "thorough" => Scale { tries: 3000, good: 32, sweep_combos: 5, pair_samples: 250, x_combos: 8, imm_random: 500, imm_perturb: 600 },
        n => {
            let k: usize = n.parse().expect("tier: quick | thorough | N");
            Scale { tries: 400 + 20 * k, good: 4 + k / 4, sweep_combos: 1 + k / 20, pair_samples: 2 * k, x_combos: 2 + k / 12, imm_random: 4 * k, imm_perturb: 5 * k }
        }
    };
    let bounds = u64_boundaries();
    let mut w = BufWriter::new(std::fs::File::create(out).expect("create output"));
    let ms = methods();
    let mut total = 0usize;
    let mut refused = 0usize;
    for m in &ms {
        let mut h: u64 = 1469598103934665603;
        for b in m.name.bytes() {
            h = (h ^ b as u64).wrapping_mul(1099511628211);
        }
        let mut rng = Rng(seed.wrapping_mul(0x2545F4914F6CDD1D) ^ h);
        let rk = reg_kinds(m.sig);
        let ik = imm_kinds(m.sig);
        let nx = x_count(m.sig);
        let mut seen = std::collections::HashSet::new();
        let mut emit = |ops: &Ops, w: &mut BufWriter<std::fs::File>, total: &mut usize, refused: &mut usize| -> bool {
            let key = format!("{:?}", ops);
            if !seen.insert(key) {
                return false;
            }
            let res = run_call(m, ops);
            let is: Vec<String> = ops.i.iter().map(imm_json).collect();
            let rs: Vec<String> = ops.r.iter().map(|x| x.to_string()).collect();
            let (ok, ws) = match &res {
                Some(v) => (true, words_json(v)),
                None => (false, "[]".to_string()),
            };
            writeln!(w, "{{\"m\":\"{}\",\"r\":[{}],\"i\":[{}],\"x\":\"{}\",\"ok\":{},\"w\":{}}}",
                     m.name, rs.join(","), is.join(","), x_name(m.sig, ops.x), ok, ws).unwrap();
            *total += 1;
            if !ok {
                *refused += 1;
            }
            ok
        };
        // 1. find immediate/x combinations the assembler accepts with plain registers
        let mut good: Vec<(Vec<Imm>, u8)> = Vec::new();
        if ik.is_empty() && nx == 0 {
            good.push((vec![], 0));
        } else {
            let mut tries = 0;
            while tries < sc.tries && good.len() < sc.good {
                tries += 1;
                let imms: Vec<Imm> = ik.iter().map(|k| gen_imm(*k, m.name, &mut rng, &bounds)).collect();
                let x = if nx > 0 { rng.below(nx as u64) as u8 } else { 0 };
                let ops = Ops { r: plain_regs(&rk, &mut rng), i: imms.clone(), x };
                if good.iter().any(|g| g.0 == imms && g.1 == x) {
                    continue;
                }
                if run_call(m, &ops).is_some() {
                    good.push((imms, x));
                }
            }
            if good.is_empty() {
                // nothing accepted: still sweep with an arbitrary combination
                good.push((ik.iter().map(|k| gen_imm(*k, m.name, &mut rng, &bounds)).collect(), 0));
            }
        }
        // baseline record (the only one for methods without operands)
        emit(&Ops { r: plain_regs(&rk, &mut rng), i: good[0].0.clone(), x: good[0].1 }, &mut w, &mut total, &mut refused);
        // 2. register sweep: every register number in every position
        for p in 0..rk.len() {
            for val in domain(rk[p]) {
                for c in 0..sc.sweep_combos {
                    let g = &good[(c + val as usize) % good.len()];
                    let mut r = plain_regs(&rk, &mut rng);
                    r[p] = val;
                    emit(&Ops { r, i: g.0.clone(), x: g.1 }, &mut w, &mut total, &mut refused);
                }
            }
        }
        // 3. pairs of special / arbitrary registers
        for _ in 0..sc.pair_samples {
            let g = rng.pick(&(0..good.len()).collect::<Vec<_>>());
            emit(&Ops { r: any_regs(&rk, &mut rng), i: good[g].0.clone(), x: good[g].1 }, &mut w, &mut total, &mut refused);
        }
        // 4. every Extend / Shift / Cond value
        for x in 0..nx {
            for c in 0..sc.x_combos {
                let g = &good[c % good.len()];
                emit(&Ops { r: plain_regs(&rk, &mut rng), i: g.0.clone(), x: x as u8 }, &mut w, &mut total, &mut refused);
            }
        }
        // 5. immediates: boundary / random (encodable or not), and single-field perturbations of accepted combinations
        if !ik.is_empty() {
            for _ in 0..sc.imm_random {
                let imms: Vec<Imm> = ik.iter().map(|k| gen_imm(*k, m.name, &mut rng, &bounds)).collect();
                let x = if nx > 0 { rng.below(nx as u64) as u8 } else { 0 };
                let r = if rng.chance(1, 5) { any_regs(&rk, &mut rng) } else { plain_regs(&rk, &mut rng) };
                emit(&Ops { r, i: imms, x }, &mut w, &mut total, &mut refused);
            }
            for n in 0..sc.imm_perturb {
                let g = &good[n % good.len()];
                let mut imms = g.0.clone();
                let p = rng.below(ik.len() as u64) as usize;
                imms[p] = gen_imm(ik[p], m.name, &mut rng, &bounds);
                let x = if nx > 0 && rng.chance(1, 3) { rng.below(nx as u64) as u8 } else { g.1 };
                emit(&Ops { r: plain_regs(&rk, &mut rng), i: imms, x }, &mut w, &mut total, &mut refused);
            }
            // powers of two and their neighbours for every immediate position (both sides of every field limit)
            for p in 0..ik.len() {
                for k in 6..27u32 {
                    for (j, d) in [(1i64 << k) - 1, 1i64 << k, -(1i64 << k), -(1i64 << k) - 1].into_iter().enumerate() {
                        let g = &good[(k as usize + j) % good.len()];
                        let mut imms = g.0.clone();
                        imms[p] = match ik[p] {
                            'u' => { if d < 0 { continue; } Imm::U32(d as u32) }
                            'i' => Imm::I32(d as i32),
                            'U' => { if d < 0 { continue; } Imm::U64(d as u64) }
                            _ => Imm::I64(d),
                        };
                        emit(&Ops { r: plain_regs(&rk, &mut rng), i: imms, x: g.1 }, &mut w, &mut total, &mut refused);
                    }
                }
            }
            // dense sweep of small values for every immediate position (field boundaries of 1..7-bit fields)
            for p in 0..ik.len() {
                let dense: Vec<i64> = if sc.sweep_combos > 1 { (-70..=70).collect() } else { vec![-65, -64, -33, -32, -17, -16, -9, -8, -5, -4, -2, -1, 0, 1, 2, 3, 4, 5, 7, 8, 15, 16, 17, 31, 32, 33, 63, 64, 65] };
                for d in dense {
                    let g = &good[(d.unsigned_abs() as usize) % good.len()];
                    let mut imms = g.0.clone();
                    imms[p] = match ik[p] {
                        'u' => { if d < 0 { continue; } Imm::U32(d as u32) }
                        'i' => Imm::I32(d as i32),
                        'U' => { if d < 0 { continue; } Imm::U64(d as u64) }
                        _ => Imm::I64(d),
                    };
                    emit(&Ops { r: plain_regs(&rk, &mut rng), i: imms, x: g.1 }, &mut w, &mut total, &mut refused);
                }
            }
        }
    }
    w.flush().unwrap();
    println!("{{\"kind\":\"summary\",\"methods\":{},\"records\":{},\"refused\":{}}}", ms.len(), total, refused);
}

// ------------------------------------------------------------------------------------------------
// label programs

fn gpr(v: u64) -> Register {
    match v {
        31 => REG_ZERO,
        32 => REG_SP,
        v => Register::new(v as u8),
    }
}

fn cond_by_name(n: &str) -> Cond {
    CONDS.iter().find(|c| c.0 == n).expect("cond name").1
}

fn labels(inp: &str, out: &str) {
    let f = std::io::BufReader::new(std::fs::File::open(inp).expect("open programs"));
    let mut w = BufWriter::new(std::fs::File::create(out).expect("create output"));
    let mut n = 0;
    let mut refused = 0;
    for line in f.lines() {
        let line = line.unwrap();
        if !line.starts_with('{') {
            continue;
        }
        let v: serde_json::Value = serde_json::from_str(&line).expect("json");
        let id = v["id"].as_u64().unwrap();
        let nl = v["nl"].as_u64().unwrap() as usize;
        let prog = v["prog"].as_array().unwrap().clone();
        let res = catch_unwind(AssertUnwindSafe(|| {
            let mut a = Asm::new();
            let ls: Vec<Label> = (0..nl).map(|_| a.create_label()).collect();
            let mut bound = vec![false; nl];
            let mut sites: Vec<(usize, usize)> = Vec::new();
            for item in &prog {
                let it = item.as_array().unwrap();
                let op = it[0].as_str().unwrap();
                let start = a.position();
                let lab = |k: usize| ls[it[k].as_u64().unwrap() as usize - 1];
                match op {
                    "Pad" => {
                        let n = it[1].as_u64().unwrap();
                        for _ in 0..n / 4 {
                            a.emit_u128(0);
                        }
                        for _ in 0..n % 4 {
                            a.emit_u32(0);
                        }
                        continue;
                    }
                    "Bind" => {
                        let k = it[1].as_u64().unwrap() as usize - 1;
                        a.bind_label(ls[k]);
                        bound[k] = true;
                        continue;
                    }
                    "B" => a.b(lab(1)),
                    "BCond" => a.bc(cond_by_name(it[1].as_str().unwrap()), lab(2)),
                    "Cbz" => {
                        let r = gpr(it[2].as_u64().unwrap());
                        match it[1].as_str().unwrap() {
                            "cbz" => a.cbz(r, lab(3)),
                            "cbz_w" => a.cbz_w(r, lab(3)),
                            "cbnz" => a.cbnz(r, lab(3)),
                            "cbnz_w" => a.cbnz_w(r, lab(3)),
                            _ => panic!("harness: bad cbz variant"),
                        }
                    }
                    "Tbz" => {
                        let r = gpr(it[2].as_u64().unwrap());
                        let bit = it[3].as_u64().unwrap() as u32;
                        match it[1].as_str().unwrap() {
                            "tbz" => a.tbz(r, bit, lab(4)),
                            "tbnz" => a.tbnz(r, bit, lab(4)),
                            _ => panic!("harness: bad tbz variant"),
                        }
                    }
                    "Adr" => a.adr_label(gpr(it[1].as_u64().unwrap()), lab(2)),
                    _ => panic!("harness: bad item"),
                }
                sites.push((start, a.position()));
            }
            // labels still unbound are bound at the end (a branch to the end of the code)
            for k in 0..nl {
                if !bound[k] {
                    a.bind_label(ls[k]);
                }
            }
            let labs: Vec<u32> = ls.iter().map(|l| a.offset(*l).unwrap()).collect();
            let code = a.finalize(1).code();
            (sites, code, labs)
        }));
        n += 1;
        match res {
            Ok((sites, code, labs)) => {
                let mut ss: Vec<String> = Vec::new();
                for (s, e) in sites {
                    let ws: Vec<u32> = code[s..e].chunks(4).map(|c| u32::from_le_bytes([c[0], c[1], c[2], c[3]])).collect();
                    ss.push(format!("[{},{}]", s, words_json(&ws)));
                }
                let lb: Vec<String> = labs.iter().map(|x| x.to_string()).collect();
                writeln!(w, "{{\"id\":{},\"ok\":true,\"sites\":[{}],\"labs\":[{}],\"len\":{}}}", id, ss.join(","), lb.join(","), code.len()).unwrap();
            }
            Err(_) => {
                refused += 1;
                writeln!(w, "{{\"id\":{},\"ok\":false}}", id).unwrap();
            }
        }
    }
    w.flush().unwrap();
    println!("{{\"kind\":\"summary\",\"programs\":{},\"refused\":{}}}", n, refused);
}

fn main() {
    std::panic::set_hook(Box::new(|_| {}));
    let args: Vec<String> = std::env::args().collect();
    match args.get(1).map(|s| s.as_str()) {
        Some("methods") => {
            for m in methods() {
                println!("{} {}", m.name, m.sig);
            }
            for n in LABEL_METHODS {
                println!("{} L", n);
            }
        }
        Some("record") => record(&args[2], args[3].parse().expect("seed"), &args[4]),
        Some("labels") => labels(&args[2], &args[3]),
        _ => {
            eprintln!("usage: va64 methods | record <out> <seed> <quick|thorough|N> | labels <programs> <out>");
            std::process::exit(2);
        }
    }
}
