"""Pre-processing of event logs written by the verif hooks (NDJSON) for the trace specifications."""
import json

SP_EVENTS = {"park", "park_slow", "notify_park", "unpark", "unpark_slow", "unpark_wait", "slow_swap", "sp_enter",
             "sp_leave", "stw_lock", "arm", "request", "stw_wait", "stw_stopped", "op_begin", "op_end", "resume",
             "disarm", "spawn_lock", "exit_lock", "reset"}


def load(path):
    out = []
    for line in open(path, errors="replace"):
        line = line.strip()
        if not line:
            continue
        try:
            out.append(json.loads(line))
        except Exception:
            pass   # a torn last line after _exit
    return out


def safepoint_view(recs):
    """keep the stop-the-world protocol events; thread ids are used as they are (main = 1, children 2..)"""
    out = []
    for r in recs:
        if r.get("ev") in SP_EVENTS:
            r = dict(r)
            r.pop("ph", None)
            out.append(r)
    return out


def max_thread(recs):
    m = 1
    for r in recs:
        m = max(m, r.get("t", 0), r.get("child", 0), r.get("x", 0))
    return m


def dump(recs, path):
    with open(path, "w") as f:
        for r in recs:
            f.write(json.dumps(r) + "\n")
