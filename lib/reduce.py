"""Line-based delta reduction of a Dora source that makes a compiler fail: drops lines while `still_fails` holds."""
import subprocess, os


def reduce_lines(text, still_fails, protect=lambda l: False):
    lines = text.split("\n")
    changed = True
    while changed:
        changed = False
        i = 0
        while i < len(lines):
            if protect(lines[i]) or lines[i].strip() in ("", "}", "{"):
                i += 1
                continue
            cand = lines[:i] + lines[i + 1:]
            if still_fails("\n".join(cand)):
                lines = cand
                changed = True
            else:
                i += 1
    return "\n".join(lines)
