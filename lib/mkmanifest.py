#!/usr/bin/env python3
"""Regenerates /verif/MANIFEST.json from the table below (single source), validates it against the schema."""
import json, os, subprocess, sys
HERE = os.path.dirname(os.path.dirname(os.path.abspath(__file__)))

CHECKS = {
    # id: (level, technique, level text, level note, design_ref)
    "C12": ("model_checking",
            "TLA+ spec Terminator.tla model-checked by TLC (invariants, liveness, refinement to AbstractTermination); "
            "TLC behaviours replayed step-by-step into the real Terminator via gates + sync shim; recorded runs "
            "validated against TerminatorTrace.tla",
            "Exhaustive TLC exploration of the termination protocol (every interleaving of the critical sections and the two "
            "lock-free loads for 2-4 workers, adversarial work pool) proves NoEarlyTermination/termination/refinement for the design; "
            "conformance in both directions binds the design to terminator.rs: TLC-generated behaviours are stepped through the "
            "real code with the counters compared after every step, and free-running executions are validated as behaviours of the spec.",
            "Trusted: TLC, the transcription of the worker loop's pool operations (harness pool instead of crossbeam deques), "
            "sequential consistency for the Relaxed counters, bounded configuration (N<=4, budget<=4) for exhaustiveness.",
            "4/C12"),
    "C04": ("model_checking",
            "TLA+ spec Safepoint.tla model-checked by TLC (exclusion, code asserts, deadlock freedom, liveness, refinement to "
            "AbstractStw); TLC behaviours replayed step-by-step into the real safepoint.rs/threads.rs via gates + sync shim; event "
            "logs of real multi-threaded Dora executables validated against SafepointTrace.tla",
            "Exhaustive TLC exploration of the stop-the-world protocol (every interleaving of each atomic on the thread-state byte and "
            "each barrier/list critical section for up to 3 threads x 3 operations, 4 x 1) proves exclusion, completion and resumption "
            "for the design; both conformance directions bind it to the code: model behaviours are stepped through the real functions "
            "with all thread states, the barrier and the runtime state compared after every step, and logs of real executables (both "
            "code generators, gc-stress) are accepted as behaviours of the spec with every observed value bound.",
            "Trusted: TLC; SC memory (all protocol atomics are SeqCst); the operation inside the closure abstracted to begin/end; "
            "harness threads stand in for managed threads in the replay direction; exhaustiveness only for the bounded configurations.",
            "4/C04"),
}

NOT_YET = {
}


def main():
    props = [json.loads(l) for l in open(os.path.join(HERE, "properties.jsonl"))]
    na = json.load(open(os.path.join(HERE, "lib", "not_applicable.json")))
    checks = []
    for p in props:
        pid = p["id"]
        if pid not in CHECKS:
            continue
        level, tech, text, note, ref = CHECKS[pid]
        checks.append({
            "property_id": pid,
            "quick_cmd": f"./check {pid} --tier quick",
            "thorough_cmd": f"./check {pid} --tier thorough",
            "evidence_file": f"/verif/evidence/{pid}.json",
            "replay_cmd_template": f"./check {pid} --replay {{path}}",
            "engine": "check",
            "level_claimed": {"category": level, "text": text, "design_ref": "DESIGN.md section " + ref},
            "level_note": note,
            "technique": tech,
        })
    claimed = {c["property_id"] for c in checks}
    nal = [{"property_id": p["id"], "reason": na.get(p["id"], "check not built yet in this round; see DESIGN.md section 8")}
           for p in props if p["id"] not in claimed]
    man = {
        "version": 1,
        "setup_cmd": "./setup.sh",
        "hooks": {
            "guard": "dinfuehr_dora_verif",
            "enable": "RUSTFLAGS='--cfg dinfuehr_dora_verif --check-cfg cfg(dinfuehr_dora_verif)' cargo build --offline "
                      "(tool chain into /verif/target/repo; the harness /verif/harness sets the same flags in .cargo/config.toml); "
                      "hooks are inert unless a gate controller is installed in-process or DORA_VERIF_TRACE=<file> is set",
            "baseline_off_cmd": "cd /repo && cargo test --workspace --no-fail-fast --offline",
            "source_commits": json.load(open(os.path.join(HERE, "lib", "hook_commits.json"))),
            "add_only": True,
        },
        "engines": [{"name": "check", "path": "/verif/check", "serves_properties": sorted(claimed),
                     "kind_free_text": "python driver: TLC (explicit TLA+ specs under /verif/spec) + Rust conformance harness "
                                       "/verif/harness/vh (path deps on /repo) + hooked tool chain built from /repo's working tree"}],
        "checks": checks,
        "not_applicable": nal,
        "notes": "All properties are decided with explicit TLA+ specifications checked by TLC and bound to the code by replay "
                 "(spec->impl) and/or trace validation (impl->spec); see DESIGN.md. Exit 2 = machinery failure, never a verdict.",
    }
    out = os.path.join(HERE, "MANIFEST.json")
    json.dump(man, open(out, "w"), indent=1)
    try:
        import jsonschema
        jsonschema.validate(man, json.load(open("/root/.vp/MANIFEST.schema.json")))
        print("MANIFEST.json valid;", len(checks), "checks,", len(nal), "not_applicable")
    except ImportError:
        print("jsonschema not available; wrote MANIFEST.json without validation")


if __name__ == "__main__":
    main()
