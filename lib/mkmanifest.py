#!/usr/bin/env python3
"""Regenerates /verif/MANIFEST.json from the table below (single source), validates it against the schema."""
import json, os, subprocess, sys
HERE = os.path.dirname(os.path.dirname(os.path.abspath(__file__)))

sys.path.insert(0, os.path.join(HERE, "lib"))
sys.path.insert(0, HERE)


REGISTERED = json.load(open(os.path.join(HERE, "lib", "registered.json")))


def load_checks():
    import importlib, glob
    out = {}
    for f in sorted(glob.glob(os.path.join(HERE, "checks", "c[0-9][0-9].py"))):
        name = os.path.basename(f)[:-3]
        mod = importlib.import_module("checks." + name)
        if not hasattr(mod, "MANIFEST") or name.upper() not in REGISTERED:
            continue
        m = mod.MANIFEST
        out[name.upper()] = (mod.LEVEL, m["technique"], m["text"], m["note"], m["ref"])
    return out


CHECKS = load_checks()


def main():
    props = [json.loads(l) for l in open(os.path.join(HERE, "properties.jsonl"))]
    na = json.load(open(os.path.join(HERE, "lib", "not_applicable.json")))
    checks = []
    for p in props:
        pid = p["id"]
        if pid not in CHECKS:
            continue
        level, tech, text, note, ref = CHECKS[pid]
        checks.append({
            "property_id": pid,
            "quick_cmd": f"./check {pid} --tier quick",
            "thorough_cmd": f"./check {pid} --tier thorough",
            "evidence_file": f"/verif/evidence/{pid}.json",
            "replay_cmd_template": f"./check {pid} --replay {{path}}",
            "engine": "check",
            "level_claimed": {"category": level, "text": text, "design_ref": "DESIGN.md section " + ref},
            "level_note": note,
            "technique": tech,
        })
    claimed = {c["property_id"] for c in checks}
    nal = [{"property_id": p["id"], "reason": na.get(p["id"], "check not built yet in this round; see DESIGN.md section 8")}
           for p in props if p["id"] not in claimed]
    man = {
        "version": 1,
        "setup_cmd": "./setup.sh",
        "hooks": {
            "guard": "dinfuehr_dora_verif",
            "enable": "RUSTFLAGS='--cfg dinfuehr_dora_verif --check-cfg cfg(dinfuehr_dora_verif)' cargo build --offline "
                      "(tool chain into /verif/target/repo; the harness /verif/harness sets the same flags in .cargo/config.toml); "
                      "hooks are inert unless a gate controller is installed in-process or DORA_VERIF_TRACE=<file> is set",
            "baseline_off_cmd": "cd /repo && cargo test --workspace --no-fail-fast --offline",
            "source_commits": json.load(open(os.path.join(HERE, "lib", "hook_commits.json"))),
            "add_only": True,
        },
        "engines": [{"name": "check", "path": "/verif/check", "serves_properties": sorted(claimed),
                     "kind_free_text": "python driver: TLC (explicit TLA+ specs under /verif/spec) + Rust conformance harness "
                                       "/verif/harness/vh (path deps on /repo) + hooked tool chain built from /repo's working tree"}],
        "checks": checks,
        "not_applicable": nal,
        "notes": "All properties are decided with explicit TLA+ specifications checked by TLC and bound to the code by replay "
                 "(spec->impl) and/or trace validation (impl->spec); see DESIGN.md. Exit 2 = machinery failure, never a verdict.",
    }
    out = os.path.join(HERE, "MANIFEST.json")
    json.dump(man, open(out, "w"), indent=1)
    try:
        import jsonschema
        jsonschema.validate(man, json.load(open("/root/.vp/MANIFEST.schema.json")))
        print("MANIFEST.json valid;", len(checks), "checks,", len(nal), "not_applicable")
    except ImportError:
        print("jsonschema not available; wrote MANIFEST.json without validation")


if __name__ == "__main__":
    main()
