"""Runs the cases of a generated multi-case executable and turns each run into an observation record for DoraSem.tla."""
import json, os, re, subprocess
from common import *
import progs

K = 32767


def tok(text):
    if text in ("true", "false"):
        return text
    try:
        v = int(text)
    except ValueError:
        return ["?", text]
    for w in (32, 64):
        Bd = 1 << (w - 1)
        for c in (0, 1, -1):
            o = v - c * Bd
            if c == 0 and -K <= o <= K: return [0, o]
            if c == 1 and -K <= o <= -1: return [1, o]
            if c == -1 and 0 <= o <= K: return [-1, o]
    return ["big", text]


FRAME = re.compile(r"^\s+(.*) \((.*):(\d+):(\d+)\)$")


def observe(exe, cid, srcname, flags="", timeout=60):
    r = progs.run_prog(exe, args=[cid], flags=flags, timeout=timeout)
    out = r.out
    lines = out.split("\n")
    tail = lines[-1]
    full = lines[:-1]
    frames = []
    errl = r.err.splitlines()
    for l in errl[1:]:
        m = FRAME.match(l)
        if not m:
            continue
        fn, file, line = m.group(1), m.group(2), int(m.group(3))
        if os.path.basename(file) != srcname:
            continue            # frames the implementation inserts on its own (std thunks)
        if "$Lambda" in fn:
            fn = "lambda"
        else:
            fn = fn.split("::")[-1]
        frames.append([fn, line])
    return {"out": [[tok(t) for t in l.split(" ") if t != ""] for l in full], "tail": [tok(t) for t in tail.split(" ") if t != ""],
            "status": r.rc if not r.timed_out and r.signal is None else (-9 if r.timed_out else -r.signal - 1000),
            "frames": frames, "err0": errl[0] if errl else "", "signal": r.signal, "timed_out": r.timed_out,
            "raw_out": out[-2000:], "raw_err": r.err[-2000:]}


def judge(records, workdir, tag="cases", timeout=1800):
    """records: list of {id,cfg,ast,obs}; returns (list of verdict dicts in the same order, TlcResult)"""
    path = os.path.join(workdir, tag + ".ndjson")
    with open(path, "w") as f:
        for r in records:
            f.write(json.dumps({"id": r["id"], "cfg": r["cfg"], "ast": r["ast"], "obs": {k: r["obs"][k] for k in ("out", "tail", "status", "frames")}}) + "\n")
    res = tlc("DoraSem", cfg="DoraSem.cfg", cwd=os.path.join(SPEC, "lang"), workers=8, timeout=timeout, env={"CASES": path}, heap="8g")
    verdicts = {}
    for line in res.out.splitlines():
        if line.startswith('"{'):
            v = json.loads(json.loads(line))
            verdicts[(v["id"], v["cfg"])] = v["j"]
    if len(verdicts) != len(records):
        raise ToolError(f"DoraSem judged {len(verdicts)} of {len(records)} cases:\n" + res.out[-3000:])
    return [verdicts[(r["id"], r["cfg"])] for r in records], res


import sys
sys.path.insert(0, os.path.join(VERIF, "gen"))
import dsem_gen


def compile_with_bisect(cases_src_fn, idxs, workdir, tag, backend, gc, failures, depth=0):
    """compile the program made of the cases `idxs`; on failure split until single failing cases are isolated.
    returns list of (exe, srcname, idxs)"""
    src, asts = cases_src_fn(idxs)
    name = f"{tag}_{backend}_{gc or 'def'}_{depth}_{idxs[0]}_{len(idxs)}"
    path = os.path.join(workdir, name + ".dora")
    open(path, "w").write(src)
    b, msg = progs.compile_prog(path, os.path.join(workdir, name), backend=backend, gc=gc, timeout=600)
    if b is not None:
        return [(b.exe, os.path.basename(path), idxs, asts)]
    if len(idxs) == 1:
        failures.append({"backend": backend, "gc": gc, "case": idxs[0], "source_file": path, "message": msg[-3000:]})
        return []
    mid = len(idxs) // 2
    return compile_with_bisect(cases_src_fn, idxs[:mid], workdir, tag, backend, gc, failures, depth + 1) + \
           compile_with_bisect(cases_src_fn, idxs[mid:], workdir, tag, backend, gc, failures, depth + 1)


def campaign(ctx, seed, ncases, features, configs, flagsets=("",), tag="p"):
    """generate one multi-case program, build it for every (backend, gc) in configs, run every case under every
    flag set, judge all runs with DoraSem. Returns (records, verdicts, compile_failures, tlc_result)."""
    rnd_cases = dsem_gen.generate_cases(seed, ncases, features)

    def src_fn(idxs):
        return dsem_gen.render_subset(rnd_cases, idxs)
    records = []
    failures = []
    for backend, gc in configs:
        for exe, srcname, idxs, asts in compile_with_bisect(src_fn, list(range(ncases)), ctx.work, f"{tag}{seed}", backend, gc, failures):
            for a in asts:
                for flags in flagsets:
                    obs = observe(exe, a["id"], srcname, flags=flags)
                    records.append({"id": a["id"], "cfg": f"{backend}/{gc or 'default'}/{flags}", "ast": a, "obs": obs,
                                    "source_file": os.path.join(ctx.work, srcname), "seed": seed})
    if not records:
        return [], [], failures, None
    verdicts, res = judge(records, ctx.work, tag=f"{tag}{seed}")
    return records, verdicts, failures, res
