"""Runs the cases of a generated multi-case executable and turns each run into an observation record for DoraSem.tla."""
import json, os, re, subprocess
from common import *
import progs

K = 32767


def tok(text):
    if text in ("true", "false"):
        return text
    try:
        v = int(text)
    except ValueError:
        return ["?", text]
    for w in (32, 64):
        Bd = 1 << (w - 1)
        for c in (0, 1, -1):
            o = v - c * Bd
            if c == 0 and -K <= o <= K: return [0, o]
            if c == 1 and -K <= o <= -1: return [1, o]
            if c == -1 and 0 <= o <= K: return [-1, o]
    return ["big", text]


FRAME = re.compile(r"^\s+(.*) \((.*):(\d+):(\d+)\)$")


def observe(exe, cid, srcname, flags="", timeout=60):
    r = progs.run_prog(exe, args=[cid], flags=flags, timeout=timeout)
    out = r.out
    lines = out.split("\n")
    tail = lines[-1]
    full = lines[:-1]
    frames = []
    errl = r.err.splitlines()
    for l in errl[1:]:
        m = FRAME.match(l)
        if not m:
            continue
        fn, file, line = m.group(1), m.group(2), int(m.group(3))
        if os.path.basename(file) != srcname:
            continue            # frames the implementation inserts on its own (std thunks)
        if "$Lambda" in fn:
            fn = "lambda"
        else:
            fn = fn.split("::")[-1]
        frames.append([fn, line])
    return {"out": [[tok(t) for t in l.split(" ")] for l in full], "tail": [tok(t) for t in tail.split(" ")] if tail else [],
            "status": r.rc if not r.timed_out and r.signal is None else (-9 if r.timed_out else -r.signal - 1000),
            "frames": frames, "err0": errl[0] if errl else "", "signal": r.signal, "timed_out": r.timed_out,
            "raw_out": out[-2000:], "raw_err": r.err[-2000:]}


def judge(records, workdir, tag="cases", timeout=1800):
    """records: list of {id,cfg,ast,obs}; returns (list of verdict dicts in the same order, TlcResult)"""
    path = os.path.join(workdir, tag + ".ndjson")
    with open(path, "w") as f:
        for r in records:
            f.write(json.dumps({"id": r["id"], "cfg": r["cfg"], "ast": r["ast"], "obs": {k: r["obs"][k] for k in ("out", "tail", "status", "frames")}}) + "\n")
    res = tlc("DoraSem", cfg="DoraSem.cfg", cwd=os.path.join(SPEC, "lang"), workers=8, timeout=timeout, env={"CASES": path}, heap="8g")
    verdicts = {}
    for line in res.out.splitlines():
        if line.startswith('"{'):
            v = json.loads(json.loads(line))
            verdicts[(v["id"], v["cfg"])] = v["j"]
    if len(verdicts) != len(records):
        raise ToolError(f"DoraSem judged {len(verdicts)} of {len(records)} cases:\n" + res.out[-3000:])
    return [verdicts[(r["id"], r["cfg"])] for r in records], res
