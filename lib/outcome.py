"""Runs cases of multi-case executables under several configurations and lets spec/lang/Outcome.tla judge the endings."""
import hashlib, json, os
from common import *
import progs


def run_record(exe, cid, cfgname, group, flags="", timeout=120):
    r = progs.run_prog(exe, args=[cid], flags=flags, timeout=timeout)
    errl = r.err.splitlines()
    return {"cfg": cfgname, "group": group, "status": r.rc if (r.rc is not None and r.rc >= 0) else -1, "signal": r.signal or 0,
            "timed_out": bool(r.timed_out), "err0": errl[0] if errl else "", "panic": ("panicked at" in r.err) or ("RUST_BACKTRACE" in r.err),
            "out": hashlib.sha256(r.out.encode()).hexdigest()[:16], "_stdout": r.out[-300:], "_stderr": r.err[-1500:]}


def judge(records, workdir, tag):
    path = os.path.join(workdir, tag + ".ndjson")
    with open(path, "w") as f:
        for rec in records:
            f.write(json.dumps({"id": rec["id"], "expect": rec.get("expect", []),
                                "runs": [{k: v for k, v in r.items() if not k.startswith("_")} for r in rec["runs"]]}) + "\n")
    res = tlc("Outcome", cfg="Outcome.cfg", cwd=os.path.join(SPEC, "lang"), workers=4, timeout=1800, env={"RECS": path}, heap="4g")
    verdicts = {}
    for line in res.out.splitlines():
        if line.startswith('"{'):
            v = json.loads(json.loads(line))
            verdicts[v["id"]] = v["j"]
    if len(verdicts) != len(records):
        raise ToolError(f"Outcome judged {len(verdicts)} of {len(records)} records:\n" + res.out[-3000:])
    return [verdicts[r["id"]] for r in records], res
