"""Common machinery for the /verif checks: builds, TLC runner, evidence, findings, verdicts.

Every check is a python module checks/<id>.py exposing run(ctx) -> None; it reports through ctx.
Exit status: 0 held, 1 violation (with VIOLATION line + replay file), 2 machinery failure.
"""
import fcntl, hashlib, json, os, re, subprocess, sys, time, shutil, signal

VERIF = os.path.dirname(os.path.dirname(os.path.abspath(__file__)))
REPO = os.environ.get("VERIF_REPO", "/repo")
TARGET = os.path.join(VERIF, "target")
REPO_TARGET = os.path.join(TARGET, "repo")
HARNESS = os.path.join(VERIF, "harness")
SPEC = os.path.join(VERIF, "spec")
GUARD = "dinfuehr_dora_verif"
RUSTFLAGS = f"--cfg {GUARD} --check-cfg cfg({GUARD})"
DORA = os.path.join(REPO_TARGET, "debug", "dora")
BOOTS = os.path.join(REPO_TARGET, "debug", "dora-boots-compiler")
CANNON = os.path.join(REPO_TARGET, "debug", "dora-cannon-compiler")
VH = os.path.join(HARNESS, "target", "debug", "vh")
TLA_JAR = "/opt/veriftools/tla/tla2tools.jar"
NCPU = os.cpu_count() or 4


class ToolError(Exception):
    """Failure of the verification machinery itself (exit 2, never a violation)."""


def log(*a):
    print(*a, flush=True)


def sh(cmd, timeout=600, cwd=None, env=None, check=False, input=None, text=True):
    e = dict(os.environ)
    if env:
        e.update(env)
    try:
        p = subprocess.run(cmd, cwd=cwd, env=e, capture_output=True, text=text, timeout=timeout,
                           input=input, shell=isinstance(cmd, str), errors="replace" if text else None)
    except subprocess.TimeoutExpired as ex:
        class R:  # noqa
            returncode = -999
            stdout = (ex.stdout or b"").decode("utf8", "replace") if isinstance(ex.stdout, bytes) else (ex.stdout or "")
            stderr = (ex.stderr or b"").decode("utf8", "replace") if isinstance(ex.stderr, bytes) else (ex.stderr or "")
            timed_out = True
        if check:
            raise ToolError(f"timeout after {timeout}s: {cmd}")
        return R()
    p.timed_out = False
    if check and p.returncode != 0:
        raise ToolError(f"command failed rc={p.returncode}: {cmd}\n{p.stdout[-3000:]}\n{p.stderr[-3000:]}")
    return p


class _Lock:
    def __init__(self, name):
        os.makedirs(TARGET, exist_ok=True)
        self.path = os.path.join(TARGET, name + ".lock")

    def __enter__(self):
        self.f = open(self.path, "w")
        fcntl.flock(self.f, fcntl.LOCK_EX)
        return self

    def __exit__(self, *a):
        fcntl.flock(self.f, fcntl.LOCK_UN)
        self.f.close()


def _cargo_env():
    return {"RUSTFLAGS": RUSTFLAGS, "CARGO_NET_OFFLINE": "true", "CARGO_TERM_COLOR": "never"}


def build_repo(boots=False):
    """Build tool chain + runtime from /repo's current working tree with hooks on."""
    with _Lock("build-repo"):
        t0 = time.time()
        p = sh(["cargo", "build", "--offline", "--manifest-path", os.path.join(REPO, "Cargo.toml"),
                "--target-dir", REPO_TARGET, "-p", "dora", "-p", "dora-runtime", "-p", "dora-startup"],
               timeout=1800, env=_cargo_env())
        if p.returncode != 0:
            raise ToolError("cargo build of /repo failed:\n" + p.stderr[-4000:])
        if not os.path.exists(os.path.join(VERIF, "pkgs")):
            os.symlink(os.path.join(REPO, "pkgs"), os.path.join(VERIF, "pkgs"))
        if boots:
            _build_boots()
        return time.time() - t0


def tree_hash(paths):
    h = hashlib.sha256()
    for root in paths:
        if os.path.isfile(root):
            h.update(root.encode()); h.update(open(root, "rb").read()); continue
        for d, dn, fn in sorted(os.walk(root)):
            dn.sort()
            for f in sorted(fn):
                fp = os.path.join(d, f)
                h.update(fp.encode())
                with open(fp, "rb") as fh:
                    h.update(fh.read())
    return h.hexdigest()


def _build_boots():
    stamp = os.path.join(TARGET, "boots.stamp")
    key = tree_hash([os.path.join(REPO, "pkgs")]) + str(os.path.getmtime(DORA)) + str(os.path.getmtime(CANNON))
    if os.path.exists(stamp) and os.path.exists(BOOTS) and open(stamp).read() == key:
        return
    p = sh([DORA, "compile", "--internal-compile-boots", "--cannon",
            os.path.join(REPO, "pkgs/boots/boots.dora"), "-o", BOOTS + ".tmp"], timeout=900, cwd=VERIF)
    if p.returncode != 0:
        raise ToolError("building the boots compiler failed:\n" + p.stdout[-2000:] + p.stderr[-4000:])
    os.replace(BOOTS + ".tmp", BOOTS)
    open(stamp, "w").write(key)


def build_harness():
    with _Lock("build-harness"):
        lock_src = os.path.join(REPO, "Cargo.lock")
        p = sh(["cargo", "build", "--offline"], timeout=1800, cwd=HARNESS, env=_cargo_env())
        if p.returncode != 0:
            raise ToolError("cargo build of the harness failed:\n" + p.stderr[-6000:])


# --------------------------------------------------------------------------------------------
# TLC

class TlcResult:
    def __init__(self):
        self.rc = None; self.out = ""; self.generated = 0; self.distinct = 0; self.depth = 0
        self.ok = False; self.violation = None; self.seconds = 0.0; self.coverage = {}
        self.timed_out = False; self.prints = []


def tlc(module, cfg=None, cwd=None, workers=None, timeout=600, env=None, simulate=None, depth=None,
        seed=None, coverage=False, deadlock=None, java_opts="", heap="8g", extra=None, dfs=False):
    """Run TLC on spec/<dir>/<module>.tla. Returns a TlcResult. Never raises on a property violation."""
    cwd = cwd or SPEC
    meta = os.path.join(TARGET, "tlc", f"{module}-{os.getpid()}-{int(time.time()*1000)%100000}")
    os.makedirs(meta, exist_ok=True)
    jopts = f"-Xss1g {java_opts}"
    if dfs:
        jopts += " -Dtlc2.tool.queue.IStateQueue=StateDeque"
    cmd = ["java", f"-Xmx{heap}", "-XX:+UseParallelGC"] + jopts.split() + [
        "-cp", TLA_JAR + ":" + "/opt/veriftools/tla/CommunityModules-deps.jar", "tlc2.TLC",
        "-metadir", meta, "-noGenerateSpecTE", "-cleanup",
        "-workers", str(workers or 1)]
    if cfg:
        cmd += ["-config", cfg]
    if simulate:
        cmd += ["-simulate", f"num={simulate}"]
    if depth:
        cmd += ["-depth", str(depth)]
    if seed is not None:
        cmd += ["-seed", str(seed)]
    if coverage:
        cmd += ["-coverage", "1"]
    if deadlock is False:
        cmd += ["-deadlock"]
    if extra:
        cmd += extra
    cmd += [module]
    t0 = time.time()
    p = sh(cmd, timeout=timeout, cwd=cwd, env=env)
    r = TlcResult()
    r.seconds = time.time() - t0
    r.rc = p.returncode
    r.out = (p.stdout or "") + (p.stderr or "")
    r.timed_out = getattr(p, "timed_out", False)
    shutil.rmtree(meta, ignore_errors=True)
    m = None
    for m in re.finditer(r"(\d+) states generated, (\d+) distinct states found", r.out):
        pass
    if m:
        r.generated, r.distinct = int(m.group(1)), int(m.group(2))
    m = re.search(r"depth of the complete state graph search is (\d+)", r.out)
    if m:
        r.depth = int(m.group(1))
    if "Model checking completed. No error has been found." in r.out:
        r.ok = True
    elif simulate and r.rc == 0:
        r.ok = True
    m = re.search(r"Error: (Invariant \S+ is violated|Deadlock reached|Temporal properties were violated|"
                  r"Action property \S+ is violated|The postcondition.*|Assumption .* is false.*|"
                  r"The first argument of Assert evaluated to FALSE.*)", r.out)
    if m:
        r.violation = m.group(1)
    elif not r.ok and not r.timed_out:
        m = re.search(r"Error: (.*)", r.out)
        if m:
            r.violation = "error: " + m.group(1)
    if coverage:
        for m in re.finditer(r"<(\w+) line \d+, col \d+ to line \d+, col \d+ of module (\w+)>: (\d+):(\d+)", r.out):
            r.coverage[m.group(1)] = [int(m.group(3)), int(m.group(4))]
    r.prints = re.findall(r'^"(.*)"$', r.out, re.M)
    return r


def tlc_must_pass(r, what):
    """A design-level TLC run that fails is a spec/machinery problem unless the caller says otherwise."""
    if r.timed_out:
        raise ToolError(f"TLC timed out: {what}")
    if not r.ok:
        raise ToolError(f"TLC failed ({what}): {r.violation}\n{r.out[-3000:]}")


# --------------------------------------------------------------------------------------------
# findings

def load_findings():
    p = os.path.join(VERIF, "known-findings.json")
    if not os.path.exists(p):
        return []
    return json.load(open(p))["findings"]


# --------------------------------------------------------------------------------------------
# context handed to every check

class Ctx:
    def __init__(self, pid, tier, seed, level):
        self.pid = pid; self.tier = tier; self.seed = seed; self.level = level
        self.t0 = time.time()
        self.cov = {"samples": []}
        self.assumptions = []
        self.violations = []      # (message, replay_path)
        self.known_hit = []
        self.drift = []
        self.extra = {}
        self.findings = [f for f in load_findings() if f["property"] == pid]
        self.work = os.path.join(TARGET, "work", pid)
        shutil.rmtree(self.work, ignore_errors=True)
        os.makedirs(self.work, exist_ok=True)
        os.makedirs(os.path.join(VERIF, "replays"), exist_ok=True)
        self._nrep = 0

    @property
    def quick(self):
        return self.tier == "quick"

    def add(self, key, n=1):
        self.cov[key] = self.cov.get(key, 0) + n

    def sample(self, s, limit=6):
        if len(self.cov["samples"]) < limit:
            self.cov["samples"].append(s)

    def replay_file(self, obj, suffix="json"):
        self._nrep += 1
        p = os.path.join(VERIF, "replays", f"{self.pid}-{self.seed}-{self._nrep}.{suffix}")
        with open(p, "w") as f:
            if isinstance(obj, str):
                f.write(obj)
            else:
                json.dump(obj, f, indent=1, default=str)
        return p

    def match_finding(self, key):
        """key: a string identifying the specific failing input/site. Returns the open finding or None."""
        for f in self.findings:
            if f.get("status") == "open" and re.fullmatch(f["key"], key):
                return f
        return None

    def violation(self, msg, replay_obj, key=None):
        """Report a property violation unless it is an open, listed known finding (matched by key)."""
        if key is not None:
            f = self.match_finding(key)
            if f is not None:
                if f["key"] not in [k["key"] for k in self.known_hit]:
                    self.known_hit.append(f)
                    log(f"KNOWN-FINDING: property={self.pid} {f['what']} [{f['key']}]")
                f["_hits"] = f.get("_hits", 0) + 1
                return False
        if len(self.violations) < 20:
            path = self.replay_file({"property": self.pid, "message": msg, "key": key, "case": replay_obj})
            self.violations.append((msg, path))
            log(f"VIOLATION property={self.pid} replay={path}")
            log(f"  {msg[:1500]}")
        else:
            self.violations.append((msg, self.violations[0][1]))
        return True

    def model_drift(self, where, detail=""):
        self.drift.append({"at": where, "detail": detail[:500]})
        log(f"MODEL-DRIFT property={self.pid} at={where} {detail[:300]}")

    def tlc_stats(self, r, name=None):
        self.cov["states"] = self.cov.get("states", 0) + r.distinct
        self.cov["transitions"] = self.cov.get("transitions", 0) + r.generated
        self.extra.setdefault("tlc", []).append({"what": name, "generated": r.generated, "distinct": r.distinct,
                                                 "depth": r.depth, "seconds": round(r.seconds, 1),
                                                 "coverage": r.coverage or None})

    def finish(self):
        cov = self.cov
        lvl = self.level
        if self.drift:
            lvl = "exploration"
        if lvl == "model_checking":
            cov.setdefault("states", 0); cov.setdefault("transitions", 0)
            cov.setdefault("traces_validated_against_impl", 0)
            if cov["states"] < 1 or cov["transitions"] < 1:
                lvl = "exploration"
        if lvl in ("exploration", "fault_enumeration"):
            cov.setdefault("evaluations", cov.get("traces_validated_against_impl", 0))
            cov.setdefault("distinct_nontrivial", 0)
            cov.setdefault("rule", "")
        if not cov["samples"]:
            cov["samples"] = ["(no sample recorded)"]
        ev = {"property_id": self.pid, "tier": self.tier, "seed": self.seed, "level": lvl, "coverage": cov,
              "assumptions": self.assumptions, "wall_s": round(time.time() - self.t0, 1),
              "violations": len(self.violations)}
        ev["coverage"].update({"drift": self.drift, "known_findings_hit": [
            {"key": f["key"], "hits": f.get("_hits", 0)} for f in self.known_hit]})
        ev["coverage"].update(self.extra)
        os.makedirs(os.path.join(VERIF, "evidence"), exist_ok=True)
        with open(os.path.join(VERIF, "evidence", self.pid + ".json"), "w") as f:
            json.dump(ev, f, indent=1, default=str)
        return 1 if self.violations else 0


def rng(seed, *salt):
    import random
    return random.Random(hashlib.sha256(("%s|%s" % (seed, "|".join(map(str, salt)))).encode()).digest())
