"""C07: what a method NAME of AssemblerX64 requests, in AT&T syntax, and comparison with llvm-mc's disassembly.

This table is written from the naming convention of the assembler's public interface (mnemonic, size suffix,
operand-kind suffix, parameter names dest/src/lhs/rhs) - independently of spec/codec/X64Asm.tla, which is written
from the SDM opcode maps.  llvm-mc (LLVM 14) is the independent reference decoder.

Operand descriptors (AT&T order, sources first):
  g64:k g32:k g8:k x:k   register parameter k (1-based position among the register parameters of the record)
  cl                     the literal %cl
  mem                    the Address parameter          lbl   RIP-relative operand addressing the label
  imm8 imm32 imm64       the Immediate parameter, compared modulo the operand width (imm64: sign-extended imm32
                         or full 64-bit value)          u8    the rounding-mode byte
  rel                    branch displacement to the label / of call_rel32
"""
import re, subprocess

G64 = "rax rcx rdx rbx rsp rbp rsi rdi r8 r9 r10 r11 r12 r13 r14 r15".split()
G32 = "eax ecx edx ebx esp ebp esi edi r8d r9d r10d r11d r12d r13d r14d r15d".split()
G8 = "al cl dl bl spl bpl sil dil r8b r9b r10b r11b r12b r13b r14b r15b".split()
CC = {"Overflow": "o", "NoOverflow": "no", "Below": "b", "NeitherAboveNorEqual": "b", "NotBelow": "ae",
      "AboveOrEqual": "ae", "Equal": "e", "Zero": "e", "NotEqual": "ne", "NotZero": "ne", "BelowOrEqual": "be",
      "NotAbove": "be", "NeitherBelowNorEqual": "a", "Above": "a", "Sign": "s", "NoSign": "ns", "Parity": "p",
      "ParityEven": "p", "NoParity": "np", "ParityOdd": "np", "Less": "l", "NeitherGreaterNorEqual": "l",
      "NotLess": "ge", "GreaterOrEqual": "ge", "LessOrEqual": "le", "NotGreater": "le",
      "NeitherLessNorEqual": "g", "Greater": "g"}

E = {}


def _e(names, mn, ops, prefix=None):
    for n in names.split():
        E[n] = (mn if mn else None, ops.split(), prefix)


# no operands
_e("cdq", "cltd", ""); _e("cqo", "cqto", ""); _e("int3", "int3", ""); _e("mfence", "mfence", "")
_e("nop", "nop", ""); _e("retq", "retq", ""); _e("call_rel32", "callq", "rel")
# one register
_e("call_r", "callq", "g64:1"); _e("jmp_r", "jmpq", "g64:1")
_e("pushq_r", "pushq", "g64:1"); _e("popq_r", "popq", "g64:1")
for base in "idiv neg not".split():
    _e(f"{base}l_r {base}l", base + "l", "g32:1")
    _e(f"{base}q_r {base}q", base + "q", "g64:1")
for base in "rol ror sar shl shr".split():
    _e(base + "l_r", base + "l", "cl g32:1")
    _e(base + "q_r", base + "q", "cl g64:1")
    _e(base + "l_ri", base + "l", "imm8 g32:1")
    _e(base + "q_ri", base + "q", "imm8 g64:1")
# register, register: <op><size>_rr(dest|lhs, src|rhs)  =>  op %src, %dest
for base in "add and cmp or sub xor mov test imul lzcnt popcnt tzcnt".split():
    _e(base + "l_rr", base + "l", "g32:2 g32:1")
    _e(base + "q_rr", base + "q", "g64:2 g64:1")
_e("cmpb_rr", "cmpb", "g8:2 g8:1"); _e("testb_rr", "testb", "g8:2 g8:1")
_e("movsxbl_rr", "movsbl", "g8:2 g32:1"); _e("movsxbq_rr", "movsbq", "g8:2 g64:1")
_e("movsxlq_rr", "movslq", "g32:2 g64:1"); _e("movzxb_rr", "movzbl", "g8:2 g32:1")
_e("setcc_r", "set{cc}", "g8:1"); _e("cmovl", "cmov{cc}l", "g32:2 g32:1"); _e("cmovq", "cmov{cc}q", "g64:2 g64:1")
# register, immediate
for base in "add and cmp sub xor test mov".split():
    _e(base + "l_ri", base + "l", "imm32 g32:1")
    _e(base + "q_ri", base + "q", "imm64 g64:1")
# register <- memory
_e("lea", "leaq", "mem g64:1"); _e("movb_ra", "movb", "mem g8:1"); _e("movl_ra", "movl", "mem g32:1")
_e("movq_ra", "movq", "mem g64:1"); _e("movq_rl", "movq", "lbl g64:1")
_e("movsxbl_ra", "movsbl", "mem g32:1"); _e("movsxbq_ra", "movsbq", "mem g64:1"); _e("movzxb_ra", "movzbl", "mem g32:1")
# memory <- register / compared with register
for base in "cmp mov test xchg cmpxchg xadd".split():
    _e(base + "b_ar", base + "b", "g8:1 mem")
    _e(base + "l_ar", base + "l", "g32:1 mem")
    _e(base + "q_ar", base + "q", "g64:1 mem")
for base in "cmpxchg xadd".split():
    _e(f"lock_{base}l_ar", base + "l", "g32:1 mem", "lock")
    _e(f"lock_{base}q_ar", base + "q", "g64:1 mem", "lock")
# memory, immediate
for base in "cmp mov test".split():
    _e(base + "b_ai", base + "b", "imm8 mem")
    _e(base + "l_ai", base + "l", "imm32 mem")
    _e(base + "q_ai", base + "q", "imm64 mem")
# scalar SSE / AVX
for base in "add sub mul div sqrt mov".split():
    for t in "sd ss".split():
        _e(f"{base}{t}_rr", base + t, "x:2 x:1")
        _e(f"v{base}{t}_rr", "v" + base + t, "x:3 x:2 x:1")
for n in "cvtsd2ss cvtss2sd".split():
    _e(n + "_rr", n, "x:2 x:1")
    _e("v" + n + "_rr", "v" + n, "x:3 x:2 x:1")
for n in "pxor ucomisd ucomiss xorps vmovapd vmovaps vucomisd vucomiss".split():
    _e(n + "_rr", n, "x:2 x:1")
_e("vxorps_rr", "vxorps", "x:3 x:2 x:1")
for v in ("", "v"):
    for t in "sd ss".split():
        _e(f"{v}cvtt{t}2sid_rr", f"{v}cvtt{t}2si", "x:2 g32:1")
        _e(f"{v}cvtt{t}2siq_rr", f"{v}cvtt{t}2si", "x:2 g64:1")
        _e(f"{v}mov{t}_ra", f"{v}mov{t}", "mem x:1")
        _e(f"{v}mov{t}_rl", f"{v}mov{t}", "lbl x:1")
        _e(f"{v}mov{t}_ar", f"{v}mov{t}", "x:1 mem")
    _e(f"{v}movd_rx", f"{v}movd", "x:2 g32:1"); _e(f"{v}movq_rx", f"{v}movq", "x:2 g64:1")
    _e(f"{v}movd_xr", f"{v}movd", "g32:2 x:1"); _e(f"{v}movq_xr", f"{v}movq", "g64:2 x:1")
for t in "sd ss".split():
    _e(f"cvtsi2{t}d_rr", f"cvtsi2{t}", "g32:2 x:1"); _e(f"cvtsi2{t}q_rr", f"cvtsi2{t}", "g64:2 x:1")
    _e(f"vcvtsi2{t}d_rr", f"vcvtsi2{t}", "g32:3 x:2 x:1"); _e(f"vcvtsi2{t}q_rr", f"vcvtsi2{t}", "g64:3 x:2 x:1")
    _e(f"round{t}_ri", f"round{t}", "u8 x:2 x:1"); _e(f"vround{t}_ri", f"vround{t}", "u8 x:3 x:2 x:1")
for n in "andps xorpd xorps".split():
    _e(n + "_ra", n, "mem x:1"); _e(n + "_rl", n, "lbl x:1")
for n in "vandpd vandps vxorpd vxorps".split():
    _e(n + "_ra", n, "mem x:2 x:1"); _e(n + "_rl", n, "lbl x:2 x:1")
_e("movaps_ar", "movaps", "x:1 mem"); _e("movups_ar", "movups", "x:1 mem")
_e("jmp jmp_near", "jmp", "rel"); _e("jcc jcc_near", "j{cc}", "rel")

# llvm prints some mnemonics with / without an explicit size suffix, and a 64-bit immediate move as movabsq
ALIAS = {"movabsq": "movq", "cvtsi2sdl": "cvtsi2sd", "cvtsi2sdq": "cvtsi2sd", "cvtsi2ssl": "cvtsi2ss",
         "cvtsi2ssq": "cvtsi2ss", "vcvtsi2sdl": "vcvtsi2sd", "vcvtsi2sdq": "vcvtsi2sd", "vcvtsi2ssl": "vcvtsi2ss",
         "vcvtsi2ssq": "vcvtsi2ss", "cvttsd2sil": "cvttsd2si", "cvttsd2siq": "cvttsd2si", "cvttss2sil": "cvttss2si",
         "cvttss2siq": "cvttss2si", "int3": "int3"}


def s64(v):
    v &= (1 << 64) - 1
    return v - (1 << 64) if v >> 63 else v


def imm_value(rec):
    return int.from_bytes(bytes(rec["imm"]), "little", signed=True)


def instr_slice(rec, code=None):
    """(instruction bytes, label position relative to the END of the instruction) of a record"""
    b = list(rec["bytes"] if code is None else code)
    if "lbl" in rec:
        pad = rec["lbl"]["pad"]
        if rec["lbl"]["before"]:
            ins = b[pad:]
            return ins, -(pad + len(ins))
        ins = b[:len(b) - pad]
        return ins, pad
    return b, None


def expected(rec, code=None):
    """normalized requested instruction: {prefix, mn, ops} - None when the method is unknown to this table"""
    if rec["m"] not in E:
        return None
    mn, ops, prefix = E[rec["m"]]
    if "{cc}" in mn:
        mn = mn.replace("{cc}", CC[rec["cc"]])
    out = []
    _, lbl_rel = instr_slice(rec, code)
    for d in ops:
        if ":" in d:
            kind, k = d.split(":")
            r = rec["r"][int(k) - 1]
            out.append(("reg", {"g64": G64, "g32": G32, "g8": G8}[kind][r] if kind != "x" else "xmm%d" % r))
        elif d == "cl":
            out.append(("reg", "cl"))
        elif d == "mem":
            a = rec["a"]
            if a["k"] == "offset":
                out.append(("mem", a["disp"], G64[a["base"]], None, 1))
            elif a["k"] == "array":
                out.append(("mem", a["disp"], G64[a["base"]], G64[a["index"]], 1 << a["scale"]))
            elif a["k"] == "index":
                out.append(("mem", a["disp"], None, G64[a["index"]], 1 << a["scale"]))
            else:
                out.append(("mem", a["disp"], "rip", None, 1))
        elif d == "lbl":
            out.append(("mem", lbl_rel, "rip", None, 1))
        elif d in ("imm8", "imm32"):
            w = int(d[3:])
            out.append(("imm", imm_value(rec) & ((1 << w) - 1), w))
        elif d == "imm64":
            out.append(("imm", imm_value(rec) & ((1 << 64) - 1), 64))
        elif d == "u8":
            out.append(("imm", rec["u8"] & 255, 8))
        elif d == "rel":
            out.append(("rel", lbl_rel if lbl_rel is not None else rec["rel"]))
    return {"prefix": prefix, "mn": mn, "ops": out}


_MEM = re.compile(r"^(-?(?:0x[0-9a-fA-F]+|\d+))?\((%\w+)?(?:,(%\w+))?(?:,(\d))?\)$")


def _split_ops(s):
    out, depth, cur = [], 0, ""
    for ch in s:
        if ch == "(":
            depth += 1
        elif ch == ")":
            depth -= 1
        if ch == "," and depth == 0:
            out.append(cur.strip()); cur = ""
        else:
            cur += ch
    if cur.strip():
        out.append(cur.strip())
    return out


def parse_llvm(lines, want):
    """lines: the disassembly of ONE requested instruction (a lock prefix is its own line).
    `want` gives the operand kinds/widths to read numbers against. Returns {prefix, mn, ops} or an error string."""
    lines = [l.split("#")[0].strip() for l in lines]
    lines = [l for l in lines if l]
    prefix = None
    if lines and lines[0] in ("lock", "rep", "repne", "data16"):
        prefix = lines[0]
        lines = lines[1:]
    if len(lines) != 1:
        return "decodes to %d instructions: %s" % (len(lines), " ; ".join(lines))
    parts = lines[0].split(None, 1)
    mn = ALIAS.get(parts[0], parts[0])
    ops = []
    for i, o in enumerate(_split_ops(parts[1]) if len(parts) > 1 else []):
        o = o.lstrip("*")
        if o.startswith("%"):
            ops.append(("reg", o[1:]))
        elif o.startswith("$"):
            v = int(o[1:], 0)
            w = want["ops"][i][2] if i < len(want["ops"]) and want["ops"][i][0] == "imm" else 64
            ops.append(("imm", v & ((1 << w) - 1), w))
        elif "(" in o:
            m = _MEM.match(o)
            if not m:
                return "unparsed operand " + o
            disp = int(m.group(1), 0) if m.group(1) else 0
            base = m.group(2)[1:] if m.group(2) else None
            index = m.group(3)[1:] if m.group(3) else None
            scale = int(m.group(4)) if m.group(4) else 1
            if index is None:
                scale = 1
            ops.append(("mem", disp, base, index, scale))
        else:
            try:
                ops.append(("rel", int(o, 0)))
            except ValueError:
                return "unparsed operand " + o
    return {"prefix": prefix, "mn": mn, "ops": ops}


def reg_class(r):
    return "hi" if r >= 8 else ("b4-7" if r >= 4 else "lo")


def compare(want, got, rec):
    """None when equal, else (kind, text) with kind usable in a finding key"""
    if isinstance(got, str):
        return ("decode", got)
    if want["prefix"] != got["prefix"]:
        return ("prefix", "prefix %s instead of %s" % (got["prefix"], want["prefix"]))
    if want["mn"] != got["mn"]:
        return ("mnemonic:" + got["mn"], "mnemonic %s instead of %s" % (got["mn"], want["mn"]))
    if len(want["ops"]) != len(got["ops"]):
        return ("operands", "%d operands instead of %d" % (len(got["ops"]), len(want["ops"])))
    for i, (w, g) in enumerate(zip(want["ops"], got["ops"])):
        w2 = w
        if w[0] == "mem" and w[3] is None:
            w2 = (w[0], w[1], w[2], None, 1)
        if tuple(w2) != tuple(g):
            cls = ",".join(reg_class(r) for r in rec.get("r", []))
            return ("operand%d:%s" % (i + 1, cls), "operand %d is %s instead of %s" % (i + 1, g, w))
    return None


def render(x):
    if x is None or isinstance(x, str):
        return str(x)
    def op(o):
        if o[0] == "reg":
            return "%" + o[1]
        if o[0] == "imm":
            return "$%d" % o[1]
        if o[0] == "rel":
            return str(o[1])
        return "%d(%s%s)" % (o[1], "%" + o[2] if o[2] else "", ",%%%s,%d" % (o[3], o[4]) if o[3] else "")
    return ((x["prefix"] + " ") if x["prefix"] else "") + x["mn"] + " " + ", ".join(op(o) for o in x["ops"])


# ---------------------------------------------------------------------------------------------
SENT = 16


def llvm_mc_name():
    for n in ("llvm-mc-14", "llvm-mc"):
        p = subprocess.run(["which", n], capture_output=True, text=True)
        if p.returncode == 0:
            return n
    return None


def _run(mc, data, timeout=300):
    txt = "\n".join(" ".join("0x%02x" % b for b in ins) for ins in data) + "\n"
    p = subprocess.run([mc, "--disassemble", "-triple=x86_64", "-mattr=+avx,+avx2,+lzcnt,+popcnt,+bmi,+sse4.1"],
                       input=txt, capture_output=True, text=True, timeout=timeout)
    lines = [l.strip() for l in p.stdout.splitlines() if l.strip() and not l.strip().startswith(".")]
    return lines, p.stderr


def _split(mc, codes, idxs, res):
    data = [list(codes[i]) + [0xCC] * SENT for i in idxs]
    lines, err = _run(mc, data)
    groups, cur, run = [], [], 0
    ok = "warning" not in err and "error" not in err
    if ok:
        for l in lines:
            if l.split("#")[0].strip() == "int3":
                run += 1
                if run == SENT:
                    groups.append(cur); cur = []; run = 0
            else:
                if run != 0:
                    ok = False
                    break
                cur.append(l)
    if ok and len(groups) == len(idxs) and not cur and run == 0:
        for i, gr in zip(idxs, groups):
            res[i] = gr
        return
    if len(idxs) == 1:
        lines, err = _run(mc, [list(codes[idxs[0]])])
        if "warning" in err or "error" in err:
            lines = lines + ["<invalid: %s>" % " ".join(err.split()[:8])]
        res[idxs[0]] = lines
        return
    h = len(idxs) // 2
    _split(mc, codes, idxs[:h], res)
    _split(mc, codes, idxs[h:], res)


def disassemble_many(mc, codes):
    """codes: list of byte lists. Returns (same order) the disassembly lines of each. One llvm-mc process for all:
    every instruction is followed by 16 int3 bytes and a clean split needs exactly 16 int3 lines after each group
    (an x86 instruction is at most 15 bytes long, so a wrong length cannot hide); a batch that does not split
    cleanly is bisected down to single instructions, which are decoded alone."""
    res = [None] * len(codes)
    alone = [i for i, c in enumerate(codes) if not c or c[0] == 0xCC or len(c) > 15]
    batch = [i for i in range(len(codes)) if i not in set(alone)]
    for k in range(0, len(batch), 20000):
        _split(mc, codes, batch[k:k + 20000], res)
    for i in alone:
        lines, err = _run(mc, [list(codes[i])]) if codes[i] else ([], "")
        if "warning" in err or "error" in err:
            lines = lines + ["<invalid: %s>" % " ".join(err.split()[:8])]
        res[i] = lines
    return res
