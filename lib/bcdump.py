"""Dumps the bytecode of std::thread (Mutex, Condition) from the current tree as JSON for spec/conc/BcSync.tla.
The bytecode comes from the real front end (`dora compile -c --emit-bytecode=all`), so the model follows the code."""
import json, os, re
from common import *

PROBE = "fn main() { let m = std::thread::Mutex::new(); let c = std::thread::Condition::new(); m.lock[()](|| { c.notify_one(); c.notify_all(); c.wait(m); }); }\n"


def const_values():
    vals = {}
    src = open(os.path.join(REPO, "pkgs/std/thread.dora")).read()
    for m in re.finditer(r"^const\s+(\w+)\s*:\s*\w+\s*=\s*(-?\d+)(?:i32|i64)?\s*;", src, re.M):
        vals[m.group(1)] = int(m.group(2))
    return vals


def dump(workdir):
    src = os.path.join(workdir, "bcprobe.dora")
    open(src, "w").write(PROBE)
    p = sh([DORA, "compile", "-c", "--emit-bytecode=all", src, "-o", os.path.join(workdir, "bcprobe.pkg")], timeout=300, cwd=VERIF, text=False)
    if p.returncode != 0:
        raise ToolError("bytecode dump failed: " + (p.stderr or b"")[-2000:].decode("utf8", "replace"))
    out = p.stdout.decode("utf8", "replace")
    consts = const_values()
    fns = {}
    for b in re.split(r"\nBytecode for ", "\n" + out):
        m = re.match(r"std::thread::<impl (Mutex|Condition)>::(\w+):\n", b)
        if not m:
            continue
        name = m.group(1) + "::" + m.group(2)
        ins = []
        for line in b.splitlines()[1:]:
            if line.strip().startswith("Registers"):
                break
            mm = re.match(r"\s*(\d+): (\w+)\s*(.*?)(?:\s+#\s*(.*))?$", line)
            if not mm:
                continue
            off = int(mm.group(1)); op = mm.group(2); args = mm.group(3); cmt = (mm.group(4) or "").strip()
            regs = [int(x) for x in re.findall(r"\br(\d+)\b", args)]
            tgt = re.search(r"(\d+) \([+-]\d+\)", args)
            callee = ""
            val = 0
            if op in ("InvokeDirect", "InvokeStatic", "InvokeVirtual", "InvokeLambda", "InvokeGenericDirect", "InvokeGenericStatic"):
                mc = re.match(r"std::thread::<impl (\w+)>::(\w+)", cmt)
                callee = (mc.group(1) + "::" + mc.group(2)) if mc else cmt
            elif op == "LoadConst":
                cname = cmt.split("::")[-1]
                if cname not in consts:
                    raise ToolError("unknown constant " + cmt)
                val = consts[cname]
            elif op.startswith("Const") and cmt:
                try:
                    val = int(cmt)
                except ValueError:
                    val = 0
            elif op in ("GetFieldRef", "LoadField", "StoreField"):
                callee = cmt            # e.g. Mutex.data
            ins.append({"off": off, "op": op, "r": regs, "tgt": int(tgt.group(1)) if tgt else -1, "c": callee, "v": val})
        offs = {i["off"]: k + 1 for k, i in enumerate(ins)}
        for i in ins:
            i["t"] = offs.get(i["tgt"], 0)
            del i["tgt"]; del i["off"]
        fns[name] = ins
    need = ["Mutex::lock_op", "Mutex::unlock_op", "Condition::wait", "Condition::notify_one", "Condition::notify_all"]
    for n in need:
        if n not in fns:
            raise ToolError("method %s not found in the bytecode dump" % n)
    path = os.path.join(workdir, "thread_bc.json")
    with open(path, "w") as f:
        f.write(json.dumps(fns) + "\n")
    return path, fns
