"""C10 extractor: the assembly file written by `dora compile -S` -> one record per code object.

Independent of the compiler: the `.s` text is parsed here (sections, labels, `.byte` runs, `.reloc` lines, the
metadata sections `.dora.functions`, `.dora.gcpoints`, `.dora.gcpoint_offsets`, `.dora.gcpoint_interior_pointers`,
`.dora.locations`, laid out as dora-compiler/src/assembly.rs `write_function_metadata` writes them), the file is
assembled (gcc for x86-64, llvm-mc for aarch64) and the object disassembled with `llvm-objdump -d -r`; call sites
are the `call`/`bl`/`blr` instructions of that disassembly together with the relocation that patches them.

Cross-checks of the machinery (ToolError, never a verdict): the location counter computed from the text agrees with
the symbol table of the assembled object; every direct-call relocation is seen as a call instruction by the
disassembler and vice versa (no desynchronised linear sweep).

aarch64: `.byte` data carries a `$d` mapping symbol, so objdump would print `.word`s.  The object that is
disassembled is therefore assembled from a derived file in which the `.byte` runs of each function are re-spelled as
`.inst` words (same bytes - compared with the original object's `.text` - same labels, same `.reloc` lines).
"""
import os, re, struct, subprocess, json
from common import ToolError, sh

KIND_NAMES = {0: "optimized", 1: "runtime_entry_trampoline", 2: "dora_entry_trampoline",
              3: "allocation_failure_trampoline", 4: "trap_trampoline", 5: "safepoint_trampoline",
              6: "unreachable_trampoline", 7: "fatal_error_trampoline", 8: "stack_overflow_trampoline"}

# callee classes; which of them can suspend the caller is decided by spec/codec/StackMaps.tla (see its header)
KIND_TO_CLASS = {0: "managed", 1: "runtime_entry", 2: "unknown", 3: "alloc", 4: "trap", 5: "safepoint",
                 6: "unreachable", 7: "fatal", 8: "stack_overflow"}
NAME_TO_CLASS = {"dora_aot_trap_trampoline": "trap", "dora_aot_stack_overflow_trampoline": "stack_overflow",
                 "dora_aot_safepoint_trampoline": "safepoint", "dora_aot_gc_allocation_trampoline": "alloc",
                 "dora_aot_unreachable_trampoline": "unreachable", "dora_aot_fatal_error_trampoline": "fatal",
                 "dora_aot_write_barrier_slow_path": "write_barrier"}
# text labels that are not code objects registered with the runtime
NOT_CODE = ("main", "dora_gc_collector")

_LABEL = re.compile(r"^([A-Za-z_$][\w.$]*):$")
_LLABEL = re.compile(r"^(\.L[\w.$]*):$")
_RELOC = re.compile(r"^\.reloc\s+([^\s+]+)\+(\d+(?:\+\d+)*),\s*(\w+),\s*(\S+?)(?:\s*([-+])\s*(\d+))?$")
_SECTION = re.compile(r"^\.section\s+([^\s,]+)")


class Sym:
    __slots__ = ("name", "start", "size", "code", "relocs", "end_label", "end")

    def __init__(self, name, start):
        self.name = name; self.start = start; self.size = 0; self.code = bytearray(); self.relocs = []
        self.end_label = None; self.end = None


class Parsed:
    def __init__(self):
        self.syms = []          # text symbols in file order
        self.local_text = {}    # .L label in text -> offset
        self.data = {}          # section -> list of tokens of .long/.quad
        self.arch = None
        self.main_seen = False


def parse_s(path):
    P = Parsed()
    sec = ".text"
    loc = 0
    cur = None
    data = P.data
    with open(path) as f:
        for raw in f:
            l = raw.strip()
            if not l:
                continue
            c0 = l[0]
            if c0 == ".":
                if l.startswith(".byte"):
                    if sec == ".text":
                        toks = l[5:].split(",")
                        n = len(toks)
                        if cur is not None:
                            if toks[0].lstrip().startswith("0x"):
                                cur.code += bytes(int(t, 16) for t in toks)
                            else:
                                cur.code += bytes(int(t) & 255 for t in toks)
                        loc += n
                    continue
                if l.startswith(".long") or l.startswith(".quad"):
                    if sec != ".text":
                        data.setdefault(sec, []).append(l[5:].strip())
                    else:
                        raise ToolError(f"{path}: data directive in .text: {l}")
                    continue
                if l.startswith(".reloc"):
                    m = _RELOC.match(l)
                    if not m:
                        raise ToolError(f"{path}: unparsed .reloc line: {l}")
                    if sec == ".text":
                        if cur is None or m.group(1) != cur.name:
                            raise ToolError(f"{path}: .reloc for {m.group(1)} outside its function")
                        add = int(m.group(6) or 0) * (-1 if m.group(5) == "-" else 1)
                        cur.relocs.append((sum(int(x) for x in m.group(2).split("+")), m.group(3), m.group(4), add))
                        if P.arch is None:
                            P.arch = "arm64" if "AARCH64" in m.group(3) else "x64"
                    continue
                if l == ".text":
                    sec = ".text"; continue
                if l == ".bss":
                    sec = ".bss"; continue
                m = _SECTION.match(l)
                if m:
                    sec = m.group(1); continue
                if l.startswith(".p2align"):
                    if sec == ".text":
                        a = 1 << int(l.split()[1])
                        loc = (loc + a - 1) // a * a
                    continue
                if l.startswith(".globl") or l.startswith(".zero"):
                    continue
                m = _LLABEL.match(l)
                if m:   # local label
                    if sec == ".text":
                        P.local_text[m.group(1)] = loc
                        if cur is not None and (m.group(1).startswith(".Ldora_aot_function_end_")
                                                or m.group(1) == ".Ldora_entry_trampoline_end"):
                            cur.end_label = m.group(1); cur.end = loc; cur.size = loc - cur.start
                            cur = None
                    continue
                raise ToolError(f"{path}: unknown directive: {l}")
            m = _LABEL.match(l)
            if m:
                if sec == ".text":
                    if P.main_seen:
                        raise ToolError(f"{path}: text label {m.group(1)} after main")
                    if cur is not None and cur.name not in NOT_CODE:
                        raise ToolError(f"{path}: label {m.group(1)} inside {cur.name}")
                    cur = Sym(m.group(1), loc)
                    P.syms.append(cur)
                    if cur.name == "main":
                        P.main_seen = True
                continue
            # an instruction line: only inside main (the C entry, last thing in .text)
            if sec == ".text" and cur is not None and cur.name == "main":
                if P.arch is None:
                    P.arch = "arm64" if l.startswith(("adrp", "add ", "b ")) else "x64"
                continue
            raise ToolError(f"{path}: unexpected line: {l}")
    if P.arch is None:
        raise ToolError(f"{path}: cannot tell the architecture")
    return P


def _ints(tokens, what):
    try:
        return [int(t) for t in tokens]
    except ValueError as e:
        raise ToolError(f"non-numeric token in {what}: {e}")


def metadata(P):
    """-> list of entries in file order."""
    F = P.data.get(".dora.functions", [])
    G = _ints(P.data.get(".dora.gcpoints", []), "gcpoints")
    O = _ints(P.data.get(".dora.gcpoint_offsets", []), "gcpoint_offsets")
    I = _ints(P.data.get(".dora.gcpoint_interior_pointers", []), "interior")
    L = _ints(P.data.get(".dora.locations", []), "locations")
    if len(F) % 12 or len(G) % 5 or len(L) % 4:
        raise ToolError("metadata section length is not a multiple of the record size")
    ents = []
    used_g = 0; used_l = 0
    for k in range(0, len(F), 12):
        e = F[k:k + 12]
        nums = _ints(e[2:], "functions")
        fct, kind, info, gs, gl, ls, ll, ins, inl, pad = nums
        gps = []
        if gs + gl > len(G) // 5:
            raise ToolError("gcpoint range outside .dora.gcpoints")
        for g in range(gs, gs + gl):
            pc, os_, ol, is_, il = G[5 * g:5 * g + 5]
            if os_ + ol > len(O) or is_ + il > len(I):
                raise ToolError("gcpoint offsets range outside its section")
            gps.append({"off": pc, "slots": O[os_:os_ + ol], "interior": I[is_:is_ + il]})
        if ls + ll > len(L) // 4:
            raise ToolError("location range outside .dora.locations")
        locs = []
        for q in range(ls, ls + ll):
            pc, inl_id, line, col = L[4 * q:4 * q + 4]
            locs.append({"off": pc, "line": line, "col": col})
        ents.append({"sym": e[0], "end_label": e[1], "fct": fct, "kind": kind, "gcpoints": gps, "locations": locs,
                     "g_range": (gs, gl), "l_range": (ls, ll)})
        used_g += gl; used_l += ll
    return ents, {"gcpoint_entries": len(G) // 5, "gcpoint_entries_owned": used_g,
                  "location_entries": len(L) // 4, "location_entries_owned": used_l}


# ---------------------------------------------------------------------------------------------------------------
# assembling and disassembling

def _arm_inst_file(P, out):
    """Derived aarch64 assembly: only .text, the bytes of each function as .inst words (code mapping symbols)."""
    with open(out, "w") as f:
        f.write(".text\n")
        declared = set()
        for s in P.syms:
            if s.name in NOT_CODE:
                continue
            f.write(f"\n    .p2align 4\n.globl {s.name}\n{s.name}:\n")
            code = bytes(s.code)
            if len(code) % 4:
                raise ToolError(f"aarch64 function {s.name} has a size that is not a multiple of 4")
            words = struct.unpack("<%dI" % (len(code) // 4), code)
            for i in range(0, len(words), 8):
                f.write("    .inst " + ", ".join("0x%08x" % w for w in words[i:i + 8]) + "\n")
            for off, typ, tgt, add in s.relocs:
                if typ != "R_AARCH64_CALL26":
                    continue        # data references (shapes, strings, globals) play no role for call sites
                if tgt not in declared:
                    declared.add(tgt)
                    f.write(f".globl {tgt}\n")
                f.write(f"    .reloc {s.name}+{off}, {typ}, {tgt}\n")


def assemble(P, spath, work):
    base = os.path.join(work, os.path.basename(spath)[:-2])
    obj = base + ".o"
    if P.arch == "x64":
        sh(["gcc", "-c", spath, "-o", obj], timeout=600, check=True)
        return obj, obj
    sh(["llvm-mc", "-triple=aarch64-linux-gnu", "-filetype=obj", spath, "-o", obj], timeout=600, check=True)
    inst = base + ".inst.s"
    _arm_inst_file(P, inst)
    obj2 = base + ".inst.o"
    sh(["llvm-mc", "-triple=aarch64-linux-gnu", "-filetype=obj", inst, "-o", obj2], timeout=600, check=True)
    # same bytes?
    b1 = base + ".text.bin"; b2 = base + ".inst.text.bin"
    sh(["llvm-objcopy", "-O", "binary", "-j", ".text", obj, b1], timeout=300, check=True)
    sh(["llvm-objcopy", "-O", "binary", "-j", ".text", obj2, b2], timeout=300, check=True)
    d1 = open(b1, "rb").read(); d2 = open(b2, "rb").read()
    if d1[:len(d2)] != d2:
        raise ToolError(f"{spath}: derived .inst object differs from the original .text")
    for p in (b1, b2, inst):
        os.unlink(p)
    return obj, obj2


def symbol_table(obj):
    p = sh(["llvm-nm", "--defined-only", obj], timeout=300, check=True)
    t = {}
    for l in p.stdout.splitlines():
        a = l.split()
        if len(a) == 3 and a[1] in "Tt":
            t[a[2]] = int(a[0], 16)
    return t


_HDR = re.compile(r"^([0-9a-f]+) <(.+)>:$")
_INS = re.compile(r"^\s*([0-9a-f]+):\s+(\S+)\s*(.*)$")
_REL = re.compile(r"^\s+([0-9a-f]+):\s+(R_\S+)\s+(\S+?)([-+]0x[0-9a-f]+)?$")


def disassemble(obj, arch):
    """-> {function: {"base", "calls": [{off, ret, indirect, target}], "ins": [(addr, mnem, ops)] for the frame analysis}"""
    p = subprocess.run(["llvm-objdump", "-d", "-r", "--no-show-raw-insn", obj], capture_output=True, text=True,
                       timeout=900)
    if p.returncode != 0:
        raise ToolError("llvm-objdump failed: " + p.stderr[-2000:])
    out = {}
    cur = None; pending = None; last_call = None
    callm = ("callq", "call") if arch == "x64" else ("bl", "blr", "blraa", "blraaz", "blrab", "blrabz")
    for line in p.stdout.split("\n"):
        if not line:
            continue
        if line[0] != " " and line[0] != "\t":
            m = _HDR.match(line)
            if m:
                if pending is not None:
                    pending["ret"] = int(m.group(1), 16) - cur["base"]
                    pending = None
                cur = {"base": int(m.group(1), 16), "calls": [], "ins": []}
                out[m.group(2)] = cur
                last_call = None
            continue
        if cur is None:
            continue
        if "R_" in line:
            m = _REL.match(line)
            if m:
                roff = int(m.group(1), 16) - cur["base"]
                cur.setdefault("relocs", []).append((roff, m.group(2), m.group(3)))
                if last_call is not None and last_call["off"] <= roff < last_call["off"] + 8 and \
                        last_call["target"] is None and not last_call["indirect"]:
                    last_call["target"] = m.group(3); last_call["rtype"] = m.group(2)
                continue
        m = _INS.match(line)
        if not m:
            continue
        addr = int(m.group(1), 16) - cur["base"]
        mnem = m.group(2); ops = m.group(3)
        if arch == "x64" and "#" in ops:
            ops = ops.split("#")[0].rstrip()        # objdump's `# imm = 0x..' comment
        if pending is not None:
            pending["ret"] = addr; pending = None
        cur["ins"].append((addr, mnem, ops))
        if mnem in callm:
            indirect = ("*" in ops) if arch == "x64" else mnem != "bl"
            pending = {"off": addr, "ret": None, "indirect": indirect, "target": None}
            cur["calls"].append(pending)
            last_call = pending
    return out


# ---------------------------------------------------------------------------------------------------------------
# frame depth (bytes below the frame pointer that belong to the frame at a given instruction)

_IMM = re.compile(r"\$(-?\d+|0x[0-9a-f]+)")


def frame_depths(ins, arch):
    """Linear walk. Returns (static_frame or -1, {offset_of_instruction: depth_before_it}).

    x64 prologue `push rbp; mov rbp,rsp [; sub rsp,N]`, aarch64 `stp x29,x30,[sp,#-16]!; mov x29,sp [; sub sp,sp,#N]`.
    After the prologue the depth changes by push/pop/sub/add on the stack pointer (the optimizing compiler saves live
    registers around slow-path calls this way); after an unconditional transfer (ret/jmp/b/int3/brk/ud2) the walk
    continues with the static frame, which is the depth at every branch target of both code generators (slow paths
    restore the stack pointer before they jump back).  A heuristic: used only for the optional `within the frame'
    bound, -1 = unknown."""
    depth_at = {}
    if arch == "x64":
        if len(ins) < 2 or ins[0][1] != "pushq" or ins[0][2] != "%rbp" or ins[1][2] != "%rsp, %rbp":
            return -1, depth_at
        static = 0; k = 2
        if len(ins) > 2 and ins[2][1] == "subq" and ins[2][2].endswith(", %rsp"):
            m = _IMM.match(ins[2][2])
            if not m:
                return -1, depth_at
            static = int(m.group(1), 0); k = 3
        d = static
        for addr, mnem, ops in ins[k:]:
            depth_at[addr] = d
            if mnem == "pushq":
                d += 8
            elif mnem == "popq":
                d -= 8
            elif ops.endswith(", %rsp"):
                m = _IMM.match(ops)
                if mnem == "subq" and m:
                    d += int(m.group(1), 0)
                elif mnem == "addq" and m:
                    d -= int(m.group(1), 0)
                elif mnem == "movq" and ops == "%rbp, %rsp":
                    d = static
                elif mnem in ("cmpq", "testq"):
                    pass
                else:
                    return -1, {}
            elif mnem in ("retq", "jmp", "int3", "ud2"):
                d = static
        return static, depth_at
    # aarch64
    if len(ins) < 2 or ins[0][1] != "stp" or not ins[0][2].startswith("x29, x30, [sp, #-16]!") or \
            ins[1][2].replace(" ", "") not in ("x29,sp", "x29,sp,xzr"):
        return -1, depth_at
    static = 0; k = 2
    if len(ins) > 2 and ins[2][1] == "sub" and ins[2][2].startswith("sp, sp, #"):
        mm = re.match(r"sp, sp, #(\d+)(?:, lsl #(\d+))?", ins[2][2])
        static = int(mm.group(1)) << int(mm.group(2) or 0); k = 3
    elif len(ins) > 3 and ins[2][1] == "mov" and ins[3][1] == "sub" and ins[3][2].startswith("sp, sp, x"):
        # runtime-entry trampolines: mov xN, #imm ; sub sp, sp, xN
        mm = re.match(r"(x\d+), #(\d+)$", ins[2][2])
        if not mm or ins[3][2] != "sp, sp, " + mm.group(1):
            return -1, depth_at
        static = int(mm.group(2)); k = 4
    d = static
    pre = re.compile(r"\[sp, #-(\d+)\]!")
    post = re.compile(r"\[sp\], #(\d+)")
    for addr, mnem, ops in ins[k:]:
        depth_at[addr] = d
        if "sp" in ops:
            m = pre.search(ops)
            if m:
                d += int(m.group(1)); continue
            m = post.search(ops)
            if m:
                d -= int(m.group(1)); continue
            if ops.startswith("sp, "):
                mm = re.match(r"sp, sp, #(\d+)(?:, lsl #(\d+))?$", ops)
                if mnem == "sub" and mm:
                    d += int(mm.group(1)) << int(mm.group(2) or 0)
                elif mnem == "add" and mm:
                    d -= int(mm.group(1)) << int(mm.group(2) or 0)
                elif (mnem == "mov" and ops == "sp, x29") or (mnem == "add" and ops == "sp, x29, xzr"):
                    d = static
                elif mnem in ("cmp", "cmn", "tst"):
                    pass
                else:
                    return -1, {}
        elif mnem in ("ret", "b", "brk", "br", "udf"):
            d = static
    return static, depth_at


# ---------------------------------------------------------------------------------------------------------------

def classify(target, indirect, kind_of_symbol):
    if indirect:
        return "indirect"
    if target is None:
        return "unknown"
    if target in kind_of_symbol:
        by_kind = KIND_TO_CLASS.get(kind_of_symbol[target], "unknown")
        by_name = NAME_TO_CLASS.get(target)
        if by_name is not None and by_name != by_kind:
            return "unknown"       # the name says one thing, the registered code kind another
        if by_kind == "runtime_entry" and not target.endswith("_24runtime_5Fentry"):
            return "unknown"
        return by_kind
    if target == "dora_aot_write_barrier_slow_path":
        return "write_barrier"
    if target.startswith("dora_native_") or target.startswith("dora_"):
        # an undefined dora_* symbol: a function of the runtime library called with the C ABI
        return "native"
    return "native"


def extract(spath, work, label=None):
    """-> (records sorted by start, stats dict). Raises ToolError when the machinery cannot read the artifact."""
    P = parse_s(spath)
    ents, mstats = metadata(P)
    obj, dobj = assemble(P, spath, work)
    nm = symbol_table(obj)
    for s in P.syms:
        if s.name == "dora_gc_collector":
            continue
        if nm.get(s.name) != s.start:
            raise ToolError(f"{spath}: location counter {s.start} of {s.name} differs from the object's {nm.get(s.name)}")
    dis = disassemble(dobj, P.arch)
    if P.arch == "arm64":
        nm2 = symbol_table(dobj)
    code_syms = [s for s in P.syms if s.name not in NOT_CODE]
    by_name = {}
    for s in code_syms:
        by_name.setdefault(s.name, []).append(s)
    kind_of_symbol = {}
    meta_count = {}
    for e in ents:
        meta_count[e["sym"]] = meta_count.get(e["sym"], 0) + 1
        kind_of_symbol[e["sym"]] = e["kind"]
    recs = []
    stats = {"functions": 0, "calls": {}, "gcpoints": 0, "slots": 0, "interior": 0, "locations": 0,
             "unknown_targets": {}, "frame_known": 0, "by_kind": {}}
    stats.update(mstats)
    call_rtypes = ("R_X86_64_PC32", "R_X86_64_PLT32") if P.arch == "x64" else ("R_AARCH64_CALL26",)
    for e in ents:
        cands = by_name.get(e["sym"], [])
        s = cands[0] if cands else None
        rec = {"name": e["sym"], "kind": e["kind"], "fct": e["fct"], "nsym": len(cands), "nmeta": meta_count[e["sym"]],
               "start": -1, "end": -1, "framesize": -1, "calls": [], "gcpoints": [], "locations": e["locations"]}
        if s is not None:
            rec["start"] = s.start
            rec["end"] = P.local_text.get(e["end_label"], -1)
            d = dis.get(s.name)
            if d is None:
                raise ToolError(f"{spath}: {s.name} missing from the disassembly")
            if P.arch == "arm64" and nm2.get(s.name) != d["base"]:
                raise ToolError("derived object symbol mismatch")
            static, depth_at = frame_depths(d["ins"], P.arch)
            rec["framesize"] = static
            if static >= 0:
                stats["frame_known"] += 1
            # direct calls according to the relocations of the .s file
            reloc_calls = set()
            for off, typ, tgt, add in s.relocs:
                if P.arch == "x64":
                    if typ in call_rtypes and off >= 1 and s.code[off - 1] == 0xE8:
                        reloc_calls.add((off - 1, tgt))
                elif typ == "R_AARCH64_CALL26":
                    w = struct.unpack_from("<I", s.code, off)[0]
                    if w >> 26 == 0x25:
                        reloc_calls.add((off, tgt))
            dis_calls = set()
            depth_at_ret = {}
            for c in d["calls"]:
                if c["ret"] is None:
                    c["ret"] = rec["end"] - rec["start"]
                if not c["indirect"]:
                    if c["target"] is None:
                        # a direct call without relocation: a pc-relative call inside the file
                        dis_calls.add((c["off"], None))
                    else:
                        dis_calls.add((c["off"], c["target"]))
                cls = classify(c["target"], c["indirect"], kind_of_symbol)
                if cls == "unknown":
                    t = c["target"] or "<no relocation>"
                    stats["unknown_targets"][t] = stats["unknown_targets"].get(t, 0) + 1
                stats["calls"][cls] = stats["calls"].get(cls, 0) + 1
                rec["calls"].append({"ret": c["ret"], "cls": cls})
                depth_at_ret[c["ret"]] = depth_at.get(c["off"], -1) if static >= 0 else -1
            if dis_calls != reloc_calls:
                raise ToolError(f"{spath}: {s.name}: call sites of the disassembly and of the relocations differ: "
                                f"{sorted(dis_calls ^ reloc_calls, key=str)[:6]}")
            for g in e["gcpoints"]:
                rec["gcpoints"].append({"off": g["off"], "slots": g["slots"], "interior": g["interior"],
                                        "frame": depth_at_ret.get(g["off"], static if static >= 0 else -1)})
        else:
            rec["gcpoints"] = [{"off": g["off"], "slots": g["slots"], "interior": g["interior"], "frame": -1}
                               for g in e["gcpoints"]]
        stats["functions"] += 1
        stats["by_kind"][KIND_NAMES.get(e["kind"], str(e["kind"]))] = \
            stats["by_kind"].get(KIND_NAMES.get(e["kind"], str(e["kind"])), 0) + 1
        stats["gcpoints"] += len(rec["gcpoints"])
        stats["slots"] += sum(len(g["slots"]) for g in rec["gcpoints"])
        stats["interior"] += sum(len(g["interior"]) for g in rec["gcpoints"])
        stats["locations"] += len(rec["locations"])
        recs.append(rec)
    # text symbols without any metadata entry become records of kind -1 (the specification rejects them)
    for s in code_syms:
        if s.name not in meta_count:
            recs.append({"name": s.name, "kind": -1, "fct": 0, "nsym": len(by_name[s.name]), "nmeta": 0,
                         "start": s.start, "end": s.end if s.end is not None else s.start + len(s.code),
                         "framesize": -1, "calls": [], "gcpoints": [], "locations": []})
    recs.sort(key=lambda r: (r["start"], r["end"]))
    # the i-th symbol of the text section (by address) is attached to the i-th record: the specification compares
    ordered = sorted(code_syms, key=lambda s: s.start)
    for i, r in enumerate(recs):
        r["sym"] = {"name": ordered[i].name, "addr": ordered[i].start} if i < len(ordered) else {"name": "", "addr": -1}
        r["idx"] = i + 1
    stats["text_symbols"] = len(code_syms)
    stats["arch"] = P.arch
    return recs, stats


def write_chunks(arts, prefix, chunk=6000):
    """arts: list of record lists (one per artifact, records carry `art`). NDJSON files of about `chunk` records; an
    artifact that is cut continues in the next file with its last record repeated, so that the ordered-list check
    sees every consecutive pair."""
    files = []
    cur = []

    def flush():
        if cur:
            p = f"{prefix}.{len(files)}.ndjson"
            with open(p, "w") as f:
                for r in cur:
                    f.write(json.dumps(r, separators=(",", ":")) + "\n")
            files.append((p, len(cur)))
            del cur[:]
    for recs in arts:
        i = 0
        while i < len(recs):
            room = chunk - len(cur)
            if room <= 1:
                flush(); room = chunk
            part = recs[i:i + room]
            cur.extend(part)
            i += len(part)
            if i < len(recs):          # cut: repeat the last record at the head of the next file
                flush()
                i -= 1
    flush()
    return files


if __name__ == "__main__":
    import sys
    recs, st = extract(sys.argv[1], os.path.dirname(os.path.abspath(sys.argv[1])))
    print(json.dumps(st, indent=1))
