"""Building and running Dora programs with the tool chain built from /repo's working tree."""
import os, subprocess, signal, time
from common import *


class Built:
    def __init__(self, exe, backend, gc):
        self.exe = exe; self.backend = backend; self.gc = gc


def compile_prog(src, out, backend="cannon", gc=None, extra=None, timeout=300, emit_s=False):
    """backend: 'cannon' (baseline) or 'boots' (optimizing). Returns (Built|None, message)."""
    cmd = [DORA, "compile"]
    if backend == "cannon":
        cmd.append("--cannon")
    if gc:
        cmd += ["--gc", gc]
    if extra:
        cmd += extra
    if emit_s:
        cmd.append("-S")
    cmd += [src, "-o", out]
    p = sh(cmd, timeout=timeout, cwd=VERIF)
    if getattr(p, "timed_out", False):
        return None, "compile timed out after %ss" % timeout
    if p.returncode != 0:
        return None, "compile failed rc=%s\n%s\n%s" % (p.returncode, p.stdout[-3000:], p.stderr[-3000:])
    return Built(out, backend, gc), ""


class RunResult:
    def __init__(self, p, secs):
        self.rc = p.returncode
        self.timed_out = getattr(p, "timed_out", False)
        self.signal = -p.returncode if (p.returncode is not None and p.returncode < 0 and not self.timed_out) else None
        self.out = p.stdout or ""
        self.err = p.stderr or ""
        self.secs = secs

    def ending(self):
        if self.timed_out:
            return "timeout"
        if self.signal:
            return "signal %d" % self.signal
        return "exit %d" % self.rc


def run_prog(exe, args=(), flags="", env=None, timeout=60, cwd=None):
    e = {"DORA_FLAGS": flags}
    if env:
        e.update(env)
    t0 = time.time()
    p = sh([exe] + list(args), timeout=timeout, env=e, cwd=cwd)
    return RunResult(p, time.time() - t0)
