"""Building and running Dora programs with the tool chain built from /repo's working tree."""
import os, subprocess, signal, time
from common import *


class Built:
    def __init__(self, exe, backend, gc):
        self.exe = exe; self.backend = backend; self.gc = gc


def compile_prog(src, out, backend="cannon", gc=None, extra=None, timeout=300, emit_s=False):
    """backend: 'cannon' (baseline) or 'boots' (optimizing). Returns (Built|None, message)."""
    cmd = [DORA, "compile"]
    if backend == "cannon":
        cmd.append("--cannon")
    if gc:
        cmd += ["--gc", gc]
    if extra:
        cmd += extra
    if emit_s:
        cmd.append("-S")
    cmd += [src, "-o", out]
    p = sh(cmd, timeout=timeout, cwd=VERIF)
    if getattr(p, "timed_out", False):
        return None, "compile timed out after %ss" % timeout
    if p.returncode != 0:
        return None, "compile failed rc=%s\n%s\n%s" % (p.returncode, p.stdout[-3000:], p.stderr[-3000:])
    return Built(out, backend, gc), ""


class RunResult:
    def __init__(self, p, secs):
        self.rc = p.returncode
        self.timed_out = getattr(p, "timed_out", False)
        self.signal = -p.returncode if (p.returncode is not None and p.returncode < 0 and not self.timed_out) else None
        self.out = p.stdout or ""
        self.err = p.stderr or ""
        self.secs = secs
        self.deadlock = False

    def ending(self):
        if self.timed_out:
            return "timeout"
        if self.signal:
            return "signal %d" % self.signal
        return "exit %d" % self.rc


def _all_asleep(pid):
    """(every thread of the process sleeps, total cpu ticks) - None if the process is gone"""
    try:
        tot = 0; asleep = True
        for t in os.listdir(f"/proc/{pid}/task"):
            f = open(f"/proc/{pid}/task/{t}/stat").read()
            rest = f[f.rindex(")") + 2:].split()
            if rest[0] not in ("S", "I"):
                asleep = False
            tot += int(rest[11]) + int(rest[12])
        return asleep, tot
    except (OSError, ValueError, IndexError):
        return None


def run_prog(exe, args=(), flags="", env=None, timeout=60, cwd=None, deadlock_s=None):
    """deadlock_s: end the run early (RunResult.deadlock) when ALL threads have been asleep without consuming any cpu time for that
    many seconds - only for programs that never sleep on timers or wait for input (load on the machine cannot cause it: a thread
    waiting for a cpu is runnable, not asleep)"""
    e = {"DORA_FLAGS": flags}
    if env:
        e.update(env)
    t0 = time.time()
    if deadlock_s is None:
        p = sh([exe] + list(args), timeout=timeout, env=e, cwd=cwd)
        return RunResult(p, time.time() - t0)
    ee = dict(os.environ); ee.update(e)
    import tempfile
    with tempfile.TemporaryFile("w+") as fo, tempfile.TemporaryFile("w+") as fe:
        pr = subprocess.Popen([exe] + list(args), env=ee, cwd=cwd, stdout=fo, stderr=fe)
        quiet_since = None; last = None; dead = False; timed = False
        while pr.poll() is None:
            time.sleep(0.25)
            if time.time() - t0 > timeout:
                timed = True; pr.kill(); pr.wait(); break
            st = _all_asleep(pr.pid)
            if st is None:
                continue
            if st[0] and st[1] == last:
                quiet_since = quiet_since or time.time()
                if time.time() - quiet_since >= deadlock_s:
                    dead = True; pr.kill(); pr.wait(); break
            else:
                quiet_since = None
            last = st[1]
        fo.seek(0); fe.seek(0)

        class R:  # noqa
            returncode = pr.returncode if not (dead or timed) else -999
            stdout = fo.read(); stderr = fe.read(); timed_out = dead or timed
    r = RunResult(R(), time.time() - t0)
    r.deadlock = dead
    return r
