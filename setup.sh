#!/bin/sh
# Builds everything the checks need from /repo's current working tree, offline. Run from /verif.
set -e
cd "$(dirname "$0")"
export CARGO_NET_OFFLINE=true
python3 - <<'PY'
import sys
sys.path.insert(0, "lib")
import common
t = common.build_repo(boots=True)
print("tool chain + runtime + boots built in %.0fs" % t)
common.build_harness()
print("harness built")
PY
