"""C14 - a trap report names what failed and where.

DoraSem.tla carries the call stack and the current line; on a trap the expected report is the kind's exit status and
one frame per active function (innermost first, function and line), and everything printed before the trap - including
text printed without a newline - must have been delivered. Trap-focused generated programs (call chains through plain
functions, recursion and lambdas ending in one failing operation of each kind) run on both code generators and two
collectors; stdout is captured through a pipe; TLC validates status, frames and output of every run.
"""
from common import *
from checks.dsem_common import run_plan

LEVEL = "model_checking"
MANIFEST = dict(
    technique="executable TLA+ semantics (DoraSem.tla) with call stack and lines; trap reports (status, frame list) and piped stdout of "
              "generated trapping programs validated by TLC (impl->spec trace validation)",
    text="For every generated case the spec computes the exit status (101 + kind), the list of (function, line) frames innermost first "
         "and the exact stdout including an unterminated last line; the observed report of the real executable must coincide, for "
         "division by zero, overflow, index, assert and shift traps reached through chains of plain functions, recursion and lambdas "
         "(small callees that the optimizing compiler inlines), with both code generators and two collectors; a code-layout sweep "
         "(each trap kind behind 0..31 (thorough 0..47) non-trapping statements) varies the size of the failing function.",
    note="Trusted: TLC; frames the implementation inserts on its own (std thunks for lambda calls) are located outside the program "
         "file and ignored; columns are not compared; nil/cast/OOM/stack-overflow traps are covered by C13/C02, not here.",
    ref="4/C14")
CATS = {"MISMATCH-status", "MISMATCH-unflushed-output", "MISMATCH-trap-report", "MISMATCH-output"}
FEATS = ["chain", "fn", "rec", "lambda", "print_nonl", "array", "conv", "shift", "global"]
# code-layout sweep: case i = trap kind i mod 5 behind i div 5 filler statements that cannot trap (the function's code size, hence the
# address right after its out-of-line trap call, sweeps all alignments relative to the next function)
LAYOUT = ["chain", "layout"]


def run(ctx):
    build_repo(boots=True)
    if ctx.quick:
        plan = [(ctx.seed * 100 + 7, 50, FEATS, [("cannon", None), ("boots", None)], ("",)),
                (ctx.seed * 100 + 8, 20, FEATS, [("cannon", "copy")], ("--gc-stress",)),
                (ctx.seed * 100 + 9, 160, LAYOUT, [("cannon", None), ("boots", None)], ("",))]
    else:
        plan = [(ctx.seed * 100 + i, 80, FEATS, [("cannon", None), ("boots", None)], ("",)) for i in range(7, 15)]
        plan += [(ctx.seed * 100 + 30, 60, FEATS, [("cannon", "copy"), ("boots", "copy")], ("", "--gc-stress"))]
        plan += [(ctx.seed * 100 + 40 + i, 240, LAYOUT + extra, [("cannon", None), ("boots", None)], ("",)) for i, extra in enumerate([[], ["lambda"], ["print_nonl"]])]
    totals, fails = run_plan(ctx, plan, CATS, "trap report")
    if totals["ok"] == 0:
        raise ToolError("no case was judged ok: " + str(dict(totals)))


def replay(ctx, path):
    import json
    log(json.dumps(json.load(open(path)))[:6000])
