"""C08 helper: what each method of dora_asm::arm64::AssemblerArm64 REQUESTS, written as assembly text from the method
naming convention (independent of spec/codec/A64Asm.tla and of arm64.rs), and the llvm-mc reference decoder.

expect(rec) -> None when the operands do not name an existing instruction, else (mode, {acceptable canonical texts});
mode 'noalias' compares with `llvm-mc -M no-aliases`, 'alias' with the default printing.
Canonical text: lower case, single blanks, decimal immediates, `[xN, #0]` == `[xN]`, bit-field aliases that llvm-mc prints
even without aliases (lsl/lsr/asr #imm, sxt*/uxt*, [su]bfiz, [su]bfx, bfi, bfxil) rewritten to sbfm/ubfm/bfm by the
Arm ARM's alias definitions.
"""
import re, subprocess

LLVM_MC = "llvm-mc"
MATTR = "-mattr=+lse,+neon,+fp-armv8"


def word_of(pair):
    return (pair[0] << 16) | pair[1]


def disasm(words, aliases=False, timeout=300):
    """words: list of ints -> list of text|None (None = invalid encoding)."""
    if not words:
        return []
    inp = "".join(" ".join("0x%02x" % ((w >> (8 * i)) & 255) for i in range(4)) + "\n" for w in words)
    cmd = [LLVM_MC, "--disassemble", "-triple=aarch64", MATTR] + ([] if aliases else ["-M", "no-aliases"])
    p = subprocess.run(cmd, input=inp, capture_output=True, text=True, timeout=timeout)
    bad = set(int(m.group(1)) for m in re.finditer(r"<stdin>:(\d+):\d+: warning: invalid instruction encoding", p.stderr))
    lines = [l.strip() for l in p.stdout.splitlines() if l.strip() and not l.strip().startswith(".text")]
    out, k = [], 0
    for n in range(1, len(words) + 1):
        if n in bad:
            out.append(None)
        else:
            if k >= len(lines):
                raise RuntimeError("llvm-mc output shorter than input:\n" + p.stderr[-2000:])
            out.append(lines[k]); k += 1
    if k != len(lines):
        raise RuntimeError("llvm-mc output does not align with input (%d lines left)\n%s" % (len(lines) - k, p.stderr[-2000:]))
    return out


def _sz(reg):
    return 64 if reg[0] == "x" or reg == "sp" else 32


def canon(text):
    if text is None:
        return None
    t = text.split("//")[0].strip().lower().replace("\t", " ")
    t = re.sub(r"\s+", " ", t)
    t = re.sub(r"#(-?)0x([0-9a-f]+)", lambda m: "#%s%d" % (m.group(1), int(m.group(2), 16)), t)
    t = re.sub(r", #0\]", "]", t)      # [xN, #0] and [xN, #0]! print as [xN] / [xN]!
    if t == "hint #0":
        t = "nop"
    if t == "ret":
        t = "ret x30"
    m = re.fullmatch(r"(\w+) (.*)", t)
    if not m:
        return t
    mn, ops = m.group(1), [o.strip() for o in m.group(2).split(",")]

    def imm(s):
        return int(s.lstrip("#"))
    try:
        if mn in ("lsl", "lsr", "asr") and len(ops) == 3 and ops[2].startswith("#"):
            sz, s = _sz(ops[0]), imm(ops[2])
            if mn == "lsl":
                return "ubfm %s, %s, #%d, #%d" % (ops[0], ops[1], (-s) % sz, sz - 1 - s)
            return "%s %s, %s, #%d, #%d" % ("ubfm" if mn == "lsr" else "sbfm", ops[0], ops[1], s, sz - 1)
        if mn in ("sxtb", "sxth", "sxtw", "uxtb", "uxth") and len(ops) == 2:
            rn = ("x" + ops[1][1:]) if ops[0][0] == "x" and ops[1][0] == "w" else ops[1]
            return "%s %s, %s, #0, #%d" % ("sbfm" if mn[0] == "s" else "ubfm", ops[0], rn, {"b": 7, "h": 15, "w": 31}[mn[3]])
        if mn in ("sbfiz", "ubfiz", "bfi") and len(ops) == 4:
            sz, lsb, w = _sz(ops[0]), imm(ops[2]), imm(ops[3])
            return "%s %s, %s, #%d, #%d" % ({"sbfiz": "sbfm", "ubfiz": "ubfm", "bfi": "bfm"}[mn], ops[0], ops[1], (-lsb) % sz, w - 1)
        if mn in ("sbfx", "ubfx", "bfxil") and len(ops) == 4:
            lsb, w = imm(ops[2]), imm(ops[3])
            return "%s %s, %s, #%d, #%d" % ({"sbfx": "sbfm", "ubfx": "ubfm", "bfxil": "bfm"}[mn], ops[0], ops[1], lsb, lsb + w - 1)
    except ValueError:
        pass
    return mn + " " + ", ".join(ops)


# ------------------------------------------------------------------------------------------------ expectations
CONDS = {"EQ": "eq", "NE": "ne", "CS": "hs", "HS": "hs", "CC": "lo", "LO": "lo", "MI": "mi", "PL": "pl", "VS": "vs", "VC": "vc",
         "HI": "hi", "LS": "ls", "GE": "ge", "LT": "lt", "GT": "gt", "LE": "le"}
INVERT = {"eq": "ne", "ne": "eq", "hs": "lo", "lo": "hs", "mi": "pl", "pl": "mi", "vs": "vc", "vc": "vs", "hi": "ls", "ls": "hi",
          "ge": "lt", "lt": "ge", "gt": "le", "le": "gt"}
DMB = {1: "oshld", 2: "oshst", 3: "osh", 5: "nshld", 6: "nshst", 7: "nsh", 9: "ishld", 10: "ishst", 11: "ish", 13: "ld", 14: "st", 15: "sy"}


class NoInsn(Exception):
    pass


def u32(v):
    return (v[0] << 16) | v[1]


def u64(v):
    return (v[0] << 48) | (v[1] << 32) | (v[2] << 16) | v[3]


def s64(v):
    x = u64(v)
    return x - (1 << 64) if x >> 63 else x


def rz(n, w):     # register position where 31 means the zero register
    if n == 32 or not 0 <= n <= 32:
        raise NoInsn()
    return ("w" if w == 32 else "x") + ("zr" if n == 31 else str(n))


def rsp(n, w):    # register position where 31 means the stack pointer
    if n == 31 or not 0 <= n <= 32:
        raise NoInsn()
    return ("wsp" if w == 32 else "sp") if n == 32 else ("w" if w == 32 else "x") + str(n)


def fr(n, kind):
    if not 0 <= n <= 31:
        raise NoInsn()
    return kind + str(n)


def need(c):
    if not c:
        raise NoInsn()


def width(m):
    """data size requested by the method name: _w suffix = 32-bit general registers"""
    return 32 if (m.endswith("_w") or m in ("uxtb",)) else 64


def _addsub_mn(m):
    base = "sub" if m.startswith(("sub", "cmp")) else "add"
    flags = m.startswith(("adds", "subs", "cmp", "cmn"))
    return base + ("s" if flags else ""), flags


def _ext_text(w, rd, rn, rm_n, ext, amount, flags, mn):
    """add/sub (extended register): <R><m> is W unless the extend is [us]xtx; LSL = uxtx (64) / uxtw (32)"""
    need(0 <= amount <= 4)
    e = ext.lower()
    if e == "lsl":
        e = "uxtx" if w == 64 else "uxtw"
    rm = rz(rm_n, 64 if (w == 64 and e in ("uxtx", "sxtx")) else 32)
    sp_involved = rd in ("sp", "wsp") or rn in ("sp", "wsp")
    outs = set()
    if sp_involved and e == ("uxtx" if w == 64 else "uxtw"):
        outs.add("%s %s, %s, %s" % (mn, rd, rn, rm) + (", lsl #%d" % amount if amount else ""))
    outs.add("%s %s, %s, %s, %s" % (mn, rd, rn, rm, e) + (" #%d" % amount if amount else ""))
    return outs


def _sh_text(mn, rd, rn, rm, sh, amount, w, allow_ror):
    need(sh in ("LSL", "LSR", "ASR") or (allow_ror and sh == "ROR"))
    need(0 <= amount < w)
    if sh == "LSL" and amount == 0:
        return {"%s %s, %s, %s" % (mn, rd, rn, rm)}
    return {"%s %s, %s, %s, %s #%d" % (mn, rd, rn, rm, sh.lower(), amount)}


def _imm_text(mn, rd, rn, v):
    if v < 4096:
        return {"%s %s, %s, #%d" % (mn, rd, rn, v)}
    need(v < (1 << 24) and v % 4096 == 0)
    return {"%s %s, %s, #%d, lsl #12" % (mn, rd, rn, v >> 12)}


def _logimm_ok(v, w):
    """is v a bitmask immediate for data size w: some rotation of a replicated element that is a run of ones"""
    if w == 32:
        if v >> 32:
            return False
        v |= v << 32
    if v == 0 or v == (1 << 64) - 1:
        return False
    for e in (2, 4, 8, 16, 32, 64):
        if w == 32 and e > 32:
            continue
        mask = (1 << e) - 1
        elem = v & mask
        if any(((v >> k) & mask) != elem for k in range(0, 64, e)):
            continue
        # rotate until it is a run of ones at the bottom
        for r in range(e):
            x = ((elem >> r) | (elem << (e - r))) & mask
            if x & (x + 1) == 0 and x != 0 and x != mask:
                return True
        return False
    return False


LDST = {  # method stem -> (mnemonic, register kind of Rt, log2 size)
    "x": ("", "x", 3), "w": ("", "w", 2), "h": ("h", "w", 1), "b": ("b", "w", 0), "d": ("", "d", 3), "s": ("", "s", 2)}


def _ldst_kind(m):
    """(is_load, size key) from the method name"""
    load = m.startswith("ld")
    if re.match(r"(ldr|str)b_|ldurb|sturb", m):
        k = "b"
    elif re.match(r"(ldr|str)h_|ldurh|sturh", m):
        k = "h"
    elif m.endswith("_d"):
        k = "d"
    elif m.endswith("_s"):
        k = "s"
    elif m.endswith("_w"):
        k = "w"
    else:
        k = "x"
    return load, k


def _rt(n, kind):
    return fr(n, kind) if kind in ("d", "s") else rz(n, 64 if kind == "x" else 32)


def expect(rec):
    try:
        return _expect(rec)
    except NoInsn:
        return None


def _expect(rec):
    m, r, i, x = rec["m"], rec["r"], rec["i"], rec["x"]
    w = width(m)
    NA = "noalias"

    # ---- add / sub families
    if m in ("add", "add_w", "adds", "adds_w", "sub", "sub_w", "subs", "subs_w", "cmp", "cmp_w"):
        mn, flags = _addsub_mn(m)
        if m.startswith("cmp"):
            r = [31] + r
        if r[0] == 32 or r[1] == 32:       # the stack pointer can only be named by the extended-register form
            rd = rz(r[0], w) if flags else rsp(r[0], w)
            outs = _ext_text(w, rd, rsp(r[1], w), r[2], "LSL", 0, flags, mn)
            if w == 32:                    # uxtx on a 32-bit operation is the same operation
                outs |= {"%s %s, %s, %s, uxtx" % (mn, rd, rsp(r[1], w), rz(r[2], 32))}
            return NA, outs
        return NA, _sh_text(mn, rz(r[0], w), rz(r[1], w), rz(r[2], w), "LSL", 0, w, False)
    if re.fullmatch(r"(add|sub|subs|cmp)_ext(_w)?", m):
        mn, flags = _addsub_mn(m)
        if m.startswith("cmp"):
            r = [31] + r
        rd = rz(r[0], w) if flags else rsp(r[0], w)
        return NA, _ext_text(w, rd, rsp(r[1], w), r[2], x, u32(i[0]), flags, mn)
    if re.fullmatch(r"(add|adds|sub|subs|cmp)_sh(_w)?", m):
        mn, flags = _addsub_mn(m)
        if m.startswith("cmp"):
            r = [31] + r
        return NA, _sh_text(mn, rz(r[0], w), rz(r[1], w), rz(r[2], w), x, u32(i[0]), w, False)
    if re.fullmatch(r"(add|adds|sub|subs|cmp|cmn)_imm(_w)?", m):
        mn, flags = _addsub_mn(m)
        if m.startswith(("cmp", "cmn")):
            r = [31] + r
        rd = rz(r[0], w) if flags else rsp(r[0], w)
        return NA, _imm_text(mn, rd, rsp(r[1], w), u32(i[0]))
    # ---- logical
    if m in ("and_imm", "and_imm_w"):
        v = u64(i[0])
        need(_logimm_ok(v, w))
        return NA, {"and %s, %s, #%d" % (rsp(r[0], w), rz(r[1], w), v)}
    mm = re.fullmatch(r"(and|ands|bic|bics|eon|eor|orn|orr)_sh(_w)?", m)
    if mm:
        return NA, _sh_text(mm.group(1), rz(r[0], w), rz(r[1], w), rz(r[2], w), x, u32(i[0]), w, True)
    if m in ("mov", "mov_w"):
        if r[0] == 32 or r[1] == 32:
            return NA, {"add %s, %s, #0" % (rsp(r[0], w), rsp(r[1], w))}
        return NA, {"orr %s, %s, %s" % (rz(r[0], w), rz(31, w), rz(r[1], w))}
    # ---- move wide
    mm = re.fullmatch(r"(movn|movz|movk)(_w)?", m)
    if mm:
        imm16, sh = u32(i[0]), u32(i[1])
        need(imm16 < 65536 and sh % 16 == 0 and sh < w)
        rd = rz(r[0], w)
        lit = "%s %s, #%d" % (mm.group(1), rd, imm16) + (", lsl #%d" % sh if sh else "")
        outs = {lit}
        if mm.group(1) != "movk":       # llvm-mc prints the MOV (wide immediate) alias even with no-aliases
            val = imm16 << sh
            if mm.group(1) == "movn":
                val = ~val & ((1 << w) - 1)
            sval = val - (1 << w) if val >> (w - 1) else val
            outs.add("mov %s, #%d" % (rd, sval))
        return NA, outs
    if m == "adr_imm":
        need(-(1 << 20) <= i[0] < (1 << 20))
        return NA, {"adr %s, #%d" % (rz(r[0], 64), i[0])}
    if m == "adrp_imm":
        need(-(1 << 20) <= i[0] < (1 << 20))
        return NA, {"adrp %s, #%d" % (rz(r[0], 64), i[0] * 4096)}
    # ---- bit field
    mm = re.fullmatch(r"(sbfm|bfm|ubfm)(_w)?", m)
    if mm:
        immr, imms = u32(i[0]), u32(i[1])
        need(immr < w and imms < w)
        return NA, {"%s %s, %s, #%d, #%d" % (mm.group(1), rz(r[0], w), rz(r[1], w), immr, imms)}
    if m in ("lsl_imm", "lsl_imm_w"):
        s = u32(i[0]); need(s < w)
        return NA, {canon("lsl %s, %s, #%d" % (rz(r[0], w), rz(r[1], w), s))}
    if m in ("lsr_imm", "lsr_imm_w"):
        s = u32(i[0]); need(s < w)
        return NA, {canon("lsr %s, %s, #%d" % (rz(r[0], w), rz(r[1], w), s))}
    if m == "sxtw":
        return NA, {"sbfm %s, %s, #0, #31" % (rz(r[0], 64), rz(r[1], 64))}
    if m == "uxtb":
        return NA, {"ubfm %s, %s, #0, #7" % (rz(r[0], 32), rz(r[1], 32))}
    if m == "uxtw":      # zero-extend a word into an x register
        return NA, {"ubfm %s, %s, #0, #31" % (rz(r[0], 64), rz(r[1], 64))}
    # ---- conditional select
    mm = re.fullmatch(r"(csel|csinc|csinv)(_w)?", m)
    if mm:
        return NA, {"%s %s, %s, %s, %s" % (mm.group(1), rz(r[0], w), rz(r[1], w), rz(r[2], w), CONDS[x])}
    if m in ("cset", "cset_w"):
        return NA, {"csinc %s, %s, %s, %s" % (rz(r[0], w), rz(31, w), rz(31, w), INVERT[CONDS[x]])}
    # ---- data processing
    mm = re.fullmatch(r"(cls|clz|rbit|rev)(_w)?", m)
    if mm:
        return NA, {"%s %s, %s" % (mm.group(1), rz(r[0], w), rz(r[1], w))}
    mm = re.fullmatch(r"(asrv|lsl|lsr|ror|sdiv|udiv)(_w)?", m)
    if mm:
        mn = {"asrv": "asr"}.get(mm.group(1), mm.group(1))
        return NA, {"%s %s, %s, %s" % (mn, rz(r[0], w), rz(r[1], w), rz(r[2], w))}
    mm = re.fullmatch(r"(madd|msub)(_w)?", m)
    if mm:
        return NA, {"%s %s, %s, %s, %s" % (mm.group(1), rz(r[0], w), rz(r[1], w), rz(r[2], w), rz(r[3], w))}
    if m in ("mul", "mul_w"):
        return NA, {"madd %s, %s, %s, %s" % (rz(r[0], w), rz(r[1], w), rz(r[2], w), rz(31, w))}
    if m == "smaddl":
        return NA, {"smaddl %s, %s, %s, %s" % (rz(r[0], 64), rz(r[1], 32), rz(r[2], 32), rz(r[3], 64))}
    if m == "smull":
        return NA, {"smaddl %s, %s, %s, xzr" % (rz(r[0], 64), rz(r[1], 32), rz(r[2], 32))}
    if m == "smulh":
        return NA, {"smulh %s, %s, %s" % (rz(r[0], 64), rz(r[1], 64), rz(r[2], 64))}
    # ---- branches, system
    if m == "bl_imm":
        need(-(1 << 25) <= i[0] < (1 << 25))
        return NA, {"bl #%d" % (i[0] * 4)}
    if m in ("b_r", "bl_r", "ret"):
        return NA, {"%s %s" % ({"b_r": "br", "bl_r": "blr", "ret": "ret"}[m], rz(r[0], 64))}
    mm = re.fullmatch(r"(cbz|cbnz)_imm(_w)?", m)
    if mm:
        need(-(1 << 18) <= i[0] < (1 << 18))
        return NA, {"%s %s, #%d" % (mm.group(1), rz(r[0], w), i[0] * 4)}
    if m == "brk":
        need(u32(i[0]) < 65536)
        return NA, {"brk #%d" % u32(i[0])}
    if m == "nop":
        return NA, {"nop"}
    if m in ("dmb", "dmb_ish", "dmb_ishst"):
        v = {"dmb_ish": 11, "dmb_ishst": 10}.get(m)
        if v is None:
            v = u32(i[0])
        need(v < 16)
        return NA, {"dmb " + DMB.get(v, "#%d" % v)}
    # ---- load / store pair
    mm = re.fullmatch(r"(ldp|stp)(_post|_pre)?(_w)?", m)
    if mm:
        scale = 4 if w == 32 else 8
        in_bytes = m in ("ldp", "ldp_w", "stp_post", "stp_post_w")     # API contract of the operand
        off = i[0]
        if in_bytes:
            need(off % scale == 0)
            off //= scale
        need(-64 <= off < 64)
        b = off * scale
        regs = "%s %s, %s, " % (mm.group(1), rz(r[0], w), rz(r[1], w))
        base = rsp(r[2], 64)
        if mm.group(2) == "_post":
            return NA, {regs + "[%s], #%d" % (base, b)}
        if mm.group(2) == "_pre":
            return NA, {canon(regs + "[%s, #%d]!" % (base, b))}
        return NA, {canon(regs + "[%s, #%d]" % (base, b))}
    # ---- load / store single
    if m == "ldr":
        off = s64(i[0]); need(off >= 0 and off % 8 == 0 and off // 8 < 4096)
        return NA, {canon("ldr %s, [%s, #%d]" % (rz(r[0], 64), rsp(r[1], 64), off))}
    mm = re.fullmatch(r"(ldr|str)[bh]?_imm(_[xwds])?", m)
    if mm:
        load, k = _ldst_kind(m if m != "str_imm" else "str_imm_x")
        suf, kind, lg = LDST[k]
        off = u32(i[0]); need(off % (1 << lg) == 0 and (off >> lg) < 4096)
        return NA, {canon("%s%s %s, [%s, #%d]" % (mm.group(1), suf, _rt(r[0], kind), rsp(r[1], 64), off))}
    mm = re.fullmatch(r"(ldr|str)[bh]?_reg(_[wds])?", m)
    if mm:
        load, k = _ldst_kind(m)
        suf, kind, lg = LDST[k]
        amount = u32(i[0])
        need(x in ("UXTW", "LSL", "SXTW", "SXTX") and amount in (0, lg))
        rm = rz(r[2], 32 if x in ("UXTW", "SXTW") else 64)
        head = "%s%s %s, [%s, %s" % (mm.group(1), suf, _rt(r[0], kind), rsp(r[1], 64), rm)
        if x == "LSL":
            return "alias", {head + ("]" if amount == 0 else ", lsl #%d]" % amount)}
        return "alias", {head + ", " + x.lower() + ("]" if amount == 0 else " #%d]" % amount)}
    mm = re.fullmatch(r"(ldur|stur)[bh]?(_[wds])?", m)
    if mm:
        load, k = _ldst_kind(m)
        suf, kind, lg = LDST[k]
        need(-256 <= i[0] < 256)
        return NA, {canon("%s%s %s, [%s, #%d]" % (mm.group(1), suf, _rt(r[0], kind), rsp(r[1], 64), i[0]))}
    # ---- exclusive, acquire/release, LSE
    mm = re.fullmatch(r"(ldxr|ldaxr|ldar|stlr)([bh])?(_w)?", m)
    if mm:
        wt = 32 if (mm.group(2) or mm.group(3)) else 64
        return NA, {"%s%s %s, [%s]" % (mm.group(1), mm.group(2) or "", rz(r[0], wt), rsp(r[1], 64))}
    mm = re.fullmatch(r"(stxr|stlxr)(_w)?", m)
    if mm:
        return NA, {"%s %s, %s, [%s]" % (mm.group(1), rz(r[0], 32), rz(r[1], w), rsp(r[2], 64))}
    mm = re.fullmatch(r"(cas|casa|casal|casl|ldadd|ldadda|ldaddal|ldaddl|swp|swpa|swpal|swpl)(_w)?", m)
    if mm:
        return NA, {"%s %s, %s, [%s]" % (mm.group(1), rz(r[0], w), rz(r[1], w), rsp(r[2], 64))}
    # ---- floating point
    mm = re.fullmatch(r"(fadd|fsub|fmul|fdiv)_([sd])", m)
    if mm:
        k = mm.group(2)
        return NA, {"%s %s, %s, %s" % (mm.group(1), fr(r[0], k), fr(r[1], k), fr(r[2], k))}
    mm = re.fullmatch(r"(fmov|fabs|fneg|fsqrt|frintn|frintp|frintm|frintz|frinta|fcmp|fcmpe)_([sd])", m)
    if mm:
        k = mm.group(2)
        return NA, {"%s %s, %s" % (mm.group(1), fr(r[0], k), fr(r[1], k))}
    if m == "fcvt_ds":      # double <- single
        return NA, {"fcvt %s, %s" % (fr(r[0], "d"), fr(r[1], "s"))}
    if m == "fcvt_sd":
        return NA, {"fcvt %s, %s" % (fr(r[0], "s"), fr(r[1], "d"))}
    if m in ("fcvtzs_d", "fcvtzs_s", "fcvtzs_wd", "fcvtzs_ws"):
        gw, fk = {"fcvtzs_d": (64, "d"), "fcvtzs_s": (64, "s"), "fcvtzs_wd": (32, "d"), "fcvtzs_ws": (32, "s")}[m]
        return NA, {"fcvtzs %s, %s" % (rz(r[0], gw), fr(r[1], fk))}
    if m in ("fmov_fs_d", "fmov_fs_s"):      # float register <- scalar (general) register
        return NA, {"fmov %s, %s" % (fr(r[0], m[-1]), rz(r[1], 64 if m[-1] == "d" else 32))}
    if m in ("fmov_sf_d", "fmov_sf_s"):
        return NA, {"fmov %s, %s" % (rz(r[0], 64 if m[-1] == "d" else 32), fr(r[1], m[-1]))}
    mm = re.fullmatch(r"scvtf_si_([sd])([wx])", m)
    if mm:
        return NA, {"scvtf %s, %s" % (fr(r[0], mm.group(1)), rz(r[1], 64 if mm.group(2) == "x" else 32))}
    if m == "addv":
        q, size = u32(i[0]), u32(i[1])
        need(q < 2 and (size < 2 or (size == 2 and q == 1)))
        return NA, {"addv %s, v%d.%s" % (fr(r[0], "bhs"[size]), r[1], [["8b", "16b"], ["4h", "8h"], ["2s", "4s"]][size][q])}
    if m == "cnt":
        q, size = u32(i[0]), u32(i[1])
        need(q < 2 and size == 0)
        return NA, {"cnt v%d.%s, v%d.%s" % (r[0], ["8b", "16b"][q], r[1], ["8b", "16b"][q])}
    return "unknown", set()


# alias-named methods: the default (alias) printing of llvm-mc must use this mnemonic
ALIAS_MNEMONIC = {"cmp": "cmp", "cmp_w": "cmp", "cmp_ext": "cmp", "cmp_ext_w": "cmp", "cmp_sh": "cmp", "cmp_sh_w": "cmp",
                  "cmp_imm": "cmp", "cmp_imm_w": "cmp", "cmn_imm": "cmn", "cmn_imm_w": "cmn", "mov": "mov", "mov_w": "mov",
                  "mul": "mul", "mul_w": "mul", "smull": "smull", "cset": "cset", "cset_w": "cset", "sxtw": "sxtw", "uxtb": "uxtb",
                  "lsl_imm": ("lsl", "lsr"), "lsl_imm_w": ("lsl", "lsr"), "lsr_imm": "lsr", "lsr_imm_w": "lsr", "nop": "nop"}


# ------------------------------------------------------------------------------------------------ macro methods
def simulate_movseq(texts, rd_name, w):
    """value left in rd by a canonical-text sequence of movz/movn/movk/mov to rd, or None"""
    val = None
    for k, t in enumerate(texts):
        m = re.fullmatch(r"(movz|movn|movk|mov) (\w+), #(-?\d+)(?:, lsl #(\d+))?", t or "")
        if not m or m.group(2) != rd_name:
            return None
        mn, imm, sh = m.group(1), int(m.group(3)), int(m.group(4) or 0)
        mask = (1 << w) - 1
        if mn == "mov" and k == 0:
            val = imm & mask
        elif mn == "movz" and k == 0:
            val = (imm << sh) & mask
        elif mn == "movn" and k == 0:
            val = ~(imm << sh) & mask
        elif mn == "movk" and k > 0:
            val = (val & ~(0xffff << sh)) | (imm << sh)
        else:
            return None
    return val


MACROS = {"mov_imm", "mov_imm_w", "ldr_mem_x", "ldr_mem_w", "ldr_mem_b", "ldr_mem_d", "ldr_mem_s",
          "str_mem_x", "str_mem_w", "str_mem_b", "str_mem_d", "str_mem_s"}


def check_macro(rec, na, al):
    """na / al: canonical no-alias / alias texts of the emitted words. -> (True, '') | (False, why) | (None, 'no such operation')"""
    m, r, i = rec["m"], rec["r"], rec["i"]
    try:
        if m in ("mov_imm", "mov_imm_w"):
            w = 64 if m == "mov_imm" else 32
            want = (u64(i[0]) if w == 64 else i[0]) & ((1 << w) - 1)
            got = simulate_movseq(na, rz(r[0], w), w)
            return (got == want, "value %s, wanted %#x" % (None if got is None else hex(got), want))
        load = m.startswith("ldr")
        k = m[-1]
        suf, kind, lg = LDST[k]
        mn = ("ldr" if load else "str") + suf
        rt, base, off = _rt(r[0], kind), rsp(r[1], 64), s64(i[0])
        if len(na) == 1:
            ok = set()
            if off >= 0 and off % (1 << lg) == 0 and (off >> lg) < 4096:
                ok.add(canon("%s %s, [%s, #%d]" % (mn, rt, base, off)))
            if -256 <= off < 256:
                ok.add(canon("%s %s, [%s, #%d]" % (mn.replace("ldr", "ldur").replace("str", "stur"), rt, base, off)))
            return (na[0] in ok, "%s not in %s" % (na[0], sorted(ok)))
        scratch = rz(r[2], 64)
        need(scratch != "xzr")
        got = simulate_movseq(na[:-1], scratch, 64)
        if got != (off & ((1 << 64) - 1)):
            return (False, "scratch value %s, wanted offset %d" % (None if got is None else hex(got), off))
        want = "%s %s, [%s, %s]" % (mn, rt, base, scratch)
        return (al[-1] == want, "%s != %s" % (al[-1], want))
    except NoInsn:
        return (None, "no such operation")
