"""C07 - every x86-64 instruction is encoded as the instruction that was requested (dora-asm/src/x64.rs).

spec/codec/X64Asm.tla: REX/VEX/ModRM/SIB/displacement/immediate operators, an instruction table with one entry per
public method of AssemblerX64 (written from the SDM), and the assembler's label state machine.
1. I->S  harness/vx64 calls every instruction method of the real AssemblerX64 over registers x addressing shapes x
         boundary displacements / immediates / condition codes; X64AsmTrace.tla (one TLC state per record) decides
         every record: match / refused_ok / over_refused / uncovered / mismatch.
2. S->I  X64AsmLabels.tla: TLC explores the label state machine (all label programs up to a bound, paddings on both
         sides of the rel8 limit), proves JumpsLand for the specification and emits program + expected code; the
         real assembler must produce the same bytes (or refuse where the specification refuses).
3. independent decoder: the bytes of every accepted record are disassembled with llvm-mc (LLVM 14) and compared with
         what the METHOD NAME requests (lib/x64audit.py, written from the naming convention, not from the
         specification). impl = spec (TLC) and bytes = requested instruction (llvm-mc) give the property; llvm-mc is
         also the adjudicator when impl and spec differ (requested instruction -> MODEL-DRIFT, else VIOLATION).
"""
import collections, json, os, re, time
from common import *
import x64audit as A

LEVEL = "model_checking"
MANIFEST = dict(
    technique='TLA+ spec X64Asm.tla (REX/VEX/ModRM/SIB/disp/imm operators, SDM-derived table of all 209 instruction methods, label state machine) checked by TLC; every recorded call of the real AssemblerX64 validated as a TLC state against the spec (impl->spec); TLC-enumerated label programs replayed byte for byte (spec->impl); all emitted bytes disassembled by llvm-mc and compared with the instruction the method name requests',
    text='Records: every public instruction method x all 16 registers per register operand (two-register forms exhaustive, three-register forms exhaustive in the thorough tier) x Address::offset/array/index/rip with boundary displacements {0,+-1,127,128,-128,-129,2^31-1,-2^31} x all 28 condition names x boundary immediates up to 64 bit; 6.5x10^4 (quick) / 5x10^5 (thorough) records, each one TLC state. Label programs: exhaustive up to 4-5 items over 2 labels with paddings {0,1,120..135}; JumpsLand proved on the specification, bytes compared with the implementation.',
    note='Trusted: TLC, llvm-mc 14 as reference decoder, the naming-convention table in lib/x64audit.py. The Dora-language assembler (pkgs/boots/assembler/x64.dora) is not covered by this check. Over-refusals (assert on encodable operands) are counted, not violations.',
    ref='4/C07')
CODEC = os.path.join(SPEC, "codec")
VX64 = os.environ.get("VERIF_VX64", os.path.join(HARNESS, "target", "debug", "vx64"))
X64_RS = os.path.join(REPO, "dora-asm", "src", "x64.rs")
INFRA = {"new", "create_label", "create_and_bind_label", "bind_label", "offset", "finalize", "align_to", "position",
         "set_position", "set_position_end", "emit_u8", "emit_u32", "emit_u64", "emit_u128"}
CHUNK = 100000


def source_methods():
    """public methods of `impl AssemblerX64` in the current tree (instruction methods = all but buffer plumbing)"""
    src = open(X64_RS).read()
    out, depth, inside = [], 0, False
    for line in src.splitlines():
        if re.match(r"^impl AssemblerX64\b", line):
            inside = True
        if inside:
            m = re.match(r"^    pub fn (\w+)\(", line)
            if m and m.group(1) not in INFRA:
                out.append(m.group(1))
            if line.startswith("}"):
                inside = False
    return out


def spec_methods():
    txt = open(os.path.join(CODEC, "X64Asm.tla")).read()
    body = txt[txt.index("Table == ["):txt.index("Methods == DOMAIN Table")]
    return set(re.findall(r"^\s+(\w+) \|-> ", body, re.M))


def harness(args, timeout=600):
    p = sh([VX64] + [str(a) for a in args], timeout=timeout, cwd=VERIF)
    if getattr(p, "timed_out", False) or p.returncode != 0:
        raise ToolError("vx64 %s failed rc=%s: %s %s" % (args, p.returncode, p.stdout[-500:], p.stderr[-1500:]))
    return p.stdout


def tlc_rows(r):
    rows = []
    for l in r.out.splitlines():
        if l.startswith('"{'):
            rows.append(json.loads(json.loads(l)))
    return rows


def shape(rec):
    """operand shape class of a record (for coverage accounting)"""
    def rc(r):
        return r if r in (0, 4, 5, 12, 13) else ("lo" if r < 8 else "hi")
    def dc(d):
        return 0 if d == 0 else (8 if -128 <= d <= 127 else 32)
    s = [rec["m"], tuple(rc(r) for r in rec.get("r", []))]
    if "a" in rec:
        a = rec["a"]
        s.append((a["k"], rc(a["base"]), rc(a["index"]), a["scale"], dc(a["disp"])))
    if "imm" in rec:
        v = A.imm_value(rec)
        s.append("i8" if -128 <= v < 128 else "u8" if 0 <= v < 256 else "i32" if -2**31 <= v < 2**31 else
                 "u32" if 0 <= v < 2**32 else "i64")
    if "cc" in rec:
        s.append(rec["cc"])
    if "lbl" in rec:
        s.append((rec["lbl"]["before"], rec["lbl"]["pad"]))
    return tuple(s)


def drift(ctx, where, detail):
    """model drift is reported per case up to a cap, the rest is counted"""
    ctx.add("drift_cases")
    if ctx.cov["drift_cases"] <= 8:
        ctx.model_drift(where, detail)


def brief(rec):
    return {k: v for k, v in rec.items() if k not in ("imm",)}


# ------------------------------------------------------------------------------------------------------------
def validate_records(ctx, recs_path, recs):
    """I->S: every record is a TLC state of X64AsmTrace; returns the non-match rows (global 0-based index)"""
    rows = []
    lines = open(recs_path).read().splitlines()
    for c in range(0, len(lines), CHUNK):
        part = os.path.join(ctx.work, "recs_%d.ndjson" % (c // CHUNK))
        with open(part, "w") as f:
            f.write("\n".join(lines[c:c + CHUNK]) + "\n")
        r = tlc("X64AsmTrace", cfg="X64AsmTrace.cfg", cwd=CODEC, workers=8, timeout=1500, env={"RECS": part}, heap="4g")
        tlc_must_pass(r, "record validation chunk %d" % (c // CHUNK))
        n = min(CHUNK, len(lines) - c)
        if r.distinct != n:
            raise ToolError("record validation visited %d states for %d records" % (r.distinct, n))
        ctx.tlc_stats(r, "X64AsmTrace records %d..%d" % (c, c + n - 1))
        for row in tlc_rows(r):
            row["i"] = row["i"] - 1 + c
            rows.append(row)
        log(f"TLC X64AsmTrace chunk {c // CHUNK}: {n} records, {r.seconds:.0f}s")
    return rows


def audit(ctx, mc, recs, verdict, exp_of):
    """independent decoder over every emitted byte sequence; adjudication of spec/impl differences"""
    idx = [i for i, r in enumerate(recs) if not r.get("refused") and verdict.get(i, "match") != "uncovered"]
    codes = [A.instr_slice(recs[i])[0] for i in idx]
    dis = A.disassemble_many(mc, codes)
    failures = collections.OrderedDict()      # key -> [count, first case]
    shapes_ok = set()
    n_ok = 0
    for i, d in zip(idx, dis):
        rec = recs[i]
        want = A.expected(rec)
        if want is None:
            continue
        got = A.parse_llvm(d, want)
        c = A.compare(want, got, rec)
        v = verdict.get(i, "match")
        if c is None:
            n_ok += 1
            shapes_ok.add(shape(rec))
            if v == "mismatch":
                # implementation differs from the canonical bytes but IS the requested instruction
                drift(ctx, "X64Asm " + rec["m"], "impl %s, spec %s, both decode to %s" %
                                (rec["bytes"], exp_of.get(i), A.render(want)))
            continue
        key = "%s:%s" % (rec["m"], c[0])
        ent = failures.setdefault(key, [0, None])
        ent[0] += 1
        if ent[1] is None:
            ent[1] = {"record": brief(rec), "instruction_bytes": A.instr_slice(rec)[0], "requested": A.render(want), "llvm_mc": d, "decoded": A.render(got),
                      "difference": c[1], "spec_bytes": exp_of.get(i, rec["bytes"] if v == "match" else None),
                      "impl_equals_spec": v == "match"}
    # the specification's own bytes where they differ from the implementation's: must be the requested instruction
    mm = [i for i in idx if verdict.get(i) == "mismatch" and exp_of.get(i) and exp_of[i] != [-1]]
    sdis = A.disassemble_many(mc, [A.instr_slice(recs[i], exp_of[i])[0] for i in mm])
    for i, d in zip(mm, sdis):
        want = A.expected(recs[i], exp_of[i])
        c = A.compare(want, A.parse_llvm(d, want), recs[i])
        if c is not None:
            raise ToolError("specification bug: X64Asm.tla encodes %s as %s, which llvm-mc reads as %s (%s)" %
                            (brief(recs[i]), exp_of[i], d, c[1]))
    ctx.add("llvm_mc_spec_bytes_audited", len(mm))
    return n_ok, shapes_ok, failures


# ------------------------------------------------------------------------------------------------------------
def label_cfg(ctx, name, nl, maxitems, pads, ccs, regs):
    p = os.path.join(ctx.work, name + ".cfg")
    with open(p, "w") as f:
        f.write("CONSTANTS NL = %d\nMaxItems = %d\nPads = {%s}\nCCs = {%s}\nLoadRegs = {%s}\n"
                "INIT Init\nNEXT Next\nINVARIANTS JumpsLand Positions StateIsRun EmitRow\nCHECK_DEADLOCK FALSE\n" %
                (nl, maxitems, ", ".join(map(str, sorted(pads))), ", ".join('"%s"' % c for c in ccs),
                 ", ".join(map(str, regs))))
    return p


def lands(items, nl, code):
    """the property's own criterion on implementation bytes that differ from the canonical ones: walk the items
    over the emitted code, accept either jump form, require every jump / RIP-relative operand to hit its label"""
    pos, lab, pend = 0, {}, []
    for it in items:
        if it["op"] == "pad":
            if code[pos:pos + it["n"]] != [0x90] * it["n"]:
                return False
            pos += it["n"]
        elif it["op"] == "bind":
            lab[it["l"]] = pos
        else:
            b = code[pos:]
            if not b:
                return False
            m = it["m"]
            if m in ("jmp", "jmp_near"):
                n, rel = (2, 1) if b[0] == 0xEB else (5, 4) if b[0] == 0xE9 else (0, 0)
            elif m in ("jcc", "jcc_near"):
                cc = {"o": 0, "no": 1, "b": 2, "ae": 3, "e": 4, "ne": 5, "be": 6, "a": 7, "s": 8, "ns": 9, "p": 10,
                      "np": 11, "l": 12, "ge": 13, "le": 14, "g": 15}[A.CC[it["cc"]]]
                n, rel = (2, 1) if b[0] == 0x70 + cc else (6, 4) if b[:2] == [0x0F, 0x80 + cc] else (0, 0)
            else:
                r = it["r"][0]
                ok = b[:3] == [0x48 | (4 if r >= 8 else 0), 0x8B, ((r & 7) << 3) | 5]
                n, rel = (7, 4) if ok else (0, 0)
            if n == 0 or len(b) < n:
                return False
            d = int.from_bytes(bytes(b[n - rel:n]), "little", signed=True)
            pend.append((it["l"], pos + n + d))
            pos += n
    return pos == len(code) and all(l in lab and lab[l] == t for l, t in pend)


def label_programs(ctx, cfgs):
    total = agree = 0
    for name, cfg, workers, tmo in cfgs:
        r = tlc("X64AsmLabels", cfg=cfg, cwd=CODEC, workers=workers, timeout=tmo, heap="4g" if ctx.quick else "8g")
        tlc_must_pass(r, "label state machine " + name)
        ctx.tlc_stats(r, "X64AsmLabels %s: JumpsLand, Positions, StateIsRun" % name)
        pin = os.path.join(ctx.work, name + ".progs.ndjson")
        pout = os.path.join(ctx.work, name + ".out.ndjson")
        prow = os.path.join(ctx.work, name + ".rows.ndjson")
        nrows = 0
        with open(pin, "w") as f, open(prow, "w") as g:        # streamed: the deep configurations emit 10^5..10^6 rows
            for l in r.out.splitlines():
                if l.startswith('"{'):
                    row = json.loads(json.loads(l))
                    f.write(json.dumps({"id": nrows, "nl": row["nl"], "items": row["items"]}) + "\n")
                    g.write(json.dumps(row) + "\n")
                    nrows += 1
        r.out = ""
        if not nrows:
            raise ToolError("X64AsmLabels emitted no programs")
        harness(["labels", pin, pout], timeout=1800)
        log(f"TLC X64AsmLabels {name}: {r.distinct} states, {nrows} programs, {r.seconds:.0f}s")
        fo, fr = open(pout), open(prow)
        nout = 0
        for lo, lr in zip(fo, fr):
            o, row = json.loads(lo), json.loads(lr)
            if o["id"] != nout:
                raise ToolError("label replay results out of order")
            nout += 1
            total += 1
            items = [{k: v for k, v in it.items() if v not in ("", [], 0) or k == "op"} for it in row["items"]]
            if row["refused"]:
                if o.get("refused"):
                    agree += 1
                else:
                    ctx.violation("label program: the specification refuses (unbound label, second bind or rel8 target "
                                  "out of reach) but the assembler emitted code: %s" % json.dumps(items),
                                  {"items": row["items"], "nl": row["nl"], "impl_bytes": o["bytes"]}, key="labels:emitted-unencodable")
                continue
            exp = []
            for c in row["code"]:
                exp += [0x90] * c["n"] + c["b"]
            if o.get("refused"):
                ctx.add("label_programs_over_refused")
                continue
            if o["bytes"] == exp:
                agree += 1
                if total % 997 == 1 and len(items) >= 3 and any(it["op"] == "ins" for it in items):
                    ctx.sample({"label_program": items, "bytes": len(exp)})
            elif lands(row["items"], row["nl"], o["bytes"]):
                drift(ctx, "X64AsmLabels", "other encoding, every jump lands: %s" % json.dumps(items))
            else:
                ctx.violation("label program: a jump does not land on its label / bytes differ from the specification: "
                              "%s expected %s got %s" % (json.dumps(items), exp[-12:], o["bytes"][-12:]),
                              {"items": row["items"], "nl": row["nl"], "expected": exp, "impl_bytes": o["bytes"]},
                              key="labels:" + "+".join(sorted({it["m"] for it in row["items"] if it["op"] == "ins"})))
        if nout != nrows:
            raise ToolError("label replay returned %d results for %d programs" % (nout, nrows))
    ctx.add("label_programs", total)
    ctx.add("traces_validated_against_impl", agree)
    return total, agree


# ------------------------------------------------------------------------------------------------------------
def negative_controls(ctx, mc, recs):
    """the binding must be able to fail: one corrupted byte is rejected by the trace spec (strict invariant),
    the uncorrupted sample is accepted, and a flipped REX.B is caught by the llvm-mc audit"""
    rnd = rng(ctx.seed, "neg")
    good = [r for r in recs if not r.get("refused") and r["m"] != "testl_ri" and len(r["bytes"]) >= 2]
    sample = rnd.sample(good, 300)
    res = []
    base = os.path.join(ctx.work, "neg_base.ndjson")
    open(base, "w").write("\n".join(json.dumps(r) for r in sample) + "\n")
    r0 = tlc("X64AsmTrace", cfg="X64AsmTraceStrict.cfg", cwd=CODEC, workers=2, timeout=600, env={"RECS": base})
    if not r0.ok:
        raise ToolError("strict validation of an accepted sample failed: %s\n%s" % (r0.violation, r0.out[-1500:]))
    k = rnd.randrange(len(sample))
    bad = json.loads(json.dumps(sample[k]))
    j = rnd.randrange(len(bad["bytes"]))
    bad["bytes"][j] ^= 1 << rnd.randrange(8)
    corrupt = os.path.join(ctx.work, "neg_corrupt.ndjson")
    open(corrupt, "w").write("\n".join(json.dumps(bad if i == k else r) for i, r in enumerate(sample)) + "\n")
    r1 = tlc("X64AsmTrace", cfg="X64AsmTraceStrict.cfg", cwd=CODEC, workers=2, timeout=600, env={"RECS": corrupt})
    rej = (not r1.ok) and r1.violation is not None and "Conforms" in r1.violation
    res.append({"control": "corrupt_one_byte", "method": bad["m"], "byte": j, "accepted_before": True, "rejected": rej})
    # audit control: flip REX.B of a two-register instruction with a REX prefix
    cand = [r for r in good if r["m"] in ("addq_rr", "movq_rr", "imulq_rr", "xorq_rr")]
    c = json.loads(json.dumps(rnd.choice(cand)))
    c["bytes"][0] ^= 1
    want = A.expected(c)
    got = A.parse_llvm(A.disassemble_many(mc, [c["bytes"]])[0], want)
    res.append({"control": "audit_flipped_rex_b", "method": c["m"], "rejected": A.compare(want, got, c) is not None})
    ctx.extra["negative_controls"] = res
    for x in res:
        if not x["rejected"]:
            raise ToolError("negative control %s was accepted: the binding is vacuous" % x["control"])


# ------------------------------------------------------------------------------------------------------------
def run(ctx):
    mc = A.llvm_mc_name()
    if mc is None:
        raise ToolError("llvm-mc not found")
    if "VERIF_VX64" not in os.environ:
        build_harness()
    src = source_methods()
    table = spec_methods()
    hm = set(harness(["methods"]).split())
    uncovered = sorted(m for m in src if m not in table or m not in hm or m not in A.E)
    ctx.extra["methods_total"] = len(src)
    ctx.extra["methods_covered"] = len(src) - len(uncovered)
    ctx.extra["uncovered"] = uncovered
    if len(src) < 100:
        raise ToolError("could not read the method list of AssemblerX64 (%d names)" % len(src))

    # ---- I->S: records
    recs_path = os.path.join(ctx.work, "records.ndjson")
    summ = json.loads(harness(["record", recs_path, ctx.seed, ctx.tier]).strip().splitlines()[-1])
    recs = [json.loads(l) for l in open(recs_path)]
    log(f"[{time.time() - ctx.t0:.0f}s] {len(recs)} records from {summ['methods']} methods")
    rows = validate_records(ctx, recs_path, recs)
    verdict = {row["i"]: row["v"] for row in rows}
    exp_of = {row["i"]: row["exp"] for row in rows if row["v"] == "mismatch"}
    counts = collections.Counter(verdict.values())
    n_match = len(recs) - len(rows)
    per_method = collections.Counter(r["m"] for r in recs)
    over = collections.Counter()
    for i, v in verdict.items():
        if v == "over_refused":
            r = recs[i]
            over[r["m"] + ":" + ("index=r12" if r.get("a", {}).get("k") == "array" and r["a"]["index"] == 12 else
                                 "imm" if "imm" in r else "label-distance" if "lbl" in r else "other")] += 1
    ctx.add("records", len(recs))
    ctx.add("records_match", n_match)
    ctx.add("records_refused_ok", counts["refused_ok"])
    ctx.add("over_refused", counts["over_refused"])
    ctx.add("records_uncovered", counts["uncovered"])
    ctx.add("records_mismatch", counts["mismatch"])
    ctx.add("traces_validated_against_impl", n_match + counts["refused_ok"])
    ctx.extra["over_refused_classes"] = dict(sorted(collections.Counter(k.split(":", 1)[1] for k in over.elements()).items()))
    ctx.extra["over_refused_by_method"] = dict(sorted(collections.Counter(k.split(":")[0] for k in over.elements()).items()))
    ctx.extra["coverage_by_method"] = {m: per_method.get(m, 0) for m in src}
    ctx.extra["methods_with_records"] = sum(1 for m in src if per_method.get(m, 0) > 0)
    for m in ("addq_rr", "movq_ra", "vaddsd_rr"):
        r = next((r for r in recs if r["m"] == m and not r.get("refused") and max(r["r"]) >= 8), None)
        if r:
            ctx.sample(brief(r))

    # ---- independent decoder over all emitted bytes + adjudication of differences
    n_ok, shapes_ok, failures = audit(ctx, mc, recs, verdict, exp_of)
    ctx.add("llvm_mc_audited", n_ok + sum(v[0] for v in failures.values()))
    ctx.add("llvm_mc_agree", n_ok)
    ctx.extra["operand_shape_classes_audited"] = len(shapes_ok)
    ctx.extra["llvm_mc_disagreements_by_class"] = {k: v[0] for k, v in failures.items()}
    for key, (n, case) in failures.items():
        case["records_in_class"] = n
        if case["impl_equals_spec"]:
            msg = ("%s: implementation and specification agree on %s but llvm-mc decodes it as `%s`, requested `%s` "
                   "(%s; %d records)" % (key, case["instruction_bytes"], case["decoded"], case["requested"], case["difference"], n))
        else:
            msg = ("%s: the assembler emitted %s = `%s`, requested `%s` (%s; specification: %s; %d records)" %
                   (key, case["instruction_bytes"], case["decoded"], case["requested"], case["difference"],
                    case["spec_bytes"] if len(case["spec_bytes"] or []) <= 16 else "...", n))
        ctx.violation(msg, case, key=key)
    # a mismatch that the audit did not classify cannot exist (every non-refused record is audited)
    log(f"[{time.time() - ctx.t0:.0f}s] records={len(recs)} match={n_match} refused_ok={counts['refused_ok']} over_refused={counts['over_refused']} "
        f"mismatch={counts['mismatch']} uncovered={counts['uncovered']} llvm_agree={n_ok} failure_classes={len(failures)}")

    # ---- S->I: label programs
    rnd = rng(ctx.seed, "labels")
    ccn = sorted(A.CC)
    window = list(range(120, 136))
    if ctx.quick:
        pads = {0, 1, 126, 127, 128} | set(rnd.sample([p for p in window if p not in (126, 127, 128)], 5))
        cfgs = [("quick", label_cfg(ctx, "labels_q", 2, 4, pads, [rnd.choice(ccn)], [rnd.randrange(16)]), 8, 900)]
    else:
        cfgs = [("full-pads-4", label_cfg(ctx, "labels_t1", 2, 4, {0, 1} | set(window), [rnd.choice(ccn), rnd.choice(ccn)],
                                          [rnd.randrange(8), 8 + rnd.randrange(8)]), 12, 3000),
                ("deep-5", label_cfg(ctx, "labels_t2", 2, 5, {0, 121, 124, 126, 127, 128}, [rnd.choice(ccn)], [rnd.randrange(16)]), 12, 3000),
                ("deep-6", label_cfg(ctx, "labels_t3", 2, 6, {126, 127}, [rnd.choice(ccn)], [rnd.randrange(16)]), 12, 3000)]
    label_programs(ctx, cfgs)
    log(f"[{time.time() - ctx.t0:.0f}s] label programs done")
    negative_controls(ctx, mc, recs)
    log(f"[{time.time() - ctx.t0:.0f}s] negative controls done")
    ctx.assumptions += ["llvm-mc (LLVM 14) is the reference decoder; mnemonic aliases movabsq/movq and cvtsi2sd[l|q] are identified",
                        "has_avx2 = true for the v* methods and false otherwise (the methods debug_assert this)",
                        "immediates: a 32-bit operand accepts int32 or uint32 patterns, a sign-extended imm32 only int32, 8-bit int8 or uint8",
                        "forward jumps use the rel32 form (one-pass assembler), backward jumps the shortest form that reaches"]


def replay(ctx, path):
    case = json.load(open(path))["case"]
    log(json.dumps(case, indent=1)[:4000])
