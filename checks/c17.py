"""C17 - formatting never changes a program and is stable.

Parts (what each one is):
 A. spec/codec/FormatRel.tla, small scope (model checking): the token alignment machine accepts exactly the pairs of
    token strings that are equal after deleting optional commas, for ALL pairs up to a length bound.
 B. spec/codec/Render.tla (model checking + spec->impl conformance, exhaustive small scope): every layout document
    of <= 5 (quick) / 6 (thorough) nodes x widths 1..12 is a TLC state; the in-model laws of the renderer are
    checked and the expected layout of every state is replayed into the real render_doc_with_line_length.
    A mismatch is adjudicated by the spec (is the real output one of the document's layouts at all?): no ->
    violation, yes (only the flat/break choice differs) -> model drift, because C17 does not constrain line lengths.
 C. corpus (impl->spec record validation; exploration of the input space): the real lexer / formatter / parser run
    on repository files and on layout mutants of them (re-spacing, line joining / splitting, one inserted comment)
    at several widths; every run is a record decided by TLC against FormatRel.tla (Total, Returns, Tokens,
    Comments, Parses, Idem). Python only groups the rejected records into construct-specific keys:
      Tokens: a rejected alignment is re-validated by TLC after removing ONE named construct class at a time
              (tuple-field chain, match-arm comma after a block, modifier order, `use` sorting); a class is
              reported only if the stuck position lies in such a construct, and the record counts as explained
              only if FormatRel accepts what remains - anything else stays an unlisted violation;
      Comments / Idem / Parses on mutants: the harness finds the changed gap that makes the law fail when applied
              to the (passing) origin alone; the key names that gap's syntactic context.
"""
import collections, json, os, re, subprocess, sys, time
from common import *

LEVEL = "model_checking"
MANIFEST = dict(
    technique='TLA+ specs FormatRel.tla (token/comment/parse/idempotence relation; alignment machine model-checked at small scope, then used by TLC to decide one record per real formatter run) and Render.tla (Wadler-style width-aware renderer; TLC enumerates every small document x width, checks the layout laws and emits the expected layout, replayed into the real renderer)',
    text='Every formatter run on repository sources and on layout mutants (re-spacing, line joining/splitting, comment insertion) at narrow to wide line lengths is recorded with the real lexer/parser (token streams, comment multisets, syntax errors of the output, second formatting) and decided by TLC against FormatRel; the renderer is compared with the specification on all documents of up to 5/6 nodes at widths 1..12.',
    note='Trusted: TLC, the harness interning (tokens by kind+text, comments by trimmed text, lines byte-exact), the real lexer as the definition of "code token". The corpus part is exploration of an infinite input space; Render/alignment parts are exhaustive at small scope. Semantic re-run of formatted programs is not done here (token identity modulo optional commas implies identical parse).',
    ref='4/C17')
CODEC = os.path.join(SPEC, "codec")
# VERIF_C17_VFMT: development aid - a vfmt binary built against a patched copy of dora-format (to try the candidate
# mutations of target/work/C17-mutants without touching /repo)
VFMT = os.environ.get("VERIF_C17_VFMT") or os.path.join(HARNESS, "target", "debug", "vfmt")
GEN_VERSION = 1

COMMA_LISTS = "ARGUMENT_LIST|PARAM_LIST|LAMBDA_PARAM_LIST|TUPLE_EXPR|TUPLE_PATTERN|TUPLE_TYPE|TYPE_ARGUMENT_LIST|TYPE_PARAM_LIST|UNNAMED_FIELD_LIST|NAMED_FIELD_LIST|CTOR_FIELD_LIST|ENUM_VARIANT_LIST|USE_GROUP|LIST_ITEM"


# ------------------------------------------------------------------------------------------------
# plumbing

def harness_json(cmd, timeout=900):
    p = sh([str(c) for c in cmd], timeout=timeout, cwd=VERIF)
    if getattr(p, "timed_out", False):
        raise ToolError("harness timed out: %s" % cmd)
    recs = []
    for l in p.stdout.splitlines():
        if l.startswith("{"):
            try:
                recs.append(json.loads(l))
            except Exception:
                pass
    if not recs or recs[-1].get("kind") != "summary":
        raise ToolError("harness produced no summary rc=%s: %s %s" % (p.returncode, p.stdout[-1000:], p.stderr[-2000:]))
    return recs


def run_parallel(cmds, timeout):
    """cmds: list of argv; returns the last JSON line (summary) of each."""
    procs = [subprocess.Popen([str(c) for c in cmd], cwd=VERIF, stdout=subprocess.PIPE, stderr=subprocess.PIPE, text=True,
                              errors="replace") for cmd in cmds]
    out = []
    deadline = time.time() + timeout
    for p, cmd in zip(procs, cmds):
        try:
            so, se = p.communicate(timeout=max(1, deadline - time.time()))
        except subprocess.TimeoutExpired:
            for q in procs:
                q.kill()
            raise ToolError("harness timed out: %s" % cmd)
        summ = None
        for l in so.splitlines():
            if l.startswith('{"') and '"kind":"summary"' in l:
                summ = json.loads(l)
        if summ is None:
            raise ToolError("harness produced no summary rc=%s: %s\n%s" % (p.returncode, so[-1000:], se[-2000:]))
        out.append(summ)
    return out


def corpus_files():
    out = []
    for root in ("pkgs", "test", "bench"):
        for d, dn, fn in os.walk(os.path.join(REPO, root)):
            dn.sort()
            for f in sorted(fn):
                if f.endswith(".dora"):
                    out.append(os.path.join(d, f))
    return out


def tlc_prints(r):
    out = []
    for l in r.out.splitlines():
        if l.startswith('"{'):
            try:
                out.append(json.loads(json.loads(l)))
            except Exception:
                pass
    return out


def slug(msg):
    msg = msg.split(" @ ")[0]
    m = re.match(r"unsupported node (\w+)", msg)
    if m:
        return "unsupported-node:" + m.group(1)
    return re.sub(r"[^A-Za-z0-9_]+", "-", msg).strip("-")[:80]


# ------------------------------------------------------------------------------------------------
# part B: renderer

def count_docs(max_nodes, leaves, unary):
    """number of documents with <= max_nodes nodes (independent of the TLA+ enumeration: closed recurrence)"""
    from functools import lru_cache

    @lru_cache(None)
    def T(n):
        return 0 if n <= 0 else leaves if n == 1 else unary * T(n - 1) + S(n - 1, 2)

    @lru_cache(None)
    def S(n, k):      # sequences of at least k documents with n nodes in total
        if n <= 0:
            return 1 if (n == 0 and k <= 0) else 0
        return sum(T(f) * S(n - f, max(k - 1, 0)) for f in range(1, n + 1))
    return sum(T(n) for n in range(1, max_nodes + 1))


def render_part(ctx):
    cfg = "Render_q.cfg" if ctx.quick else "Render_t.cfg"
    r = tlc("Render", cfg=cfg, cwd=CODEC, workers=8 if ctx.quick else 12, timeout=2400, heap="10g")
    tlc_must_pass(r, "Render " + cfg)
    ctx.tlc_stats(r, "Render enumeration + laws " + cfg)
    rows = os.path.join(ctx.work, "render_rows.txt")
    with open(rows, "w") as f:
        f.write(r.out)
    log(f"Render: {r.distinct} states in {r.seconds:.0f}s")
    recs = harness_json([VFMT, "render", rows], timeout=1200)
    s = recs[-1]
    expected_docs = count_docs(int(re.search(r"MaxNodes = (\d+)", open(os.path.join(CODEC, cfg)).read()).group(1)),
                               int(re.search(r"NTexts = (\d+)", open(os.path.join(CODEC, cfg)).read()).group(1)) + 3, 3)
    if s["rows"] != 12 * expected_docs:
        raise ToolError(f"render replay saw {s['rows']} rows; there are {expected_docs} documents x 12 widths (TLC: {r.distinct} states)")
    ctx.add("render_documents", expected_docs)
    ctx.add("render_rows_replayed", s["rows"])
    ctx.add("traces_validated_against_impl", s["rows"] - s["mismatch"] - s["panics"])
    ctx.extra["render"] = s
    ctx.sample({"render_row": {"doc": "group(concat(text a, softline, text bb))", "w": 3, "expected": "a\nbb"}})
    for m in recs[:-1]:
        if m["kind"] == "panic":
            ctx.violation(f"the renderer panics on a document of the public Doc API: {m['msg']} doc={json.dumps(m['d'])} width={m['w']}",
                          m, key="render-panic:" + slug(m["msg"]))
    mism = [m for m in recs[:-1] if m["kind"] == "mismatch"]
    if mism:
        adj = os.path.join(ctx.work, "render_adjudicate.ndjson")
        with open(adj, "w") as f:
            for m in mism:
                f.write(json.dumps({"d": m["d"], "w": m["w"], "o": m["o"]}) + "\n")
        ra = tlc("Render", cfg="Render_adj.cfg", cwd=CODEC, workers=4, timeout=900, env={"ROWS": adj})
        tlc_must_pass(ra, "Render adjudication")
        ctx.tlc_stats(ra, "Render adjudication of mismatching rows")
        verdicts = tlc_prints(ra)
        for v in verdicts[:50]:
            exp = "".join(map(chr, v["expected"])); act = "".join(map(chr, v["o"]))
            case = {"doc": v["d"], "width": v["w"], "expected": exp, "actual": act}
            if v["isLayout"]:
                ctx.model_drift("Render", f"doc={json.dumps(v['d'])} w={v['w']} expected {exp!r} got {act!r} (a valid layout of the document, other flat/break choice)")
            else:
                ctx.violation(f"render_doc_with_line_length produced a text that is not a layout of the document: doc={json.dumps(v['d'])} "
                              f"width={v['w']} expected {exp!r} got {act!r}", case, key="render-not-a-layout")
        if s["mismatch"] > len(verdicts):
            ctx.extra["render"]["mismatches_not_adjudicated"] = s["mismatch"] - len(verdicts)


# ------------------------------------------------------------------------------------------------
# part C: records

class Batch:
    """one harness corpus run: records, diagnostics, tables"""

    def __init__(self, ctx, name, files, widths, family, manifest=None, id_base=0):
        self.ctx, self.name, self.family, self.widths = ctx, name, family, widths
        self.manifest = manifest or {}
        self.base = os.path.join(ctx.work, name)
        self.list = self.base + ".list"
        with open(self.list, "w") as f:
            f.write("\n".join(files) + "\n")
        self.cmd = [VFMT, "corpus", self.list] + [str(w) for w in widths] + ["-o", self.base + ".rec", "-d", self.base + ".diag",
                                                                             "-t", self.base + ".tab", "-b", str(id_base)]

    def load(self):
        self.recs = {}
        for l in open(self.base + ".rec"):
            r = json.loads(l); self.recs[r["id"]] = r
        self.diag = {}
        for l in open(self.base + ".diag"):
            d = json.loads(l); self.diag[d["id"]] = d
        t = json.load(open(self.base + ".tab"))
        self.tokens, self.comments = t["tokens"], t["comments"]
        self.tokid = {tuple(t): i + 1 for i, t in enumerate(self.tokens)}

    def tok(self, tid):
        return self.tokens[tid - 1]

    def intern(self, kind, text):
        k = (kind, text)
        if k not in self.tokid:
            self.tokens.append([kind, text]); self.tokid[k] = len(self.tokens)
        return self.tokid[k]


def validate(ctx, paths, what, timeout=2400):
    """one TLC run per group of record files (<= ~120 MB of JSON each)"""
    if isinstance(paths, str):
        paths = [paths]
    groups, cur, size = [], [], 0
    for p in paths:
        sz = os.path.getsize(p)
        if cur and size + sz > 120e6:
            groups.append(cur); cur, size = [], 0
        cur.append(p); size += sz
    if cur:
        groups.append(cur)
    out = {}
    for gi, g in enumerate(groups):
        path = g[0]
        if len(g) > 1:
            path = os.path.join(ctx.work, f"merged{ctx._nmerge if hasattr(ctx, '_nmerge') else 0}.rec")
            ctx._nmerge = getattr(ctx, "_nmerge", 0) + 1
            with open(path, "wb") as f:
                for p in g:
                    f.write(open(p, "rb").read())
        r = tlc("FormatRel", cfg="FormatRel.cfg", cwd=CODEC, workers=8, timeout=timeout, env={"RECS": path}, heap="12g")
        tlc_must_pass(r, "FormatRel " + what)
        ctx.tlc_stats(r, f"FormatRel record validation {what} ({gi + 1}/{len(groups)})")
        for v in tlc_prints(r):
            out[v["id"]] = v
    return out


# ---- Tokens: construct classes ------------------------------------------------------------------

def side_tags(n, use_ranges, mod_lists, arm_commas):
    tags = [dict() for _ in range(n)]
    for k, (a, b) in enumerate(use_ranges or []):
        for x in range(a, min(b, n)):
            tags[x]["use"] = k
    for li, mods in enumerate(mod_lists or []):
        for mi, (a, b) in enumerate(mods):
            for x in range(a, min(b, n)):
                tags[x]["mod"] = (li, mi)
    for x in arm_commas or []:
        if x < n:
            tags[x]["armc"] = True
    return tags


def parse_use(texts):
    """texts of one `use` item -> (modifiers, sorted leaf paths) or None"""
    if "use" not in texts or texts[-1] != ";":
        return None
    k = texts.index("use")
    mods = tuple(sorted(texts[:k]))
    ts = texts[k + 1:-1]
    pos = [0]

    def tree(prefix):
        out = []
        while True:
            if pos[0] >= len(ts):
                return None
            t = ts[pos[0]]
            if t == "{":
                pos[0] += 1
                while pos[0] < len(ts) and ts[pos[0]] != "}":
                    sub = tree(prefix)
                    if sub is None:
                        return None
                    out += sub
                    if pos[0] < len(ts) and ts[pos[0]] == ",":
                        pos[0] += 1
                if pos[0] >= len(ts):
                    return None
                pos[0] += 1
                return out
            pos[0] += 1
            if pos[0] < len(ts) and ts[pos[0]] == "::":
                pos[0] += 1
                prefix = prefix + (t,)
                continue
            if pos[0] + 1 < len(ts) and ts[pos[0]] == "as":
                alias = ts[pos[0] + 1]; pos[0] += 2
                return [prefix + (t, "as", alias)]
            return [prefix + (t,)]

    leaves = tree(())
    if leaves is None or pos[0] != len(ts):
        return None
    return (mods, tuple(sorted(leaves)))


def use_items(b, side):
    items = collections.OrderedDict()
    for tid, tg in side:
        if "use" in tg:
            items.setdefault(tg["use"], []).append(b.tok(tid)[1])
    return [parse_use(v) for v in items.values()], [v for v in items.values()]


def modifier_lists(b, side):
    lists = collections.OrderedDict()
    for tid, tg in side:
        if "mod" in tg and "use" not in tg:
            li, mi = tg["mod"]
            lists.setdefault(li, collections.OrderedDict()).setdefault(mi, []).append(tid)
    return [[tuple(m) for m in l.values()] for l in lists.values()]


def explain_tokens(b, I, O, i, j):
    """I, O: lists of (token id, tags). (i, j): 0-based stuck position. -> (class, newI, newO) or None"""
    kind = lambda s, k: b.tok(s[k][0])[0] if 0 <= k < len(s) else "EOF"
    text = lambda s, k: b.tok(s[k][0])[1] if 0 <= k < len(s) else ""
    # tuple field chain: `. 0 . 0` (DOT INT DOT INT) came out as `. 0.0` (DOT FLOAT)
    if kind(I, i) == "INT_LITERAL" and kind(O, j) == "FLOAT_LITERAL" and kind(I, i - 1) == "DOT" and kind(I, i + 1) == "DOT" \
            and kind(I, i + 2) == "INT_LITERAL" and text(I, i) + "." + text(I, i + 2) == text(O, j):
        new, k = [], 0
        while k < len(I):
            if kind(I, k) == "INT_LITERAL" and kind(I, k - 1) == "DOT" and kind(I, k + 1) == "DOT" and kind(I, k + 2) == "INT_LITERAL":
                new.append((b.intern("FLOAT_LITERAL", text(I, k) + "." + text(I, k + 2)), {})); k += 3
            else:
                new.append(I[k]); k += 1
        return "tuple-field-chain", new, O
    # separator after a block-like match arm
    if (i < len(I) and I[i][1].get("armc")) or (j < len(O) and O[j][1].get("armc")):
        return "match-arm-comma-after-block", [t for t in I if not t[1].get("armc")], [t for t in O if not t[1].get("armc")]
    ti = I[i][1] if i < len(I) else {}
    tj = O[j][1] if j < len(O) else {}
    # order of modifiers / annotations inside one modifier list
    if "mod" in ti and "mod" in tj and "use" not in ti and "use" not in tj and ti["mod"][0] == tj["mod"][0]:
        li, lo = modifier_lists(b, I), modifier_lists(b, O)
        if len(li) == len(lo) and all(sorted(x) == sorted(y) for x, y in zip(li, lo)):
            def canon(side):
                out, k = [], 0
                while k < len(side):
                    tg = side[k][1]
                    if "mod" in tg and "use" not in tg:
                        l = tg["mod"][0]; run = []
                        while k < len(side) and side[k][1].get("mod", (None,))[0] == l and "use" not in side[k][1]:
                            run.append(side[k]); k += 1
                        mods = collections.OrderedDict()
                        for t in run:
                            mods.setdefault(t[1]["mod"][1], []).append(t)
                        for m in sorted(mods.values(), key=lambda m: [t[0] for t in m]):
                            out += m
                    else:
                        out.append(side[k]); k += 1
                return out
            return "modifier-order", canon(I), canon(O)
    # `use` items: sorted, group entries sorted, single-entry groups collapsed
    if "use" in ti or "use" in tj:
        pi, ri = use_items(b, I)
        po, ro = use_items(b, O)
        if None not in pi and None not in po and collections.Counter(pi) == collections.Counter(po):
            braces = lambda raw: sum(t.count("{") for t in raw)
            cls = "use-reorder" if braces(ri) == braces(ro) else "use-group-collapse"
            return cls, [t for t in I if "use" not in t[1]], [t for t in O if "use" not in t[1]]
    return None


def excerpt(b, side, k, n=6):
    return " ".join(b.tok(t[0])[1] for t in side[max(0, k - n):k]) + "  >>>  " + " ".join(b.tok(t[0])[1] for t in side[k:k + n])


def predict_stuck(I, O):
    """Python mirror of the alignment machine, used ONLY to choose which construct class to remove next; the verdict
    on the normalized record is TLC's (FormatRel.tla)."""
    opt = lambda s, k: s[k][0] == 1 and k + 1 < len(s) and s[k + 1][0] in (2, 3, 4, 5)
    i = j = 0
    while True:
        if i < len(I) and j < len(O) and I[i][0] == O[j][0]:
            i += 1; j += 1
        elif i < len(I) and opt(I, i):
            i += 1
        elif j < len(O) and opt(O, j):
            j += 1
        elif i == len(I) and j == len(O):
            return None
        else:
            return i, j


def tokens_law(ctx, owner, stuck):
    """stuck: {record id: verdict}; owner: {record id: batch}. Returns {record id: state with classes / residual}"""
    state = {}
    todo = []
    for rid, v in stuck.items():
        b = owner[rid]
        r, d = b.recs[rid], b.diag[rid]
        I = list(zip(r["I"], side_tags(len(r["I"]), d.get("iu"), d.get("im"), d.get("iac"))))
        O = list(zip(r["O"], side_tags(len(r["O"]), d.get("ou"), d.get("om"), d.get("oac"))))
        i, j = v["i"] - 1, v["j"] - 1
        s = state[rid] = dict(classes=[], residual=None, first=dict(i=i, j=j, input=excerpt(b, I, i), output=excerpt(b, O, j)))
        kind = lambda side, k: b.tok(side[k][0])[0] if k < len(side) else "EOF"
        at = (i, j)
        for rnd in range(12):
            e = explain_tokens(b, I, O, *at)
            if e is None:
                break
            cls, I, O = e
            if cls not in s["classes"]:
                s["classes"].append(cls)
            at = predict_stuck(I, O)
            if at is None:
                break
        if at is not None:
            s["residual"] = dict(i=at[0], j=at[1], input=excerpt(b, I, at[0]), output=excerpt(b, O, at[1]),
                                 kinds=kind(I, at[0]) + "->" + kind(O, at[1]))
        if s["classes"]:
            s["I"], s["O"] = [t[0] for t in I], [t[0] for t in O]
            todo.append(rid)
    if todo:
        path = os.path.join(ctx.work, "normalized.rec")
        with open(path, "w") as f:
            for rid in todo:
                r = dict(owner[rid].recs[rid]); r["I"] = state[rid].pop("I"); r["O"] = state[rid].pop("O")
                f.write(json.dumps(r) + "\n")
        vs = validate(ctx, path, "rejected alignments after removing the named construct classes")
        for rid in todo:
            s, v = state[rid], vs[rid]
            if v["tokens"] != (s["residual"] is None):
                raise ToolError(f"FormatRel and the Python predictor disagree on normalized record {rid}: {v} vs {s['residual']}")
    return state


# ---- reporting ----------------------------------------------------------------------------------

def culprit_key(law, q):
    if q["shape"] in ("line-comment", "block-comment"):
        return f"{law}:{q['shape']}:in={q['comment_parent']}:after={q['after']}:before={q['before']}/{q['before_parent']}"
    return f"{law}:{q['shape']}:after={q['after']}/{q['after_parent']}:before={q['before']}/{q['before_parent']}"


def process_all(ctx, batches):
    for b in batches:
        b.load()
    verdicts = validate(ctx, [b.base + ".rec" for b in batches], "repository files + layout mutants")
    owner = {rid: b for b in batches for rid in b.recs}
    if set(verdicts) != set(owner):
        raise ToolError(f"TLC emitted {len(verdicts)} verdicts for {len(owner)} records")
    stuck = {rid: v for rid, v in verdicts.items() if v["total"] and not v["tokens"]}
    tstate = tokens_law(ctx, owner, stuck) if stuck else {}
    origin_keys = {}
    for b in batches:          # repository batches come first: their keys are inherited by mutants of the same file
        report_batch(ctx, b, verdicts, tstate, origin_keys)


def report_batch(ctx, b, verdicts, tstate, origin_keys):
    """origin_keys[(file, width, law)] = keys reported for repository files."""
    ctx.add("formatter_runs_recorded", len(b.recs))
    ctx.add("input_tokens_aligned", sum(len(r["I"]) for r in b.recs.values()))
    fam = b.family
    jobs = []          # explain jobs for mutants
    pending = {}       # (rid, law) -> base info
    ok = 0
    for rid in sorted(b.recs):
        v, r, d = verdicts[rid], b.recs[rid], b.diag[rid]
        path, w = d["file"], d["w"]
        man = b.manifest.get(path)
        origin = man["origin"] if man else path
        base = os.path.basename(origin)
        case = {"file": path, "width": w, "family": fam, "origin": origin, "seed": ctx.seed, "generator": GEN_VERSION}
        if man:
            case["mutation"] = {k: man[k] for k in ("kind", "gap", "ctx")}
            try:
                case["text"] = open(path).read()
            except OSError:
                pass
        where = f"{path} (mutant [{man['kind']}] of {origin})" if man else path
        good = all(v[k] for k in ("total", "returns", "tokens", "comments", "parses", "idem"))
        if good:
            ok += 1
            if r["I"] != r["O"]:
                ctx.add("records_differing_only_in_optional_commas")
            else:
                ctx.add("records_token_identical")
            continue

        def report(law, key, msg, path=path, w=w, where=where, case=case):
            # (defaults bind this record: the closure is also called after the loop, for mutants explained in a batch)
            ctx.add("rejected:" + law)
            kh = ctx.extra.setdefault("keys_reported", {})
            kh[key] = kh.get(key, 0) + 1
            if fam == "repo":
                origin_keys.setdefault((path, w, law), []).append(key)
            ctx.violation(f"{msg} [width {w}] {where}", dict(case, law=law), key=key)

        token_classes = []
        if not v["total"]:
            report("Total", "panic:" + slug(d["pipe_msg"]), f"the formatter panics on a syntactically valid file: {d['pipe_msg']}")
            continue
        if not v["tokens"]:
            s = tstate[rid]
            token_classes = s["classes"]
            for cls in s["classes"]:
                if cls == "match-arm-comma-after-block":
                    # the `,` after a block-like match arm is an optional separator trailing the arm (never required by
                    # the grammar): within the property's "optional trailing separators", counted, not reported
                    ctx.add("records_with_optional_comma_after_block_arm")
                    continue
                report("Tokens", "tokens-changed:" + cls,
                       f"code tokens changed by formatting ({cls}); first difference: input `{s['first']['input']}` output `{s['first']['output']}`")
            if s["residual"] is not None:
                q = s["residual"]
                report("Tokens", "tokens-changed:" + q["kinds"] + ("" if fam == "repo" else ":" + fam),
                       f"code tokens changed by formatting, not explained by a listed construct class: input `{q['input']}` output `{q['output']}` "
                       f"(token {q['i']}/{q['j']}, after removing {s['classes']})")
        if not v["comments"]:
            ci = collections.Counter(r["ci"]); co = collections.Counter(r["co"])
            lost = [b.comments[c - 1] for c in (ci - co).elements()]
            extra = [b.comments[c - 1] for c in (co - ci).elements()]
            msg = f"comments changed by formatting: lost {lost[:4]} new {extra[:4]}"
            if fam == "repo":
                report("Comments", "comment-lost:" + base if lost else "comment-added:" + base, msg)
            else:
                pending[(rid, "comments")] = (report, "Comments", "comment-lost" if lost else "comment-added", msg)
                jobs.append({"file": path, "origin": origin, "w": w, "law": "comments", "rid": rid})
        if not v["parses"]:
            msg = f"the formatted text does not parse ({'parser panic: ' + d.get('parse_msg', '') if r['pe'] < 0 else str(r['pe']) + ' syntax errors'})"
            if token_classes:
                report("Parses", "output-unparsable:" + "+".join(token_classes), msg)
            elif fam == "repo":
                report("Parses", "output-unparsable:" + base, msg)
            else:
                pending[(rid, "parses")] = (report, "Parses", "output-unparsable", msg)
                jobs.append({"file": path, "origin": origin, "w": w, "law": "parses", "rid": rid})
        elif not v["returns"]:
            report("Returns", "panic:entry-point-only:" + slug(d["api_msg"]),
                   f"format_source_with_line_length fails although its pipeline yields a parsable text: {d['api_msg']}")
        if v["parses"] and not v["idem"]:
            if r["f2"] != 0:
                msg = f"formatting the formatted text fails: {d.get('f2_msg', '')}"
                tag = "second-format-failed"
            else:
                k = next((x for x in range(min(len(r["ol"]), len(r["o2l"]))) if r["ol"][x] != r["o2l"][x]), min(len(r["ol"]), len(r["o2l"])))
                msg = f"formatting is not idempotent: first and second output differ from line {k + 1} ({len(r['ol'])} vs {len(r['o2l'])} lines)"
                tag = "not-idempotent"
            if fam == "repo":
                report("Idem", tag + ":" + base, msg)
            else:
                pending[(rid, "idem")] = (report, "Idem", tag, msg)
                jobs.append({"file": path, "origin": origin, "w": w, "law": "idem", "rid": rid})
    ctx.add("traces_validated_against_impl", ok)
    ctx.add("records_rejected", len(b.recs) - ok)
    if jobs:
        jf = b.base + ".jobs"
        with open(jf, "w") as f:
            f.write("\n".join(json.dumps(j) for j in jobs) + "\n")
        ex = [e for e in harness_json([VFMT, "explain", jf], timeout=1800) if e.get("kind") == "explain"]
        if len(ex) != len(jobs):
            raise ToolError(f"explain returned {len(ex)} results for {len(jobs)} jobs")
        ctx.add("culprit_searches", len(jobs))
        for j, e in zip(jobs, ex):
            report, law, tag, msg = pending[(j["rid"], j["law"])]
            if e["how"] == "origin fails too":
                keys = origin_keys.get((j["origin"], j["w"], law))
                if keys:
                    for k in keys:
                        report(law, k, msg + " (inherited from the unmodified file)")
                else:
                    report(law, f"{tag}:{os.path.basename(j['origin'])}", msg + " (the unmodified file fails the same law)")
            elif not e["culprits"]:
                report(law, f"{tag}:{b.family}:no-single-cause", msg + f" ({e['how']})")
            else:
                seen = set()
                for q in e["culprits"]:
                    k = culprit_key(tag, q)
                    if k not in seen:
                        seen.add(k)
                        report(law, k, msg + f"; caused by the {q['shape']} between `{q['after']}` and `{q['before']}` (gap {q['gap']}, was {q['was']}; {e['how']})")


def run(ctx):
    build_harness()
    if not os.path.exists(VFMT):
        raise ToolError("harness binary vfmt missing")
    rnd = rng(ctx.seed, "C17", GEN_VERSION)

    # A. the alignment machine is the relation (small scope)
    r = tlc("FormatRel", cfg="FormatRel_small4.cfg" if ctx.quick else "FormatRel_small.cfg", cwd=CODEC, workers=8, timeout=900)
    tlc_must_pass(r, "FormatRel small scope")
    ctx.tlc_stats(r, "FormatRel alignment machine = optional-comma relation, all pairs of short token strings")

    # B. renderer
    render_part(ctx)

    # C. corpus
    files = corpus_files()
    ctx.add("repository_files", len(files))
    if ctx.quick:
        sample = sorted(rnd.sample(files, 250))
        widths = [20, 90]
        mut_origins, per_file, mut_widths, n_generated = 60, 6, [20, 90], 15
    else:
        sample = files
        widths = [1, 20, 40, 90, 200]
        mut_origins, per_file, mut_widths, n_generated = 500, 10, [1, 20, 40, 90, 200], 150
    nproc = 4
    chunks = [sample[k::nproc] for k in range(nproc)]
    batches = [Batch(ctx, f"repo{k}", ch, widths, "repo", id_base=(k + 1) * 10_000_000) for k, ch in enumerate(chunks) if ch]
    # grammar-directed programs (the typed generator of the DoraSem family: nested expressions, match, lambdas, ...)
    sys.path.insert(0, os.path.join(VERIF, "gen"))
    import dsem_gen
    gdir = os.path.join(ctx.work, "generated")
    os.makedirs(gdir, exist_ok=True)
    gfiles = []
    for k in range(n_generated):
        try:
            src, _ = dsem_gen.generate(ctx.seed * 100003 + k, 3)
        except (RecursionError, ValueError, KeyError, IndexError):      # generator limits, not the subject of this check
            ctx.add("generator_failures")
            continue
        gf = os.path.join(gdir, f"g{k:04d}.dora")
        with open(gf, "w") as f:
            f.write(src)
        gfiles.append(gf)
    ctx.add("generated_programs", len(gfiles))
    # construct zoo: every comma list of the language in its 1- and 2-element form with trailing separators (gen/c17_zoo.dora)
    zoo = os.path.join(VERIF, "gen", "c17_zoo.dora")
    gfiles.append(zoo)
    batches.append(Batch(ctx, "generated", gfiles, widths, "repo", id_base=9 * 10_000_000))
    # mutants: origins = small files of the sample (so that the records of the unmodified files exist)
    small = [f for f in sample if os.path.getsize(f) < 6000]
    origins = sorted(rnd.sample(small, min(mut_origins, len(small))))
    mdir = os.path.join(ctx.work, "mutants")
    olist = os.path.join(ctx.work, "mutant_origins.list")
    with open(olist, "w") as f:
        f.write("\n".join(origins) + "\n")
    ms = harness_json([VFMT, "mutants", olist, mdir, ctx.seed, per_file], timeout=900)[-1]
    ctx.extra["mutants"] = ms
    ctx.add("layout_mutants", ms["mutants"])
    if ms["mutants"] == 0:
        raise ToolError("no layout mutants were generated")
    manifest = {}
    for l in open(os.path.join(mdir, "manifest.ndjson")):
        m = json.loads(l); manifest[m["file"]] = m
    # ... and a comment (block / line) at EVERY token boundary of the zoo, one mutant per boundary and style
    zdir = os.path.join(ctx.work, "zoo_mutants")
    zlist = os.path.join(ctx.work, "zoo.list")
    with open(zlist, "w") as f:
        f.write(zoo + "\n")
    zs = harness_json([VFMT, "mutants", zlist, zdir, ctx.seed, 0, "every-gap"], timeout=900)[-1]
    ctx.extra["zoo_mutants"] = zs
    ctx.add("layout_mutants", zs["mutants"])
    if zs["mutants"] < 800:
        raise ToolError(f"the construct zoo produced only {zs['mutants']} comment mutants")
    for l in open(os.path.join(zdir, "manifest.ndjson")):
        m = json.loads(l); manifest[m["file"]] = m
    mfiles = sorted(manifest)
    assert set(mut_widths) <= set(widths)      # the unmodified origins at the mutant widths are in the repo batches
    chunks = [mfiles[k::nproc] for k in range(nproc)]
    batches += [Batch(ctx, f"mut{k}", ch, mut_widths, "mutant", manifest, id_base=(k + 11) * 10_000_000) for k, ch in enumerate(chunks) if ch]
    t0 = time.time()
    summ = run_parallel([b.cmd for b in batches], timeout=1800)
    skipped = [s for x in summ for s in x["skipped"]]
    ctx.add("files_skipped_input_not_syntactically_valid", len(skipped))
    ctx.extra["skipped_inputs"] = skipped[:40]
    log(f"corpus: {sum(x['records'] for x in summ)} formatter runs recorded ({len(sample)} repository files + {len(gfiles)} generated programs x widths {widths}, "
        f"{len(mfiles)} mutants of {len(origins)} files x widths {mut_widths}) in {time.time() - t0:.0f}s; skipped {len(skipped)} unparsable inputs")
    process_all(ctx, batches)
    ctx.sample({"record": "test/fmt/use_sort.dora width 90: Tokens rejected at `foo :: { >>> C , B` vs `A , B`; accepted after removing `use` items -> tokens-changed:use-reorder"})
    ctx.cov["rule"] = ("quick: seeded sample of 250 repository files x widths {20,90} + 8 layout mutants of 70 small files; thorough: all files x "
                       "widths {1,20,40,90,200} + 10 mutants of 500 small files; plus 15 / 150 generated programs (gen/dsem_gen.py)")
    ctx.cov["evaluations"] = ctx.cov.get("formatter_runs_recorded", 0)
    ctx.assumptions += [
        "code token = what the real lexer (dora_parser::lex) returns minus white space, line breaks and comments; tokens are compared by (kind, text)",
        "optional separators are exactly `,` directly before `)`, `]`, `}` or a lambda-closing `|` (fixed calibration)",
        "files the parser rejects are outside the property (skipped and counted)",
        "a Render mismatch that is still a layout of the document is model drift, not a violation (C17 does not bound line lengths)",
        "layout mutants: whitespace-only gaps are re-spaced/joined/split, one comment is inserted per comment mutant; every mutant is re-lexed (same code tokens) and re-parsed (no errors) before use",
        "the `,` of a one-element tuple expression is a token of its own (mandatory); gen/c17_zoo.dora gets a block and a line comment at every token boundary",
    ]


def replay(ctx, path):
    build_harness()
    obj = json.load(open(path))
    case = obj.get("case", {})
    log(f"replay of: {obj.get('message', '')[:600]}")
    f = case.get("file")
    if f and "text" in case:
        f = os.path.join(ctx.work, "replay.dora")
        open(f, "w").write(case["text"])
    if f:
        p = sh([VFMT, "one", f, str(case.get("width", 90))], timeout=120, cwd=VERIF)
        log(p.stdout[-6000:])
        # decide again with the spec
        b = Batch(ctx, "replay", [f], [case.get("width", 90)], case.get("family", "repo"))
        run_parallel([b.cmd], timeout=300)
        b.load()
        for rid, v in validate(ctx, b.base + ".rec", "replay").items():
            bad = [k for k in ("total", "returns", "tokens", "comments", "parses", "idem") if not v[k]]
            log(f"FormatRel verdict: {'accepted' if not bad else 'REJECTED laws=' + ','.join(bad)}")
            if bad:
                ctx.violation(f"replay: FormatRel rejects the run, laws {bad}: {obj.get('message', '')[:300]}", case, key=obj.get("key"))
    else:
        log(json.dumps(case)[:3000])
