"""C20 - editor positions and symbol ranges always match the document.

spec/codec/Position.tla: declarative LSP position convention over six character classes; TLC proves
round trip / monotonicity / clamping for every text up to MaxLen and emits the expected conversion
table of every text; the real compute_line_starts / utf8_offset_to_utf16_position /
utf16_position_to_utf8_offset are compared with it entry by entry (S->I, exhaustive small scope).
Symbol ranges: document symbols of corpus files and line-ending / multi-byte variants are checked
for the nesting invariants; the analysis entry point runs under catch_unwind.
"""
import json, os, random
from common import *

LEVEL = "model_checking"
MANIFEST = dict(
    technique='TLA+ spec Position.tla: TLC proves round trip/monotonicity/clamping for every text up to a length bound and emits the expected conversion tables; the real conversion functions are compared entry by entry (spec->impl replay, exhaustive small scope); symbol-range nesting invariants on document symbols of corpus texts and variants',
    text='Small-scope exhaustive: every text of up to 4 (quick) / 5 (thorough; 6 in-model) characters over six character classes (1-4 byte characters incl. a surrogate pair, CR, LF) x every boundary offset and every (line, column) incl. out-of-range ones is decided by the declarative spec and compared with compute_line_starts / utf8_offset_to_utf16_position / utf16_position_to_utf8_offset. Symbol ranges are validated on ~1000-11000 real documents.',
    note='Trusted: TLC; the character-class abstraction (behaviour depends only on UTF-8 length, UTF-16 length and terminator kind); symbol-range half is corpus-based, not exhaustive.',
    ref='4/C20')
CODEC = os.path.join(SPEC, "codec")
VLS = os.path.join(HARNESS, "target", "debug", "vls")


def harness_json(cmd, timeout=900):
    cmd = [str(c) for c in cmd]
    p = sh(cmd, timeout=timeout, cwd=VERIF)
    if getattr(p, "timed_out", False):
        raise ToolError("harness timed out: %s" % cmd)
    recs = []
    for l in p.stdout.splitlines():
        if l.startswith("{"):
            try:
                recs.append(json.loads(l))
            except Exception:
                pass
    if not recs or recs[-1].get("kind") != "summary":
        raise ToolError("harness produced no summary rc=%s: %s %s" % (p.returncode, p.stdout[-1000:], p.stderr[-2000:]))
    return recs


def corpus_files():
    out = []
    for root in ("pkgs", "test", "bench"):
        for d, dn, fn in os.walk(os.path.join(REPO, root)):
            dn.sort()
            for f in sorted(fn):
                if f.endswith(".dora"):
                    out.append(os.path.join(d, f))
    return out


def run(ctx):
    build_harness()
    for n in ([4] if ctx.quick else [4, 5]):
        r = tlc("Position", cfg=f"Position{n}.cfg", cwd=CODEC, workers=8, timeout=3000, heap="8g")
        tlc_must_pass(r, f"Position MaxLen={n}")
        ctx.tlc_stats(r, f"Position MaxLen={n}: round trip, monotonic, clamped for every text")
        rows = os.path.join(ctx.work, f"rows{n}.txt")
        open(rows, "w").write(r.out)
        recs = harness_json([VH, "position", rows])
        s = recs[-1]
        ctx.add("traces_validated_against_impl", s["texts"])
        ctx.add("conversions_compared", s["compared"])
        for m in recs[:-1]:
            c = m["case"]
            ctx.violation(f"position conversion disagrees with the specification: {json.dumps(c)[:400]}", c,
                          key=f"{c.get('what')}:{c.get('text')!r}")
        if s["mismatches"] == 0 and s["texts"] != r.distinct:
            raise ToolError(f"row count {s['texts']} != states {r.distinct}")
        if n == 4:
            ctx.sample({"text": "a\\r\\n\U0001F600", "expected": "offset 3 -> (1,0); offset 7 -> (1,2); (1,1) -> offset 7 (inside a surrogate pair rounds up)"})
    if not ctx.quick:
        r = tlc("Position", cfg="Position6.cfg", cwd=CODEC, workers=16, timeout=6000, heap="8g")
        tlc_must_pass(r, "Position MaxLen=6")
        ctx.tlc_stats(r, "Position MaxLen=6 (in-model only)")

    # symbol ranges
    files = corpus_files()
    rng = random.Random(ctx.seed)
    pick = files if not ctx.quick else rng.sample(files, 500)
    vdir = os.path.join(ctx.work, "variants")
    os.makedirs(vdir, exist_ok=True)
    listing = []
    for i, f in enumerate(pick):
        listing.append(f)
        try:
            text = open(f, encoding="utf8").read()
        except Exception:
            continue
        if i % (3 if ctx.quick else 1) == 0:
            for tag, t in (("crlf", text.replace("\n", "\r\n")), ("cr", text.replace("\n", "\r")),
                           ("mb", "// é€\U0001F600\n" + text.replace("    ", " /* \U0001F600 */ ", 1))):
                p = os.path.join(vdir, f"{i}_{tag}.dora")
                open(p, "w", encoding="utf8", newline="").write(t)
                listing.append(p)
    lf = os.path.join(ctx.work, "files.txt")
    open(lf, "w").write("\n".join(listing) + "\n")
    recs = harness_json([VLS, "symbols", lf])
    s = recs[-1]
    ctx.add("symbol_texts", s["texts"])
    ctx.add("symbols_checked", s["symbols"])
    for m in recs[:-1]:
        path = m["path"]
        src = open(path, encoding="utf8", errors="replace").read()
        if m["kind"] == "panic":
            ctx.violation(f"document-symbol analysis panicked on {path}", {"path": path, "text": src[:20000]}, key="symbols-panic:" + os.path.basename(path))
        else:
            kind = "variant-child-outside-parent" if all("outside parent" in p for p in m["problems"]) else "range"
            ctx.violation(f"symbol ranges of {path}: {m['problems'][:2]}", {"path": path, "text": src[:20000], "problems": m["problems"]},
                          key=f"symbols-{kind}")
    ctx.assumptions += ["characters are abstracted to six classes by (UTF-8 length, UTF-16 length, terminator kind)",
                        "symbol ranges are checked on corpus files and their line-ending / multi-byte variants (not exhaustive)"]


def replay(ctx, path):
    log(open(path).read()[:4000])
