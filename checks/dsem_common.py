"""Shared driver of the DoraSem family: generated programs -> real executables -> runs judged by spec/lang/DoraSem.tla."""
import collections, json, os
from common import *
import dsem


def report(ctx, recs, verdicts, categories, what):
    """turn MISMATCH verdicts of the given categories into violations; returns Counter of verdict kinds"""
    c = collections.Counter()
    for r, v in zip(recs, verdicts):
        c[v["v"]] += 1
        if v["v"].startswith("MISMATCH") and (categories is None or v["v"] in categories):
            obs = {k: r["obs"][k] for k in ("out", "tail", "status", "frames", "err0", "signal", "timed_out")}
            src = open(r["source_file"]).read() if os.path.exists(r["source_file"]) else ""
            ctx.violation(f"{what}: case {r['id']} seed {r['seed']} [{r['cfg']}] {v['v']}: spec expects {json.dumps(v['exp'])[:600]} ; observed {json.dumps(obs)[:600]}",
                          {"case": r["id"], "seed": r["seed"], "config": r["cfg"], "verdict": v["v"], "expected": v["exp"], "observed": r["obs"],
                           "ast": r["ast"], "source": src[:200000]}, key=f"{v['v']}:{r['cfg'].split('/')[0]}")
        elif r["obs"]["signal"] is not None or r["obs"]["timed_out"]:
            pass
    return c


def run_plan(ctx, plan, categories, what):
    """plan: list of (seed, ncases, features, configs, flagsets)"""
    totals = collections.Counter()
    fails_all = []
    feats = collections.Counter()
    for seed, ncases, features, configs, flagsets in plan:
        recs, verdicts, fails, res = dsem.campaign(ctx, seed, ncases, features, configs, flagsets)
        fails_all += fails
        if res is None:
            continue
        ctx.tlc_stats(res, f"DoraSem judges {len(recs)} runs (seed {seed})")
        c = report(ctx, recs, verdicts, categories, what)
        totals.update(c)
        ctx.add("traces_validated_against_impl", c["ok"])
        for r, v in zip(recs, verdicts):
            if v["v"] == "ok":
                for f in r["ast"]["features"]:
                    feats[f] += 1
        if recs and not ctx.cov["samples"]:
            r0 = recs[0]
            ctx.sample({"case": r0["id"], "config": r0["cfg"], "observed": {k: r0["obs"][k] for k in ("out", "status", "frames")},
                        "source_head": open(r0["source_file"]).read().splitlines()[:14]})
    ctx.extra["verdicts"] = dict(totals)
    ctx.extra["discarded"] = {"count": totals["discard"], "reason": "evaluation left the exactly representable integer domain (unrep) - never guessed"}
    ctx.extra["feature_hits"] = dict(feats)
    ctx.extra["compile_failures_skipped"] = [{"backend": f["backend"], "case": f["case"], "message_tail": f["message"][-300:]} for f in fails_all][:20]
    return totals, fails_all
