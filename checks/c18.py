"""C18 - packages and bytecode survive being written and read back.

Bytecode level (model checking, S->I): spec/codec/Bytecode.tla states the wire format (opcode byte + LEB128 / raw byte /
fixed-u32 fields, forward jumps patched at Generate, JumpLoop variable width, constant pool, jump tables, line table) as
a state machine over the public writer API; TLC checks Read(Write(is)) = is, strictly increasing offsets and "every
jump lands on its label" for every bounded call sequence and prints the expected bytes of each; harness/vbc replays
every sequence into the REAL BytecodeWriter, compares bytes / constant pool / line table and reads the body back with
both real readers.  Opcode coverage is measured against dora-bytecode/src/opcode.rs of the current tree.

Package level (fault enumeration, I->S): real packages (driver `dora compile -c` and the front end in-process) are
encoded / decoded / re-encoded, truncated at (all | sampled) lengths, hit by seeded single-bit flips (decoded in child
processes), built via source and via package, and damaged packages are fed to dora-cannon-compiler; every observation
is a record of an NDJSON history and the verdicts are decided by TLC from that history (spec/codec/CodecLaws.tla).
"""
import glob, hashlib, json, os, re, sys, threading
from concurrent.futures import ThreadPoolExecutor
from common import *

sys.path.insert(0, os.path.join(VERIF, "gen"))
import c18_prog  # noqa

LEVEL = "model_checking"
MANIFEST = dict(
    technique='TLA+ spec Bytecode.tla (wire format + writer API state machine; TLC proves Read(Write(is)) = is, increasing offsets, jumps land on labels over a bounded domain and emits expected bytes per call sequence) replayed into the real BytecodeWriter/BytecodeReader; recorded encode/decode/truncate/bit-flip/build events of real packages validated by TLC against CodecLaws.tla',
    text="Bytecode: exhaustive small scope - every opcode of the current opcode.rs with operand values on both sides of every LEB128 boundary in every operand position, two/three-instruction sequences over opcode forms, forward/backward jumps whose distances are moved across the 1/2/3-byte LEB128 and the byte boundaries of the fixed u32 by Pad items, constant-pool indices across 127/128 and 16383/16384, jump tables, line table; bytes, pool, line table and read-back instruction list must equal the specification's. Packages: the laws Decode(Encode(p)) = p, Encode(Decode(b)) = b, BuildFromPackage = BuildFromSource on corpus and generated programs are decided by TLC from the recorded history. The package corruption part is fault enumeration, not model checking: truncations (all lengths in the thorough tier for one package, edges + seeded sample otherwise) must be refused, seeded and length-prefix-targeted single-bit flips must end in Err or Ok(some program) and never in a panic/abort - in the decoder (child processes) and in dora-cannon-compiler.",
    note='Trusted: TLC; operand values >= 2^31 are outside TLC integers (covered by the harness round trip only); Pad(n) is a compressed run of n LoopStart instructions; program identity = sha256 of the Debug rendering / of the canonical re-encoding (Program has no PartialEq); undetected bit flips that decode to another program are counted, not violations (the format has no integrity check).',
    ref='4/C18')
CODEC = os.path.join(SPEC, "codec")
VBC = os.path.join(HARNESS, "target", "debug", "vbc")
OPCODE_RS = os.path.join(REPO, "dora-bytecode", "src", "opcode.rs")


def vbc(args, timeout=1800, env=None):
    p = sh([VBC] + [str(a) for a in args], timeout=timeout, cwd=VERIF, env=env)
    if getattr(p, "timed_out", False):
        raise ToolError("vbc timed out: %s" % args[:3])
    recs = []
    for l in p.stdout.splitlines():
        if l.startswith("{"):
            try:
                recs.append(json.loads(l))
            except Exception:
                pass
    if not recs or recs[-1].get("kind") not in ("summary", "encoded"):
        raise ToolError("vbc produced no summary (rc=%s) %s: %s\n%s" % (p.returncode, args[:3], p.stdout[-1500:], p.stderr[-1500:]))
    return recs


def sha_file(path):
    h = hashlib.sha256()
    with open(path, "rb") as f:
        for chunk in iter(lambda: f.read(1 << 20), b""):
            h.update(chunk)
    return h.hexdigest()


# --------------------------------------------------------------------------------------------
# bytecode level

def bytecode_part(ctx):
    cfgs = ["opcodes", "operands_q", "jumps_q", "jumps_bigq", "pool_q"] if ctx.quick else \
           ["opcodes_t", "operands_q", "operands_t", "jumps_t", "jumps_big", "pool_q", "pool_t"]
    files = []
    for c in cfgs:
        r = tlc("Bytecode", cfg=f"Bytecode_{c}.cfg", cwd=CODEC, workers=6 if ctx.quick else 8, timeout=600 if ctx.quick else 2400, heap="8g")
        tlc_must_pass(r, f"Bytecode {c} (the in-model round-trip theorem)")
        ctx.tlc_stats(r, f"Bytecode {c}")
        path = os.path.join(ctx.work, f"rows_{c}.txt")
        with open(path, "w") as f:
            f.write(r.out)
        r.out = ""
        files.append(path)
    recs = vbc(["replay"] + files + ["--opcodes", OPCODE_RS, "--selftest"], timeout=900 if ctx.quick else 3000)
    s = recs[-1]
    ctx.add("traces_validated_against_impl", s["rows"])
    ctx.add("instructions_read_back", s["instructions_read_back"])
    for k in ("rows_with_forward_jump", "rows_with_loop_jump", "rows_with_jump_table", "longest_body_bytes"):
        ctx.extra[k] = s[k]
    for m in recs[:-1]:
        ctx.violation("bytecode writer/reader disagrees with Bytecode.tla (%s): %s" % (m.get("what"), json.dumps(m)[:900]),
                      m, key="bytecode:%s" % m.get("what"))
    st = s["selftest"]
    ctx.add("negative_controls", st["tried"])
    ctx.extra["replay_negative_controls"] = {"perturbed_rows": st["tried"], "detected": st["detected"]}
    if st["tried"] == 0 or st["detected"] != st["tried"]:
        raise ToolError("replay negative controls: %s of %s perturbed rows detected (%s)" % (st["detected"], st["tried"], st.get("first_undetected")))
    oc = s["opcodes"]
    ctx.extra["opcode_coverage"] = {k: oc[k] for k in ("tree", "covered", "uncovered", "not_in_spec", "renumbered", "spec_only",
                                                       "not_decodable", "opcode_bytes_accepted_by_reader", "beyond_tlc_domain_cases",
                                                       "beyond_tlc_domain_mismatches")}
    ctx.extra["opcode_coverage"]["text"] = "%d/%d" % (oc["covered"], oc["tree"])
    for name in oc["not_decodable"]:
        ctx.violation("opcode %s is defined in opcode.rs but BytecodeOpcode::try_from rejects it" % name, {"opcode": name}, key="opcode-not-decodable")
    if oc["not_in_spec"] or oc["renumbered"] or oc["spec_only"]:
        ctx.model_drift("opcode table", "Bytecode.tla's opcode table differs from opcode.rs: new %s renumbered %s spec-only %s" %
                        (oc["not_in_spec"], oc["renumbered"], oc["spec_only"]))
    elif oc["uncovered"]:
        raise ToolError("opcode coverage gap (machinery): %s" % oc["uncovered"])
    ctx.sample({"bytecode_rows": s["rows"], "opcodes": ctx.extra["opcode_coverage"]["text"]})


# --------------------------------------------------------------------------------------------
# package level

def corpus(ctx, n):
    files = sorted(glob.glob(os.path.join(REPO, "test", "rt", "**", "*.dora"), recursive=True))
    r = rng(ctx.seed, "c18-corpus")
    r.shuffle(files)
    return files[: n * 6]          # candidates; those that do not compile on their own are skipped


def classify_tool(p):
    """outcome of dora-cannon-compiler on a damaged package -> (res, cls)"""
    if getattr(p, "timed_out", False):
        return "hang", ""
    err = (p.stderr or "") + (p.stdout or "")
    m = re.search(r"panicked at ([^\s:]+):(\d+):\d+", err)
    if m:
        f = m.group(1)
        std = "/rustc/" in f or f.startswith("library/")
        return "panic", ("std:" + "/".join(f.split("/")[-2:])) if std else "%s:%s" % (os.path.basename(f), m.group(2))
    if "memory allocation of" in err:
        return "abort", "alloc"
    if "stack overflow" in err:
        return "abort", "stack-overflow"
    if p.returncode is not None and p.returncode < 0:
        return "abort", "signal-%d" % -p.returncode
    if p.returncode == 0:
        return "ok", ""
    if p.returncode == 1:
        return "refused", ""
    return "abort", "exit-%s" % p.returncode


def package_part(ctx, events):
    res = {"programs": [], "skipped": 0}
    work = ctx.work
    counters = dict(truncations_tried=0, truncations_refused=0, extensions_tried=0, extensions_refused=0, flips_tried=0, flips_refused=0,
                    flips_accepted_different=0, flips_same_program=0, flips_crashed=0, flips_noncanonical=0, flip_builds=0,
                    flip_builds_refused=0, flip_builds_accepted=0, flip_builds_crashed=0, driver_package_equals_inprocess=0,
                    real_bodies_read=0, real_bodies_rewritten_identical=0, real_bodies_not_replayable=0)
    ev_extra = []

    def one(name, src, plan, flags=(), optional=True):
        """plan = (ntrunc, nflips, nsave, backends); returns False when the program does not compile on its own"""
        ntrunc, nflips, nsave, backends = plan
        rel = os.path.relpath(src, VERIF)
        pk = os.path.join(work, name + ".dora-package")
        p = sh([DORA, "compile", "-c"] + list(flags) + [rel, "-o", pk], timeout=600, cwd=VERIF)
        if p.returncode != 0 or not os.path.exists(pk):
            if not optional:
                raise ToolError("%s does not compile: %s" % (rel, (p.stderr or "")[-2000:]))
            res["skipped"] += 1
            return False
        enc = vbc(["pkg-encode", rel, os.path.join(work, name + ".inproc.pkg"), name, events] + (["--boots"] if "--internal-compile-boots" in flags else []))[-1]
        if not enc.get("ok"):
            raise ToolError("in-process front end refused %s which the driver compiled" % rel)
        if enc["bytes_sha"] == sha_file(pk):
            counters["driver_package_equals_inprocess"] += 1
        s = vbc(["pkg-laws", pk, name, events, ctx.seed, ntrunc, nflips, os.path.join(work, name + ".laws"), nsave], timeout=2400,
                env={"VBC_THREADS": "8" if ctx.quick else "12"})[-1]
        if s.get("decode_failed"):
            res["programs"].append({"name": name, "decode_failed": True})
            return True
        for k in ("truncations_tried", "truncations_refused", "extensions_tried", "extensions_refused", "flips_tried", "flips_refused",
                  "flips_accepted_different", "flips_same_program", "flips_crashed", "flips_noncanonical"):
            counters[k] += s[k]
        # L5: build via source and via package
        builds = {}
        for be in backends:
            for via, inp in (("source", rel), ("package", pk)):
                out = os.path.join(work, "build_%s_%s_%s" % (name, be, via))
                cmd = [DORA, "compile"] + list(flags) + (["--cannon"] if be == "cannon" else []) + ["-S", inp, "-o", out]
                q = sh(cmd, timeout=900, cwd=VERIF)
                sfile = out + ".s"
                ok = q.returncode == 0 and os.path.exists(sfile)
                builds[(be, via)] = sha_file(sfile) if ok else None
                ev_extra.append({"op": "build", "pkg": name + "/" + be, "in": sha_file(src) if via == "source" else s["bytes_sha"],
                                 "out": builds[(be, via)] or "", "res": "ok" if ok else "fail", "cls": "" if ok else (q.stderr or "")[-200:],
                                 "via": via, "k": 0})
                if ok:
                    os.unlink(sfile)
        # L6: damaged packages that the decoder accepts, fed to the code generator
        base_s = builds.get(("cannon", "package"))

        def feed(sv):
            out = sv["path"] + ".s"
            q = sh([CANNON, sv["path"], "-o", out], timeout=120, cwd=VERIF)
            r_, cls = classify_tool(q)
            h = ""
            if r_ == "ok" and os.path.exists(out):
                h = sha_file(out)
                if h == base_s:
                    r_ = "same"
            if os.path.exists(out):
                os.unlink(out)
            if r_ in ("ok", "same", "refused") and os.path.exists(sv["path"]):
                os.unlink(sv["path"])
            return {"op": "flip-build", "pkg": name, "in": s["bytes_sha"], "out": h, "res": r_, "cls": cls, "via": "cannon", "k": sv["bit"]}
        with ThreadPoolExecutor(max_workers=8) as ex:
            fb = list(ex.map(feed, s["saved"]))
        ev_extra.extend(fb)
        counters["flip_builds"] += len(fb)
        counters["flip_builds_refused"] += sum(1 for x in fb if x["res"] == "refused")
        counters["flip_builds_accepted"] += sum(1 for x in fb if x["res"] in ("ok", "same"))
        counters["flip_builds_crashed"] += sum(1 for x in fb if x["res"] in ("panic", "abort", "hang"))
        # every body of the real package: read, re-written through the writer API, compared
        bod = vbc(["pkg-bodies", pk])[-1]
        res["programs"].append({"name": name, "src": rel, "bytes": s["len"], "functions": s["functions"], "bodies": s["bodies"],
                                "instructions_read": bod["instructions"], "reader_failed": bod["reader_failed"],
                                "bodies_rewritten_identical": bod["rewritten_identical"], "bodies_not_replayable": bod["not_replayable"],
                                "bodies_over_128_registers": bod["bodies_with_more_than_128_registers"], "longest_body_bytes": bod["longest_body_bytes"],
                                "longest_forward_jump": bod["longest_forward_jump"], "jump_tables": bod["jump_tables"],
                                "truncations": s["truncations_tried"], "flips": s["flips_tried"], "crash_classes": s["crash_classes"],
                                "build_equal": {be: builds.get((be, "source")) == builds.get((be, "package")) for be in backends}})
        counters["real_bodies_read"] += bod["bodies"]
        counters["real_bodies_rewritten_identical"] += bod["rewritten_identical"]
        counters["real_bodies_not_replayable"] += bod["not_replayable"]
        if bod["not_replayable_examples"]:
            res.setdefault("not_replayable_examples", bod["not_replayable_examples"])
        for b in bod["rewrite_differs"]:
            ctx.violation("Write(Read(body)) differs from the body the front end emitted: %s in %s" % (json.dumps(b)[:600], rel),
                          {"src": rel, "function": b, "reproduce": "vbc pkg-bodies <package of src>"}, key="rewrite-real-body")
        for b in bod["reader_failed"]:
            ctx.violation("BytecodeReader fails on a body the front end emitted: %s in %s" % (b, rel), {"src": rel, "function": b}, key="reader-on-real-body")
        ctx.sample({"package": name, "bytes": s["len"], "truncations_refused": "%d/%d" % (s["truncations_refused"], s["truncations_tried"]),
                    "flips": {k: s[k] for k in ("flips_tried", "flips_refused", "flips_accepted_different", "flips_crashed")}})
        return True

    have_boots = os.path.exists(BOOTS)
    both = ["cannon"] + (["boots"] if have_boots else [])
    gsrc = os.path.join(work, "gen%d.dora" % ctx.seed)
    open(gsrc, "w").write(c18_prog.gen(ctx.seed))
    if ctx.quick:
        plans = [("1500", 2400, 40, both), ("1500", 2400, 40, ["cannon"]), ("none", 0, 0, ["cannon"])]
    else:
        plans = [("all", 6000, 60, both), ("4000", 60000, 60, both)] + [("4000", 6000, 60, both)] * 2 + [("1000", 1500, 20, both)] * 7
    one("gen", gsrc, plans[0], optional=False)
    n = 1
    for src in corpus(ctx, len(plans)):
        if n >= len(plans):
            break
        if one("c%d_%s" % (n, os.path.basename(src)[:-5]), src, plans[n]):
            n += 1
    if not ctx.quick:
        # the largest program at hand: the optimizing compiler itself (laws, L5 with the baseline back end, a fault sample)
        one("boots", os.path.join(REPO, "pkgs", "boots", "boots.dora"), ("300", 600, 10, ["cannon"]), flags=["--internal-compile-boots"], optional=False)
    with open(events, "a") as f:
        for e in ev_extra:
            f.write(json.dumps(e) + "\n")
    res["counters"] = counters
    return res


VERDICT_TEXT = {
    "L0": "Encode is not a function", "L1": "Decode(Encode(p)) = p", "L2": "Encode(Decode(b)) = b",
    "L3": "a truncated package must be refused with an error", "L4": "a corrupted package must never crash the decoder",
    "L5": "building from the package = building from the source", "L6": "a corrupted package must never crash the code generator"}


def decide(ctx, events, what, expect=None):
    r = tlc("CodecLaws", cfg="CodecLaws.cfg", cwd=CODEC, workers=1, timeout=1800, env={"EVENTS": events}, heap="6g")
    if r.timed_out or not r.ok:
        raise ToolError("CodecLaws did not complete on %s: %s\n%s" % (what, r.violation, r.out[-2000:]))
    rows = []
    for l in r.out.splitlines():
        if l.startswith('"{'):
            rows.append(json.loads(json.loads(l)))
    verdicts = [x for x in rows if "violation" in x]
    summ = [x for x in rows if "summary" in x]
    if not summ:
        raise ToolError("CodecLaws printed no summary on " + what)
    return r, verdicts, summ[-1]["summary"]


def verdict_key(v):
    law = v["violation"]
    rec = v.get("rec", {})
    if law == "L4:flip-crash":
        return "flip-%s:%s" % (rec.get("res"), rec.get("cls"))
    if law == "L6:flip-build-crash":
        return "flip-build-%s:%s" % (rec.get("res"), rec.get("cls"))
    if law == "L3:truncation-crash":
        return "truncation-%s:%s" % (rec.get("res"), rec.get("cls"))
    return law


def negative_controls(ctx, events):
    """every law must notice a history that breaks it"""
    lines = [l for l in open(events).read().splitlines() if l.strip()]
    recs = [json.loads(l) for l in lines]
    enc = next(x for x in recs if x["op"] == "encode")
    dec = next(x for x in recs if x["op"] == "decode" and x["res"] == "ok" and x["in"] == enc["out"])
    ree = next(x for x in recs if x["op"] == "reencode" and x["in"] == dec["out"])
    bld = next(x for x in recs if x["op"] == "build" and x["res"] == "ok" and x["via"] == "source")
    base = [enc, dec, ree, bld]
    blank = {"pkg": "neg", "in": dec["in"], "out": "", "res": "ok", "cls": "", "via": "", "k": 1}
    controls = [
        ("L1:decode-of-encode-differs", dict(blank, op="decode", **{"in": enc["out"], "out": "0" * 64})),
        ("L2:encode-of-decode-differs", dict(blank, op="reencode", **{"in": dec["out"], "out": "1" * 64})),
        ("L3:truncation-accepted", dict(blank, op="truncate", out="2" * 64)),
        ("L3:truncation-crash", dict(blank, op="truncate", res="panic", cls="x.rs:1")),
        ("L3:trailing-bytes-accepted", dict(blank, op="extend", out="5" * 64)),
        ("L4:flip-crash", dict(blank, op="flip", res="abort", cls="alloc")),
        ("L5:package-build-differs", dict(blank, op="build", pkg=bld["pkg"], via="package", out="3" * 64)),
        ("L6:flip-build-crash", dict(blank, op="flip-build", res="panic", cls="y.rs:2")),
        ("L0:encode-not-a-function", dict(blank, op="encode", **{"in": enc["in"], "out": "4" * 64})),
        ("L1:valid-package-refused", dict(blank, op="decode", res="err")),
    ]
    path = os.path.join(ctx.work, "neg_events.ndjson")
    with open(path, "w") as f:
        for x in base + [c for _, c in controls]:
            f.write(json.dumps(x) + "\n")
    r, verdicts, _ = decide(ctx, path, "negative controls")
    got = [v["violation"] for v in verdicts]
    missing = [name for name, _ in controls if name not in got]
    ctx.extra["codec_negative_controls"] = {"injected": [n for n, _ in controls], "reported": got}
    ctx.add("negative_controls", len(controls) - len(missing))
    if missing:
        raise ToolError("CodecLaws did not flag injected violations: %s (reported %s)" % (missing, got))


def run(ctx):
    build_harness()
    build_repo(boots=False)
    events = os.path.join(ctx.work, "events.ndjson")
    open(events, "w").close()
    box = {}

    def pk():
        try:
            box["res"] = package_part(ctx, events)
        except BaseException as e:  # noqa
            box["err"] = e
    # the package phase (child processes of the harness) overlaps with the TLC runs of the bytecode phase
    t = threading.Thread(target=pk)
    t.start()
    try:
        bytecode_part(ctx)
    finally:
        t.join()
    if "err" in box:
        raise box["err"]
    res = box["res"]
    r, verdicts, summ = decide(ctx, events, "the recorded history")
    ctx.tlc_stats(r, "CodecLaws over %d recorded events" % summ["records"])
    ctx.add("records_validated", summ["records"])
    ctx.add("traces_validated_against_impl", summ["encoded"] + summ["decoded"] + summ["builds"])
    for k, v in res["counters"].items():
        ctx.add(k, v)
    ctx.extra["packages"] = res["programs"]
    ctx.extra["corpus_files_skipped_not_compiling"] = res["skipped"]
    ctx.add("traces_validated_against_impl", res["counters"].get("real_bodies_rewritten_identical", 0))
    if res.get("not_replayable_examples"):
        ctx.extra["not_replayable_examples"] = res["not_replayable_examples"]
    ctx.extra["codec_summary"] = summ
    seen = {}
    for v in verdicts:
        key = verdict_key(v)
        seen[key] = seen.get(key, 0) + 1
        rec = v.get("rec", {})
        law = v["violation"].split(":")[0]
        ctx.violation("%s [%s]: %s package %s, fault %s %s -> %s %s" % (VERDICT_TEXT.get(law, law), v["violation"], rec.get("op"), rec.get("pkg"),
                                                                 "bit" if rec.get("op", "").startswith("flip") else "k", rec.get("k"), rec.get("res"), rec.get("cls")),
                      {"verdict": v, "reproduce": "see replay(): vbc pkg-child / dora-cannon-compiler on the package with that fault",
                       "packages": [p_ for p_ in res["programs"] if p_.get("name") == rec.get("pkg")]}, key=key)
    ctx.extra["verdict_classes"] = seen
    negative_controls(ctx, events)
    ctx.assumptions += [
        "operand values >= 2^31 cannot be TLC integers: covered by the harness's own write/read round trip only (reported as beyond_tlc_domain_cases)",
        "Pad(n) stands for n LoopStart instructions; the compressed representation is tied to the flat one by PadLemma (n <= 4) and by the harness expanding every pad through the real writer",
        "program identity is the sha256 of the Debug rendering (valid packages) / a 256-bit FNV fingerprint of the canonical re-encoding (programs decoded from damaged bytes)",
        "bit flips are seeded samples plus flips targeted at bincode's varint width markers (exhaustive over one package in the thorough tier); truncation is exhaustive for one package in the thorough tier, edges + seeded sample otherwise",
        "bytes of a package built by the driver differ from the in-process one only by the recorded stdlib source paths; the laws are checked on both",
    ]


def replay(ctx, path):
    """re-run one recorded verdict: a bytecode row is replayed by `vbc replay`; a package fault is re-applied to the
    re-built package and fed to the decoder (child process) and to dora-cannon-compiler"""
    obj = json.load(open(path))
    case = obj.get("case", {})
    log("replaying: " + obj.get("message", "")[:600])
    build_harness()
    build_repo(boots=False)
    if "row" in case:
        f = os.path.join(ctx.work, "row.txt")
        open(f, "w").write(json.dumps(json.dumps(case["row"])) + "\n")
        recs = vbc(["replay", f])
        for m in recs[:-1]:
            ctx.violation("bytecode writer/reader disagrees with Bytecode.tla (%s): %s" % (m.get("what"), m.get("detail")), m, key="bytecode:%s" % m.get("what"))
        log("replayed 1 row: %d mismatch(es)" % (len(recs) - 1))
        return
    v = case.get("verdict", {})
    rec = v.get("rec", {})
    pk = (case.get("packages") or [{}])[0]
    if rec.get("op") in ("flip", "truncate", "extend", "flip-build") and pk.get("src"):
        src = os.path.join(VERIF, pk["src"])
        if pk["name"] == "gen":
            os.makedirs(os.path.dirname(src), exist_ok=True)
            m = re.search(r"gen(\d+)\.dora$", src)
            open(src, "w").write(c18_prog.gen(int(m.group(1)) if m else ctx.seed))
        pkg = os.path.join(ctx.work, "replay.dora-package")
        flags = ["--internal-compile-boots"] if pk["name"] == "boots" else []
        sh([DORA, "compile", "-c"] + flags + [os.path.relpath(src, VERIF), "-o", pkg], timeout=600, cwd=VERIF, check=True)
        kind = {"flip": "F", "flip-build": "F", "truncate": "T", "extend": "A"}[rec["op"]]
        ff = os.path.join(ctx.work, "fault.txt")
        open(ff, "w").write("%s %d\n" % (kind, rec["k"]))
        p = sh([VBC, "pkg-child", pkg, ff, "0", "1"], timeout=300, cwd=VERIF)
        out = (p.stdout or "").strip().splitlines()
        log("decoder (vbc pkg-child %s '%s %d'): rc=%s %s %s" % (pkg, kind, rec["k"], p.returncode, out[-1:] , (p.stderr or "")[-300:]))
        data = bytearray(open(pkg, "rb").read())
        if kind == "F":
            data[rec["k"] // 8] ^= 1 << (rec["k"] % 8)
        elif kind == "T":
            data = data[:rec["k"]]
        else:
            data += b"\0"
        bad = os.path.join(ctx.work, "damaged.dora-package")
        open(bad, "wb").write(bytes(data))
        q = sh([CANNON, bad, "-o", os.path.join(ctx.work, "damaged.s")], timeout=300, cwd=VERIF)
        r_, cls = classify_tool(q)
        log("dora-cannon-compiler %s: %s %s rc=%s %s" % (bad, r_, cls, q.returncode, (q.stderr or "")[:400]))
        crashed_decoder = p.returncode != 0 or (out and out[-1].split(" ")[2:3] == ["panic"])
        if rec["op"] != "flip-build" and (crashed_decoder or (rec["op"] in ("truncate", "extend") and out and " err" not in out[-1])):
            ctx.violation("reproduced: " + obj.get("message", ""), case, key=obj.get("key"))
        if rec["op"] == "flip-build" and r_ in ("panic", "abort", "hang"):
            ctx.violation("reproduced: " + obj.get("message", ""), case, key="flip-build-%s:%s" % (r_, cls))
        return
    log(json.dumps(obj, indent=1)[:4000])
