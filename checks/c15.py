"""C15 - builds are reproducible and the optimizing compiler reproduces itself.

Specs (spec/codec): Closure.tla (transitive-closure work list: push appends iff new, pop in index order =>
numbering is a function of the request order), Interner.tla (first-request interners of the string and shape
tables), Build.tla (build histories: FunctionalConsistency, Bootstrap).

1. TLC: small-scope exhaustive check of Closure and Interner (NoDuplicates, PopsInOrder, Numbering,
   FirstRequestOrder).
2. Histories: a handful of programs (generator, gen/generic_symbols.dora, test/rt files) x both code generators
   (x collectors) are built >= 4 times each - sequentially, many at once, from different working directories,
   with different output names, neighbour files, stale longer output files and TMPDIRs. sha256 of `.s`,
   `.dora-package`, executable and of the back end's event sequence go into a history (NDJSON) that TLC validates
   against Build.tla (one state per record).
3. I->S: the event file of every back-end run (hooks in closure.rs / aot.rs, DORA_VERIF_CLOSURE) is validated
   against ClosureTrace / InternerTrace (one TLC state per event); the event sequences of repeated builds of one
   request must be byte-identical (they are a `kind = events` artifact of the history).
4. thorough: bootstrap chain stage1 (baseline-built) -> stage2 -> stage3, stage2 built twice, and stage2 built by
   a differently built stage1 (baseline code generator, copy collector): all stage >= 2 executables identical.
Negative controls: swapped pops, duplicated push, wrong `next`, conflicting build records must be rejected.
"""
import hashlib, json, os, re, shutil, subprocess, sys, time
from common import *

sys.path.insert(0, VERIF)
from gen import dsem_gen  # noqa

LEVEL = "exploration"
MANIFEST = dict(
    technique='TLA+ specs Closure.tla / Interner.tla (work-list and first-request numbering, small-scope exhaustive by TLC) and Build.tla (build histories); back-end event logs of real compilations validated by TLC against the trace specs, sha256 histories of repeated builds (sequential, parallel, different working directories / output neighbours / TMPDIR) validated against Build.tla; bootstrap chain stage1->stage2->stage3 in the thorough tier',
    text='Sampled histories: every chosen program (generator, corpus) is built at least 4 times per code generator (and per collector in the thorough tier) in different environments; `.s`, `.dora-package`, executable and the back end\'s work-list / interner event sequence must be byte-identical per (input, options, compiler). The numbering mechanism named by the property is a TLA+ state machine checked exhaustively in small scope and every recorded compilation is validated against it event by event. The Build spec is deliberately trivial - the content is in the histories. Thorough: stage2 = stage3 = stage2 rebuilt = stage2 built by a differently built stage1.',
    note='Exploration only: non-determinism that does not manifest in the sampled histories is not excluded. Trusted: TLC, sha256, gcc/ld (their own determinism is part of what is observed for executables). The source path as written on the command line is part of the input (the tool chain embeds it).',
    ref='4/C15')
CODEC = os.path.join(SPEC, "codec")

# a mutant trial may point the check at a tool chain built elsewhere (no build, no /repo access)
TOOLDIR = os.environ.get("VERIF_C15_TOOLDIR") or os.path.join(REPO_TARGET, "debug")
T_DORA = os.path.join(TOOLDIR, "dora")
T_BOOTS = os.path.join(TOOLDIR, "dora-boots-compiler")
T_CANNON = os.path.join(TOOLDIR, "dora-cannon-compiler")
SRC_REPO = os.environ.get("VERIF_C15_SRC") or REPO

RT_FIXED = ["stdlib/hashmap1.dora", "trait/trait-default-body-trait-object.dora", "trait/trait-object-in-vec.dora"]
COLLECTORS = ["swiper", "copy", "sweep", "zero"]


def sha_file(p):
    h = hashlib.sha256()
    with open(p, "rb") as f:
        for b in iter(lambda: f.read(1 << 20), b""):
            h.update(b)
    return h.hexdigest()


def sha_str(*parts):
    h = hashlib.sha256()
    for x in parts:
        h.update(x if isinstance(x, bytes) else str(x).encode())
        h.update(b"\0")
    return h.hexdigest()


# ------------------------------------------------------------------------------------------------
# builds

class Req:
    """what is built: (program, kind, code generator, collector) - `key` identifies (input, options)"""

    def __init__(self, prog, kind, codegen, gc, stage=0, compiler=None, flags=()):
        self.prog = prog; self.kind = kind; self.codegen = codegen; self.gc = gc
        self.stage = stage; self.compiler = compiler; self.flags = tuple(flags)
        self.dropped = False
        self.builds = []

    @property
    def options(self):
        return "codegen=%s gc=%s flags=%s" % (self.codegen if self.kind != "pkg" else "-", self.gc if self.kind != "pkg" else "-",
                                                 ",".join(self.flags) or "-")

    def name(self):
        return "%s/%s/%s/%s" % (self.prog["name"], self.kind, self.codegen, self.gc)


class Job:
    def __init__(self, req, env_tag, cwd, outdir, outname, tmpdir=None, stale=False):
        self.req = req; self.env_tag = env_tag; self.cwd = cwd; self.outdir = outdir; self.outname = outname
        self.tmpdir = tmpdir; self.stale = stale
        self.proc = None; self.rc = None; self.err = ""; self.t0 = None; self.secs = 0
        self.events = os.path.join(outdir, outname + ".events")

    def artifact(self):
        base = os.path.join(self.outdir, self.outname)
        return {"pkg": base + ".dora-package", "s": base + ".s", "exe": base}[self.req.kind]

    def cmd(self):
        r = self.req
        c = [T_DORA, "compile"]
        c += list(r.flags)
        if r.kind == "pkg":
            c += ["-c"]
        else:
            if r.compiler:
                c += ["--compiler", r.compiler]
            elif r.codegen == "cannon":
                c += ["--cannon"]
            if r.gc != "swiper" or r.prog.get("explicit_gc"):
                c += ["--gc", r.gc]
            if r.kind == "s":
                c += ["-S"]
        out = self.artifact() if r.kind != "s" else os.path.join(self.outdir, self.outname)
        c += [r.prog["path"], "-o", out]
        return c

    def start(self):
        os.makedirs(self.outdir, exist_ok=True)
        os.makedirs(self.cwd, exist_ok=True)
        art = self.artifact()
        if self.stale:
            # an older, longer file under the output name: must be replaced, not overwritten in place
            with open(art, "wb") as f:
                f.write(b"; stale output of an earlier build\n" * 200000)
        elif os.path.exists(art):
            os.remove(art)
        if os.path.exists(self.events):
            os.remove(self.events)
        env = dict(os.environ)
        env["DORA_VERIF_CLOSURE"] = self.events
        if self.tmpdir:
            os.makedirs(self.tmpdir, exist_ok=True)
            env["TMPDIR"] = self.tmpdir
        self.t0 = time.time()
        self.errf = open(os.path.join(self.outdir, self.outname + ".stderr"), "wb")
        self.proc = subprocess.Popen(self.cmd(), cwd=self.cwd, env=env, stdout=subprocess.DEVNULL, stderr=self.errf)

    def finish(self):
        self.secs = time.time() - self.t0
        self.rc = self.proc.returncode
        self.errf.close()
        raw = open(self.errf.name, "rb").read().decode("utf8", "replace")
        self.err = "\n".join(l for l in raw.splitlines() if ("panicked" in l or "rror" in l or "failed" in l) and "ld:" not in l)[-1500:]
        os.remove(self.errf.name)


def run_jobs(jobs, width, timeout):
    """run all jobs, at most `width` at once; raises ToolError on a time-out"""
    todo = list(jobs); running = []
    while todo or running:
        while todo and len(running) < width:
            j = todo.pop(0); j.start(); running.append(j)
        time.sleep(0.02)
        for j in list(running):
            if j.proc.poll() is not None:
                j.finish(); running.remove(j)
            elif time.time() - j.t0 > timeout:
                for k in running:
                    k.proc.kill()
                raise ToolError("build timed out after %ds: %s" % (timeout, " ".join(j.cmd())))


class History:
    def __init__(self, ctx):
        self.ctx = ctx; self.records = []; self.event_files = {}  # sha -> (path, req)
        self.builder = {}

    def builder_digest(self, req):
        if req.kind == "pkg":
            paths = [T_DORA]
        elif req.compiler:
            paths = [req.compiler]
        else:
            paths = [T_CANNON if req.codegen == "cannon" else T_BOOTS]
        k = tuple(paths)
        if k not in self.builder:
            self.builder[k] = sha_str(*[sha_file(p) for p in paths])
        return self.builder[k]

    def add(self, req, kind, env_tag, output):
        rec = {"id": len(self.records) + 1, "stage": req.stage, "kind": kind, "input": req.prog["digest"],
               "options": req.options, "builder": self.builder_digest(req), "env": env_tag, "output": output,
               "req": req.name()}
        self.records.append(rec)
        return rec

    def take(self, job, keep_first=True):
        """hash the artifacts of a finished, successful job into the history"""
        req = job.req; ctx = self.ctx
        art = job.artifact()
        if not os.path.exists(art):
            raise ToolError("build reported success but %s is missing: %s" % (art, " ".join(job.cmd())))
        d = sha_file(art)
        job.digest = d
        self.add(req, req.kind, job.env_tag, d)
        ctx.add("builds")
        ctx.add("artifacts_hashed")
        ctx.add("bytes_hashed", os.path.getsize(art))
        first = req.builds[0] if req.builds else None
        job.art = art
        if req.kind == "exe" and first is not None and first.digest == d:
            os.remove(art); job.art = None           # executables are big; keep the first and every deviating one
        job.ev_digest = None
        if req.kind != "pkg":
            if not os.path.exists(job.events):
                raise ToolError("no event file written (hooks not compiled in?): " + " ".join(job.cmd()))
            job.ev_digest = sha_file(job.events)
            if job.ev_digest not in self.event_files:
                # one back-end process per build: exactly one work list starts (push with len 0 as first record, one pop idx 0)
                txt = open(job.events).read()
                starts = txt.count('"ev":"pop","key":') and len(re.findall(r'"ev":"pop","key":\d+,"idx":0}', txt))
                if starts != 1 or not re.match(r'\{"ev":"push","key":\d+,"fct":\d+,"known":false,"len":0}', txt):
                    raise ToolError("event file %s was not written by exactly one back-end run (%s work-list starts)" % (job.events, starts))
            self.add(req, "events", job.env_tag, job.ev_digest)
            ctx.add("event_files")
            if job.ev_digest in self.event_files:
                os.remove(job.events)
            else:
                self.event_files[job.ev_digest] = (job.events, req)
        req.builds.append(job)


# ------------------------------------------------------------------------------------------------
# programs

def write_prog(ctx, name, text):
    d = os.path.join(ctx.work, "src")
    os.makedirs(d, exist_ok=True)
    p = os.path.join(d, name + ".dora")
    open(p, "w").write(text)
    return {"name": name, "path": p, "digest": sha_str(text, p), "bytes": len(text)}


def compiles(path, work):
    out = os.path.join(work, "probe.dora-package")
    p = sh([T_DORA, "compile", "-c", path, "-o", out], timeout=120, cwd=work)
    if getattr(p, "timed_out", False):
        raise ToolError("front end timed out on " + path)
    return p.returncode == 0


def choose_programs(ctx):
    progs = []
    ngen, ncases, nrand = (2, 6, 1) if ctx.quick else (3, 12, 3)
    s = ctx.seed * 7919
    tries = 0
    while sum(1 for p in progs if p["name"].startswith("gen")) < ngen and tries < 40:
        tries += 1; s += 1
        src, _ = dsem_gen.generate(s, ncases)
        p = write_prog(ctx, "gen%d" % s, src)
        if compiles(p["path"], ctx.work):
            progs.append(p)
        else:
            ctx.add("generated_programs_rejected_by_front_end")
            os.remove(p["path"])
    progs.append(write_prog(ctx, "generic_symbols", open(os.path.join(VERIF, "gen", "generic_symbols.dora")).read()))
    rt = os.path.join(SRC_REPO, "test", "rt")
    fixed = RT_FIXED[:2] if ctx.quick else RT_FIXED
    cand = []
    for d, dn, fn in sorted(os.walk(rt)):
        dn.sort()
        for f in sorted(fn):
            if f.endswith(".dora"):
                rel = os.path.relpath(os.path.join(d, f), rt)
                txt = open(os.path.join(d, f), errors="replace").read()
                if "//= " not in txt and "fn main" in txt and rel not in fixed and not rel.startswith(("bench", "gc/")):
                    cand.append(rel)
    r = rng(ctx.seed, "c15-rt")
    r.shuffle(cand)
    picked = list(fixed)
    for rel in cand:
        if len(picked) >= len(fixed) + nrand:
            break
        picked.append(rel)
    for rel in picked:
        p = write_prog(ctx, "rt_" + re.sub(r"[^A-Za-z0-9]+", "_", rel[:-5]), open(os.path.join(rt, rel), errors="replace").read())
        if compiles(p["path"], ctx.work):
            progs.append(p)
        else:
            ctx.add("corpus_programs_rejected_by_front_end")
    return progs


# ------------------------------------------------------------------------------------------------
# comparing

def classify_diff(kind, a, b):
    """what differs between two artifacts that should be identical (used in the violation key)"""
    try:
        if kind in ("s", "events"):
            la = open(a, errors="replace").read().splitlines(); lb = open(b, errors="replace").read().splitlines()
            if sorted(la) == sorted(lb):
                return "order", first_diff(la, lb)
            if len(la) != len(lb):
                return "length", first_diff(la, lb)
            i, x, y = first_diff(la, lb)
            tok = (x.split() or ["?"])[0]
            tok = "label" if tok.endswith(":") else re.sub(r"[^A-Za-z.]", "", tok) or "text"
            return "content-" + tok, (i, x, y)
        ba = open(a, "rb").read(); bb = open(b, "rb").read()
        if len(ba) != len(bb):
            return "size", (len(ba), len(bb), "")
        n = sum(1 for i in range(0, len(ba), 4096) if ba[i:i + 4096] != bb[i:i + 4096])
        off = next(i for i in range(len(ba)) if ba[i] != bb[i])
        return "bytes", (off, "%d differing 4k blocks" % n, "")
    except Exception as e:  # noqa
        return "unknown", (0, str(e), "")


def first_diff(la, lb):
    for i, (x, y) in enumerate(zip(la, lb)):
        if x != y:
            return (i + 1, x[:200], y[:200])
    return (min(len(la), len(lb)) + 1, "<end>" if len(la) <= len(lb) else la[len(lb)][:200],
            "<end>" if len(lb) <= len(la) else lb[len(la)][:200])


def compare_requests(ctx, hist, reqs):
    """python side of FunctionalConsistency: names the deviating request and what differs"""
    bad = 0
    for r in reqs:
        if r.dropped or not r.builds:
            continue
        for kind, get, path in ((r.kind, lambda j: j.digest, lambda j: j.art),
                                ("events", lambda j: j.ev_digest, lambda j: hist.event_files.get(j.ev_digest, (None,))[0])):
            ds = {}
            for j in r.builds:
                if get(j) is not None:
                    ds.setdefault(get(j), []).append(j)
            ctx.add("requests_compared")
            ctx.extra["max_distinct_digests_per_request"] = max(ctx.extra.get("max_distinct_digests_per_request", 0), len(ds))
            if len(ds) > 1:
                bad += 1
                groups = sorted(ds.values(), key=lambda g: -len(g))
                a, b = groups[0][0], groups[1][0]
                cls, detail = ("unknown", None)
                if path(a) and path(b) and os.path.exists(path(a)) and os.path.exists(path(b)):
                    cls, detail = classify_diff(kind, path(a), path(b))
                key = "nondet:%s:%s:%s" % (kind, r.codegen if kind != "pkg" else "frontend", cls)
                ctx.violation(
                    "same input, same options, different %s: %s gives %d distinct outputs in %d builds (%s); first difference: %s"
                    % (kind, r.name(), len(ds), len(r.builds), ", ".join("%s x%d [%s]" % (d[:12], len(g), g[0].env_tag) for d, g in ds.items()), detail),
                    {"program": open(r.prog["path"]).read(), "kind": r.kind, "codegen": r.codegen, "gc": r.gc, "stage": r.stage,
                     "flags": list(r.flags), "compared": kind, "digests": {d: [j.env_tag for j in g] for d, g in ds.items()},
                     "difference": detail, "commands": [" ".join(a.cmd()), " ".join(b.cmd())]},
                    key=key)
    return bad


# ------------------------------------------------------------------------------------------------
# TLC: event validation

def convert_events(paths, outc, outi):
    """split into closure / interner records, re-number the 52-bit keys injectively to small integers per compilation,
    bracket every compilation with reset / end. Returns per-trace (first record, last record) ranges and counts."""
    spans_c = []; spans_i = []; nc = ni = 0
    with open(outc, "w") as fc, open(outi, "w") as fi:
        lc = li = 0
        for p in paths:
            m = {}
            fc.write('{"ev":"reset"}\n'); fi.write('{"ev":"reset"}\n'); lc += 1; li += 1
            sc, si = lc, li
            for line in open(p):
                e = json.loads(line)
                space = ("fn" if e["ev"] in ("push", "pop") else e["ev"], e.get("table"))
                kk = (space, e["key"])
                if kk not in m:
                    m[kk] = len(m) + 1
                e["key"] = m[kk]
                e.pop("fct", None)
                if e["ev"] == "intern":
                    fi.write(json.dumps(e) + "\n"); li += 1; ni += 1
                else:
                    fc.write(json.dumps(e) + "\n"); lc += 1; nc += 1
            fc.write('{"ev":"end"}\n'); fi.write('{"ev":"end"}\n'); lc += 1; li += 1
            spans_c.append((sc, lc)); spans_i.append((si, li))
    return spans_c, spans_i, nc, ni


def tlc_pool(tasks, width=4):
    """tasks: [(name, dict of tlc() arguments)] - small single-worker runs side by side (TLC start-up dominates them).
    Returns {name: TlcResult}."""
    from concurrent.futures import ThreadPoolExecutor

    def one(it):
        i, (name, kw) = it
        time.sleep(0.15 * (i % width))       # tlc() names its scratch directory by the millisecond
        return name, tlc(kw.pop("module"), cwd=CODEC, workers=kw.pop("workers", 1), heap="4g", **kw)
    with ThreadPoolExecutor(max_workers=width) as ex:
        return dict(ex.map(one, list(enumerate(tasks))))


def trace_task(module, cfg, trace, timeout):
    return dict(module=module, cfg=cfg, timeout=timeout, env={"TRACE": trace})


def trace_result(r, trace):
    if r.timed_out:
        raise ToolError("TLC timed out validating " + trace)
    if not r.ok and r.violation is None:
        raise ToolError("TLC failed on %s:\n%s" % (trace, r.out[-2500:]))
    return r


def rejected_at(r):
    m = re.search(r'REJECTED at record",\s*(\d+)', r.out)
    return int(m.group(1)) if m else None


def validate_events(ctx, hist, timeout):
    """every distinct event-file content is validated; identical files are the same trace"""
    items = sorted(hist.event_files.items(), key=lambda kv: kv[1][0])
    small, big = [], []
    for d, (path, req) in items:
        n = sum(1 for _ in open(path))
        # short traces (at most 6 of them) are validated with the request history kept: Numbering / FirstRequestOrder
        # and the quadratic forms of the invariants are then checked on real runs too
        (small if n <= 300 and len(small) < 6 else big).append((d, path, req, n))
    results = {}
    plan = []
    for label, group, ccfg, icfg in (("with-history", small, "ClosureTraceH.cfg", "InternerTraceH.cfg"),
                                     ("plain", big, "ClosureTrace.cfg", "InternerTrace.cfg")):
        if not group:
            continue
        fc = os.path.join(ctx.work, "events_%s_closure.ndjson" % label)
        fi = os.path.join(ctx.work, "events_%s_interner.ndjson" % label)
        spans_c, spans_i, nc, ni = convert_events([g[1] for g in group], fc, fi)
        plan += [(group, "ClosureTrace", ccfg, fc, spans_c, nc), (group, "InternerTrace", icfg, fi, spans_i, ni)]
    done = tlc_pool([("%s|%s" % (m, c), trace_task(m, c, f, timeout)) for _, m, c, f, _, _ in plan], width=4)
    if True:
        for group, module, cfg, f, spans, n in plan:
            r = trace_result(done["%s|%s" % (module, cfg)], f)
            ctx.tlc_stats(r, "%s %s: %d compilations, %d events" % (module, cfg, len(group), n))
            log(f"TLC {module} {cfg}: {len(group)} compilations, {n} events, {r.distinct} states, {r.seconds:.0f}s, ok={r.ok}")
            if r.ok:
                ctx.add("events_validated", n)
                for g in group:
                    results.setdefault(g[0], []).append(True)
            else:
                at = rejected_at(r)
                lines = open(f).read().splitlines()
                who = None
                if at is not None:
                    for g, (a, b) in zip(group, spans):
                        if a <= at <= b:
                            who = g
                if who is None:
                    raise ToolError("TLC rejected %s for an unidentified reason: %s\n%s" % (f, r.violation, r.out[-2000:]))
                d, path, req, _ = who
                detail = "%s (%s) rejects the event sequence of %s at event %s: %s (previous: %s); %s" % (
                    module, cfg, req.name(), at, lines[at - 1] if at and at <= len(lines) else "?",
                    lines[at - 2] if at and at >= 2 else "-", r.violation)
                results.setdefault(d, []).append(False)
                agree = all(len({j.digest for j in q.builds}) <= 1 and len({j.ev_digest for j in q.builds}) <= 1
                            for q in [req])
                if agree:
                    # the discipline of the faithful spec is not followed, but the outputs are reproducible
                    ctx.model_drift(module, detail)
                else:
                    ctx.violation(detail, {"program": open(req.prog["path"]).read(), "kind": req.kind, "codegen": req.codegen,
                                           "gc": req.gc, "events": open(path).read()[:100000]},
                                  key="events-rejected:%s:%s" % (req.codegen, module))
    nfiles = ctx.cov.get("event_files", 0)
    okd = {d for d, v in results.items() if all(v)}
    n_ok = sum(1 for rq in hist.all_reqs for j in rq.builds if j.ev_digest in okd)
    ctx.add("traces_validated_against_impl", n_ok)
    ctx.extra["event_files"] = {"written": nfiles, "distinct_contents_validated_by_TLC": len(results),
                                "accepted": len(okd)}
    return results


def negative_controls(ctx, hist, results):
    """the trace specs and Build must reject corrupted inputs, otherwise acceptance means nothing"""
    # smallest recorded compilation that the trace specs accepted
    cands = sorted(((sum(1 for _ in open(p)), p) for d, (p, rq) in hist.event_files.items() if results.get(d) and all(results[d])))
    if not cands:
        ctx.extra["negative_controls"] = "skipped: no accepted event file to corrupt"
        return []
    path = cands[0][1]
    raw = [json.loads(l) for l in open(path)]
    res = []

    def write(name, evs):
        p = os.path.join(ctx.work, "neg_%s.events" % name)
        with open(p, "w") as f:
            for e in evs:
                f.write(json.dumps(e) + "\n")
        return p

    tasks = []

    def run(name, evs, module, cfg, which):
        p = write(name, evs)
        fc = os.path.join(ctx.work, "neg_%s_c.ndjson" % name); fi = os.path.join(ctx.work, "neg_%s_i.ndjson" % name)
        convert_events([p], fc, fi)
        f = fc if which == "c" else fi
        tasks.append((name, module, f, trace_task(module, cfg, f, 300)))

    run("unchanged", raw, "ClosureTrace", "ClosureTrace.cfg", "c")
    run("unchanged_interner", raw, "InternerTrace", "InternerTrace.cfg", "i")
    pops = [i for i, e in enumerate(raw) if e["ev"] == "pop"]
    # two pops (not necessarily adjacent in the file) exchanged: pops out of index order
    i, j = pops[len(pops) // 2 - 1], pops[len(pops) // 2]
    sw = list(raw); sw[i], sw[j] = raw[j], raw[i]
    run("swap_pops", sw, "ClosureTrace", "ClosureTrace.cfg", "c")
    # same, but with the idx fields left in place: only the keys are exchanged (the order of the functions)
    sk = [dict(e) for e in raw]; sk[i]["key"], sk[j]["key"] = raw[j]["key"], raw[i]["key"]
    run("swap_pop_keys", sk, "ClosureTrace", "ClosureTrace.cfg", "c")
    # a push of an already visited key logged as new (would enter the work list twice)
    k = next(i for i, e in enumerate(raw) if e["ev"] == "push" and not e["known"])
    dup = raw[:k + 1] + [dict(raw[k], len=raw[k]["len"] + 1)] + raw[k + 1:]
    run("dup_push_known_false", dup, "ClosureTrace", "ClosureTrace.cfg", "c")
    # a dropped pop: the closure is left incomplete
    run("drop_last_pop", raw[:pops[-1]] + raw[pops[-1] + 1:], "ClosureTrace", "ClosureTrace.cfg", "c")
    ints = [i for i, e in enumerate(raw) if e["ev"] == "intern"]
    if ints:
        m = ints[len(ints) // 2]
        bad = [dict(e) for e in raw]; bad[m]["next"] += 1
        run("intern_wrong_next", bad, "InternerTrace", "InternerTrace.cfg", "i")
        kn = next((i for i in ints if raw[i]["known"]), None)
        if kn is not None:
            bad = [dict(e) for e in raw]; bad[kn]["known"] = False
            run("intern_known_flipped", bad, "InternerTrace", "InternerTrace.cfg", "i")
    # Build
    base, seen = [], set()
    for r in hist.records:          # one record per request: a consistent history whatever the tool chain did
        k = (r["stage"], r["kind"], r["input"], r["options"], r["builder"])
        if k not in seen and len(base) < 40 and r["stage"] < 2:
            seen.add(k); base.append(r)
    x = dict(base[0]); x["id"] = 100000; x["env"] = "negative-control"; x["output"] = "0" * 64
    for name, recs, inv in (("build_same_input_other_output", base + [x], "FunctionalConsistency"),
                            ("build_stage2_ne_stage3", base + [
                                {"id": 100001, "stage": 2, "kind": "exe", "input": "i", "options": "o", "builder": "stage1", "env": "e", "output": "aa", "req": "nc"},
                                {"id": 100002, "stage": 3, "kind": "exe", "input": "i", "options": "o", "builder": "stage2", "env": "e", "output": "bb", "req": "nc"}],
                             "Bootstrap")):
        p = os.path.join(ctx.work, "neg_%s.ndjson" % name)
        with open(p, "w") as f:
            for rr in recs:
                f.write(json.dumps(rr) + "\n")
        tasks.append((name, "Build:" + inv, p, dict(module="Build", cfg="Build.cfg", timeout=300, env={"HISTORY": p})))
    done = tlc_pool([(t[0], t[3]) for t in tasks], width=5)
    for name, module, f, _ in tasks:
        r = done[name]
        if r.timed_out:
            raise ToolError("TLC timed out on negative control " + name)
        if module.startswith("Build:"):
            res.append({"control": name, "spec": "Build", "rejected": (not r.ok) and module[6:] in (r.violation or ""), "how": r.violation})
        else:
            # a rejection is the spec refusing a record (or an invariant failing), not some other TLC error
            rej = (not r.ok) and (rejected_at(r) is not None or "Invariant" in (r.violation or ""))
            res.append({"control": name, "spec": module, "rejected": rej, "how": r.violation, "at_record": rejected_at(r)})
    ctx.extra["negative_controls"] = res
    for x in res:
        if x["control"].startswith("unchanged"):
            if not done[x["control"]].ok:
                raise ToolError("the unchanged control trace is not accepted: %s" % x)
            continue
        if not x["rejected"]:
            raise ToolError("negative control %s was accepted by %s (%s): the spec binding is vacuous" % (x["control"], x["spec"], x["how"]))
    ctx.add("negative_controls_rejected", sum(1 for x in res if x["rejected"]))
    ctx.add("positive_controls_accepted", sum(1 for x in res if x["control"].startswith("unchanged")))
    return res


def validate_history(ctx, hist, pybad):
    p = os.path.join(ctx.work, "history.ndjson")
    with open(p, "w") as f:
        for r in hist.records:
            f.write(json.dumps(r) + "\n")
    r = tlc("Build", cfg="Build.cfg", cwd=CODEC, workers=1, timeout=900, env={"HISTORY": p}, heap="4g")
    if r.timed_out:
        raise ToolError("TLC timed out on the build history")
    ctx.tlc_stats(r, "Build history: %d records" % len(hist.records))
    log(f"TLC Build: {len(hist.records)} records, {r.distinct} states, {r.seconds:.0f}s, ok={r.ok} {r.violation or ''}")
    if r.ok:
        if pybad:
            raise ToolError("python found %d inconsistent requests but Build.tla accepted the history" % pybad)
        ctx.add("history_records_validated", len(hist.records))
    else:
        if not (r.violation and ("FunctionalConsistency" in r.violation or "Bootstrap" in r.violation)):
            raise ToolError("TLC failed on the build history: %s\n%s" % (r.violation, r.out[-2500:]))
        if not pybad:
            # TLC sees something the per-request comparison did not (e.g. across bootstrap stages)
            ctx.violation("build history violates %s" % r.violation, {"history": hist.records[:400], "tlc": r.out[-3000:]},
                          key="history:" + ("bootstrap" if "Bootstrap" in r.violation else "functional"))
    return r


# ------------------------------------------------------------------------------------------------

def neighbours(d, k):
    os.makedirs(d, exist_ok=True)
    for i in range(k):
        for name in ("out", "a%d.s" % i, "zz%d.dora-package" % i, ".hidden%d" % i, "Z%d.o" % i):
            with open(os.path.join(d, name), "w") as f:
                f.write("neighbour %d\n" % i * (i + 1))


def plan_rounds(ctx, reqs, links):
    """environment rounds; every request appears in each of them"""
    w = ctx.work
    rounds = []
    # A: one after the other, one working directory, one output directory
    rounds.append(("sequential", 1, [Job(r, "seq|cwd=A|out=shared|tmp=default", os.path.join(w, "cwdA"), os.path.join(w, "outA"), "p%d" % i)
                                     for i, r in enumerate(reqs)]))
    # B: everything at once (twice), own working directory each, neighbours, own TMPDIR, other output names
    jobs = []
    for rep in range(2):
        for i, r in enumerate(reqs):
            d = os.path.join(w, "outB", "%d_%d" % (rep, i))
            neighbours(d, 1 + (i + rep) % 3)
            jobs.append(Job(r, "par%d|cwd=own|out=neighbours|tmp=own|rep=%d" % (NCPU, rep), os.path.join(w, "cwdB", "%d_%d" % (rep, i)), d,
                            "build_%s_%d" % ("xyz"[rep], i * 7 + rep), tmpdir=os.path.join(w, "tmpB", "%d_%d" % (rep, i))))
    r = rng(ctx.seed, "c15-order")
    r.shuffle(jobs)
    rounds.append(("parallel", NCPU, jobs))
    # C: from the file system root, four at a time, over a stale longer output file
    rounds.append(("root-cwd", 4, [Job(r, "par4|cwd=/|out=stale-longer-file|tmp=default", "/", os.path.join(w, "outC", "deep", "er"), "o%d" % i, stale=True)
                                   for i, r in enumerate(reqs)]))
    return rounds


def execute(ctx, hist, rounds, timeout):
    for name, width, jobs in rounds:
        jobs = [j for j in jobs if not j.req.dropped]
        t0 = time.time()
        run_jobs(jobs, width, timeout)
        retry = []
        for j in jobs:
            if j.rc == 0:
                hist.take(j)
            elif not j.req.builds and name == "sequential":
                j.req.dropped = True
                ctx.add("requests_dropped_compile_error")
                ctx.extra.setdefault("dropped", []).append({"request": j.req.name(), "rc": j.rc, "stderr": j.err[-300:]})
            elif not j.req.dropped:
                retry.append(j)
        for j in retry:           # a failure after a success: once more, alone
            ctx.add("retries_after_failure")
            run_jobs([j], 1, timeout)
            if j.rc == 0:
                hist.take(j)
            else:
                ctx.violation("the build of %s succeeded in one environment and fails (rc=%s) in another (%s): %s"
                              % (j.req.name(), j.rc, j.env_tag, j.err[-400:]),
                              {"program": open(j.req.prog["path"]).read(), "command": " ".join(j.cmd()), "stderr": j.err},
                              key="flaky-failure:%s:%s" % (j.req.kind, j.req.codegen))
        log(f"round {name}: {len(jobs)} builds, width {width}, {time.time() - t0:.0f}s")
        ctx.extra.setdefault("rounds", []).append({"round": name, "builds": len(jobs), "width": width, "seconds": round(time.time() - t0, 1)})


def bootstrap(ctx, hist):
    """stage1 (baseline-built) -> stage2 -> stage3; stage2 twice; stage2 by a differently built stage1"""
    w = os.path.join(ctx.work, "bootstrap")
    os.makedirs(w, exist_ok=True)
    boots_src = os.path.join(SRC_REPO, "pkgs", "boots", "boots.dora")
    flags = ("--internal-compile-boots",)
    src_digest = tree_hash([os.path.join(SRC_REPO, "pkgs", "boots"), os.path.join(SRC_REPO, "pkgs", "std")])
    prog_src = {"name": "boots-src", "path": boots_src, "digest": sha_str(src_digest, boots_src), "explicit_gc": False}
    reqs = []
    rp = Req(prog_src, "pkg", "-", "-", flags=flags)
    reqs.append(rp)
    t0 = time.time()
    jobs = [Job(rp, "par2|cwd=own|n=%d" % i, os.path.join(w, "cwdp%d" % i), os.path.join(w, "pkg%d" % i), "boots%d" % i) for i in range(2)]
    run_jobs(jobs, 2, 600)
    for j in jobs:
        if j.rc != 0:
            raise ToolError("boots package build failed: " + j.err)
        hist.take(j)
    pkg = jobs[0].artifact()
    prog = {"name": "boots-pkg", "path": pkg, "digest": sha_str(jobs[0].digest, pkg), "explicit_gc": False}

    def stage(n, codegen, gc, compiler, tag, name, tmp=None, stale=False, same_as=None):
        rq = same_as.req if same_as else Req(prog, "exe", codegen, gc, stage=n, compiler=compiler, flags=flags)
        if not same_as:
            reqs.append(rq)
        return Job(rq, tag, os.path.join(w, "cwd_" + name), os.path.join(w, "out_" + name), name, tmpdir=tmp, stale=stale)

    def must(jobs, width):
        run_jobs(jobs, width, 1500)
        for j in jobs:
            if j.rc != 0:
                raise ToolError("bootstrap build failed (%s): %s" % (" ".join(j.cmd()), j.err))
            hist.take(j)
            log(f"bootstrap {j.outname}: {j.secs:.0f}s sha256={j.digest[:16]}")

    s1 = stage(1, "cannon", "swiper", None, "seq|stage1", "stage1")
    s1x = stage(1, "cannon", "copy", None, "par|stage1-copy-collector", "stage1x", tmp=os.path.join(w, "tmp1x"))
    must([s1, s1x], 2)
    s2 = stage(2, "boots", "swiper", s1.artifact(), "seq|by=stage1", "stage2")
    must([s2], 1)
    s3 = stage(3, "boots", "swiper", s2.artifact(), "par3|by=stage2", "stage3-other-name")
    s2b = stage(2, "boots", "swiper", s1.artifact(), "par3|by=stage1|again|tmp=own|stale", "stage2_again", tmp=os.path.join(w, "tmp2b"), stale=True, same_as=s2)
    s2x = stage(2, "boots", "swiper", s1x.artifact(), "par3|by=stage1x", "s2x", tmp=os.path.join(w, "tmp2x"))
    # (builds of one (stage, builder) share a Req so that compare_requests sees them together)
    must([s3, s2b, s2x], 3)
    allst = [s2, s3, s2b, s2x]
    ds = {j.digest for j in allst}
    ctx.extra["bootstrap"] = {"seconds": round(time.time() - t0, 1),
                              "stage1": s1.digest, "stage1_copy_collector": s1x.digest,
                              "stage1_equals_installed_boots_compiler": s1.digest == sha_file(T_BOOTS),
                              "stage2": s2.digest, "stage3": s3.digest, "stage2_again": s2b.digest, "stage2_by_stage1x": s2x.digest,
                              "event_sequences_stage_ge_2": len({j.ev_digest for j in allst})}
    ctx.add("bootstrap_stage_builds", 6)
    ctx.sample({"bootstrap": {"stage2": s2.digest[:16], "stage3": s3.digest[:16], "stage2_again": s2b.digest[:16],
                              "stage2_by_copy_collector_stage1": s2x.digest[:16]}})
    if len(ds) > 1:
        # find out where: assembly of the deviating pair
        a = s2
        b = next(j for j in allst if j.digest != a.digest)
        diag = []
        for j in (a, b):
            rq = Req(prog, "s", "boots", "swiper", stage=j.req.stage, compiler=j.req.compiler, flags=flags)
            jj = Job(rq, "diag", w, os.path.join(w, "diag"), "diag_" + j.outname)
            diag.append(jj)
        run_jobs(diag, 2, 1500)
        cls, detail = ("exe-only", None)
        if all(j.rc == 0 for j in diag) and sha_file(diag[0].artifact()) != sha_file(diag[1].artifact()):
            cls, detail = classify_diff("s", diag[0].artifact(), diag[1].artifact())
        what = "stage2-vs-stage3" if b is s3 else ("stage2-rebuilt" if b is s2b else "stage2-by-other-stage1")
        ctx.violation("bootstrap: %s differs from stage2 (%s vs %s), class %s, first difference %s"
                      % (b.outname, b.digest[:16], a.digest[:16], cls, detail),
                      {"stages": ctx.extra["bootstrap"], "commands": [" ".join(j.cmd()) for j in (s1, s1x, s2, s3, s2b, s2x)],
                       "difference": detail}, key="bootstrap:%s:%s" % (what, cls))
        return reqs, True
    return reqs, False


def run(ctx):
    if not os.environ.get("VERIF_C15_TOOLDIR"):
        build_repo(boots=True)
    for p in (T_DORA, T_BOOTS, T_CANNON):
        if not os.path.exists(p):
            raise ToolError("tool chain binary missing: " + p)

    # 1. design level: the numbering mechanism, small scope exhaustive
    mc = tlc_pool([(m, dict(module=m, cfg=c, workers=4, timeout=600)) for m, c in (("Closure", "ClosureMC.cfg"), ("Interner", "InternerMC.cfg"))], width=2)
    for module, cfg in (("Closure", "ClosureMC.cfg"), ("Interner", "InternerMC.cfg")):
        r = mc[module]
        tlc_must_pass(r, f"{module} {cfg}")
        ctx.tlc_stats(r, f"{module} small scope ({cfg})")
        log(f"TLC {module} {cfg}: {r.distinct} distinct states, {r.seconds:.0f}s")

    # 2. histories
    progs = choose_programs(ctx)
    if os.environ.get("VERIF_C15_PART") == "bootstrap":     # development aid for mutant trials: a minimal history + the bootstrap
        progs = [p for p in progs if p["name"] == "generic_symbols"]
    ctx.extra["programs"] = [{"name": p["name"], "bytes": p["bytes"]} for p in progs]
    reqs = []
    link_progs = [p["name"] for p in progs if p["name"].startswith("gen")][:1] + ["generic_symbols"]
    if not ctx.quick:
        link_progs += [p["name"] for p in progs if p["name"].startswith("rt_")][:2]
    for i, p in enumerate(progs):
        reqs.append(Req(p, "pkg", "-", "-"))
        for cg in ("cannon", "boots"):
            gcs = COLLECTORS if not ctx.quick else (["swiper", COLLECTORS[1 + (i + ctx.seed) % 3]] if i % 2 == 0 else ["swiper"])
            for gc in gcs:
                reqs.append(Req(p, "s", cg, gc))
            # quick: one executable per code generator is linked (the link step does not depend on the generator)
            if p["name"] in link_progs and (not ctx.quick or (cg == "cannon") == p["name"].startswith("gen")):
                reqs.append(Req(p, "exe", cg, "swiper"))
    hist = History(ctx)
    hist.all_reqs = reqs
    t0 = time.time()
    execute(ctx, hist, plan_rounds(ctx, reqs, link_progs), 600)
    ctx.extra["build_seconds"] = round(time.time() - t0, 1)
    live = [r for r in reqs if not r.dropped]
    if len(live) < len(reqs) * 0.6:
        raise ToolError("too many requests could not be built at all: %s" % ctx.extra.get("dropped"))
    for r in live:
        if len(r.builds) < 3 and not ctx.violations:
            raise ToolError("request %s was built only %d times" % (r.name(), len(r.builds)))

    boot_bad = False
    if not ctx.quick:
        breqs, boot_bad = bootstrap(ctx, hist)
        reqs += breqs
        hist.all_reqs = reqs

    pybad = compare_requests(ctx, hist, reqs)
    validate_history(ctx, hist, pybad + (1 if boot_bad else 0))
    results = validate_events(ctx, hist, 900 if ctx.quick else 2400)
    negative_controls(ctx, hist, results)

    per = {}
    for r in hist.records:
        per.setdefault((r["stage"], r["kind"], r["input"], r["options"], r["builder"]), set()).add(r["output"])
    ctx.cov["evaluations"] = ctx.cov.get("builds", 0)
    ctx.cov["distinct_nontrivial"] = len(per)
    ctx.cov["rule"] = ("a (program, artifact kind, code generator, collector) request counts once; every request is built "
                       ">= 4 times in different environments and all digests of a request must coincide")
    ctx.extra["distinct_digests_per_request"] = {"requests": len(per), "max": max(len(v) for v in per.values()),
                                                 "requests_with_more_than_one": sum(1 for v in per.values() if len(v) > 1)}
    ex = next((r for r in live if r.kind == "s" and r.builds), None)
    if ex:
        ctx.sample({"request": ex.name(), "builds": [{"env": j.env_tag, "sha256": j.digest[:16], "events_sha256": j.ev_digest[:16]} for j in ex.builds]})
    ctx.assumptions += [
        "the source path as written on the command line is part of the input (it is embedded in the string table)",
        "hash-map seeds differ between processes by themselves (std RandomState); they are not forced",
        "identical event files are validated once (TLC is a function of the file content)",
        "gcc/as/ld are deterministic for identical inputs apart from the temporary object name, which -Wl,-x removes",
    ]


def replay(ctx, path):
    """rebuild the recorded request several times in different environments and compare"""
    case = json.load(open(path))["case"]
    if "program" not in case:
        log(json.dumps(case)[:4000])
        return
    if not os.environ.get("VERIF_C15_TOOLDIR"):
        build_repo(boots=True)
    p = write_prog(ctx, "replay", case["program"])
    req = Req(p, case.get("kind", "s"), case.get("codegen", "cannon"), case.get("gc", "swiper"), flags=case.get("flags", ()))
    hist = History(ctx)
    hist.all_reqs = [req]
    rounds = plan_rounds(ctx, [req] * 1, [])
    rounds = [(n, wd, js * (1 if n != "parallel" else 4)) for n, wd, js in rounds]
    # distinct Job objects for the repeated parallel builds
    fixed = []
    for n, wd, js in rounds:
        out = []
        for k, j in enumerate(js):
            out.append(Job(req, j.env_tag + "|k=%d" % k, j.cwd + str(k), j.outdir + str(k), j.outname, tmpdir=j.tmpdir, stale=j.stale))
        fixed.append((n, wd, out))
    execute(ctx, hist, fixed, 900)
    compare_requests(ctx, hist, [req])
    log("digests: " + json.dumps([{"env": j.env_tag, "sha256": j.digest[:16], "events": (j.ev_digest or "")[:16]} for j in req.builds], indent=1))
