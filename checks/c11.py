"""C11 - match exhaustiveness and reachability are decided exactly.

spec/lang/Match.tla decides, by brute force over small finite types, Exhaustive / Unreachable / UselessAlt /
FirstMatch for every pattern matrix up to a bound (TLC: one state per (type, matrix)); every matrix is rendered as
a Dora `match` and (a) the real checker's diagnostics (NON_EXHAUSTIVE_MATCH, USELESS_PATTERN by span) are compared
with the verdict, in function bodies, lambdas, global initialisers and 36 further expression / declaration contexts
(assignment and compound-assignment right-hand sides, let initialisers, return operands, call / constructor / index
arguments, operands, conditions, branches, loop bodies, nested matches, string templates, impl / trait / module functions); (b) accepted matrices are compiled with both
code generators and called on every value x guard valuation - the arm chosen at run time must be FirstMatch.
"""
import json, os, random, re, sys
from common import *
import progs
from checks.c20 import harness_json
sys.path.insert(0, os.path.join(VERIF, "gen"))
import match_render as mr

LEVEL = "model_checking"
MANIFEST = dict(
    technique="TLA+ spec Match.tla (brute-force pattern semantics) enumerated by TLC, one state per pattern matrix; verdict rows "
              "replayed into the real checker (diagnostics by span) and into compiled code (arm chosen per value and guard valuation)",
    text="Small-scope exhaustive: all matrices with <= 2 rows (quick) / <= 3 rows (thorough) over six scrutinee types (Bool, plain "
         "enum, Option, tuple, enum with payloads, Int32 literals) with nesting depth 2, plus top-level alternatives; for each the "
         "spec's verdict must equal the checker's diagnostics exactly (both directions), in function, lambda and global-initialiser "
         "position and, sampled, in every other expression / declaration context a match can stand in; accepted matrices run on every value x guard valuation with both back ends.",
    note="Trusted: TLC; the rendering of patterns to Dora syntax; Int32 abstracted to {0, 1, other}; bindings are rendered as "
         "wildcards or fresh identifiers (same semantics).",
    ref="4/C11")
LANG = os.path.join(SPEC, "lang")
NONEXH = "`match` does not cover all possible values"
USELESS = "unreachable pattern."


def locate(meta, start):
    """(matrix index, arm number 1-based, alt number or 0) for a diagnostic starting at byte offset `start`"""
    import bisect
    firsts = [m["first"] for m in meta]
    k = bisect.bisect_right(firsts, start) - 1
    if k < 0 or start >= meta[k]["last"]:
        return None
    m = meta[k]
    for i, arm in enumerate(m["arms"]):
        ps, pe = arm["pat"]
        if ps <= start < pe:
            for j, (a0, a1) in enumerate(arm["alts"]):
                if a0 <= start < a1:
                    return k, i + 1, j
            return k, i + 1, -1
    return k, 0, 0


def diag_half(ctx, rows, position, tag):
    src, meta = mr.render_diag(rows, position)
    path = os.path.join(ctx.work, f"diag_{tag}.dora")
    open(path, "w").write(src)
    lst = os.path.join(ctx.work, f"diag_{tag}.txt")
    open(lst, "w").write(path + "\n")
    recs = harness_json([VH, "sema", lst], timeout=1800)
    rec = recs[0]
    if "panic" in rec:
        ctx.violation(f"the checker panicked on the matrix batch ({position}): {rec['panic'][:300]}", {"source_file": path}, key="checker-panic")
        return
    got_nonexh = set()
    got_useless = {}
    other = []
    for e in rec["errors"] + rec["warnings"]:
        d = e["desc"]
        loc = locate(meta, e["start"])
        if d.startswith(NONEXH):
            if loc: got_nonexh.add(loc[0])
        elif d.startswith(USELESS):
            if loc:
                k, i, j = loc
                arm = meta[k]["arms"][i - 1]
                whole = e["len"] >= arm["pat"][1] - arm["pat"][0] and len(arm["alts"]) > 1
                if len(arm["alts"]) == 1:
                    got_useless.setdefault(k, set()).add((i, 0))
                elif whole:
                    got_useless.setdefault(k, set()).update({(i, 1), (i, 2)})
                else:
                    got_useless.setdefault(k, set()).add((i, j + 1))
        elif d.startswith("unused variable") or d.startswith("unused use"):
            pass
        else:
            other.append(e)
    if other:
        raise ToolError(f"unexpected diagnostics in the rendered matrices ({position}): {other[:3]}")
    for k, row in enumerate(rows):
        ctx.add("traces_validated_against_impl")
        exp_non = not row["exh"]
        exp_useless = mr.expected_useless(row)
        fn = src.encode()[meta[k]["first"]:meta[k]["last"]].decode()
        if exp_non != (k in got_nonexh):
            kind = "accepted-non-exhaustive" if exp_non else "rejected-exhaustive"
            ctx.violation(f"[{position}] checker {'accepts a non-exhaustive' if exp_non else 'rejects an exhaustive'} match:\n{fn}",
                          {"position": position, "matrix": row, "source": fn}, key=f"{kind}:{position}")
            continue
        if exp_non:
            continue   # the usefulness warnings of a rejected match are not part of the property
        got = got_useless.get(k, set())
        if got != exp_useless:
            ctx.violation(f"[{position}] unreachable-pattern diagnostics differ: spec {sorted(exp_useless)} checker {sorted(got)}:\n{fn}",
                          {"position": position, "matrix": row, "source": fn, "spec": sorted(exp_useless), "checker": sorted(got)},
                          key=f"useless-mismatch:{position}")


def run_half(ctx, rows, tag):
    src, expected = mr.render_run(rows)
    path = os.path.join(ctx.work, f"run_{tag}.dora")
    open(path, "w").write(src)
    for backend in ("cannon", "boots"):
        exe = os.path.join(ctx.work, f"run_{tag}_{backend}")
        b, msg = progs.compile_prog(path, exe, backend=backend, timeout=900)
        if b is None:
            if "unreachable pattern" in msg or "error" in msg:
                ctx.violation(f"accepted matrices do not compile with {backend}: {msg[-1500:]}", {"source_file": path}, key="accepted-not-compiled:" + backend)
                continue
            raise ToolError(msg)
        r = progs.run_prog(exe, timeout=300)
        lines = r.out.splitlines()
        ctx.add("runtime_cases", len(expected))
        if r.rc != 0 or len(lines) != len(expected):
            ctx.violation(f"[{backend}] run of accepted matrices ended with {r.ending()} after {len(lines)}/{len(expected)} cases; stderr {r.err[-400:]!r}",
                          {"source_file": path, "backend": backend, "last_line": lines[-1:] }, key="run-abort:" + backend)
            continue
        for got, exp in zip(lines, expected):
            if got != exp:
                k = int(exp.split()[0])
                ctx.violation(f"[{backend}] wrong arm chosen at run time: expected `{exp}` got `{got}` (matrix, value index, guard mask, arm)",
                              {"matrix": rows[k], "expected": exp, "observed": got, "backend": backend}, key="wrong-arm:" + backend)
                break


def run(ctx):
    build_harness()
    build_repo(boots=True)
    cfgs = ["Match_q.cfg", "Match_alts.cfg"] + ([] if ctx.quick else ["Match_r3.cfg"])
    rows = []
    for cfg in cfgs:
        r = tlc("Match", cfg=cfg, cwd=LANG, workers=8, timeout=3000, heap="8g")
        tlc_must_pass(r, cfg)
        ctx.tlc_stats(r, cfg)
        got = mr.load_rows(r.out)
        if len(got) != r.distinct:
            raise ToolError(f"{cfg}: {len(got)} rows for {r.distinct} states")
        rows += got
    rng = random.Random(ctx.seed)
    ctx.sample({"matrix": rows[len(rows) // 3]["arms"], "type": rows[len(rows) // 3]["ty"], "exhaustive": rows[len(rows) // 3]["exh"],
                "unreachable_arms": rows[len(rows) // 3]["unreach"]})
    if ctx.quick and len(rows) > 3500:
        keep = rng.sample(range(len(rows)), 3500)
        drows = [rows[i] for i in sorted(keep)]
    else:
        drows = rows
    for chunk_i in range(0, len(drows), 6000):
        diag_half(ctx, drows[chunk_i:chunk_i + 6000], "fn", f"fn{chunk_i}")
    sub = rng.sample(drows, min(len(drows), 400 if ctx.quick else 2000))
    diag_half(ctx, sub, "lambda", "lambda")
    diag_half(ctx, sub[:200 if ctx.quick else 800], "global", "global")
    # every expression / declaration context a match can stand in (the checker's walk must reach all of them)
    per = 60 if ctx.quick else 400
    for pos in mr.CONTEXTS:
        if pos != "fn":
            diag_half(ctx, rng.sample(drows, min(len(drows), per)), pos, pos)
    ctx.extra["contexts"] = sorted(mr.CONTEXTS) + ["lambda", "global"]
    acc = [r for r in rows if r["exh"]]
    pick = rng.sample(acc, min(len(acc), 150 if ctx.quick else 1500))
    for i in range(0, len(pick), 250):
        run_half(ctx, pick[i:i + 250], f"r{i}")
    # dense integer matches (jump-table lowering): literals base..base+3, values incl. 2^32 aliases and range ends
    r = tlc("Match", cfg="Match_dense.cfg" if ctx.quick else "Match_dense5.cfg", cwd=LANG, workers=8, timeout=3000, heap="8g")
    tlc_must_pass(r, "Match_dense")
    ctx.tlc_stats(r, "Match dense")
    dense = mr.load_rows(r.out)
    if len(dense) != r.distinct:
        raise ToolError(f"dense: {len(dense)} rows for {r.distinct} states")
    bases = [(0, 0)] if ctx.quick else [(0, 0), (5, 5), (5000000000, 100000), (4294967295, 2147483000)]
    for b64, b32 in bases:
        mr.BASE["i64d"], mr.BASE["i32d"] = b64, b32
        sub = rng.sample(dense, min(len(dense), 120 if ctx.quick else 250))
        diag_half(ctx, sub, "fn", f"dense{b64}")
        run_half(ctx, sub, f"dense{b64}")
    mr.BASE["i64d"], mr.BASE["i32d"] = 0, 0
    ctx.extra["matrices"] = {"enumerated": len(rows), "exhaustive": len(acc), "diag_checked_fn": len(drows), "run_checked": len(pick)}
    ctx.assumptions += ["Int32 literal patterns abstracted to {0, 1, other}", "guards are calls reading a global bit mask"]


def replay(ctx, path):
    log(open(path).read()[:6000])
