"""C12 - parallel collection phases finish exactly when all work is done.

F = spec/conc/Terminator.tla (faithful), P = spec/conc/AbstractTermination.tla (property layer).
1. TLC: exhaustive design check (invariants, liveness, refinement F => P).
2. S->I: TLC -simulate behaviours replayed step by step into the real Terminator (gates + sync shim),
   counters compared after every step; P predicates evaluated on the implementation.
3. Seeded random scheduler over the real code's gates (P predicates, deadlock, livelock).
4. I->S: free-running runs of the real Terminator logged at linearization points, validated by TLC
   against TerminatorTrace.tla; rejections adjudicated against AbstractTerminationTrace.tla.
"""
import json, os
from common import *

LEVEL = "model_checking"
MANIFEST = dict(
    technique='TLA+ spec Terminator.tla model-checked by TLC (invariants, liveness, refinement to AbstractTermination); TLC behaviours replayed step-by-step into the real Terminator via gates + sync shim; recorded runs validated against TerminatorTrace.tla',
    text='Exhaustive TLC exploration of the termination protocol (every interleaving of the critical sections and the two lock-free loads for 2-4 workers, adversarial work pool) proves NoEarlyTermination/termination/refinement for the design; conformance in both directions binds the design to terminator.rs: TLC-generated behaviours are stepped through the real code with the counters compared after every step, and free-running executions are validated as behaviours of the spec.',
    note="Trusted: TLC, the transcription of the worker loop's pool operations (harness pool instead of crossbeam deques), sequential consistency for the Relaxed counters, bounded configuration (N<=4, budget<=4) for exhaustiveness.",
    ref='4/C12')
CONC = os.path.join(SPEC, "conc")


def gen_behaviours(module, cfg, num, depth, seed, cwd=CONC, timeout=300):
    r = tlc(module, cfg=cfg, cwd=cwd, workers=1, simulate=num, depth=depth, seed=seed, timeout=timeout)
    out = []
    for line in r.out.splitlines():
        if line.startswith('"['):
            out.append(json.loads(line))
    if not out:
        raise ToolError("no behaviours generated:\n" + r.out[-2000:])
    return out


def vh_lines(args, timeout=600, env=None):
    p = sh([VH] + [str(a) for a in args], timeout=timeout, env=env, cwd=VERIF)
    if getattr(p, "timed_out", False):
        raise ToolError("harness timed out: %s" % args)
    recs = []
    for l in p.stdout.splitlines():
        if l.startswith("{"):
            try:
                recs.append(json.loads(l))
            except Exception:
                pass
    if not recs or recs[-1].get("kind") != "summary":
        raise ToolError("harness produced no summary (rc=%s): %s\n%s" % (p.returncode, p.stdout[-1500:], p.stderr[-1500:]))
    return recs


def validate_trace(module, cfg, trace, timeout=600, cwd=CONC):
    r = tlc(module, cfg=cfg, cwd=cwd, workers=1, timeout=timeout, env={"TRACE": trace}, dfs=True, heap="4g")
    if r.timed_out:
        raise ToolError("trace validation timed out: " + trace)
    return r


def write_cfg(path, text):
    with open(path, "w") as f:
        f.write(text)


def negative_controls(ctx, module, cfg, trace, mutate):
    """binding demonstration: a corrupted field and a dropped event must be rejected"""
    lines = open(trace).read().splitlines()
    res = []
    for name, new in mutate(lines):
        p = os.path.join(ctx.work, "neg_" + name + ".ndjson")
        open(p, "w").write("\n".join(new) + "\n")
        r = validate_trace(module, cfg, p)
        res.append({"control": name, "rejected": not r.ok})
    ctx.extra["negative_controls"] = res
    for x in res:
        if not x["rejected"]:
            raise ToolError("negative control %s was accepted by %s: the trace spec is vacuous" % (x["control"], module))


def run(ctx):
    mc_cfgs = [("TerminatorMC2.cfg", 16, 300), ("TerminatorMC32.cfg", 16, 300)] if ctx.quick else \
              [("TerminatorMC2.cfg", 16, 300), ("TerminatorMC.cfg", 16, 1200), ("TerminatorMC34.cfg", 16, 3000),
               ("TerminatorMC42.cfg", 16, 3000)]
    for cfg, workers, tmo in mc_cfgs:
        r = tlc("TerminatorMC", cfg=cfg, cwd=CONC, workers=workers, timeout=tmo, coverage=not ctx.quick)
        tlc_must_pass(r, "design check " + cfg)
        ctx.tlc_stats(r, cfg)
        log(f"TLC {cfg}: {r.distinct} distinct states, {r.seconds:.0f}s")

    build_harness()
    n = 3
    nbeh = 300 if ctx.quick else 3000
    beh = gen_behaviours("TerminatorGen", "TerminatorGen.cfg", nbeh, 400, ctx.seed)
    bfile = os.path.join(ctx.work, "behaviours.ndjson")
    open(bfile, "w").write("\n".join(beh) + "\n")
    ctx.sample({"tlc_behaviour_prefix": json.loads(beh[0])[:6]})
    recs = vh_lines(["term-replay", bfile, n, ctx.seed])
    summ = recs[-1]
    ctx.add("traces_validated_against_impl", summ["behaviours_ok"])
    ctx.extra["replay"] = {"behaviours": len(beh), "ok": summ["behaviours_ok"], "steps": summ["steps"], "drift": summ["drift"]}
    handle(ctx, recs, "replay")

    for nn, runs, bud in ([(3, 300, 5)] if ctx.quick else [(2, 2000, 6), (3, 3000, 6), (4, 2000, 8), (6, 500, 10)]):
        recs = vh_lines(["term-random", nn, ctx.seed + nn, runs, bud], timeout=1200)
        ctx.extra.setdefault("random", []).append({"n": nn, **recs[-1]})
        handle(ctx, recs, "random n=%d" % nn)

    # I->S
    for nn, runs, bud in ([(3, 150, 8)] if ctx.quick else [(2, 300, 8), (3, 600, 10), (4, 300, 12)]):
        trace = os.path.join(ctx.work, f"free{nn}.ndjson")
        recs = vh_lines(["term-free", nn, ctx.seed, runs, bud], timeout=1200, env={"DORA_VERIF_TRACE": trace})
        handle(ctx, recs, "free n=%d" % nn)
        cfgF = os.path.join(CONC, f"_TerminatorTrace{nn}.cfg")
        write_cfg(cfgF, open(os.path.join(CONC, "TerminatorTrace.cfg")).read().replace("N = 3", f"N = {nn}"))
        cfgP = os.path.join(CONC, f"_AbstractTerminationTrace{nn}.cfg")
        write_cfg(cfgP, open(os.path.join(CONC, "AbstractTerminationTrace.cfg")).read().replace("N = 3", f"N = {nn}"))
        nev = sum(1 for _ in open(trace))
        r = validate_trace("TerminatorTrace", os.path.basename(cfgF), trace)
        ctx.tlc_stats(r, f"trace validation n={nn} ({nev} events)")
        if r.ok:
            ctx.add("traces_validated_against_impl", recs[-1]["runs_ok"])
            ctx.add("trace_events", nev)
        else:
            msg = [l for l in r.out.splitlines() if "REJECTED" in l or "violated" in l]
            rp = validate_trace("AbstractTerminationTrace", os.path.basename(cfgP), trace)
            if rp.ok:
                ctx.model_drift("TerminatorTrace", " ".join(msg)[:300])
            else:
                ctx.violation("recorded run of the real Terminator violates AbstractTermination: " + " ".join(msg)[:500],
                              {"trace": open(trace).read()[:200000], "n": nn})
        if nn == 3 and r.ok:
            ctx.sample({"trace_head": open(trace).read().splitlines()[1:8]})

            def mutate(lines):
                import re
                k = next(i for i, l in enumerate(lines) if '"tt_enter"' in l and i > 20)
                bad = re.sub(r'"working":(\d+)', lambda m: '"working":%d' % (int(m.group(1)) + 1), lines[k])
                yield "corrupt_field", lines[:k] + [bad] + lines[k + 1:]
                k2 = next(i for i, l in enumerate(lines) if '"wu_slow"' in l or ('"tt_woke"' in l and i > 30))
                yield "drop_event", lines[:k2] + lines[k2 + 1:]
            negative_controls(ctx, "TerminatorTrace", os.path.basename(cfgF), trace, mutate)
        for f in (cfgF, cfgP):
            os.remove(f)
    ctx.assumptions += ["sequentially consistent memory (the Relaxed counter accesses are modelled as SC)",
                        "the work pool is the harness' abstract pool; crossbeam deques are not under test",
                        "parking_lot condvars have no spurious wake-ups (as documented)"]


def handle(ctx, recs, what):
    for r in recs:
        if r.get("kind") == "drift":
            ctx.model_drift("Terminator " + what, r.get("msg", ""))
        elif r.get("kind") == "violation":
            ctx.violation(f"{what}: {r.get('msg')}", r)


def replay(ctx, path):
    case = json.load(open(path))["case"]
    log(json.dumps(case)[:3000])
