"""C04 - no managed thread runs while the world is stopped.

F = spec/conc/Safepoint.tla, P = spec/conc/AbstractStw.tla.
1. TLC: exhaustive design check (StwExclusion, code asserts, NoDeadlock, liveness, refinement F => P).
2. S->I: TLC behaviours replayed step by step into the real safepoint.rs / threads.rs (in-process runtime,
   gates + sync shim), thread-state bytes / barrier / runtime state compared after every step.
3. Seeded random scheduler over the same gates with the P predicates on the implementation state.
4. I->S: event logs of real multi-threaded Dora executables (both code generators, gc-stress) validated by TLC
   against SafepointTrace.tla; rejections adjudicated against AbstractStwTrace.tla.
"""
import json, os, sys, time
from common import *
import progs, traces
from checks.c12 import gen_behaviours, vh_lines, validate_trace, negative_controls, handle
sys.path.insert(0, os.path.join(VERIF, "gen"))
import stw_workloads

LEVEL = "model_checking"
MANIFEST = dict(
    technique='TLA+ spec Safepoint.tla model-checked by TLC (exclusion, code asserts, deadlock freedom, liveness, refinement to AbstractStw); TLC behaviours replayed step-by-step into the real safepoint.rs/threads.rs via gates + sync shim; event logs of real multi-threaded Dora executables validated against SafepointTrace.tla',
    text='Exhaustive TLC exploration of the stop-the-world protocol (every interleaving of each atomic on the thread-state byte and each barrier/list critical section for up to 3 threads x 3 operations, 4 x 1) proves exclusion, completion and resumption for the design; both conformance directions bind it to the code: model behaviours are stepped through the real functions with all thread states, the barrier and the runtime state compared after every step, and logs of real executables (both code generators, gc-stress) are accepted as behaviours of the spec with every observed value bound.',
    note='Trusted: TLC; SC memory (all protocol atomics are SeqCst); the operation inside the closure abstracted to begin/end; harness threads stand in for managed threads in the replay direction; exhaustiveness only for the bounded configurations.',
    ref='4/C04')
CONC = os.path.join(SPEC, "conc")


def run(ctx):
    mc = [("SafepointMC22L.cfg", 300), ("SafepointMC31L.cfg", 300), ("SafepointMC32.cfg", 900)] if ctx.quick else \
         [("SafepointMC22L.cfg", 300), ("SafepointMC31L.cfg", 300), ("SafepointMC32.cfg", 900), ("SafepointMC33.cfg", 3000),
          ("SafepointMC41.cfg", 3000)]
    for cfg, tmo in mc:
        r = tlc("SafepointMC", cfg=cfg, cwd=CONC, workers=16, timeout=tmo, heap="16g", coverage=not ctx.quick)
        tlc_must_pass(r, "design check " + cfg)
        ctx.tlc_stats(r, cfg)
        log(f"TLC {cfg}: {r.distinct} distinct states, {r.seconds:.0f}s")

    build_harness()
    nbeh = 200 if ctx.quick else 2000
    beh = gen_behaviours("SafepointGen", "SafepointGen.cfg", nbeh, 600, ctx.seed)
    bfile = os.path.join(ctx.work, "behaviours.ndjson")
    open(bfile, "w").write("\n".join(beh) + "\n")
    ctx.sample({"tlc_behaviour_prefix": [[e["t"], e["a"]] for e in json.loads(beh[0])[:25]]})
    recs = vh_lines(["sp-replay", bfile, 3, 2, ctx.seed], timeout=900)
    s = recs[-1]
    ctx.add("traces_validated_against_impl", s["behaviours_ok"])
    ctx.extra["replay"] = {"behaviours": len(beh), "ok": s["behaviours_ok"], "steps": s["steps"], "drift": s["drift"]}
    handle(ctx, recs, "replay")
    for n, k, runs in ([(3, 3, 300), (4, 2, 200)] if ctx.quick else [(2, 4, 1000), (3, 3, 3000), (4, 3, 2000), (6, 2, 1000)]):
        recs = vh_lines(["sp-random", n, k, ctx.seed + n, runs], timeout=1800)
        ctx.extra.setdefault("random", []).append({"n": n, "k": k, **recs[-1]})
        handle(ctx, recs, f"random n={n}")

    # I->S on real executables
    build_repo(boots=True)
    nprog = 1 if ctx.quick else 8
    flagsets = ["--gc-stress --disable-tlab", ""] if ctx.quick else ["--gc-stress --disable-tlab", "--gc-stress-minor", "", "--gc-worker=4 --gc-stress"]
    first = True
    for i in range(nprog):
        seed = ctx.seed * 100 + i
        src = os.path.join(ctx.work, f"w{seed}.dora")
        open(src, "w").write(stw_workloads.program(seed))
        for backend in ("cannon", "boots"):
            exe = os.path.join(ctx.work, f"w{seed}_{backend}")
            b, msg = progs.compile_prog(src, exe, backend=backend)
            if b is None:
                raise ToolError(f"workload {src} does not compile with {backend}: {msg}")
            for fi, flags in enumerate(flagsets):
                if ctx.quick and (fi + (backend == "boots") + ctx.seed) % 2 == 0:
                    continue
                trace = os.path.join(ctx.work, f"w{seed}_{backend}_{fi}.ndjson")
                r = progs.run_prog(exe, flags=flags, env={"DORA_VERIF_TRACE": trace}, timeout=120)
                what = f"workload seed={seed} backend={backend} flags='{flags}'"
                if r.timed_out:
                    # the model proves progress: confirm with one re-run before reporting
                    r2 = progs.run_prog(exe, flags=flags, env={"DORA_VERIF_TRACE": trace}, timeout=240)
                    if r2.timed_out:
                        ctx.violation(f"{what}: hang (no completion within 240 s; every stop-the-world request must complete)",
                                      {"source": open(src).read(), "flags": flags, "backend": backend})
                        continue
                    r = r2
                if r.rc != 0 or r.out.strip() != "done":
                    ctx.violation(f"{what}: ended with {r.ending()} / output {r.out[-200:]!r} / stderr {r.err[-400:]!r}",
                                  {"source": open(src).read(), "flags": flags, "backend": backend})
                    continue
                view = traces.safepoint_view(traces.load(trace))
                vfile = trace.replace(".ndjson", ".sp.ndjson")
                traces.dump(view, vfile)
                nthreads = traces.max_thread(view)
                cfg = os.path.join(CONC, f"_SafepointTrace_{os.getpid()}.cfg")
                open(cfg, "w").write(open(os.path.join(CONC, "SafepointTrace.cfg")).read().replace("N = 4", f"N = {max(nthreads, 2)}"))
                try:
                    tr = validate_trace("SafepointTrace", os.path.basename(cfg), vfile, timeout=900)
                    ctx.tlc_stats(tr, f"trace {what} ({len(view)} events)")
                    if tr.ok:
                        ctx.add("traces_validated_against_impl", 1)
                        ctx.add("trace_events", len(view))
                        ctx.add("stw_operations_in_traces", sum(1 for e in view if e["ev"] == "op_begin"))
                        if first and len(view) >= 200 and any(e["ev"] == "disarm" for e in view):
                            first = False
                            ctx.sample({"trace_head": view[:12]})
                            do_negative_controls(ctx, os.path.basename(cfg), vfile)
                    else:
                        msg = " ".join(l for l in tr.out.splitlines() if "REJECTED" in l or "violated" in l or "Assert" in l)[:600]
                        rp = validate_trace("AbstractStwTrace", "AbstractStwTrace.cfg", vfile, timeout=600)
                        if rp.ok and "violated" not in msg:
                            ctx.model_drift("SafepointTrace " + what, msg)
                        else:
                            ctx.violation(f"{what}: recorded run is not a behaviour of the stop-the-world specification: {msg}",
                                          {"source": open(src).read(), "flags": flags, "backend": backend, "trace": view[:4000]})
                finally:
                    os.remove(cfg)
    storms(ctx)
    ctx.assumptions += ["sequentially consistent memory (all protocol atomics are SeqCst in the code)",
                        "the operation inside the stop-the-world closure is abstracted to one begin/end pair",
                        "real-executable schedules are those the OS produces under gc-stress; exhaustiveness is in the model and the gate replays"]


def storms(ctx):
    """stop-the-world storms: back-to-back operations requested by several threads. Judged by the property layer only
    (AbstractStwTrace + clean completion); the budget grows when the faithful model reported drift (DESIGN 2.8)."""
    escalate = bool(ctx.drift)
    t_start = time.time()
    budget = 60 if (ctx.quick and not escalate) else 240 if ctx.quick else 900      # seconds for all storms
    plan = [(3, 300, 1)] if (ctx.quick and not escalate) else [(3, 400, 2), (4, 1500, 3)] if ctx.quick else [(3, 400, 2), (4, 2000, 4), (6, 500, 2)]
    for threads, iters, reps in plan:
        seed = ctx.seed * 1000 + threads
        src = os.path.join(ctx.work, f"storm{threads}_{iters}.dora")
        open(src, "w").write(stw_workloads.storm(seed, threads, iters))
        combos = (("cannon", "copy"), ("boots", None))
        if ctx.quick and not escalate:
            combos = combos[ctx.seed % 2:ctx.seed % 2 + 1]
        for backend, gc in combos:
            exe = os.path.join(ctx.work, f"storm{threads}_{iters}_{backend}")
            b, msg = progs.compile_prog(src, exe, backend=backend, gc=gc)
            if b is None:
                raise ToolError(f"storm workload does not compile: {msg}")
            for rep in range(reps):
                if time.time() - t_start > budget:
                    ctx.extra["storm_budget_exhausted"] = True
                    return
                trace = exe + f"_{rep}.ndjson"
                what = f"stop-the-world storm threads={threads} iters={iters} backend={backend} gc={gc or 'default'} run={rep}"
                # small heaps: a collection of the default-sized heap costs ~0.5 s in this debug build
                sflags = "--max-heap-size=8M" + (" --gc-young-size=1M" if gc is None else "")
                r = progs.run_prog(exe, flags=sflags, env={"DORA_VERIF_TRACE": trace}, timeout=300)
                ctx.add("storm_runs")
                if r.timed_out:
                    r2 = progs.run_prog(exe, flags=sflags, timeout=900)
                    if r2.timed_out:
                        ctx.violation(f"{what}: hang (every stop-the-world request must complete and every thread resume)",
                                      {"source": open(src).read(), "backend": backend, "gc": gc}, key="storm-hang")
                    continue
                if r.rc != 0 or r.out.strip() != "done":
                    ctx.violation(f"{what}: ended with {r.ending()}; stderr: {r.err[-600:]!r}",
                                  {"source": open(src).read(), "backend": backend, "gc": gc, "stderr": r.err[-3000:]}, key="storm-crash")
                    return
                view = traces.safepoint_view(traces.load(trace))
                vfile = trace.replace(".ndjson", ".sp.ndjson")
                traces.dump(view, vfile)
                rp = validate_trace("AbstractStwTrace", "AbstractStwTrace.cfg", vfile, timeout=900)
                ctx.tlc_stats(rp, f"P-layer trace {what} ({len(view)} events)")
                if rp.ok:
                    ctx.add("traces_validated_against_impl", 1)
                    ctx.add("stw_operations_in_traces", sum(1 for e in view if e["ev"] == "op_begin"))
                else:
                    msg = " ".join(l for l in rp.out.splitlines() if "REJECTED" in l)[:500]
                    ctx.violation(f"{what}: the recorded run violates AbstractStw: {msg}",
                                  {"source": open(src).read(), "backend": backend, "gc": gc, "trace_tail": view[-300:]}, key="storm-trace")
                    return


def do_negative_controls(ctx, cfg, vfile):
    def mutate(lines):
        import re
        k = next(i for i, l in enumerate(lines) if '"request"' in l and i > 10)
        bad = re.sub(r'"old": (\d+)', lambda m: '"old": %d' % ((int(m.group(1)) + 1) % 5), lines[k])
        yield "corrupt_field", lines[:k] + [bad] + lines[k + 1:]
        k2 = next(i for i, l in enumerate(lines) if '"disarm"' in l)
        yield "drop_event", lines[:k2] + lines[k2 + 1:]
    negative_controls(ctx, "SafepointTrace", cfg, vfile, mutate)


def replay(ctx, path):
    case = json.load(open(path))
    log(json.dumps(case)[:4000])
