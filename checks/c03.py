"""C03 - garbage collection is invisible to programs and reclaims garbage.

spec/gc/Heap.tla: abstract generational heap (roots, fields, young/survivor/old, remembered bit + set, barrier);
TLC checks NoDangling / RemsetComplete / RemBitConsistent / GraphPreserved / GarbageReclaimed exhaustively and
refutes two planted design errors (no barrier; remembered bit kept on promotion).
S->I: TLC behaviours (mutator steps with minor/full collections interleaved) are rendered as Dora object-graph
programs whose roots live in locals, globals, array elements, class fields and struct fields; after every step the
program dumps the reachable graph and the dump must equal the one the model state prescribes - on every
collector, both code generators, gc-stress / gc-stress-minor / gc-verify, TLAB on/off, 1..8 workers, tiny heaps.
Plus: multi-threaded programs (objects reachable only from a spawned thread's closure while other threads collect)
and allocation-churn programs whose live set is small (no spurious out-of-memory).
"""
import json, os, random, sys
from common import *
import progs
sys.path.insert(0, os.path.join(VERIF, "gen"))
import heap_render, heap_threads, heap_churn

LEVEL = "model_checking"
MANIFEST = dict(
    technique="TLA+ spec Heap.tla model-checked by TLC (graph preservation, remembered-set completeness, reclamation; planted errors "
              "refuted); TLC behaviours replayed as Dora object-graph programs over the collector/configuration matrix with the "
              "model-prescribed dump after every step (spec->impl)",
    text="The heap design is explored exhaustively for 4-5 objects; conformance replays simulated model behaviours (30 mutator/collection "
         "steps over 7 objects, 3 root slots of varying kind) against the real collectors: {zero, copy, sweep, swiper} x {baseline, "
         "optimizing} x {default, gc-stress, gc-stress-minor, gc-verify} x TLAB on/off x workers x tiny heap sizes; any difference in the "
         "dump, a verifier assertion, a signal or an unexpected out-of-memory is a violation. Multi-threaded spawn/closure roots and "
         "churn programs cover roots and the allocation ladder the sequential behaviours cannot.",
    note="Trusted: TLC; the rendering of model steps to Dora statements; the collectors are observed through program output, "
         "--gc-verify and crashes (no heap snapshots yet); thread schedules are whatever the OS produces under gc-stress.",
    ref="4/C03")
GC = os.path.join(SPEC, "gc")
SMALL = "--max-heap-size=4M --gc-young-size=512K"


def behaviours(ctx, n, seed):
    r = tlc("HeapGen", cfg="HeapGen.cfg", cwd=GC, workers=1, simulate=max(n, 10), depth=40, seed=seed, timeout=600)
    seen = set(); out = []
    for line in r.out.splitlines():
        if line.startswith('"['):
            s = json.loads(line)
            if s not in seen:
                seen.add(s); out.append(json.loads(s))
    if len(out) < min(n, 5):
        raise ToolError("HeapGen produced too few behaviours: " + r.out[-1500:])
    return out[:n]


def run_cases(ctx, exe, expected, flags, what, source):
    for cid, lines in expected.items():
        r = progs.run_prog(exe, args=[cid], flags=flags, timeout=300)
        ctx.add("program_runs")
        got = r.out.splitlines()
        if r.timed_out:
            ctx.violation(f"{what} case {cid} flags '{flags}': no completion within 300 s", {"source": source, "flags": flags, "case": cid}, key="timeout:" + what.split()[0])
            return False
        if r.rc != 0 or got != lines:
            first = next((i for i, (a, b) in enumerate(zip(got, lines)) if a != b), min(len(got), len(lines)))
            ctx.violation(f"{what} case {cid} flags '{flags}': {r.ending()}; first difference at step {first + 1}: "
                          f"program `{got[first] if first < len(got) else '<missing>'}` model `{lines[first] if first < len(lines) else '<none>'}`; stderr {r.err[-500:]!r}",
                          {"source": source, "flags": flags, "case": cid, "expected": lines, "observed": got, "stderr": r.err[-3000:]},
                          key=f"{what.split()[0]}:{'crash' if r.rc != 0 else 'diff'}")
            return False
        ctx.add("traces_validated_against_impl")
    return True


def run(ctx):
    # 1. design
    for cfg, expect_ok in [("HeapMC.cfg", True), ("HeapMC_nobarrier.cfg", False), ("HeapMC_keeprem.cfg", False)] + ([] if ctx.quick else [("HeapMC2.cfg", True)]):
        r = tlc("Heap", cfg=cfg, cwd=GC, workers=16, timeout=3000, heap="12g")
        if expect_ok:
            tlc_must_pass(r, cfg)
            ctx.tlc_stats(r, cfg)
        else:
            if r.ok or r.violation is None or "Invariant" not in r.violation:
                raise ToolError(f"planted design error {cfg} was not refuted: the invariants are vacuous")
            ctx.extra.setdefault("planted_errors_refuted", []).append({"cfg": cfg, "by": r.violation})
    # 2. behaviours as programs
    build_repo(boots=True)
    nbeh = 10 if ctx.quick else 40
    beh = behaviours(ctx, nbeh, ctx.seed)
    src_text, expected = heap_render.render(beh, ctx.seed, 3, 2)
    src = os.path.join(ctx.work, "heap.dora")
    open(src, "w").write(src_text)
    ctx.sample({"behaviour_steps": [[s["op"], s["a"], s["b"], s["c"]] for s in beh[0][:12]], "expected_dump_after_step_12": expected["b0"][11]})
    builds = [("cannon", None), ("boots", None), ("cannon", "copy"), ("boots", "sweep"), ("cannon", "sweep"), ("boots", "copy"), ("cannon", "zero")]
    flagsets = {
        None: [SMALL, SMALL + " --gc-stress --gc-worker=1", SMALL + " --gc-stress-minor --gc-worker=2", SMALL + " --gc-verify --disable-tlab", "--max-heap-size=2M --gc-worker=8 --gc-verify"],
        "copy": ["--max-heap-size=4M", "--max-heap-size=4M --gc-stress", "--max-heap-size=4M --gc-stress --disable-tlab"],
        "sweep": ["--max-heap-size=4M", "--max-heap-size=4M --gc-stress", "--max-heap-size=2M --disable-tlab"],
        "zero": ["--max-heap-size=32M"],
    }
    rng = random.Random(ctx.seed)
    if ctx.quick:
        builds = [("cannon", None), ("boots", "copy"), ("cannon", "sweep"), ("boots", None)]
    for backend, gc in builds:
        exe = os.path.join(ctx.work, f"heap_{backend}_{gc or 'swiper'}")
        b, msg = progs.compile_prog(src, exe, backend=backend, gc=gc, timeout=900)
        if b is None:
            raise ToolError(f"heap program does not compile ({backend},{gc}): {msg[-2000:]}")
        fs = flagsets[gc]
        if ctx.quick:
            fs = [fs[0]] + rng.sample(fs[1:], min(1, len(fs) - 1))
        for flags in fs:
            sub = expected if not ctx.quick else dict(list(expected.items())[:5])
            run_cases(ctx, exe, sub, flags, f"heap-behaviour [{backend}/{gc or 'swiper'}]", src_text)
    # 3. threads
    for i in range(1 if ctx.quick else 4):
        tsrc, texp = heap_threads.program(ctx.seed * 10 + i)
        p = os.path.join(ctx.work, f"threads{i}.dora")
        open(p, "w").write(tsrc)
        for backend, gc, flags in [("cannon", "copy", "--max-heap-size=8M --gc-stress"), ("boots", None, "--max-heap-size=8M --gc-young-size=1M --gc-stress-minor --gc-worker=2")] + \
                                  ([] if ctx.quick else [("cannon", None, "--max-heap-size=8M --gc-young-size=1M --gc-stress --gc-worker=1"), ("boots", "copy", "--max-heap-size=8M --gc-stress")]):
            exe = os.path.join(ctx.work, f"threads{i}_{backend}_{gc or 'swiper'}")
            b, msg = progs.compile_prog(p, exe, backend=backend, gc=gc)
            if b is None:
                raise ToolError(f"thread program does not compile: {msg[-1500:]}")
            for rep in range(2 if ctx.quick else 4):
                r = progs.run_prog(exe, flags=flags, timeout=600)
                ctx.add("program_runs")
                if r.timed_out or r.rc != 0 or r.out != texp:
                    ctx.violation(f"thread-roots program [{backend}/{gc or 'swiper'}] flags '{flags}': {r.ending()} output {r.out[-100:]!r} expected {texp!r}; stderr {r.err[-600:]!r}",
                                  {"source": tsrc, "flags": flags, "backend": backend, "gc": gc, "stderr": r.err[-3000:]}, key="thread-roots:" + (gc or "swiper"))
                    break
                ctx.add("traces_validated_against_impl")
    # 4. churn
    for i in range(1 if ctx.quick else 3):
        csrc, _, meta = heap_churn.program(ctx.seed * 10 + i)
        p = os.path.join(ctx.work, f"churn{i}.dora")
        open(p, "w").write(csrc)
        for backend, gc in ([("cannon", None), ("boots", "copy"), ("cannon", "sweep")] if not ctx.quick else [("cannon", "sweep"), ("boots", None)]):
            exe = os.path.join(ctx.work, f"churn{i}_{backend}_{gc or 'swiper'}")
            b, msg = progs.compile_prog(p, exe, backend=backend, gc=gc)
            if b is None:
                raise ToolError(f"churn program does not compile: {msg[-1500:]}")
            flags = "--max-heap-size=8M" + (" --gc-young-size=1M" if gc is None else "")
            r = progs.run_prog(exe, flags=flags, timeout=600)
            ctx.add("program_runs")
            if r.timed_out or r.rc != 0:
                ctx.violation(f"churn program {meta} [{backend}/{gc or 'swiper'}] flags '{flags}': {r.ending()} (live set is tiny: out of memory or a crash is a defect); stderr {r.err[-500:]!r}",
                              {"source": csrc, "flags": flags, "backend": backend, "gc": gc, "meta": meta}, key="churn:" + (gc or "swiper"))
            else:
                ctx.add("traces_validated_against_impl")
    ctx.assumptions += ["behaviours are simulated (not exhaustive) at 7 objects / 30 steps; exhaustiveness is in the model at 4-5 objects",
                        "the dump observes the graph reachable from the roots to depth 4"]


def replay(ctx, path):
    log(open(path).read()[:6000])
