"""C13 - running out of stack or heap ends in the documented trap, never in a crash.

spec/lang/Outcome.tla classifies every ending; each exhaustion scenario (recursion with tiny / many-locals / large-struct /
deep-temporaries / mutual frames on the main and on a spawned thread; live data beyond the heap; single objects of
every element kind with too large, astronomically large and negative lengths; bounded twins that must succeed) carries
the set of endings the property allows; every scenario runs as its own process for every collector and both code
generators; TLC judges the recorded endings (one state per scenario).
"""
import json, os, sys
from common import *
import progs, outcome
sys.path.insert(0, os.path.join(VERIF, "gen"))
import hostile

LEVEL = "exploration"
MANIFEST = dict(
    technique="TLA+ spec Outcome.tla (documented endings + allowed-ending sets per scenario) judging recorded runs of enumerated "
              "exhaustion scenarios over collectors x code generators (impl->spec record validation)",
    text="The scenario space (frame shape x thread kind; allocation shape x element kind x length class) is enumerated, each scenario "
         "is executed for every collector and both code generators, and the observed ending must be the documented trap (stack "
         "overflow 107 / out of memory 106 with their messages) - a signal, a hang, a runtime panic or another trap is a violation; "
         "bounded twins must complete. Exploration level: frame sizes and heap sizes are sampled classes, not all values.",
    note="Trusted: TLC; the time limit (120 s, re-run once at 300 s) as the hang criterion; debug-build runtime.",
    ref="4/C13")


def configs(ctx):
    if ctx.quick:
        return [("cannon", None), ("boots", "copy"), ("cannon", "sweep")] if ctx.seed % 2 else [("boots", None), ("cannon", "copy"), ("boots", "sweep")]
    return [("cannon", None), ("boots", None), ("cannon", "copy"), ("boots", "copy"), ("cannon", "sweep"), ("boots", "sweep")]


def key_of(kind, ending_desc, cfgname):
    backend = cfgname.split("/")[0]
    return f"{kind}:{ending_desc}:{backend}"


def run(ctx):
    build_repo(boots=True)
    cases = hostile.exhaustion_cases(ctx.seed)
    src = os.path.join(ctx.work, "exhaust.dora")
    open(src, "w").write(hostile.render(cases))
    records = {c["id"]: {"id": c["id"], "expect": c["expect"], "runs": [], "case": c} for c in cases}
    for backend, gc in configs(ctx):
        exe = os.path.join(ctx.work, f"exhaust_{backend}_{gc or 'swiper'}")
        b, msg = progs.compile_prog(src, exe, backend=backend, gc=gc, timeout=900)
        if b is None:
            raise ToolError(f"exhaustion scenarios do not compile ({backend},{gc}): {msg[-2000:]}")
        for c in cases:
            flags = c["flags"] + (" --gc-young-size=2M" if (gc is None and c["flags"]) else "")
            cfgname = f"{backend}/{gc or 'swiper'}"
            r = outcome.run_record(exe, c["id"], cfgname, cfgname, flags=flags, timeout=120)
            if r["timed_out"]:
                r = outcome.run_record(exe, c["id"], cfgname, cfgname, flags=flags, timeout=300)
            records[c["id"]]["runs"].append(r)
            ctx.add("evaluations")
    # frames far larger than a page (baseline code generator only): the check against the stack limit happens after the frame is
    # allocated, so the trap path itself runs up to one frame below the limit
    bcases = hostile.bigframe_cases(thorough=not ctx.quick)
    bsrc = os.path.join(ctx.work, "bigframes.dora")
    open(bsrc, "w").write(hostile.render(bcases))
    for c in bcases:
        records[c["id"]] = {"id": c["id"], "expect": c["expect"], "runs": [], "case": c}
    for backend, gc in [cfg for cfg in configs(ctx) if cfg[0] == "cannon"][: 1 if ctx.quick else 3]:
        exe = os.path.join(ctx.work, f"bigframes_{backend}_{gc or 'swiper'}")
        b, msg = progs.compile_prog(bsrc, exe, backend=backend, gc=gc, timeout=1800)
        if b is None:
            raise ToolError(f"big-frame scenarios do not compile ({backend},{gc}): {msg[-2000:]}")
        for c in bcases:
            cfgname = f"{backend}/{gc or 'swiper'}"
            r = outcome.run_record(exe, c["id"], cfgname, cfgname, flags="", timeout=300)
            records[c["id"]]["runs"].append(r)
            ctx.add("evaluations")
    recs = list(records.values())
    verdicts, res = outcome.judge(recs, ctx.work, "exhaust")
    ctx.tlc_stats(res, f"Outcome judges {len(recs)} scenarios")
    distinct = set()
    for rec, v in zip(recs, verdicts):
        c = rec["case"]
        distinct.add(c["kind"])
        for idx in sorted(set(v["undefined"]) | set(v["unexpected"])):
            r = rec["runs"][idx - 1]
            desc = "signal%d" % r["signal"] if r["signal"] else "timeout" if r["timed_out"] else "panic" if r["panic"] else f"status{r['status']}"
            ctx.violation(f"scenario {c['kind']} [{r['cfg']}]: expected {c['expect']}, observed {desc} (stderr first line {r['err0']!r})",
                          {"scenario": c["kind"], "body": c["body"], "decls": c["decls"], "flags": c["flags"], "config": r["cfg"], "run": r},
                          key=key_of(c["kind"], desc, r["cfg"]))
    ctx.cov["distinct_nontrivial"] = len(distinct)
    ctx.cov["rule"] = "scenario = (kind: recursion frame shape x thread | heap: live/single x element type x length class); distinct by kind; each run in its own process per (code generator, collector)"
    ctx.sample({"scenario": cases[3]["kind"], "body": cases[3]["body"], "allowed": cases[3]["expect"]})
    ctx.sample({"scenario": cases[-5]["kind"], "body": cases[-5]["body"], "allowed": cases[-5]["expect"]})


def replay(ctx, path):
    log(open(path).read()[:6000])
