"""C02 - both code generators agree and every run ends in a defined way.

(a) Inside the DoraSem subset agreement follows from C01 (both executables are validated against one deterministic
    specification); here the two runs of every generated case are additionally compared with each other directly.
(b) Boundary-value / hostile-argument programs for stdlib entry points and intrinsics (array / vector / string / bit-set
    construction and indexing with lengths and indices from {-1, 0, 1, len-1, len, 2^31, 2^61+1, max, min}, shifts,
    conversions, division) and (c) a seeded sample of the repository's runnable corpus (test/rt): spec/lang/Outcome.tla
    classifies every ending (return / exit / documented trap with message and status / fatal error) and requires equal
    output and status from both code generators; one TLC state per case.
"""
import json, os, random, re, sys
from common import *
import progs, outcome, dsem
from checks.dsem_common import run_plan
sys.path.insert(0, os.path.join(VERIF, "gen"))
import hostile

LEVEL = "exploration"
MANIFEST = dict(
    technique="TLA+ spec Outcome.tla (documented endings, back-end agreement) judging recorded runs of hostile-argument programs and "
              "corpus programs built with both code generators; DoraSem.tla for the generated subset (impl->spec record validation)",
    text="Differential observation with the specification contributing the classification of endings and, inside the C01 subset, the "
         "expected output: every case is built with the baseline and the optimizing code generator, both runs must have equal stdout "
         "and status and end in a documented way; signals, runtime panics and time-outs are violations. Exploration level: the space of "
         "accepted programs is sampled (templates x boundary values, seeded corpus sample).",
    note="Trusted: TLC; corpus files whose expectations depend on time, scheduling, stack depth or heap size are excluded by a fixed list "
         "and by their test headers; 'no corruption' is only observed through outputs and crashes.",
    ref="4/C02")
EXCLUDE = ("bench/gcbench1", "bench/gcold1", "thread/join2-swiper-compact", "thread/allocate3", "thread/", "stack-overflow", "oom", "timestamp", "sleep")


def corpus_sample(ctx, n):
    files = []
    root = os.path.join(REPO, "test", "rt")
    for d, dn, fn in os.walk(root):
        dn.sort()
        for f in sorted(fn):
            if f.endswith(".dora"):
                files.append(os.path.join(d, f))
    rng = random.Random(ctx.seed)
    rng.shuffle(files)
    out = []
    for f in files:
        rel = os.path.relpath(f, root)
        text = open(f, errors="replace").read()
        head = "\n".join(l for l in text.splitlines()[:12] if l.startswith("//="))
        if any(x in rel for x in EXCLUDE) or "ignore" in head or "args" in head or "file" in head or "boots" in head or "compile-args" in head or "runtime-args" in head:
            continue
        if "fn main" not in text or "mod " in head:
            continue
        out.append((f, head))
        if len(out) >= n:
            break
    return out


def run(ctx):
    build_repo(boots=True)
    # (a) generated subset: direct comparison of the two back ends (plus the spec verdict)
    plan = [(ctx.seed * 100 + 61, 40 if ctx.quick else 120, None, [("cannon", None), ("boots", None)], ("",))]
    totals, fails = run_plan(ctx, plan, {"MISMATCH-status", "MISMATCH-output", "MISMATCH-trap-report", "MISMATCH-unflushed-output"}, "generated subset")
    # (b) hostile arguments
    cases = hostile.hostile_cases(ctx.seed, 3 if ctx.quick else 10)
    src = os.path.join(ctx.work, "hostile.dora")
    open(src, "w").write(hostile.render(cases))
    records = {c["id"]: {"id": c["id"], "expect": [], "runs": [], "case": c} for c in cases}
    for backend in ("cannon", "boots"):
        exe = os.path.join(ctx.work, f"hostile_{backend}")
        b, msg = progs.compile_prog(src, exe, backend=backend, timeout=900)
        if b is None:
            ctx.violation(f"hostile-argument program is accepted by the front end but does not build with {backend}: {msg[-800:]}",
                          {"source_file": src, "backend": backend}, key="hostile-build:" + backend)
            continue
        for c in cases:
            r = outcome.run_record(exe, c["id"], backend, "g", flags="--max-heap-size=64M", timeout=120)
            records[c["id"]]["runs"].append(r)
            ctx.add("evaluations")
    # (c) corpus sample
    ncorp = 12 if ctx.quick else 150
    for path, head in corpus_sample(ctx, ncorp):
        rid = "corpus:" + os.path.relpath(path, REPO)
        rec = {"id": rid, "expect": [], "runs": [], "case": {"template": "corpus", "body": path, "args": {}}}
        ok = True
        for backend in ("cannon", "boots"):
            exe = os.path.join(ctx.work, "corp_" + re.sub(r"\W", "_", os.path.relpath(path, REPO)) + "_" + backend)
            b, msg = progs.compile_prog(path, exe, backend=backend, timeout=600)
            if b is None:
                if "error" in head or "compilation failed" in msg and backend == "cannon":
                    ok = False
                    break           # a negative test of the corpus (expected compile error)
                ctx.violation(f"corpus program {rid} builds with one code generator only ({backend} fails): {msg[-600:]}",
                              {"path": path, "backend": backend}, key="corpus-build:" + backend)
                ok = False
                break
            rec["runs"].append(outcome.run_record(exe, "", backend, "g", timeout=120))
            ctx.add("evaluations")
        if ok:
            records[rid] = rec
    recs = [r for r in records.values() if r["runs"]]
    verdicts, res = outcome.judge(recs, ctx.work, "outcome")
    ctx.tlc_stats(res, f"Outcome judges {len(recs)} cases")
    kinds = set()
    for rec, v in zip(recs, verdicts):
        c = rec["case"]
        kinds.add((c["template"], tuple(sorted(c["args"].items()))))
        for idx in v["undefined"]:
            r = rec["runs"][idx - 1]
            desc = "signal%d" % r["signal"] if r["signal"] else "timeout" if r["timed_out"] else "panic" if r["panic"] else f"status{r['status']}"
            cls = arg_class(c)
            ctx.violation(f"{c['template']} {c['args']} [{r['cfg']}]: undefined ending {desc}; stderr first line {r['err0']!r}; body: {c['body']}",
                          {"case": c, "run": r}, key=f"undefined:{c['template']}:{cls}:{desc}:{r['cfg']}")
        if v["disagree"] and not v["undefined"]:
            ctx.violation(f"{c['template']} {c['args']}: the code generators disagree: " +
                          "; ".join(f"{r['cfg']}: status {r['status']} out {r['_stdout'][-80:]!r} err {r['err0']!r}" for r in rec["runs"]) + f"; body: {c['body']}",
                          {"case": c, "runs": rec["runs"]}, key=f"disagree:{c['template']}:{arg_class(c)}")
    ctx.cov["distinct_nontrivial"] = len(kinds)
    ctx.cov["rule"] = "case = (template, argument tuple) or corpus file; distinct by that key; every case built with both code generators, each run in its own process"
    ctx.sample({"template": cases[0]["template"], "body": cases[0]["body"]})


def arg_class(c):
    """coarse class of the first hostile argument (for known-finding keys)"""
    n = c["args"].get("n", "")
    if "-1" in n or "min_value" in n or n.startswith("(-"): return "negative"
    if n in ("2305843009213693953", "1152921504606846976") or "max_value" in n: return "astronomic"
    if n in ("2147483647", "2147483648", "4294967296"): return "large"
    return "small"


def replay(ctx, path):
    log(open(path).read()[:6000])
