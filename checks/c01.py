"""C01 - compiled programs behave exactly as the language semantics prescribe.

spec/lang/DoraSem.tla is an executable semantics (definitional interpreter over the JSON AST, boundary-exact integer
algebra). A seeded typed generator emits programs + ASTs; every run of every case on both code generators is a trace
(stdout, exit status / trap kind) that TLC validates against the semantics instantiated with that program.
"""
from common import *
from checks.dsem_common import run_plan

LEVEL = "model_checking"
MANIFEST = dict(
    technique="executable TLA+ semantics (DoraSem.tla) evaluated by TLC on the AST of each generated program; the observed run of the "
              "real executable (both code generators) is validated against it (impl->spec trace validation, one TLC state per run)",
    text="Every generated case (typed random programs over Int32/Int64/Bool arithmetic incl. checked/wrapping/shift/conversion "
         "operations at the range boundaries, locals, loops with break/continue, functions and recursion, arrays, tuples, structs, "
         "classes, enums + match, Option, lambdas capturing mutable state, globals) is compiled by the baseline and the optimizing "
         "code generator and executed; TLC judges each run: printed values, exit status and trap kind must be exactly what the "
         "semantics gives. Programs whose evaluation leaves the exactly representable integer domain are discarded and counted.",
    note="Trusted: TLC; the generator renders AST and source from one tree; floats, strings (beyond templates), Vec, generics, traits "
         "and trait objects are not in the modelled subset yet; lambdas are only invoked in their defining activation.",
    ref="4/C01")
CATS = {"MISMATCH-status", "MISMATCH-output"}


def run(ctx):
    build_repo(boots=True)
    both = [("cannon", None), ("boots", None)]
    if ctx.quick:
        plan = [(ctx.seed * 100 + 1, 50, None, both, ("",)), (ctx.seed * 100 + 2, 40, None, both, ("",))]
    else:
        plan = [(ctx.seed * 100 + i, 80, None, both, ("",)) for i in range(1, 13)]
        plan += [(ctx.seed * 100 + 50, 60, None, [("cannon", "copy"), ("boots", "sweep")], ("", "--gc-stress"))]
    totals, fails = run_plan(ctx, plan, CATS, "semantics")
    if totals["ok"] == 0:
        raise ToolError("no case was judged ok: " + str(dict(totals)))
    ctx.assumptions += ["a compile failure of a generated program is C05's concern and only counted here",
                        "unflushed-output and trap-report mismatches are C14's concern and not reported here"]


def replay(ctx, path):
    import json
    log(json.dumps(json.load(open(path)))[:6000])
