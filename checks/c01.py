"""C01 - compiled programs behave exactly as the language semantics prescribe.

spec/lang/DoraSem.tla is an executable semantics (definitional interpreter over the JSON AST, boundary-exact integer
algebra). A seeded typed generator emits programs + ASTs; every run of every case on both code generators is a trace
(stdout, exit status / trap kind) that TLC validates against the semantics instantiated with that program.
"""
import os, sys
from common import *
import progs
from checks.dsem_common import run_plan
sys.path.insert(0, os.path.join(VERIF, "gen"))
import float_render

LEVEL = "model_checking"
MANIFEST = dict(
    technique="executable TLA+ semantics (DoraSem.tla) evaluated by TLC on the AST of each generated program; the observed run of the "
              "real executable (both code generators) is validated against it (impl->spec trace validation, one TLC state per run)",
    text="Every generated case (typed random programs over Int32/Int64/Bool arithmetic incl. checked/wrapping/shift/conversion "
         "operations at the range boundaries, locals, loops with break/continue, functions and recursion, arrays, tuples, structs, "
         "classes, enums + match, Option, lambdas capturing mutable state, globals) is compiled by the baseline and the optimizing "
         "code generator and executed; TLC judges each run: printed values, exit status and trap kind must be exactly what the "
         "semantics gives. Programs whose evaluation leaves the exactly representable integer domain are discarded and counted.",
    note="Trusted: TLC; the generator renders AST and source from one tree; floats are covered by DoraFloat.tla on an exactly "
         "representable sub-domain (specials, signed zeros, n/8 values) - not rounding; strings (beyond templates), Vec, generics, traits "
         "and trait objects are not in the modelled subset yet; lambdas are only invoked in their defining activation.",
    ref="4/C01")
CATS = {"MISMATCH-status", "MISMATCH-output"}


def float_part(ctx):
    """spec->impl: rows of DoraFloat.tla (every operation x every operand pair of the exact sub-domain) against both code generators"""
    r = tlc("DoraFloat", cfg="DoraFloat.cfg", cwd=os.path.join(SPEC, "lang"), workers=8, timeout=1800, heap="4g")
    tlc_must_pass(r, "DoraFloat.cfg")
    ctx.tlc_stats(r, "DoraFloat (one state per row; laws of the definitions)")
    rows = float_render.load_rows(r.out)
    if len(rows) != r.distinct:
        raise ToolError(f"DoraFloat: {len(rows)} rows for {r.distinct} states")
    programs, vs = float_render.programs(rows)
    ctx.extra["float"] = {"rows": len(rows), "operands": len(vs), "programs": sorted(programs)}
    names = sorted(programs)
    if ctx.quick:      # all run-time programs, the literal programs of one width (seeded)
        keep = 64 if ctx.seed % 2 else 32
        names = [n for n in names if not n.startswith("const_") or n.endswith(str(keep))]
    for name in names:
        src, expected = programs[name]
        path = os.path.join(ctx.work, f"float_{name}.dora")
        open(path, "w").write(src)
        for backend in ("cannon", "boots"):
            exe = os.path.join(ctx.work, f"float_{name}_{backend}")
            b, msg = progs.compile_prog(path, exe, backend=backend, timeout=900)
            if b is None:
                if "error:" in msg and "panicked" not in msg and "unreachable" not in msg and "failed" not in msg.split("error:")[0]:
                    first = msg[msg.index("error:"):][:400]
                    raise ToolError(f"float program {name} is rejected by the front end (renderer bug): {first}")
                tail = " | ".join(l for l in msg.splitlines() if l.strip() and not l.startswith("/usr/bin/ld"))[-700:]
                ctx.violation(f"[{backend}] the code generator fails on the well-typed float program `{name}`: {tail}",
                              {"program": name, "backend": backend, "source_file": path, "message": msg[-3000:]}, key=f"float-compile:{name.split('_')[0]}:{backend}")
                continue
            rr = progs.run_prog(exe, timeout=300)
            ctx.add("float_program_runs")
            if rr.rc != 0 or rr.timed_out:
                ctx.violation(f"[{backend}] float program `{name}` ends with {rr.ending()}; stderr {rr.err[-300:]!r}",
                              {"program": name, "backend": backend, "source_file": path}, key=f"float-run:{name.split('_')[0]}:{backend}")
                continue
            diffs = float_render.compare(expected, rr.out.splitlines())
            ctx.add("float_rows_compared", sum(len(e.split(" ")[-1]) if isinstance(e, str) else len(e[1]) for e in expected))
            for tag, pos, exp, got in diffs[:6]:
                ctx.violation(f"[{backend}] float semantics: `{tag}` position {pos} (operand index / pair index in the value list {[float_render.lit(v, 64) for v in vs]}): "
                              f"spec {exp} program {got} (program {name})",
                              {"program": name, "backend": backend, "tag": tag, "position": pos, "expected": exp, "observed": got, "source_file": path},
                              key=f"float:{tag.replace(' ', ':')}:{backend}")
            if not diffs:
                ctx.add("traces_validated_against_impl")


def run(ctx):
    build_repo(boots=True)
    float_part(ctx)
    both = [("cannon", None), ("boots", None)]
    if ctx.quick:
        plan = [(ctx.seed * 100 + 1, 50, None, both, ("",)), (ctx.seed * 100 + 2, 40, None, both, ("",))]
    else:
        plan = [(ctx.seed * 100 + i, 80, None, both, ("",)) for i in range(1, 13)]
        plan += [(ctx.seed * 100 + 50, 60, None, [("cannon", "copy"), ("boots", "sweep")], ("", "--gc-stress"))]
    totals, fails = run_plan(ctx, plan, CATS, "semantics")
    if totals["ok"] == 0:
        raise ToolError("no case was judged ok: " + str(dict(totals)))
    ctx.assumptions += ["a compile failure of a generated program is C05's concern and only counted here",
                        "unflushed-output and trap-report mismatches are C14's concern and not reported here"]


def replay(ctx, path):
    import json
    log(json.dumps(json.load(open(path)))[:6000])
