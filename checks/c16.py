"""C16 - the syntax tree loses nothing of the text.

spec/codec/ParseEvents.tla: the parser's event protocol (cursor, pending trivia, Advance/Open/Close) - TLC checks
"nothing lost, nothing twice" (emitted + pending = consumed), balance and completeness at the end for every token-kind
string up to a bound under every sequence of primitives, in the faithful layer (exact trivia-adoption counts of the
code) and the property layer (any adoption). I->S: the hooked parser records every primitive of real parses
(repository files, line-ending / multi-byte / token-level mutants); ParseEventsTrace.tla validates the logs line by line;
the harness checks the projection of the real tree: lexer partition, tree text = input, every node's length = sum of
its children, children tile their parent's range, spans inside ranges, error spans inside the text.
"""
import json, os, random, sys
from common import *
from checks.c20 import harness_json, corpus_files
sys.path.insert(0, os.path.join(VERIF, "gen"))
import text_mutants

LEVEL = "model_checking"
MANIFEST = dict(
    technique="TLA+ spec ParseEvents.tla model-checked by TLC (all token-kind strings up to a bound x all primitive sequences); the "
              "primitive logs of real parses validated against ParseEventsTrace.tla (impl->spec); structural tree checks on every input",
    text="The event protocol is explored exhaustively for strings of up to 4 (thorough 5) tokens over six token kinds; every real "
         "parse of the sampled corpus (quick ~700 texts incl. mutants; thorough the whole corpus; CRLF / CR / mixed line endings) and of every token soup must keep "
         "the lossless-tree invariants, and the recorded primitives of a capped batch (60 k, thorough 600 k) must be exactly the "
         "steps the faithful specification allows (trivia-adoption counts recomputed by the spec from the token kinds).",
    note="Trusted: TLC; the abstraction of tokens to six kinds (code / whitespace / newline / line comment / block comment with or "
         "without newline); the hook records the parser's own counters.",
    ref="4/C16")
CODEC = os.path.join(SPEC, "codec")


def make_inputs(ctx, nfiles, nmut):
    files = corpus_files()
    rng = random.Random(ctx.seed)
    pick = files if nfiles >= len(files) else rng.sample(files, nfiles)
    vdir = os.path.join(ctx.work, "inputs")
    os.makedirs(vdir, exist_ok=True)
    listing = []
    for i, f in enumerate(pick):
        listing.append(f)
        try:
            text = open(f, encoding="utf8").read()
        except Exception:
            continue
        if len(text) > 40000:
            continue
        vs = text_mutants.line_endings(text, rng) if i % 3 == 0 else []
        vs += text_mutants.mutants(text, rng, nmut)
        for k, (tag, t) in enumerate(vs):
            p = os.path.join(vdir, f"{i}_{k}_{tag}.dora")
            open(p, "w", encoding="utf8", newline="").write(t)
            listing.append(p)
    return listing


def run(ctx):
    build_harness()
    for cfg in ["ParseEvents_mc.cfg", "ParseEvents_mcP.cfg"] + ([] if ctx.quick else ["ParseEvents_mc5.cfg"]):
        r = tlc("ParseEvents", cfg=cfg, cwd=CODEC, workers=16, timeout=3000, heap="12g")
        tlc_must_pass(r, cfg)
        ctx.tlc_stats(r, cfg)
    listing = make_inputs(ctx, 200 if ctx.quick else 100000, 2 if ctx.quick else 1)
    lf = os.path.join(ctx.work, "files.txt")
    open(lf, "w").write("\n".join(listing) + "\n")
    trace = os.path.join(ctx.work, "parse.ndjson")
    cap = 60000 if ctx.quick else 600000
    recs = harness_json([VH, "parse", lf, trace, cap], timeout=1800)
    s = recs[-1]
    ctx.add("texts_parsed", s["files"])
    ctx.add("primitives_recorded", s["primitives"])
    for m in recs[:-1]:
        path = m["path"]
        txt = open(path, encoding="utf8", errors="replace").read()
        if m["kind"] == "panic":
            # no tree was produced: the crash itself is C06's concern; counted here
            ctx.add("parser_panics_left_to_C06")
            continue
        else:
            ctx.violation(f"lossless-tree invariant broken for {path}: {m['problems'][:3]}", {"path": path, "text": txt[:20000], "problems": m["problems"]},
                          key="tree:" + m["problems"][0].split(" ")[0])
    # TLC validation in chunks of <= 150k lines (split on file boundaries)
    lines = open(trace).read().splitlines()
    chunks, cur = [], []
    for ln in lines:
        cur.append(ln)
        if ln == '{"k":"end"}' and len(cur) > 120000:
            chunks.append(cur); cur = []
    if cur:
        chunks.append(cur)
    nfiles_validated = 0
    for ci, ch in enumerate(chunks):
        p = os.path.join(ctx.work, f"chunk{ci}.ndjson")
        open(p, "w").write("\n".join(ch) + "\n")
        r = tlc("ParseEventsTrace", cfg="ParseEventsTrace.cfg", cwd=CODEC, workers=1, timeout=3000, env={"TRACE": p}, heap="8g")
        ctx.tlc_stats(r, f"trace validation chunk {ci} ({len(ch)} lines)")
        if r.timed_out:
            raise ToolError("trace validation timed out")
        if r.ok:
            nfiles_validated += sum(1 for x in ch if x == '{"k":"end"}')
            continue
        msg = " ".join(l for l in r.out.splitlines() if "REJECTED" in l or "violated" in l)[:500]
        rp = tlc("ParseEventsTrace", cfg="ParseEventsTraceP.cfg", cwd=CODEC, workers=1, timeout=3000, env={"TRACE": p}, heap="8g")
        if rp.ok:
            ctx.model_drift("ParseEventsTrace (trivia adoption policy)", msg)
        else:
            ctx.violation(f"recorded parser primitives violate the event protocol: {msg}", {"chunk": p}, key="protocol")
    ctx.add("traces_validated_against_impl", nfiles_validated)
    # token soups (every sequence of <= k token texts x 8 contexts x {blank-separated, line breaks of mixed styles}): tree checks
    recs = harness_json([VH, "soup", 2 if ctx.quick else 3], timeout=3000)
    ctx.add("soup_texts_parsed", recs[-1]["inputs"])
    for m in recs[:-1]:
        if m["what"].startswith("tree"):
            ctx.violation(f"token soup: {m['what']} ({m['count']} inputs), e.g. {m['example']!r}", m, key="soup-tree")
    # negative control: one corrupted counter must be rejected
    if chunks:
        ch = list(chunks[0][:4000])
        k = next((i for i, x in enumerate(ch) if x.startswith('{"k":"p","r":[2,')), None)
        if k is not None:
            r0 = json.loads(ch[k]); r0["r"][3] += 1; ch[k] = json.dumps(r0, separators=(",", ":"))
            end = max(i for i, x in enumerate(ch) if x == '{"k":"end"}') if '{"k":"end"}' in ch else len(ch) - 1
            p = os.path.join(ctx.work, "neg.ndjson")
            open(p, "w").write("\n".join(ch[:end + 1]) + "\n")
            rn = tlc("ParseEventsTrace", cfg="ParseEventsTrace.cfg", cwd=CODEC, workers=1, timeout=600, env={"TRACE": p}, heap="4g")
            ctx.extra["negative_controls"] = [{"control": "advance count + 1", "rejected": not rn.ok}]
            if rn.ok:
                raise ToolError("negative control accepted: ParseEventsTrace is vacuous")
    ctx.sample({"line": '{"k":"p","r":[2, idx, leading, advances]}', "meaning": "raw_advance(false): all pending trivia and the token are emitted"})


def panic_class(msg):
    import re
    return re.sub(r"[^A-Za-z_.()> ]", "", msg)[:60].strip().replace(" ", "_")


def replay(ctx, path):
    log(open(path).read()[:6000])
