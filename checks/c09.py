"""C09 - mutexes, conditions, joins and atomics keep their promises in every interleaving.

1. spec/conc/BcSync.tla: TLC interprets the real bytecode of std::thread (Mutex, Condition), dumped from the
   current tree, over the WaitLists / atomic-register actions and model-checks three drivers (3 threads on one
   mutex; consumers + producer over a condition with notify_one / notify_all): mutual exclusion, std's asserts,
   deadlock freedom (= no lost wake-up) and termination under fairness - every interleaving.
2. Real workloads (counter under lock, permits, bounded queue, atomics, join) x {baseline, optimizing} x
   collectors x gc-stress: output must equal the computed expectation, no hang; the event log (markers from the
   workload + wait-table hooks of the runtime) is validated by TLC against SyncTrace.tla (critical sections do
   not overlap, queue discipline, a thread leaves block only after a wake-up, join after finish).
"""
import json, os, sys
from common import *
import progs, bcdump
from checks.c12 import validate_trace
sys.path.insert(0, os.path.join(VERIF, "gen"))
import sync_workloads

LEVEL = "model_checking"
MANIFEST = dict(
    technique="TLC model-checks a TLA+ bytecode-machine spec (BcSync.tla) instantiated with the real bytecode of std::thread "
              "dumped from the current tree, over WaitLists/atomic actions; event logs of real multi-threaded workloads are "
              "validated against SyncTrace.tla (impl->spec)",
    text="Every interleaving of the shared accesses of the real Mutex/Condition bytecode for 3 threads (mutex rounds; "
         "consumers + producer with notify_one and notify_all) is explored by TLC: mutual exclusion, the library's own asserts, "
         "no lost wake-up (deadlock freedom) and termination. The runtime half (wait table, blocking flags, joins, atomics as "
         "compiled) is bound by trace validation and expected-output checks of real executables on both code generators, "
         "moving collectors and gc-stress.",
    note="Trusted: TLC; the transcription of the six natives (wait/notify/enqueue/block/wakeup_one/wakeup_all) and of the atomic "
         "intrinsics as single steps; the bytecode machine covers the ~20 opcodes std::thread uses (anything else is reported as "
         "uncovered, exit 2); real-executable schedules are those the OS produces; atomics are checked through conservation "
         "invariants of the workloads, not by a linearizability search.",
    ref="4/C09")
CONC = os.path.join(SPEC, "conc")


def run(ctx):
    build_repo(boots=True)
    bc, fns = bcdump.dump(ctx.work)
    ctx.extra["bytecode"] = {k: len(v) for k, v in fns.items()}
    scen = [("mutex", 3, 1), ("cond_one", 3, 2), ("cond_all", 3, 2)]
    if not ctx.quick:
        scen += [("mutex", 3, 2), ("cond_one", 4, 3), ("cond_all", 4, 3), ("mutex", 4, 1)]
    for name, n, r in scen:
        cfg = os.path.join(CONC, f"_BcSync_{name}_{n}_{os.getpid()}.cfg")
        open(cfg, "w").write(open(os.path.join(CONC, f"BcSync_{name}.cfg")).read().replace("N = 3", f"N = {n}").replace("R = 2", f"R = {r}"))
        try:
            res = tlc("BcSync", cfg=os.path.basename(cfg), cwd=CONC, workers=16, timeout=1500 if ctx.quick else 6000,
                      env={"BC": bc}, heap="12g")
        finally:
            os.remove(cfg)
        ctx.tlc_stats(res, f"BcSync {name} N={n} R={r} over the real bytecode")
        log(f"BcSync {name} N={n}: {res.distinct} states {res.seconds:.0f}s ok={res.ok}")
        if res.timed_out:
            raise ToolError(f"BcSync {name} timed out")
        if not res.ok:
            if "UNSUPPORTED bytecode" in res.out or res.violation is None or res.violation.startswith("error:") and "Assert" not in res.out:
                raise ToolError("BcSync cannot interpret the current bytecode of std::thread (uncovered): " + res.out[-1500:])
            tail = res.out[res.out.find("Error:"):][:6000]
            ctx.violation(f"the bytecode of std::thread violates AbstractSync in scenario {name} (N={n}): {res.violation}",
                          {"scenario": name, "tlc_counterexample": tail}, key=f"bcsync-{name}")
    ctx.sample({"scenario": "cond_one", "driver": "2 consumers: lock; while permits=0 {cond.wait}; permits--; unlock | producer: 2x {lock; permits++; unlock; notify_one}"})

    # real workloads
    seeds = [ctx.seed * 10 + k for k in range(1 if ctx.quick else 4)]
    gcs = [None, "copy"] if ctx.quick else [None, "copy", "sweep"]
    flagsets = ["", "--gc-stress"] if ctx.quick else ["", "--gc-stress", "--gc-stress-minor", "--gc-worker=4"]
    nrun = 0
    good = []
    for seed in seeds:
        for kind in range(len(sync_workloads.KINDS)):
            src_text, expected, meta = sync_workloads.program(seed * 7 + kind, kind)
            src = os.path.join(ctx.work, f"w{seed}_{kind}.dora")
            open(src, "w").write(src_text)
            for bi, backend in enumerate(("cannon", "boots")):
                for gi, gc in enumerate(gcs):
                    if ctx.quick and (bi, gi) != ((kind + seed) % 2, (kind // 2 + seed) % 2):
                        continue
                    exe = os.path.join(ctx.work, f"w{seed}_{kind}_{backend}_{gc}")
                    b, msg = progs.compile_prog(src, exe, backend=backend, gc=gc)
                    if b is None:
                        raise ToolError(f"workload {meta} does not compile ({backend}, {gc}): {msg}")
                    for fi, flags in enumerate(flagsets):
                        if "gc-stress" in flags and meta["kind"] in ("atomics",) and meta.get("rounds", 0) > 150:
                            pass
                        trace = exe + f"_{fi}.ndjson"
                        what = f"workload {meta} backend={backend} gc={gc or 'default'} flags='{flags}'"
                        r = progs.run_prog(exe, flags=flags, env={"DORA_VERIF_TRACE": trace}, timeout=120, deadlock_s=8)
                        if r.timed_out:
                            first = "all threads asleep without cpu use for 8 s" if r.deadlock else "no completion within 120 s"
                            r = progs.run_prog(exe, flags=flags, env={"DORA_VERIF_TRACE": trace}, timeout=300, deadlock_s=20)
                            if r.timed_out:
                                ctx.violation(f"{what}: hang (lost wake-up / deadlock): {first}; re-run: " +
                                              ("all threads asleep without cpu use for 20 s" if r.deadlock else "no completion within 300 s"),
                                              {"source": src_text, "flags": flags, "backend": backend, "gc": gc}, key="hang:" + meta["kind"])
                                continue
                        nrun += 1
                        if r.rc != 0 or r.out != expected:
                            ctx.violation(f"{what}: expected {expected!r}, got {r.out[-200:]!r} ({r.ending()}) stderr {r.err[-300:]!r}",
                                          {"source": src_text, "flags": flags, "backend": backend, "gc": gc, "expected": expected, "observed": r.out},
                                          key="output:" + meta["kind"])
                            continue
                        good.append((trace, what, src_text, flags, backend, gc, meta))
    # one TLC run over all recorded runs (separated by reset records); per-trace runs only to localise a rejection
    allp = os.path.join(ctx.work, "all.ndjson")
    with open(allp, "w") as f:
        for g in good:
            f.write('{"t":0,"ph":"X","ev":"reset"}\n')
            f.write(open(g[0]).read())
    nev = sum(1 for _ in open(allp))
    tr = validate_trace("SyncTrace", "SyncTrace.cfg", allp, timeout=1800)
    ctx.tlc_stats(tr, f"trace validation of {len(good)} recorded runs ({nev} events)")
    if tr.ok:
        ctx.add("traces_validated_against_impl", len(good))
        ctx.add("trace_events", nev)
    else:
        for trace, what, src_text, flags, backend, gc, meta in good:
            t1 = validate_trace("SyncTrace", "SyncTrace.cfg", trace, timeout=600)
            if t1.ok:
                ctx.add("traces_validated_against_impl", 1)
                continue
            msg = " ".join(l for l in t1.out.splitlines() if "REJECTED" in l or "violated" in l)[:500]
            tp = validate_trace("SyncTrace", "SyncTraceP.cfg", trace, timeout=600)
            if tp.ok:
                ctx.model_drift("SyncTrace (queue discipline) " + what, msg)
            else:
                ctx.violation(f"{what}: recorded run violates AbstractSync: {msg}",
                              {"source": src_text, "flags": flags, "backend": backend, "gc": gc,
                               "trace_tail": open(trace).read()[-20000:]}, key="trace:" + meta["kind"])
    ctx.add("workload_runs", nrun)
    # binding demonstration on the last good trace
    if not ctx.violations:
        demo_negative_controls(ctx)
    ctx.assumptions += ["sequentially consistent memory", "one mutex and one condition object per model-checked scenario",
                        "workload schedules are those the OS produces (plus gc-stress); exhaustiveness is in BcSync"]


def demo_negative_controls(ctx):
    src_text, expected, meta = sync_workloads.program(ctx.seed * 7 + 1, 1)
    src = os.path.join(ctx.work, "neg.dora")
    open(src, "w").write(src_text)
    exe = os.path.join(ctx.work, "neg")
    b, msg = progs.compile_prog(src, exe, backend="cannon")
    if b is None:
        raise ToolError(msg)
    trace = exe + ".ndjson"
    progs.run_prog(exe, env={"DORA_VERIF_TRACE": trace}, timeout=120)
    lines = open(trace).read().splitlines()
    res = []
    k = next((i for i, l in enumerate(lines) if '"wakeup"' in l and '"woken":0' not in l), None)
    if k is not None:
        p = os.path.join(ctx.work, "neg_drop.ndjson")
        open(p, "w").write("\n".join(lines[:k] + lines[k + 1:]) + "\n")
        res.append({"control": "drop_wakeup_event", "rejected": not validate_trace("SyncTrace", "SyncTrace.cfg", p).ok})
    k = next((i for i, l in enumerate(lines) if '"m":"rel"' in l), None)
    if k is not None:
        p = os.path.join(ctx.work, "neg_rel.ndjson")
        open(p, "w").write("\n".join(lines[:k] + lines[k + 1:]) + "\n")
        res.append({"control": "drop_release_marker", "rejected": not validate_trace("SyncTrace", "SyncTrace.cfg", p).ok})
    ctx.extra["negative_controls"] = res
    for x in res:
        if not x["rejected"]:
            raise ToolError("negative control accepted: " + x["control"])


def replay(ctx, path):
    log(open(path).read()[:6000])
