"""C05 - only well-typed programs are compiled, and all of them are.

spec/lang/DoraTypes.tla: the static semantics of the explicitly typed core the generator emits (expression typing from the
declarations, argument counts and types, known names, assignment only to `let mut`, a value on every path that ends a
function, exhaustive matches). Rejection half: ONE unlabelled edit is applied to the AST of a well-typed generated module
(type mismatch in 12 kinds of position, dropped / extra argument, unknown variable / function / field / variant, `mut`
removed, function result removed, match arm removed); TLC decides whether the result is still well typed (one state per
module); the real checker (in-process check_program, diagnostics attributed to modules by line) must agree in BOTH
directions. Acceptance half: every generated module is accepted, its bytecode is emitted, and both code generators
build it (an internal compiler error on a well-typed program is a violation).
"""
import collections, json, os, random, re, sys
from common import *
import progs, dsem
from checks.c20 import harness_json
sys.path.insert(0, os.path.join(VERIF, "gen"))
import dsem_gen, dtypes

LEVEL = "model_checking"
MANIFEST = dict(
    technique="TLA+ spec DoraTypes.tla (type checker over the generated AST) evaluated by TLC on every original and every single-edit "
              "mutant; verdicts replayed into the real front end (in-process diagnostics by module, driver exit status) and both code "
              "generators",
    text="For each run ~60 (thorough ~600) generated modules and ~3 unlabelled single-edit mutants each are judged by the specification "
         "and by the real checker; disagreement in either direction (ill-typed accepted / well-typed rejected) is a violation, as is any "
         "internal error of a code generator on an accepted module. The mutator's own expectation is used only to detect errors of the "
         "specification (exit 2), never as the verdict.",
    note="Trusted: TLC; generator renders source and AST from one tree; the modelled subset (no generics, traits, visibility or "
         "trait-bound rules yet); diagnostics are attributed to modules by line.",
    ref="4/C05")
LANG = os.path.join(SPEC, "lang")


def module_ranges(src):
    out = {}
    cur = None
    for i, l in enumerate(src.splitlines(), 1):
        m = re.match(r"mod (\w+) \{", l)
        if m:
            cur = m.group(1); out[cur] = [i, i]
        elif l == "}" and cur:
            out[cur][1] = i; cur = None
    return out


def judge_types(ctx, exported, tag):
    path = os.path.join(ctx.work, tag + ".ndjson")
    open(path, "w").write("\n".join(json.dumps(x) for x in exported) + "\n")
    r = tlc("DoraTypes", cfg="DoraTypes.cfg", cwd=LANG, workers=8, timeout=3000, env={"CASES": path}, heap="8g")
    v = {}
    for l in r.out.splitlines():
        if l.startswith('"{'):
            d = json.loads(json.loads(l)); v[d["id"]] = d["v"]
    if len(v) != len(exported):
        raise ToolError(f"DoraTypes judged {len(v)} of {len(exported)} cases:\n" + r.out[-3000:])
    ctx.tlc_stats(r, f"DoraTypes judges {len(exported)} modules ({tag})")
    return v


def check_batch(ctx, cases, verdicts, descs, tag):
    """render the modules into one file, run the real checker, compare per module"""
    # modules of more than 1000 lines are left out here: one such generated module overflows the front end's stack (the driver's
    # too) - that crash is C06's finding (known/C06/generated_module_stack_overflow.dora); here it would end the whole batch
    big = [c for c in cases if len(dsem_gen.render([c]).splitlines()) > 1000]
    if big:
        ctx.add("modules_left_out_over_1000_lines", len(big))
        cases = [c for c in cases if c not in big]
    src = dsem_gen.render(cases)
    path = os.path.join(ctx.work, tag + ".dora")
    open(path, "w").write(src)
    lst = os.path.join(ctx.work, tag + ".txt")
    open(lst, "w").write(path + "\n")
    try:
        rec = harness_json([VH, "sema", lst], timeout=1800)[0]
    except ToolError as ex:
        if "overflowed its stack" in str(ex) or "rc=-6" in str(ex):
            # the front end itself overflows its stack on this batch (the driver does too): a crash of the code under test, not of
            # the machinery; the batch stays unjudged
            ctx.add("batches_unjudged_front_end_stack_overflow")
            ctx.violation(f"the front end overflows its stack on the batch {tag} ({len(cases)} generated modules, {len(src.splitlines())} lines): no verdicts for this batch",
                          {"source_file": path}, key="frontend-abort:stack-overflow")
            return
        raise
    if "panic" in rec:
        ctx.violation(f"the checker panicked on the batch {tag}: {rec['panic'][:300]}", {"source_file": path}, key="checker-panic")
        return
    ranges = module_ranges(src)
    errs = collections.defaultdict(list)
    for e in rec["errors"]:
        for mid, (a, b) in ranges.items():
            if a <= e["line"] <= b:
                errs[mid].append(e); break
        else:
            raise ToolError(f"diagnostic outside every module: {e}")
    lines = src.splitlines()
    for c in cases:
        mid = c.id
        spec = verdicts[mid]
        impl = "err" if errs.get(mid) else "ok"
        ctx.add("traces_validated_against_impl")
        if spec != impl:
            a, b = ranges[mid]
            text = "\n".join(lines[a - 1:b])
            d = descs.get(mid, {"class": "original"})
            if spec == "err":
                ctx.violation(f"ill-typed module accepted ({d}):\n{text[:1500]}", {"edit": d, "source": text}, key=f"accepted-ill-typed:{d.get('class')}:{d.get('where')}")
            else:
                ctx.violation(f"well-typed module rejected ({d}): {[e['desc'] for e in errs[mid]][:3]}\n{text[:1500]}",
                              {"edit": d, "source": text, "diagnostics": errs[mid][:5]}, key=f"rejected-well-typed:{d.get('class')}")


def run(ctx):
    build_harness()
    build_repo(boots=True)
    rng = random.Random(ctx.seed)
    ncases = 60 if ctx.quick else 300
    cases = dsem_gen.generate_cases(ctx.seed * 100 + 5, ncases)
    exported, descs, muts = [], {}, []
    for i, c in enumerate(cases):
        c.id = f"o{i}"
        exported.append(dtypes.Export(c).case(c.id))
        nm = 3 if ctx.quick else 5
        for k in range(nm + 1):
            # the last one is always an arm removal (if the module has a match): exhaustiveness in every position a match can take
            m = dtypes.mutate(c, rng) if k < nm else dtypes.mutate(c, rng, kind="arm")
            if m:
                mc, d = m
                mc.id = f"m{i}_{k}"
                muts.append(mc); descs[mc.id] = d
                exported.append(dtypes.Export(mc).case(mc.id))
    verdicts = judge_types(ctx, exported, "types")
    # the specification must accept every unmutated module and agree with definite labels (else the machinery is wrong)
    bad_spec = [c.id for c in cases if verdicts[c.id] != "ok"] + [m.id for m in muts if descs[m.id]["label"] == "ill" and verdicts[m.id] != "err"]
    if bad_spec:
        raise ToolError(f"DoraTypes disagrees with the generator/mutator on {bad_spec[:5]} (specification bug, not a verdict)")
    ctx.extra["mutants"] = {"total": len(muts), "spec_err": sum(1 for m in muts if verdicts[m.id] == "err"),
                            "spec_ok": sum(1 for m in muts if verdicts[m.id] == "ok"),
                            "by_class": dict(collections.Counter(descs[m.id]["class"] for m in muts))}
    arm = [m for m in muts if descs[m.id]["class"] == "non-exhaustive-match"]
    other = [m for m in muts if descs[m.id]["class"] != "non-exhaustive-match"]
    check_batch(ctx, cases + other, verdicts, descs, "batchA")
    check_batch(ctx, cases[: len(cases) // 2] + arm, verdicts, descs, "batchB")
    ctx.sample({"edit": descs[muts[0].id], "spec_verdict": verdicts[muts[0].id]})
    # driver: an ill-typed program must fail without writing a package
    ill = [m for m in other if verdicts[m.id] == "err"][:3]
    for m in ill:
        p = os.path.join(ctx.work, m.id + ".dora")
        open(p, "w").write(dsem_gen.render([m]))
        pkg = os.path.join(ctx.work, m.id + ".pkg")
        r = sh([DORA, "compile", "-c", p, "-o", pkg], timeout=120, cwd=VERIF)
        if r.returncode == 0 or os.path.exists(pkg):
            ctx.violation(f"`dora compile -c` succeeded (rc={r.returncode}) / wrote a package for an ill-typed program ({descs[m.id]})", {"source_file": p}, key="driver-accepted")
    # acceptance half: bytecode emission + both code generators
    def src_fn(idxs):
        return dsem_gen.render_subset(cases, idxs)
    for backend in ("cannon", "boots"):
        failures = []
        built = dsem.compile_with_bisect(src_fn, list(range(len(cases))), ctx.work, "accept", backend, None, failures)
        ctx.add("modules_built_" + backend, sum(len(x[2]) for x in built))
        for f in failures:
            msg = f["message"]
            site = re.search(r"\(/repo/(pkgs/boots/[\w/]+\.dora:\d+)", msg) or re.search(r"panicked at ([\w/.-]+:\d+)", msg)
            cls = site.group(1) if site else "unknown"
            first = next((l for l in msg.splitlines() if l and not l.startswith((" ", "warning", "-->"))), "")[:100]
            ctx.violation(f"well-typed module {f['case']} is rejected by the {backend} code generator: {first} at {cls}",
                          {"source_file": f["source_file"], "message": msg[-3000:]}, key=f"internal-error:{backend}:{cls}")
    ctx.assumptions += ["visibility, generics, trait bounds and impl completeness are not in the modelled subset yet"]


def replay(ctx, path):
    log(open(path).read()[:6000])
