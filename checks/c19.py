"""C19 - distinct functions get distinct, valid linker symbols.

spec/codec/Mangle.tla: escape / prefix / cap shape; TLC proves round trip (=> injectivity), charset, length
formula, "_H" marker exclusivity and the capped shape for every byte string up to MaxLen, and emits the expected
symbol of every name plus the demangling verdict of every small symbol text; the real mangle_name /
demangle_name are compared with both tables (exhaustive small scope). Cap laws on long names; symbol-table
invariants on the .globl sets of compiled programs (deeply nested generic instantiations included).
"""
import json, os, re
from common import *
from checks.c20 import harness_json
import progs

LEVEL = "model_checking"
MANIFEST = dict(
    technique='TLA+ spec Mangle.tla: TLC proves round trip (injectivity), charset, length formula and capped shape for every byte string up to a length bound and emits expected symbols / demangling verdicts; real mangle_name/demangle_name compared with them (exhaustive small scope); cap laws on long names; .globl sets of compiled programs validated',
    text="Small-scope exhaustive over an 11-byte alphabet (all names up to length 3/4, all symbol texts up to length 4/5): the spec decides the expected symbol and the demangler's accept/reject verdict; the implementation must agree on every one. Length cap: shape, determinism, prefix preservation and pairwise distinctness on 2880 long names per run; symbol sets of compiled generic programs (both back ends; the boots compiler itself in the thorough tier) are checked for uniqueness, charset and length.",
    note='Trusted: TLC; the 128-bit FNV hash is outside the model (only shape/determinism/distinctness on explored sets).',
    ref='4/C19')
CODEC = os.path.join(SPEC, "codec")

GENERIC_PROG = open(os.path.join(VERIF, "gen", "generic_symbols.dora")).read()


def check_symbols(ctx, sfile, what):
    text = open(sfile, errors="replace").read()
    globl = re.findall(r"^\s*\.globl\s+(\S+)", text, re.M)
    labels = re.findall(r"^([A-Za-z_.$][\w.$]*):", text, re.M)
    from collections import Counter
    dup = [s for s, c in Counter(globl).items() if c > 1]
    duplab = [s for s, c in Counter(labels).items() if c > 1]
    bad = []
    for s in globl:
        if not re.fullmatch(r"[A-Za-z0-9_]+", s):
            bad.append(("charset", s))
        if s.startswith("dora_") and len(s) > 200:
            bad.append(("too_long", s))
    ctx.add("symbols_in_artifacts", len(globl))
    ctx.add("shortened_symbols_in_artifacts", sum(1 for s in globl if re.search(r"_H[0-9A-F]{32}$", s)))
    for s in dup:
        # a duplicate whose only type arguments are equally named types of different modules is its own class
        same = what.startswith("same_named_types")
        ctx.violation(f"{what}: symbol defined twice in one program: {s}", {"artifact": what, "symbol": s},
                      key="dup-symbol:same-named-types-of-different-modules" if same else "dup-symbol")
    for s in duplab:
        if s in dup:
            continue
        ctx.violation(f"{what}: label defined twice in one program: {s}", {"artifact": what, "symbol": s}, key="dup-label")
    for k, s in bad[:5]:
        ctx.violation(f"{what}: invalid symbol ({k}): {s}", {"artifact": what, "symbol": s}, key="artifact-" + k)
    return globl


def run(ctx):
    build_harness()
    n = 3 if ctx.quick else 4
    rows = os.path.join(ctx.work, "rows.txt")
    with open(rows, "w") as f:
        for mode, k in (("names", n), ("symbols", n + 1)):
            r = tlc("Mangle", cfg=f"Mangle_{mode}{k}.cfg", cwd=CODEC, workers=8, timeout=3000, heap="8g")
            tlc_must_pass(r, f"Mangle {mode} MaxLen={k}")
            ctx.tlc_stats(r, f"Mangle {mode} MaxLen={k}")
            f.write(r.out)
    recs = harness_json([VH, "mangle", rows, ctx.seed])
    s = recs[-1]
    ctx.add("traces_validated_against_impl", s["names"] + s["symbols"])
    ctx.extra["harness"] = s
    ctx.sample({"name": "std::fatal_error[()]", "symbol": "dora_std_3A_3Afatal_5Ferror_5B_28_29_5D"})
    for m in recs[:-1]:
        c = m["case"]
        ctx.violation(f"mangling disagrees with the specification: {json.dumps(c)[:400]}", c, key=f"{c.get('what')}")

    # symbol tables of compiled programs
    build_repo(boots=True)
    src = os.path.join(ctx.work, "generic.dora")
    open(src, "w").write(GENERIC_PROG)
    src2 = os.path.join(ctx.work, "same_named_types.dora")
    open(src2, "w").write(open(os.path.join(VERIF, "gen", "same_named_types.dora")).read())
    todo = [(src, "cannon"), (src, "boots"), (src2, "cannon")]
    if not ctx.quick:
        todo += [(os.path.join(REPO, "pkgs/boots/boots.dora"), "boots-self")]
    for path, backend in todo:
        out = os.path.join(ctx.work, os.path.basename(path).replace(".dora", "") + "_" + backend)
        if backend == "boots-self":
            p = sh([DORA, "compile", "--internal-compile-boots", "--cannon", "-S", path, "-o", out], timeout=1200, cwd=VERIF)
            ok = p.returncode == 0
            msg = p.stderr[-2000:]
        else:
            b, msg = progs.compile_prog(path, out, backend=backend, emit_s=True)
            ok = b is not None
        if not ok:
            raise ToolError(f"compiling {path} with {backend} failed: {msg}")
        sfile = out + ".s" if os.path.exists(out + ".s") else out
        g = check_symbols(ctx, sfile, f"{os.path.basename(path)} [{backend}]")
        # un-shortened function symbols must demangle (harness reuses the demangler through the rows format)
        ctx.sample({"artifact": f"{os.path.basename(path)} [{backend}]", "globl": len(g), "longest": max(g, key=len) if g else ""}, limit=8)
    ctx.assumptions += ["the 128-bit hash of the length cap is outside the TLA+ model: shape, determinism and pairwise "
                        "distinctness are checked on the explored name sets only",
                        "names are byte strings over an 11-byte alphabet (letters, digit, '_', ':', '[', space, '$', a 2-byte character)"]


def replay(ctx, path):
    log(open(path).read()[:4000])
