"""C08 - every AArch64 instruction is encoded as the instruction that was requested.

spec/codec/A64Asm.tla: the Arm ARM's encoding diagrams (fields MSB..LSB), sp/zr operand positions, Encodable
predicates, the logical-immediate table (5334 rotated replicated runs), and which instruction every public method of
dora_asm::arm64::AssemblerArm64 requests.  A64AsmLabels.tla: label state machine (b / b.cond / cbz / tbz / adr).
1. TLC: A64AsmMC (logical-immediate table canonical, diagrams well-formed).
2. I->S: harness/va64 records calls of every instruction method (all register numbers per operand, every
   Extend/Shift/Cond, boundary + seeded random immediates, encodable or not; a panic is `refused`); A64AsmTrace.tla
   judges every record (one TLC state per record): word = spec word, refusal iff not Encodable.
3. Independence audit + adjudicator: every accepted word is disassembled with llvm-mc and compared with what the METHOD
   NAME requests (checks/c08_asm.py, written from the naming convention, not from the spec). A record the trace spec
   rejects is a violation unless llvm-mc decodes it to the requested instruction (then: model drift).
4. S->I: TLC enumerates label programs with the expected words of every branch site; va64 replays them.
"""
import collections, concurrent.futures, json, os, re, time
from common import *
from checks import c08_asm as A

LEVEL = "model_checking"
MANIFEST = dict(
    technique='TLA+ spec A64Asm.tla (Arm ARM encoding diagrams, sp/zr rules, Encodable predicates, 5334 logical immediates, label state machine) checked by TLC; recorded calls of every public method of AssemblerArm64 validated record-by-record against it (A64AsmTrace.tla); TLC-enumerated label programs replayed into the real assembler; spec and implementation audited against llvm-mc as independent decoder',
    text='Every public instruction method of dora_asm::arm64::AssemblerArm64 is called over all register numbers per operand position (0..30, zr, sp), every Extend/Shift/Cond value and boundary plus seeded random immediates/offsets/shift amounts (encodable and not). TLC judges each recorded call against the specification: an accepted call must be Encodable and carry exactly the specified word, a non-encodable call must be refused. Every accepted word is additionally disassembled by llvm-mc and compared with the instruction the method name asks for (expectation table independent of the spec), which audits the spec and adjudicates disagreements. Label programs (forward/backward references across the 14/19/21-bit offset limits) are enumerated by TLC with expected words and replayed.',
    note='Trusted: TLC, llvm-mc 14 as reference decoder, the operand units of the API (bytes vs scaled) taken from the callers. The Dora-language assembler (pkgs/boots/assembler/arm64.dora) is not covered by this check. Unconditional-branch range (128 MB) is not explored with labels.',
    ref='4/C08')
CODEC = os.path.join(SPEC, "codec")
VA64 = os.path.join(HARNESS, "target", "debug", "va64")
INFRA = {"new", "create_label", "create_and_bind_label", "bind_label", "offset", "finalize", "align_to", "position",
         "set_position", "set_position_end", "emit_u8", "emit_u32", "emit_u64", "emit_u128"}


# ------------------------------------------------------------------------------------------------ inventory
def public_methods():
    src = open(os.path.join(REPO, "dora-asm/src/arm64.rs")).read()
    out = []
    for blk in re.finditer(r"^impl AssemblerArm64 \{(.*?)^\}", src, re.M | re.S):
        out += re.findall(r"^    pub fn (\w+)", blk.group(1), re.M)
    return [m for m in out if m not in INFRA]


def bucket(v):
    if isinstance(v, list):
        v = A.u32(v) if len(v) == 2 else A.s64(v)
    s, a = ("-" if v < 0 else ""), abs(v)
    if a < 2:
        return "[%s%d..%s%d]" % (s, a, s, a)
    lo = 1 << (a.bit_length() - 1)
    return "[%s%d..%s%d]" % (s, lo, s, 2 * lo - 1)


def rec_key(rec, verdict):
    regs = "".join("z" if x == 31 else "s" if x == 32 else "-" for x in rec["r"])
    if rec["m"].startswith(("f", "scvtf", "addv", "cnt")) or re.search(r"_(d|s)$", rec["m"]):
        regs = "".join("s" if x == 32 else "-" for x in rec["r"])       # vector register 31 is an ordinary register
    return "%s:%s:%s:i=%s:r=%s" % (rec["m"], verdict, rec["x"], ",".join(bucket(v) for v in rec["i"]), regs)


# ------------------------------------------------------------------------------------------------ TLC over chunks
def judge_chunks(ctx, recfile, chunk, tag, strict=False, timeout=1500):
    lines = open(recfile).read().splitlines()
    files = []
    for k in range(0, len(lines), chunk):
        p = os.path.join(ctx.work, "%s_%03d.ndjson" % (tag, k // chunk))
        open(p, "w").write("\n".join(lines[k:k + chunk]) + "\n")
        files.append((k, p))

    def one(arg):
        n, (base, p) = arg
        time.sleep(0.15 * (n % 8))           # distinct TLC meta directories
        r = tlc("A64AsmTrace", cfg="A64AsmTrace.cfg" if strict else "A64AsmTraceCollect.cfg", cwd=CODEC, workers=1,
                timeout=timeout, env={"RECS": p}, heap="2g")
        return base, p, r
    out = []
    with concurrent.futures.ThreadPoolExecutor(max_workers=max(2, min(8, NCPU // 2))) as ex:
        for base, p, r in ex.map(one, enumerate(files)):
            out.append((base, p, r))
    return lines, out


def verdicts_of(r):
    v = {}
    for s in r.prints:
        try:
            j = json.loads(json.loads('"' + s + '"'))
        except Exception:
            continue
        if isinstance(j, dict) and "k" in j:
            v[j["k"]] = j
    return v


# ------------------------------------------------------------------------------------------------ main
def run(ctx):
    build_harness()
    t0 = time.time()
    pub = public_methods()
    p = sh([VA64, "methods"], timeout=60, check=True)
    driven = {l.split()[0]: l.split()[1] if len(l.split()) > 1 else "" for l in p.stdout.splitlines() if l.strip()}
    label_methods = {m for m, s in driven.items() if s == "L"}
    not_driven = sorted(set(pub) - set(driven))
    ctx.extra["methods"] = {"public_instruction_methods": len(pub), "driven_by_recorder": len(set(pub) & set(driven) - label_methods),
                            "driven_by_label_programs": sorted(set(pub) & label_methods), "not_driven": not_driven}
    if not_driven:
        log("C08: public methods the recorder does not drive: %s" % not_driven)

    # 1. the specification by itself (in the background, as is the enumeration + replay of label programs)
    pool = concurrent.futures.ThreadPoolExecutor(max_workers=2)
    stride = 32 if ctx.quick else 1

    def design_check():
        cfg = os.path.join(CODEC, "_A64AsmMC_%d.cfg" % os.getpid())
        open(cfg, "w").write(open(os.path.join(CODEC, "A64AsmMC.cfg")).read().replace("Stride = 1", "Stride = %d" % stride)
                             .replace("Offset = 0", "Offset = %d" % (ctx.seed % stride)))
        try:
            return tlc("A64AsmMC", cfg=os.path.basename(cfg), cwd=CODEC, workers=4, timeout=1500)
        finally:
            os.remove(cfg)
    f_mc = pool.submit(design_check)
    f_lab = pool.submit(label_programs, ctx)

    # 2. record + judge
    recfile = os.path.join(ctx.work, "records.ndjson")
    p = sh([VA64, "record", recfile, str(ctx.seed), ctx.tier], timeout=1200)
    if p.returncode != 0 or '"summary"' not in p.stdout:
        raise ToolError("va64 record failed: %s %s" % (p.stdout[-1000:], p.stderr[-2000:]))
    summ = json.loads(p.stdout.strip().splitlines()[-1])
    lines, res = judge_chunks(ctx, recfile, 9000 if ctx.quick else 25000, "chunk")
    recs = [json.loads(l) for l in lines]
    verdict = ["ok"] * len(recs)
    expected = {}
    for base, path, r in res:
        if r.timed_out:
            raise ToolError("trace validation timed out: " + path)
        if not r.ok:
            raise ToolError("trace validation failed (%s): %s\n%s" % (path, r.violation, r.out[-3000:]))
        ctx.tlc_stats(r, "A64AsmTrace %s" % os.path.basename(path))
        for k, j in verdicts_of(r).items():
            verdict[base + k - 1] = j["v"]
            expected[base + k - 1] = j.get("exp")
    for n, rec in enumerate(recs):
        if verdict[n] == "ok" and not rec["ok"]:
            verdict[n] = "ok_refused"
    cnt = collections.Counter(verdict)
    per = collections.defaultdict(collections.Counter)
    for rec, v in zip(recs, verdict):
        per[rec["m"]][v] += 1
    uncovered = sorted(m for m in per if per[m]["uncovered"])
    covered = sorted(m for m in per if not per[m]["uncovered"])
    ctx.add("traces_validated_against_impl", cnt["ok"] + cnt["ok_refused"] + cnt["ok_alt"] + cnt["over_refused"])
    ctx.add("records", len(recs))
    ctx.extra["verdicts"] = dict(cnt)
    ctx.extra["uncovered"] = uncovered
    ctx.extra["over_refused"] = {"total": cnt["over_refused"],
                                 "by_method": {m: per[m]["over_refused"] for m in sorted(per) if per[m]["over_refused"]}}
    ctx.extra["coverage_by_method"] = {m: {"records": sum(per[m].values()), "accepted_ok": per[m]["ok"] + per[m]["ok_alt"],
                                           "refused_ok": per[m]["ok_refused"]} for m in sorted(per)}
    ctx.extra["methods"].update({"covered_by_spec": len(covered), "recorded": len(per)})
    log(f"C08: {len(recs)} records of {len(per)} methods judged by TLC: {dict(cnt)}")

    # 3. llvm-mc: independence audit of spec + implementation, and adjudication
    acc = [n for n, rec in enumerate(recs) if rec["ok"]]
    flat, span = [], {}
    for n in acc:
        span[n] = (len(flat), len(recs[n]["w"]))
        flat += [A.word_of(w) for w in recs[n]["w"]]
    try:
        na = [A.canon(t) for t in A.disasm(flat, False)]
        al_raw = A.disasm(flat, True)
    except Exception as e:
        raise ToolError("llvm-mc failed: %s" % e)
    al = [A.canon(t) for t in al_raw]
    audit = collections.Counter()
    shapes = set()
    groups = collections.OrderedDict()

    def report(n, why, kind):
        rec = recs[n]
        key = rec_key(rec, kind)
        g = groups.setdefault(key, {"n": 0, "first": None})
        g["n"] += 1
        if g["first"] is None:
            a, l = span[n] if n in span else (0, 0)
            g["first"] = {"record": rec, "verdict_of_spec": verdict[n], "spec_words": expected.get(n), "why": why,
                          "llvm_mc": al_raw[a:a + l] if n in span else None,
                          "words_hex": ["%08x" % A.word_of(w) for w in rec["w"]]}
    for n in acc:
        rec = recs[n]
        a, l = span[n]
        v = verdict[n]
        if rec["m"] in A.MACROS:
            ok, why = A.check_macro(rec, na[a:a + l], al[a:a + l])
            requested = ok is True
            exists = ok is not None
        else:
            e = A.expect(rec)
            exists = e is not None and e[0] != "unknown"
            if e is not None and e[0] == "unknown":
                audit["no_expectation"] += 1
            got = (na[a] if (e and e[0] == "noalias") else al[a]) if l == 1 else None
            requested = bool(exists and got is not None and got in e[1])
            why = "llvm-mc: %s ; requested: %s" % (al_raw[a] if l == 1 else al_raw[a:a + l], sorted(e[1]) if e else "no such instruction")
            am = A.ALIAS_MNEMONIC.get(rec["m"])
            if requested and am and al_raw[a].split()[0].lower() not in (am if isinstance(am, tuple) else (am,)):
                requested = False
                why = "alias form expected %s, llvm-mc prints %s" % (am, al_raw[a])
        shapes.add((rec["m"], rec["x"], tuple(len(str(x)) for x in rec["i"])))
        if v in ("ok", "ok_alt"):
            if requested:
                audit["agree"] += 1
            else:       # spec and implementation agree with each other but not with the reference decoder
                audit["spec_and_impl_vs_llvm"] += 1
                report(n, "spec = implementation, but " + why, "audit")
        elif v == "mismatch":
            if requested:
                audit["drift"] += 1
                ctx.model_drift("A64Asm " + rec["m"], "word %s differs from the spec's %s but decodes to the requested instruction (%s)"
                                % (rec["w"], expected.get(n), why))
            else:
                report(n, "implementation word differs from the specification and " + why, "mismatch")
        elif v == "silent_accept":
            if requested:
                audit["spec_too_strict"] += 1
                ctx.model_drift("A64Asm.Encodable " + rec["m"], "spec says not encodable, llvm-mc decodes the requested instruction: " + why)
            else:
                report(n, "operands are not encodable (spec) but a word was emitted; " + why, "silent_accept")
        elif v == "uncovered":
            audit["uncovered_" + ("agree" if requested else "disagree")] += 1
            if not requested:
                report(n, "(method not in the spec) " + why, "audit")
    for key, g in groups.items():
        f = g["first"]
        ctx.violation("%s: %d record(s); first: %s(r=%s, i=%s, x=%s) -> %s; %s" % (
            key, g["n"], f["record"]["m"], f["record"]["r"], f["record"]["i"], f["record"]["x"], f["words_hex"], f["why"]),
            f, key=key)
    ctx.extra["llvm_audit"] = {"accepted_records": len(acc), "words": len(flat), "operand_shapes": len(shapes), **dict(audit),
                               "finding_classes": len(groups)}
    ctx.add("llvm_mc_words_compared", len(flat))
    for n in acc[:: max(1, len(acc) // 5)][:4]:
        a, l = span[n]
        ctx.sample({"call": {k: recs[n][k] for k in ("m", "r", "i", "x")}, "word": ["%08x" % A.word_of(w) for w in recs[n]["w"]],
                    "llvm_mc": al_raw[a:a + l], "verdict": verdict[n]})

    # negative controls: the trace spec must reject a flipped bit and an accepted non-encodable call
    negative_controls(ctx, recs, verdict)

    # 4. labels
    labels(ctx, *f_lab.result())
    r = f_mc.result()
    tlc_must_pass(r, "A64AsmMC (logical-immediate table, diagrams)")
    ctx.tlc_stats(r, "A64AsmMC stride %d" % stride)
    ctx.add("logical_immediate_triples_checked", r.distinct)
    log(f"TLC A64AsmMC: {r.distinct} triples canonical, {r.seconds:.0f}s")
    ctx.extra["seconds"] = round(time.time() - t0, 1)
    ctx.assumptions += [
        "registers are the values the API can construct: Register::new(0..30), REG_ZERO, REG_SP, NeonRegister::new(0..31)",
        "operand units (bytes vs scaled imm7, words for bl_imm/cbz_imm) are the API's contract as used by the callers",
        "CONSTRAINED UNPREDICTABLE register combinations (ldp x0, x0; write-back base = rt; stxr status = source) are the caller's business: the encoding exists",
        "debug build of dora-asm (overflow checks are panics = refusals)",
        "llvm-mc 14 is the reference decoder; for add/sub with a 32-bit stack pointer the UXTX option is accepted as the same operation as UXTW",
        "label programs: offsets up to 2^18 words; the 26-bit limit of b is not reached"]


def negative_controls(ctx, recs, verdict):
    """one TLC run over clean records + the same records with one flipped bit + an accepted non-encodable call:
    the trace spec must pass the first part and reject exactly the two corrupted records"""
    good = [n for n, rec in enumerate(recs) if verdict[n] == "ok" and rec["ok"] and len(rec["w"]) == 1][:300]
    ref = [n for n, rec in enumerate(recs) if verdict[n] == "ok_refused" and rec["m"] not in A.MACROS][:50]
    if len(good) < 50 or not ref:
        raise ToolError("not enough clean records for the negative controls")
    rnd = rng(ctx.seed, "c08-neg")
    base = [recs[n] for n in good]
    k, bit = rnd.randrange(len(base)), rnd.randrange(32)
    flipped = json.loads(json.dumps(base[k]))
    w = A.word_of(flipped["w"][0]) ^ (1 << bit)
    flipped["w"][0] = [w >> 16, w & 0xffff]
    bad = dict(recs[ref[rnd.randrange(len(ref))]])
    bad["ok"], bad["w"] = True, [[0, 0]]
    rows = base + [flipped, bad]
    p = os.path.join(ctx.work, "negative_controls.ndjson")
    open(p, "w").write("\n".join(json.dumps(x) for x in rows) + "\n")
    r = tlc("A64AsmTrace", cfg="A64AsmTraceCollect.cfg", cwd=CODEC, workers=1, timeout=600, env={"RECS": p}, heap="2g")
    tlc_must_pass(r, "negative controls")
    v = {k: j["v"] for k, j in verdicts_of(r).items()}
    rs = tlc("A64AsmTrace", cfg="A64AsmTrace.cfg", cwd=CODEC, workers=1, timeout=600, env={"RECS": p}, heap="2g") if not ctx.quick else None
    out = [{"control": "clean_records_accepted", "records": len(base), "rejected": any(x in v for x in range(1, len(base) + 1))},
           {"control": "flip_bit%d_of_%s" % (bit, flipped["m"]), "rejected": v.get(len(base) + 1) == "mismatch"},
           {"control": "accepted_nonencodable_%s" % bad["m"], "rejected": v.get(len(base) + 2) == "silent_accept"}]
    if rs is not None:
        out.append({"control": "strict_cfg_invariant_Conforms", "rejected": (not rs.ok) and "Conforms" in (rs.violation or "")})
    ctx.extra["negative_controls"] = out
    if out[0]["rejected"]:
        raise ToolError("negative controls: a clean record was rejected: %s" % v)
    for x in out[1:]:
        if not x["rejected"]:
            raise ToolError("negative control %s was accepted by A64AsmTrace: the trace spec is vacuous (%s)" % (x["control"], v))


# ------------------------------------------------------------------------------------------------ labels
BR_TEXT = {"B": lambda it: "b", "BCond": lambda it: "b." + A.CONDS[it[1]]}


def branch_semantics_ok(it, at, target, texts):
    """P-level criterion: do the words at the site transfer control to `target` under the item's condition (llvm-mc text)"""
    def off(t):
        m = re.search(r"#(-?\d+)$", t or "")
        return int(m.group(1)) if m else None
    kind = it[0]
    if any(t is None for t in texts):
        return False
    if kind == "B":
        return len(texts) == 1 and texts[0].startswith("b #") and at + off(texts[0]) == target
    if kind == "BCond":
        return len(texts) == 1 and texts[0].startswith("b.%s #" % A.CONDS[it[1]]) and at + off(texts[0]) == target
    if kind == "Adr":
        return len(texts) == 1 and texts[0].startswith("adr %s, #" % A.rz(it[1], 64)) and at + off(texts[0]) == target
    if kind == "Cbz":
        mn, reg = it[1].replace("_w", ""), A.rz(it[2], 32 if it[1].endswith("_w") else 64)
        inv = "cbnz" if mn == "cbz" else "cbz"
        head = lambda m: "%s %s, #" % (m, reg)
    else:
        mn, bit = it[1], it[3]
        reg = A.rz(it[2], 64 if bit >= 32 else 32)
        inv = "tbnz" if mn == "tbz" else "tbz"
        head = lambda m: "%s %s, #%d, #" % (m, reg, bit)
    if texts[0].startswith(head(mn)):
        return at + off(texts[0]) == target and (len(texts) == 1 or texts[1:] == ["nop"])
    if texts[0].startswith(head(inv)) and len(texts) == 2:
        return off(texts[0]) == 8 and texts[1].startswith("b #") and at + 4 + off(texts[1]) == target
    return False


def label_programs(ctx):
    cfg = "A64AsmLabels_quick.cfg" if ctx.quick else "A64AsmLabels_thorough.cfg"
    r = tlc("A64AsmLabels", cfg=cfg, cwd=CODEC, workers=4, timeout=2400, heap="8g")
    tlc_must_pass(r, "A64AsmLabels " + cfg)
    rows = []
    for s in r.prints:
        try:
            j = json.loads(json.loads('"' + s + '"'))
        except Exception:
            continue
        if isinstance(j, dict) and "prog" in j:
            rows.append(j)
    if not rows:
        raise ToolError("A64AsmLabels printed no programs")
    # deterministic order, then parallel replay
    rows.sort(key=lambda j: json.dumps(j["prog"]))
    nproc = max(2, min(6, NCPU // 2))
    parts = [rows[k::nproc] for k in range(nproc)]

    def replay(k):
        pi = os.path.join(ctx.work, "lprog_%d.ndjson" % k)
        po = os.path.join(ctx.work, "lout_%d.ndjson" % k)
        with open(pi, "w") as f:
            for n, row in enumerate(parts[k]):
                f.write(json.dumps({"id": n, "nl": 2, "prog": row["prog"]}) + "\n")
        p = sh([VA64, "labels", pi, po], timeout=2400)
        if p.returncode != 0 or '"summary"' not in p.stdout:
            raise ToolError("va64 labels failed: %s %s" % (p.stdout[-500:], p.stderr[-1500:]))
        return [json.loads(l) for l in open(po)]
    with concurrent.futures.ThreadPoolExecutor(max_workers=nproc) as ex:
        outs = list(ex.map(replay, range(nproc)))
    return r, cfg, rows, parts, outs


def labels(ctx, r, cfg, rows, parts, outs):
    ctx.tlc_stats(r, "A64AsmLabels " + cfg)
    nproc = len(parts)
    cnt = collections.Counter()
    pending = []        # (row, out) to adjudicate with llvm-mc
    for k in range(nproc):
        if len(outs[k]) != len(parts[k]):
            raise ToolError("va64 labels: %d results for %d programs" % (len(outs[k]), len(parts[k])))
        for row, o in zip(parts[k], outs[k]):
            if not o["ok"]:
                if row["must"]:
                    cnt["refused_as_required"] += 1
                elif row["may"]:
                    cnt["refused_as_allowed"] += 1
                else:
                    cnt["over_refused"] += 1
            elif row["must"]:
                cnt["silent_accept"] += 1
                pending.append((row, o))
            elif o["sites"] == row["sites"]:
                cnt["ok"] += 1
            else:
                cnt["mismatch"] += 1
                pending.append((row, o))
    ctx.add("traces_validated_against_impl", cnt["ok"] + cnt["refused_as_required"] + cnt["refused_as_allowed"])
    ctx.add("label_programs", len(rows))
    ctx.sample({"label_program": rows[len(rows) // 2]["prog"], "expected_sites": rows[len(rows) // 2]["sites"]})
    # adjudication: does every site reach its label (llvm-mc as decoder)?
    groups = collections.OrderedDict()
    flat = []
    for row, o in pending:
        for s in o["sites"]:
            flat += [A.word_of(w) for w in s[1]]
    try:
        txt = [A.canon(t) for t in A.disasm(flat, True)] if flat else []
    except Exception as e:
        raise ToolError("llvm-mc failed: %s" % e)
    k = 0
    for row, o in pending:
        items = [it for it in row["prog"] if it[0] not in ("Pad", "Bind")]
        bad = None
        for it, s in zip(items, o["sites"]):
            texts = txt[k:k + len(s[1])]
            k += len(s[1])
            target = o["labs"][it[-1] - 1]         # where the implementation bound the label
            d = (target - s[0]) // 4
            if bad is None and not branch_semantics_ok(it, s[0], target, texts):
                late = "unbound" if (d > 0 or it[0] == "Adr") else "bound"
                bad = ("labels:%s:%s:%s:d=%s" % (it[0], it[1] if it[0] in ("Cbz", "Tbz") else "", late, bucket(d)),
                       {"program": row["prog"], "site_at": s[0], "label_at": target, "item": it, "words": ["%08x" % A.word_of(w) for w in s[1]],
                        "llvm_mc": texts, "spec_sites": row["sites"], "spec_says_refuse": row["must"]})
        if bad is None:
            cnt["drift"] += 1
            if cnt["drift"] <= 3:
                ctx.model_drift("A64AsmLabels", "words differ from the spec's slot policy but every branch reaches its label: %s" % json.dumps(row["prog"]))
        else:
            g = groups.setdefault(bad[0], {"n": 0, "first": bad[1]})
            g["n"] += 1
    for key, g in groups.items():
        f = g["first"]
        ctx.violation("%s: %d program(s); first: %s: %s at byte %d with its label at byte %d is encoded as %s = %s - the branch does not reach the label%s" % (
            key, g["n"], json.dumps(f["program"]), f["item"], f["site_at"], f["label_at"], f["words"], f["llvm_mc"],
            " (offset not encodable: a refusal was required)" if f["spec_says_refuse"] else ""), f, key=key)
    ctx.extra["labels"] = {"programs": len(rows), **dict(cnt), "finding_classes": len(groups)}
    log(f"C08 labels: {len(rows)} programs: {dict(cnt)}")


def replay(ctx, path):
    case = json.load(open(path))["case"]
    log(json.dumps(case, indent=1)[:4000])
    rec = case.get("record")
    if rec:
        ws = [A.word_of(w) for w in rec["w"]]
        log("llvm-mc: %s" % A.disasm(ws, True))
        log("requested: %s" % (A.expect(rec),))
