"""C10 - every place a frame can be suspended has a correct-looking stack map.

Artifact validation against spec/codec/StackMaps.tla:
1. artifacts: a generated program (gen/c10_prog.py, seeded) + files of /repo/test/rt (+ thorough: standard-library
   heavy programs and the optimizing compiler's own image), each compiled with `dora compile -S` for
   {baseline x64, optimizing x64, optimizing arm64} x {swiper, copy}.
2. lib/sfile.py: `.s` -> one record per code object (metadata sections + call sites of the assembled object's
   disassembly with their relocation targets, classified by the code kind registered for the target).
3. TLC validates every record as a state of StackMaps (per-record invariants + the ordered-list layout laws).
4. negative controls: mutated copies of real records (gc point deleted at a suspending call, positive / unaligned
   slot, overlapping ranges, ...) must be rejected by the specification.
5. dynamic cross-check: the x64 executables of the generated program run under --gc-stress --gc-verify with the
   expected output.
"""
import collections, concurrent.futures, copy, glob, json, os, re
from common import *
import sfile
import progs

LEVEL = "exploration"
MANIFEST = dict(
    technique='TLA+ spec StackMaps.tla (invariants over code-object records: stack map at every suspending return offset per code kind, frame-relative slots, ordered disjoint code ranges, symbol/metadata bijection, ordered position tables) checked by TLC on records extracted from `dora compile -S` output (independent .s parser + assembler + llvm-objdump call-site discovery)',
    text='Every code object of every emitted assembly file (generated program, test/rt corpus, standard-library heavy programs, the optimizing compiler image) x {baseline, optimizing} x {x64, arm64} x {swiper, copy} becomes one TLC state of StackMaps.tla; the callee classification (what can suspend the caller) and the per-code-kind map requirement are derived from gc/root.rs, stack.rs and the native slow paths and stated in the spec. Negative controls (deleted gc point, positive/unaligned slot, overlapping ranges, unordered positions, unpaired symbol) are rejected by the same spec in every run; the x64 executables of the generated program run clean under --gc-stress --gc-verify.',
    note='Exploration level: an invariant over extracted artifacts, no transition system. Trusted: the .s parser and call-site extraction (cross-checked: location counter vs. object symbol table, relocation-derived vs. disassembled direct calls), gcc/llvm-mc/llvm-objdump, TLC. Not decided: that the slots named by a map are exactly the live references (only shape: aligned, inside the frame or a stack-passed argument, interior cells disjoint from plain slots); the frame depth at slow-path calls is a linear-scan heuristic (unknown = unchecked bound). arm64 output is never executed.',
    ref='4/C10')
CODEC = os.path.join(SPEC, "codec")
# mutation trials: VERIF_C10_DORA=<scratch tree>/target/debug/dora runs the check on another tool chain (no build)
DORA_BIN = os.environ.get("VERIF_C10_DORA") or DORA
if DORA_BIN != DORA:
    progs.DORA = DORA_BIN
CONFIGS = [("cannon", "x64"), ("boots", "x64"), ("boots", "arm64")]
COLLECTORS = ["swiper", "copy"]
CONTROL_BASE = 1000000
CORE = ["ref/gc-full.dora", "ref/array-element.dora", "ref/write-barrier-trait-object.dora",
        "lambda/lambda-context-gc.dora", "trait/trait-default-body-trait-object.dora", "thread/allocate1.dora",
        "stdlib/hashmap1.dora"]
STD_HEAVY = ["stdlib/hashmap*.dora", "stdlib/hashset*.dora", "stdlib/vec-sort.dora", "stdlib/iterator-*.dora",
             "stdlib/queue*.dora", "stdlib/bitvec1.dora", "stdlib/stringbuffer-append.dora", "string/*.dora",
             "vec/*.dora", "ref/*.dora"]


def _usable(path):
    try:
        head = open(path).read(2000)
    except OSError:
        return False
    return "//= ignore" not in head and "//= file" not in head and "fn main" in open(path).read()


def pick_corpus(ctx):
    root = os.path.join(REPO, "test", "rt")
    chosen = [c for c in CORE if os.path.exists(os.path.join(root, c))]
    allf = sorted(os.path.relpath(p, root) for p in glob.glob(os.path.join(root, "**", "*.dora"), recursive=True))
    allf = [f for f in allf if not f.startswith(("bench/", "boots/", "whiteboard/", "snapshot/"))]
    r = rng(ctx.seed, "c10corpus")
    if ctx.quick:
        extra = r.sample(allf, 8)
    else:
        heavy = []
        for pat in STD_HEAVY:
            heavy += sorted(os.path.relpath(p, root) for p in glob.glob(os.path.join(root, pat)))
        extra = r.sample(heavy, min(32, len(heavy))) + r.sample(allf, 22)
    for f in extra:
        if f not in chosen and _usable(os.path.join(root, f)):
            chosen.append(f)
    if ctx.quick:
        chosen = chosen[:len(CORE) + 3]
    return [(f, os.path.join(root, f)) for f in chosen]


def compile_s(src, out, backend, arch, gc, boots_image=False, timeout=900):
    cmd = [DORA_BIN, "compile"]
    if boots_image:
        cmd.append("--internal-compile-boots")
    if backend == "cannon":
        cmd.append("--cannon")
    if arch == "arm64":
        cmd += ["--target", "arm64"]
    cmd += ["--gc", gc, "-S", src, "-o", out]
    p = sh(cmd, timeout=timeout, cwd=VERIF)
    if getattr(p, "timed_out", False):
        return None, "timeout"
    if p.returncode != 0 or not os.path.exists(out + ".s"):
        return None, (p.stdout[-800:] + p.stderr[-800:])
    return out + ".s", ""


def _job(job):
    """compile + extract one artifact (runs in a worker process). -> dict"""
    name, src, backend, arch, gc, boots_image, work = job
    tag = f"{re.sub(r'[^A-Za-z0-9]+', '_', name)}-{backend}-{arch}-{gc}"
    out = os.path.join(work, tag)
    t0 = time.time()
    spath, msg = compile_s(src, out, backend, arch, gc, boots_image)
    if spath is None:
        return {"job": job[:6], "tag": tag, "error": "compile", "msg": msg}
    t1 = time.time()
    try:
        recs, st = sfile.extract(spath, work)
    except ToolError as e:
        return {"job": job[:6], "tag": tag, "error": "extract", "msg": str(e)}
    rp = out + ".recs.json"
    with open(rp, "w") as f:
        json.dump(recs, f, separators=(",", ":"))
    for p in (out + ".o", out + ".inst.o"):
        if os.path.exists(p):
            os.unlink(p)
    return {"job": job[:6], "tag": tag, "spath": spath, "recs": rp, "stats": st, "t_compile": round(t1 - t0, 1),
            "t_extract": round(time.time() - t1, 1)}


def _report_rows(out):
    rows = []
    for line in out.splitlines():
        line = line.strip()
        if line.startswith('"{') and line.endswith('}"'):
            rows.append(json.loads(json.loads(line)))
    return rows


def tlc_rows(ctx, files, what, workers=8):
    rows = []
    for k, (path, n) in enumerate(files):
        r = tlc("StackMaps", cfg="StackMaps.cfg", cwd=CODEC, workers=workers, timeout=1500, env={"RECS": path},
                heap="6g")
        if r.timed_out:
            raise ToolError(f"TLC timed out on {path}")
        if not r.ok:
            raise ToolError(f"TLC failed on {path} ({what}): {r.violation}\n{r.out[-2500:]}")
        if r.distinct != n:
            raise ToolError(f"TLC visited {r.distinct} states for {n} records in {path}")
        ctx.tlc_stats(r, f"{what}[{k}] {n} records")
        rows += _report_rows(r.out)
    return rows


# ---------------------------------------------------------------------------------------------------------------
# negative controls

def make_controls(recs):
    """recs: records of one real artifact. -> list of (name, expected inv, mutated record list (small))."""
    out = []
    susp = ("managed", "alloc", "runtime_entry", "indirect", "safepoint")
    best = (-1, None)
    for idx, r in enumerate(recs[:-1]):
        if r["kind"] == 0 and any(g["slots"] for g in r["gcpoints"]) and len(r["locations"]) >= 2 \
                and len(r["gcpoints"]) >= 2 and recs[idx + 1]["start"] >= r["end"]:
            score = len({c["cls"] for c in r["calls"] if c["cls"] in susp})
            if score > best[0]:
                best = (score, idx)
    base = best[1]
    if base is None or best[0] < 1:
        raise ToolError("no record suitable for the negative controls")
    lo = max(0, base - 1)

    def window():
        w = copy.deepcopy(recs[lo:base + 2])
        return w, w[base - lo]
    # (a) delete the gc point at one suspending call, per callee class present
    seen = set()
    for c in recs[base]["calls"]:
        if c["cls"] in susp and c["cls"] not in seen:
            seen.add(c["cls"])
            w, r = window()
            r["gcpoints"] = [g for g in r["gcpoints"] if g["off"] != c["ret"]]
            out.append((f"delete-gcpoint-{c['cls']}", "SuspendCovered:" + c["cls"], w))
    # (b) slots
    for nm, f in (("slot-positive", lambda s: 8), ("slot-unaligned", lambda s: s + 4), ("slot-fp", lambda s: 0),
                  ("slot-below-frame", lambda s: -(1 << 20))):
        w, r = window()
        g = next(g for g in r["gcpoints"] if g["slots"])
        if nm == "slot-below-frame" and g["frame"] < 0:
            continue
        g["slots"][0] = f(g["slots"][0])
        out.append((nm, "SlotsOK", w))
    # (c) ranges overlap
    w, r = window()
    r["end"] = w[base - lo + 1]["start"] + 1
    out.append(("ranges-overlap", "Ordered", w))
    # more
    w, r = window()
    r["gcpoints"][0], r["gcpoints"][-1] = r["gcpoints"][-1], r["gcpoints"][0]
    if len(r["gcpoints"]) >= 2:
        out.append(("gcpoints-unordered", "MapOffsets", w))
    w, r = window()
    r["gcpoints"].append({"off": r["end"] - r["start"], "slots": [], "interior": [], "frame": -1})
    out.append(("gcpoint-outside", "MapOffsets", w))
    w, r = window()
    r["locations"][1]["off"] = r["locations"][0]["off"]
    out.append(("positions-unordered", "Positions", w))
    w, r = window()
    r["locations"][-1]["off"] = r["end"] - r["start"]
    out.append(("position-outside", "Positions", w))
    w, r = window()
    g = next(g for g in r["gcpoints"] if g["slots"])
    g["interior"] = [g["slots"][0] - 8]
    out.append(("interior-overlaps-slot", "InteriorOK", w))
    w, r = window()
    r["sym"] = {"name": "", "addr": -1}
    out.append(("symbol-without-entry-pairing", "SymbolPaired", w))
    w, r = window()
    r["kind"] = -1
    out.append(("text-symbol-without-metadata", "Registered", w))
    w, r = window()
    r["start"] = -1; r["end"] = -1
    out.append(("entry-names-missing-symbol", "Resolves", w))
    w, r = window()
    r["calls"][-1]["ret"] = r["end"] - r["start"]
    out.append(("return-address-at-end", "ReturnInside", w))
    tr = next((x for x in recs if x["kind"] == 1), None)
    if tr is not None:
        t = copy.deepcopy(tr); t["gcpoints"] = []
        out.append(("trampoline-without-map", "TrampolineMap", [t]))
    sp = next((x for x in recs if x["kind"] == 5), None)
    if sp is not None:
        t = copy.deepcopy(sp); t["gcpoints"] = [{"off": 0, "slots": [-8], "interior": [], "frame": -1}]
        out.append(("ignored-map-not-empty", "TrampolineMap", [t]))
    return out


def control_artifacts(recs):
    """-> (controls, arts): mutated windows of real records as extra artifacts (art >= CONTROL_BASE)."""
    controls = make_controls(recs)
    arts = []
    for k, (nm, inv, w) in enumerate(controls):
        for j, r in enumerate(w):
            r["art"] = CONTROL_BASE + k
            r["idx"] = j + 1
        arts.append(w)
    return controls, arts


def judge_controls(ctx, controls, rows):
    by_art = collections.defaultdict(set)
    for row in rows:
        for f in row["failed"]:
            by_art[row["art"]].add(f["inv"])
            by_art[row["art"]].add(f["inv"] + ":" + f["cls"])
    for k, (nm, inv, w) in enumerate(controls):
        ctx.add("negative_controls")
        got = by_art.get(CONTROL_BASE + k, set())
        if inv not in got:
            raise ToolError(f"negative control {nm}: the specification did not report {inv} (got {sorted(got)})")
    ctx.extra["negative_control_names"] = [nm for nm, _, _ in controls]


def strict_rejects(ctx, arts):
    """thorough: the strict invariant (Conforms) makes TLC stop on the controls."""
    files = sfile.write_chunks(arts, os.path.join(ctx.work, "controls"), chunk=100000)
    r = tlc("StackMaps", cfg="StackMaps_strict.cfg", cwd=CODEC, workers=1, timeout=600, env={"RECS": files[0][0]},
            heap="2g")
    if r.ok or not (r.violation or "").startswith("Invariant Conforms is violated"):
        raise ToolError("strict run on the negative controls was not rejected: %s\n%s" % (r.violation, r.out[-1500:]))
    ctx.tlc_stats(r, "strict invariant on the negative controls (rejected)")


# ---------------------------------------------------------------------------------------------------------------
# dynamic cross-check

def dynamic_check(ctx, src, expected):
    jobs = [(b, gc) for b in ("cannon", "boots") for gc in COLLECTORS]

    def one(job):
        backend, gc = job
        exe = os.path.join(ctx.work, f"gen-{backend}-{gc}.exe")
        built, msg = progs.compile_prog(src, exe, backend=backend, gc=gc, timeout=600)
        if built is None:
            return job, None, "build failed: " + msg
        flags = "--gc-stress --max-heap-size=8M --gc-verify"
        for attempt in range(2):
            rr = progs.run_prog(exe, flags=flags, timeout=240)
            if not rr.timed_out:
                break
        return job, rr, flags
    with concurrent.futures.ThreadPoolExecutor(max_workers=4) as ex:
        results = list(ex.map(one, jobs))
    found = []
    for (backend, gc), rr, info in results:
        if rr is None:
            raise ToolError(f"dynamic cross-check {backend}/{gc}: {info}")
        if rr.timed_out:
            raise ToolError(f"dynamic cross-check {backend}/{gc}: timed out twice under {info}")
        ctx.add("dynamic_runs")
        if rr.rc != 0 or rr.out != expected:
            err = rr.err if len(rr.err) < 900 else rr.err[:450] + " ... " + rr.err[-450:]
            found.append((f"generated program built with {backend} --gc {gc} under DORA_FLAGS='{info}': {rr.ending()}, "
                          f"stdout {'differs' if rr.out != expected else 'ok'}; stderr: {err}",
                          {"source": src, "backend": backend, "gc": gc, "flags": info, "stdout": rr.out[-2000:],
                           "expected": expected, "stderr": rr.err[-4000:]},
                          f"dynamic:{backend}:{gc}:{rr.ending()}"))
        else:
            ctx.add("dynamic_runs_clean")
    return found


# ---------------------------------------------------------------------------------------------------------------

def run(ctx):
    import sys
    sys.path.insert(0, os.path.join(VERIF, "gen"))
    import c10_prog
    if DORA_BIN == DORA:
        build_repo(boots=True)
    src_text, expected = c10_prog.generate(ctx.seed)
    gsrc = os.path.join(ctx.work, f"gen{ctx.seed}.dora")
    open(gsrc, "w").write(src_text)
    programs = [("generated", gsrc, False)] + [(n, p, False) for n, p in pick_corpus(ctx)]
    if not ctx.quick:
        programs.append(("boots-image", os.path.join(REPO, "pkgs/boots/boots.dora"), True))
    jobs = []
    for name, src, img in programs:
        for backend, arch in CONFIGS:
            for gc in COLLECTORS:
                jobs.append((name, src, backend, arch, gc, img, ctx.work))
    # the big images first so that the pool is busy to the end
    jobs.sort(key=lambda j: (not j[5], j[2] == "cannon"))
    log(f"C10: {len(programs)} programs x {len(CONFIGS)} configurations x {len(COLLECTORS)} collectors = {len(jobs)} artifacts")
    t0 = time.time()
    # the dynamic cross-check runs beside the compile/extract pool
    dyn_ex = concurrent.futures.ThreadPoolExecutor(max_workers=1)
    dyn_future = dyn_ex.submit(dynamic_check, ctx, gsrc, expected)
    with concurrent.futures.ProcessPoolExecutor(max_workers=min(8, max(2, NCPU // 2))) as ex:
        results = list(ex.map(_job, jobs))
    log(f"C10: compiled and extracted in {time.time() - t0:.0f}s (dynamic cross-check running beside)")
    arts = []
    info = {}
    per_cfg = {}
    skipped = collections.Counter()
    failed_by_prog = collections.defaultdict(list)
    for res in results:
        name, src, backend, arch, gc, img = res["job"]
        if "error" in res:
            if res["error"] == "extract" or name in ("generated", "boots-image"):
                raise ToolError(f"{res['tag']}: {res['error']} failed: {res['msg'][:1500]}")
            failed_by_prog[name].append((backend, arch, gc, res["msg"][-300:]))
            continue
        art = len(arts) + 1
        recs = json.load(open(res["recs"]))
        for r in recs:
            r["art"] = art
        arts.append(recs)
        info[art] = res
        st = res["stats"]
        key = f"{backend}-{arch}-{gc}"
        pc = per_cfg.setdefault(key, {"artifacts": 0, "functions": 0, "gcpoints": 0, "slots": 0, "interior_cells": 0,
                                      "locations": 0, "calls": {}, "frame_known": 0, "uncovered_call_targets": 0})
        pc["artifacts"] += 1
        for k in ("functions", "gcpoints", "slots", "locations", "frame_known"):
            pc[k] += st[k]
        pc["interior_cells"] += st["interior"]
        for c, n in st["calls"].items():
            pc["calls"][c] = pc["calls"].get(c, 0) + n
        pc["uncovered_call_targets"] += sum(st["unknown_targets"].values())
        for t, n in st["unknown_targets"].items():
            ctx.extra.setdefault("uncovered_targets", {})[t] = ctx.extra.get("uncovered_targets", {}).get(t, 0) + n
        if st["gcpoint_entries"] != st["gcpoint_entries_owned"] or st["location_entries"] != st["location_entries_owned"]:
            raise ToolError(f"{res['tag']}: metadata entries not owned by exactly one function: {st}")
    for name, fails in failed_by_prog.items():
        # a corpus file that does not compile in some configuration is not this property's business
        skipped[name] = len(fails)
        ctx.add("artifacts_skipped_compile_failed", len(fails))
    if failed_by_prog:
        ctx.extra["compile_failed"] = {n: [f"{b}-{a}-{g}: {m[-120:]}" for b, a, g, m in fl][:3]
                                       for n, fl in list(failed_by_prog.items())[:10]}
    if not arts:
        raise ToolError("no artifact extracted")
    ctx.extra["per_configuration"] = per_cfg
    ctx.cov["uncovered"] = sum(pc["uncovered_call_targets"] for pc in per_cfg.values())
    total_recs = sum(len(a) for a in arts)
    ctx.add("artifacts", len(arts))
    ctx.add("functions_checked", total_recs)
    ctx.add("call_sites", sum(sum(pc["calls"].values()) for pc in per_cfg.values()))
    ctx.add("gcpoints", sum(pc["gcpoints"] for pc in per_cfg.values()))
    ctx.add("slots", sum(pc["slots"] for pc in per_cfg.values()))
    ctx.add("interior_cells", sum(pc["interior_cells"] for pc in per_cfg.values()))
    ctx.add("locations", sum(pc["locations"] for pc in per_cfg.values()))

    # negative + positive controls on the generated program's baseline artifact
    gen_art = next(a for a in arts if info[a[0]["art"]]["job"][0] == "generated" and info[a[0]["art"]]["job"][2] == "cannon")
    controls, control_arts = control_artifacts(gen_art)
    if not ctx.quick:
        strict_rejects(ctx, control_arts)

    files = sfile.write_chunks(arts + control_arts, os.path.join(ctx.work, "recs"), chunk=8000)
    t1 = time.time()
    rows = tlc_rows(ctx, files, "records + negative controls", workers=min(12, NCPU))
    judge_controls(ctx, controls, [r for r in rows if r["art"] >= CONTROL_BASE])
    rows = [r for r in rows if r["art"] < CONTROL_BASE]
    log(f"C10: TLC validated {total_recs} records in {len(files)} runs, {time.time() - t1:.0f}s; rows={len(rows)}")
    ctx.add("traces_validated_against_impl", total_recs)
    ctx.cov["evaluations"] = total_recs
    seen = set()
    nontrivial = 0
    for a in arts:
        for r_ in a:
            if r_["gcpoints"] or r_["calls"]:
                nontrivial += 1
    ctx.cov["distinct_nontrivial"] = nontrivial
    ctx.cov["rule"] = ("one evaluation = one code object (function, thunk or trampoline) of one emitted assembly file, all "
                       "StackMaps invariants; non-trivial = has at least one call site or gc point; artifacts = program x "
                       "(code generator, architecture) x collector")
    for row in rows:
        k = (row["art"], row["idx"])
        if k in seen:
            continue
        seen.add(k)
        res = info[row["art"]]
        name, src, backend, arch, gc, img = res["job"]
        rec = arts[row["art"] - 1][row["idx"] - 1]
        for f in sorted(row["failed"], key=lambda f: (f["inv"], f["cls"])):
            key = f"{backend}:{arch}:{f['inv']}:{f['cls']}"
            detail = describe_failure(rec, f, arts[row["art"] - 1], row["idx"])
            ctx.violation(f"{res['tag']}: code object {rec['name']} (kind {sfile.KIND_NAMES.get(rec['kind'], rec['kind'])}) "
                          f"violates {f['inv']}{' for callee class ' + f['cls'] if f['cls'] else ''}: {detail}",
                          {"artifact": res["spath"], "program": src, "backend": backend, "arch": arch, "gc": gc,
                           "invariant": f, "record": rec, "compile": compile_cmd(src, backend, arch, gc, img)},
                          key=key)
    t2 = time.time()
    dyn = dyn_future.result()
    log(f"C10: waited {time.time() - t2:.0f}s more for the dynamic cross-check")
    for msg, obj, key in dyn:      # reported after the static verdicts (main thread)
        ctx.violation(msg, obj, key=key)
    dyn_ex.shutdown()
    # samples
    g = gen_art
    big = max(g, key=lambda r: len(r["gcpoints"]))
    ctx.sample({"artifact": info[g[0]["art"]]["tag"], "function": big["name"], "calls": collections.Counter(c["cls"] for c in big["calls"]),
                "gcpoints": len(big["gcpoints"]), "first_gcpoint": big["gcpoints"][0] if big["gcpoints"] else None})
    for a in arts[:200]:
        for r_ in a:
            if any(gp["interior"] for gp in r_["gcpoints"]):
                gp = next(gp for gp in r_["gcpoints"] if gp["interior"])
                ctx.sample({"artifact": info[a[0]["art"]]["tag"], "function": r_["name"], "interior_gcpoint": gp})
                break
        else:
            continue
        break
    ctx.assumptions += [
        "call sites = call/bl/blr instructions of a linear-sweep disassembly of each function (cross-checked against the relocations: every direct-call relocation is a call instruction and vice versa)",
        "callee classes by the code kind registered for the target symbol; targets outside the file other than dora_aot_write_barrier_slow_path count as suspending",
        "the frame bound of a slot is checked only where the prologue / push-pop walk recognises the frame depth",
        "the maps' contents (which slots are live references) are not decided, only their shape",
    ]


def compile_cmd(src, backend, arch, gc, img):
    return " ".join(["dora", "compile"] + (["--internal-compile-boots"] if img else []) + (["--cannon"] if backend == "cannon" else [])
                    + (["--target", "arm64"] if arch == "arm64" else []) + ["--gc", gc, "-S", src, "-o", "out"])


def describe_failure(rec, f, recs, idx):
    n = rec["end"] - rec["start"]
    gp = {g["off"] for g in rec["gcpoints"]}
    if f["inv"] == "SuspendCovered":
        miss = [c["ret"] for c in rec["calls"] if c["cls"] == f["cls"] and c["ret"] not in gp]
        return f"no gc point at return offset(s) {miss[:8]} (function size {n}, {len(gp)} gc points)"
    if f["inv"] == "ReturnInside":
        return f"return offset(s) {[c['ret'] for c in rec['calls'] if not 0 < c['ret'] < n][:8]} outside (0, {n})"
    if f["inv"] == "SlotsOK":
        bad = [(g["off"], [s for s in g["slots"] if s % 8 or 0 <= s < 16 or (s < 0 and g["frame"] >= 0 and s < -g["frame"])],
                g["frame"]) for g in rec["gcpoints"]]
        return f"gc points (offset, offending slots, frame bytes): {[b for b in bad if b[1]][:3]}"
    if f["inv"] == "InteriorOK":
        bad = [(g["off"], g["slots"], g["interior"], g["frame"]) for g in rec["gcpoints"] if g["interior"]]
        return f"gc points with interior cells (offset, slots, interior cells, frame bytes): {bad[:2]}"
    if f["inv"] == "Ordered":
        nxt = recs[idx] if idx < len(recs) else None
        return f"range [{rec['start']}, {rec['end']}) and next {nxt and (nxt['name'], nxt['start'], nxt['end'])}"
    if f["inv"] == "Positions":
        return f"position offsets {[l['off'] for l in rec['locations']][:40]} size {n}"
    if f["inv"] == "MapOffsets":
        return f"gc point offsets {sorted(gp)[:40]} size {n}"
    return json.dumps({k: rec[k] for k in ("start", "end", "sym", "nsym", "nmeta")})


def replay(ctx, path):
    case = json.load(open(path))["case"]
    if "artifact" not in case:
        log(json.dumps(case)[:3000])
        return
    if DORA_BIN == DORA:
        build_repo(boots=True)
    b, a, g = case["backend"], case["arch"], case["gc"]
    out = os.path.join(ctx.work, "replay")
    spath, msg = compile_s(case["program"], out, b, a, g, "--internal-compile-boots" in case["compile"])
    if spath is None:
        raise ToolError("replay: compile failed: " + msg)
    recs, st = sfile.extract(spath, ctx.work)
    for r in recs:
        r["art"] = 1
    files = sfile.write_chunks([recs], os.path.join(ctx.work, "replay-recs"), chunk=100000)
    rows = tlc_rows(ctx, files, "replay")
    for row in rows:
        rec = recs[row["idx"] - 1]
        for f in row["failed"]:
            ctx.violation(f"replay: {rec['name']} violates {f['inv']} {f['cls']}: {describe_failure(rec, f, recs, row['idx'])}",
                          {"record": rec, "invariant": f}, key=f"{b}:{a}:{f['inv']}:{f['cls']}")
    log(f"replayed {case['compile']}: {len(recs)} records, {len(rows)} failing")
