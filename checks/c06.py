"""C06 - the front end never crashes, whatever text it is given.

Specifications: spec/codec/ParseEvents.tla (termination / total consumption of the token stream under every recovery
path: checked by C16 and re-used here) and the front-end outcome rule below (every input ends in "accepted" or
"diagnostics", success flag <=> no error, every diagnostic span inside its file). Inputs: (1) EVERY sequence of up to 2
(thorough 3) token texts from a 54-token alphabet, each in 8 context templates (top level, function body, parameter type,
match arm, class body, impl header, use declaration, global) through lexer + parser with the lossless-tree checks; (2)
repository files and their token-level / line-ending / unicode mutants through lexer, parser and the whole semantic
analysis in-process; (2b) ~1800 literal spellings at the edges of the lexical grammar in 16 positions (sampled in quick); (3) a sample through the real `dora compile` driver incl. missing and unreadable inputs.
A panic, an abort, a time-out, an out-of-file span or a success flag that contradicts the diagnostics is a violation.
"""
import json, os, random, sys
from common import *
from checks.c20 import harness_json, corpus_files
from checks.c16 import panic_class
sys.path.insert(0, os.path.join(VERIF, "gen"))
import text_mutants, literals

LEVEL = "exploration"
MANIFEST = dict(
    technique="exhaustive small-scope enumeration of token sequences in context templates + mutated corpus through the real lexer, "
              "parser and semantic analysis under catch_unwind; outcome rule (success <=> no error, spans in file); the parser's event "
              "protocol is model-checked in ParseEvents.tla (C16)",
    text="Exploration: the no-crash clause is decided by observing the implementation on the enumerated inputs - all 47 520 (thorough "
         "2 566 944) token soups, ~600 (thorough ~9000) corpus files and mutants through the whole front end, ~40 inputs through the "
         "driver binary. The specifications contribute the protocol invariants (consumption, termination of the event stream) and the "
         "outcome rule, not the absence of panics.",
    note="Trusted: catch_unwind observes Rust panics; aborts and stack overflows of the harness process are detected through its exit "
         "status; one time limit per batch (a hang is attributed by re-running the batch file by file).",
    ref="4/C06")


def panic_key(r):
    """frontend-panic:<source file of the panic (no line: lines shift)>:<message class>"""
    at = (r.get("panic_at") or "?").rsplit(":", 1)[0]
    at = at[at.index("dora-"):] if "dora-" in at else at
    return f"frontend-panic:{at}:{panic_class(r['panic'][:200])}"


def sema_batch(ctx, listing, tag):
    lf = os.path.join(ctx.work, f"{tag}.txt")
    open(lf, "w").write("\n".join(listing) + "\n")
    p = sh([VH, "sema", lf], timeout=3000, cwd=VERIF)
    recs = [json.loads(l) for l in p.stdout.splitlines() if l.startswith("{")]
    done = {r["path"] for r in recs if r.get("kind") == "file"}
    if getattr(p, "timed_out", False) or p.returncode != 0 or not recs or recs[-1].get("kind") != "summary":
        # the harness process died or hung: the first file without a record is the culprit
        rest = [f for f in listing if f not in done]
        if not rest:
            raise ToolError("vh sema failed without a culprit: " + p.stderr[-1500:])
        culprit = rest[0]
        how = "time-out" if getattr(p, "timed_out", False) else f"harness exit status {p.returncode} (abort / stack overflow)"
        ctx.violation(f"the front end did not survive {culprit}: {how}; stderr {p.stderr[-400:]!r}",
                      {"path": culprit, "text": open(culprit, errors='replace').read()[:20000]}, key="frontend-died:" + os.path.basename(culprit).split("_")[-1])
        if len(rest) > 1:
            recs += sema_batch(ctx, rest[1:], tag + "r")
    return [r for r in recs if r.get("kind") == "file"]


def run(ctx):
    build_harness()
    build_repo(boots=False)
    # (1) token soups
    recs = harness_json([VH, "soup", 2 if ctx.quick else 3], timeout=3000)
    s = recs[-1]
    ctx.add("evaluations", s["inputs"])
    ctx.extra["soups"] = s
    for m in recs[:-1]:
        ctx.violation(f"token soup: {m['what']} ({m['count']} inputs), e.g. {m['example']!r}", m,
                      key=("parser-panic:" + panic_class(m["what"][7:])) if m["what"].startswith("panic") else "soup-tree")
    # (2) corpus + mutants through the whole front end
    files = corpus_files()
    rng = random.Random(ctx.seed)
    pick = rng.sample(files, 120 if ctx.quick else 1500)
    vdir = os.path.join(ctx.work, "inputs")
    os.makedirs(vdir, exist_ok=True)
    listing = []
    for i, f in enumerate(pick):
        try:
            text = open(f, encoding="utf8").read()
        except Exception:
            continue
        if len(text) > 30000:
            continue
        if i % 4 == 0:
            listing.append(f)
        for k, (tag, t) in enumerate(text_mutants.mutants(text, rng, 3 if ctx.quick else 5) + (text_mutants.line_endings(text, rng) if i % 5 == 0 else [])):
            p = os.path.join(vdir, f"{i}_{k}_{tag}.dora")
            open(p, "w", encoding="utf8", newline="").write(t)
            listing.append(p)
    # inputs that once crashed the front end (found by earlier thorough runs): always re-checked
    import glob
    listing += sorted(glob.glob(os.path.join(VERIF, "known", "C06", "*.dora")))
    kinds = set()
    for r in sema_batch(ctx, listing, "sema"):
        ctx.add("evaluations")
        path = r["path"]
        kinds.add(os.path.basename(path).split("_")[-1] if path.startswith(vdir) else "corpus")
        if "panic" in r:
            msg = r["panic"][:200]
            ctx.violation(f"the front end panicked on {path} at {r.get('panic_at', '?')}: {msg}", {"path": path, "text": open(path, errors='replace').read()[:20000], "panic": r["panic"], "at": r.get("panic_at")},
                          key=panic_key(r))
            continue
        if r["ok"] != (len(r["errors"]) == 0):
            ctx.violation(f"success flag {r['ok']} contradicts {len(r['errors'])} reported errors for {path}", {"path": path}, key="success-flag")
        for e in r["errors"] + r["warnings"]:
            if not e["in_file"]:
                ctx.violation(f"diagnostic span outside the file for {path}: {e}", {"path": path, "diagnostic": e}, key="span-outside:" + panic_class(e["desc"]))
                break
    # (2b) literal spellings at the edges of the lexical grammar, in every position a literal can take, through the whole front end
    lits = literals.literals()
    ldir = os.path.join(ctx.work, "literals")
    os.makedirs(ldir, exist_ok=True)
    jobs = []                                     # (context, literal)
    cnames = sorted(literals.CONTEXTS)
    for i, L in enumerate(lits):
        for c in (rng.sample(cnames, 2) if ctx.quick else cnames):
            jobs.append((c, L))
    per = 60
    lfiles = {}
    for n in range(0, len(jobs), per):
        p = os.path.join(ldir, f"lit{n // per:04d}.dora")
        chunk = jobs[n:n + per]
        open(p, "w").write("\n".join(literals.CONTEXTS[c].format(k=n + j, L=L) for j, (c, L) in enumerate(chunk)) + "\nfn main() {}\n")
        lfiles[p] = chunk
    for j, L in enumerate(literals.loose()):
        for c in ("let", "string", "pattern"):
            p = os.path.join(ldir, f"loose{j:02d}_{c}.dora")
            open(p, "w", newline="").write("fn main() {}\n" + literals.CONTEXTS[c].format(k=0, L=L) + "\n")
            lfiles[p] = [(c, L)]

    def judge(r, chunk, path):
        if r["ok"] != (len(r["errors"]) == 0):
            ctx.violation(f"success flag {r['ok']} contradicts {len(r['errors'])} reported errors for {path}", {"path": path}, key="success-flag")
        for e in r["errors"] + r["warnings"]:
            if not e["in_file"]:
                ctx.violation(f"diagnostic span outside the file for literal input {chunk[:3]}: {e}", {"path": path, "diagnostic": e}, key="span-outside:" + panic_class(e["desc"]))
                break
    for r in sema_batch(ctx, sorted(lfiles), "literals"):
        chunk = lfiles[r["path"]]
        ctx.add("evaluations", len(chunk))
        ctx.add("literal_inputs", len(chunk))
        if "panic" not in r:
            judge(r, chunk, r["path"])
            continue
        # attribute the panic: one file per literal of this chunk
        singles = {}
        for j, (c, L) in enumerate(chunk):
            p = r["path"][:-5] + f"_s{j:02d}.dora"
            open(p, "w", newline="").write("fn main() {}\n" + literals.CONTEXTS[c].format(k=0, L=L) + "\n")
            singles[p] = (c, L)
        hit = False
        for r1 in sema_batch(ctx, sorted(singles), "literal_singles"):
            c, L = singles[r1["path"]]
            if "panic" in r1:
                hit = True
                msg = r1["panic"][:200]
                ctx.violation(f"the front end panicked on the literal `{L}` in position `{c}` ({literals.CONTEXTS[c].format(k=0, L=L)}) at {r1.get('panic_at', '?')}: {msg}",
                              {"literal": L, "context": c, "text": open(r1["path"]).read(), "panic": r1["panic"], "at": r1.get("panic_at")}, key=panic_key(r1))
        if not hit:
            msg = r["panic"][:200]
            ctx.violation(f"the front end panicked on {r['path']} (no single literal of it reproduces the panic): {msg}",
                          {"path": r["path"], "text": open(r["path"]).read()[:20000], "panic": r["panic"]}, key=panic_key(r))
    # (3) the driver
    cases = [("missing.dora", None), ("empty.dora", ""), ("binary.dora", None), ("dir.dora", None)]
    ddir = os.path.join(ctx.work, "driver")
    os.makedirs(ddir, exist_ok=True)
    open(os.path.join(ddir, "empty.dora"), "w").write("")
    open(os.path.join(ddir, "binary.dora"), "wb").write(bytes(range(256)) * 4)
    os.makedirs(os.path.join(ddir, "dir.dora"), exist_ok=True)
    driver_inputs = [os.path.join(ddir, n) for n, _ in cases] + rng.sample([f for f in listing if f.startswith(vdir)], min(20, len(listing)))
    for path in driver_inputs:
        p = sh([DORA, "compile", "-c", path, "-o", os.path.join(ddir, "out.pkg")], timeout=120, cwd=VERIF)
        ctx.add("evaluations")
        out = (p.stdout or "") + (p.stderr or "")
        if getattr(p, "timed_out", False) or "panicked at" in out or p.returncode < 0 or p.returncode in (134, 139):
            ctx.violation(f"`dora compile` on {os.path.basename(path)}: {'time-out' if getattr(p, 'timed_out', False) else 'rc=%s' % p.returncode}; output {out[-500:]!r}",
                          {"path": path, "output": out[-3000:]}, key="driver:" + os.path.basename(path).split("_")[-1])
    ctx.cov["distinct_nontrivial"] = s["inputs"] // 8 + len(listing)
    ctx.cov["rule"] = "token soups: every sequence of <= k texts from the 54-token alphabet (distinct by sequence) x 8 context templates; corpus: seeded files + mutants (kinds: " + ",".join(sorted(kinds)) + "); literal spellings (radix prefixes x digit strings x suffixes, chars, strings, templates, unterminated forms) x 16 positions; driver: special files + sampled mutants"
    ctx.sample({"soup": "fn f() { x . }", "outcome": "diagnostics"})
    ctx.sample({"driver": "dora compile -c missing.dora", "outcome": "error: file does not exist"})


def replay(ctx, path):
    log(open(path).read()[:6000])
