---------------------------- MODULE A64AsmTrace ----------------------------
(* I->S: validates recorded calls of the real dora_asm::arm64::AssemblerArm64 (harness/va64 `record`) against
   A64Asm.tla. One TLC state per record index. Verdict of a record:
     ok            accepted, Encodable, word(s) = the specification's
     ok_alt        accepted, Encodable, word is one of the listed equivalent encodings
     ok_refused    refused, not Encodable                                   (the Refusal rule)
     over_refused  refused although Encodable                               (counted, not a violation)
     uncovered     the specification has no entry for the method            (counted)
     mismatch      accepted, Encodable, but a different word                (violation / adjudicated by llvm-mc)
     silent_accept accepted although NOT Encodable                          (violation: silent truncation)
   Every verdict other than ok / ok_refused is printed as a JSON line; A64AsmTrace.cfg additionally makes
   mismatch / silent_accept an invariant violation (used for the negative controls).                      *)
EXTENDS A64Asm, Json, IOUtils
Recs == ndJsonDeserialize(IOEnv.RECS)
N == Len(Recs)
VARIABLES n, verdict

Expected(q) == IF Macro(q.m) THEN <<>> ELSE Enc1(q).ws
Verdict(q) ==
  IF Macro(q.m)
  THEN IF q.ok THEN (IF ~MacroEncodable(q) THEN "silent_accept" ELSE IF Accepts(q, q.w) THEN "ok" ELSE "mismatch")
       ELSE (IF MacroEncodable(q) THEN "over_refused" ELSE "ok_refused")
  ELSE LET e == Enc1(q)
       IN IF ~e.cov THEN "uncovered"
          ELSE IF q.ok THEN (IF ~e.ok THEN "silent_accept" ELSE IF q.w = e.ws THEN "ok"
                             ELSE IF q.w \in e.alt THEN "ok_alt" ELSE "mismatch")
          ELSE (IF e.ok THEN "over_refused" ELSE "ok_refused")
Judge(k) == LET q == Recs[k]  v == Verdict(q)
            IN IF v \in {"ok", "ok_refused"} THEN v
               ELSE IF PrintT(ToJson([k |-> k, v |-> v, exp |-> IF v = "mismatch" THEN Expected(q) ELSE <<>>])) THEN v ELSE v

Init == n = 1 /\ verdict = Judge(1)
Next == n < N /\ n' = n + 1 /\ verdict' = Judge(n + 1)
Spec == Init /\ [][Next]_<<n, verdict>>
Conforms == verdict \notin {"mismatch", "silent_accept"}
=============================================================================
