------------------------------- MODULE Mangle -------------------------------
(* C19: linker-symbol mangling (dora-symbol/src/lib.rs). Names and symbols are byte sequences.
     Mangle(s)   = "dora_" . concat(Esc(b)),  Esc = identity on ASCII alphanumerics, "_XX" (upper-case hex) otherwise
     Demangle(y) = inverse parser (accepts both hex cases), None on anything malformed
     Cap(y, max, h) = y if short enough, else the first max-34 bytes of y . "_H" . h   (h = 32 hex digits,
                      a deterministic function of y that is outside this model)
   Mode "names": every byte string up to MaxLen over Alphabet is a state; invariants: round trip (hence
   injectivity), output charset, length formula, capped shape; each state emits (s, Mangle(s)).
   Mode "symbols": every symbol text "dora_" . y (y up to MaxLen over SymAlphabet) is a state and emits
   (y, Demangle) so that the real demangler's accept/reject decisions are compared too.            *)
EXTENDS Integers, Sequences, FiniteSets, TLC, Json
CONSTANTS MaxLen, Mode
Alphabet == {97, 90, 55, 95, 58, 91, 32, 195, 169, 70, 36}       \* a Z 7 _ : [ space (C3 A9 = e-acute) F $
SymAlphabet == {97, 55, 95, 51, 65, 102, 71, 58}                 \* a 7 _ 3 A f G :
IsAlnum(b) == b \in (48..57) \cup (65..90) \cup (97..122)
Hex(n) == IF n < 10 THEN 48 + n ELSE 55 + n
HexVal(c) == IF c \in 48..57 THEN c - 48 ELSE IF c \in 65..70 THEN c - 55 ELSE IF c \in 97..102 THEN c - 87 ELSE -1
Esc(b) == IF IsAlnum(b) THEN <<b>> ELSE <<95, Hex(b \div 16), Hex(b % 16)>>
Prefix == <<100, 111, 114, 97, 95>>
RECURSIVE Flat(_, _)
Flat(s, i) == IF i > Len(s) THEN <<>> ELSE Esc(s[i]) \o Flat(s, i + 1)
Mangle(s) == Prefix \o Flat(s, 1)
None == <<-1>>
RECURSIVE Parse(_, _)
Parse(y, i) == IF i > Len(y) THEN <<>>
               ELSE IF y[i] = 95
                    THEN IF i + 2 <= Len(y) /\ HexVal(y[i+1]) >= 0 /\ HexVal(y[i+2]) >= 0
                         THEN LET rest == Parse(y, i + 3) IN IF rest = None THEN None ELSE <<HexVal(y[i+1]) * 16 + HexVal(y[i+2])>> \o rest
                         ELSE None
                    ELSE IF IsAlnum(y[i]) THEN LET rest == Parse(y, i + 1) IN IF rest = None THEN None ELSE <<y[i]>> \o rest
                    ELSE None
Demangle(y) == IF Len(y) >= 5 /\ SubSeq(y, 1, 5) = Prefix THEN Parse(y, 6) ELSE None
SuffixLen == 34
Cap(y, max, h) == IF Len(y) <= max THEN y ELSE SubSeq(y, 1, max - SuffixLen) \o <<95, 72>> \o h
AbstractHash == [i \in 1..32 |-> 48]

Strings(A) == UNION {[1..n -> A] : n \in 0..MaxLen}
VARIABLE s
Init == s \in (IF Mode = "names" THEN Strings(Alphabet) ELSE Strings(SymAlphabet))
Next == UNCHANGED s
Names == Mode = "names"
RoundTrip == Names => Demangle(Mangle(s)) = s
Charset == Names => \A i \in 1..Len(Mangle(s)) : IsAlnum(Mangle(s)[i]) \/ Mangle(s)[i] = 95
LengthFormula == Names => Len(Mangle(s)) = 5 + Len(s) + 2 * Cardinality({i \in 1..Len(s) : ~IsAlnum(s[i])})
NoHMarker == Names => \A i \in 1..(Len(Mangle(s)) - 1) : ~(Mangle(s)[i] = 95 /\ Mangle(s)[i+1] = 72)   \* "_H" only marks a shortened symbol
CapShape == Names => \A max \in {SuffixLen, SuffixLen + 1, SuffixLen + 3} :
               LET c == Cap(Mangle(s), max, AbstractHash) IN
                 /\ Len(c) <= max
                 /\ (Len(Mangle(s)) <= max => c = Mangle(s))
                 /\ (Len(Mangle(s)) > max => Len(c) = max /\ SubSeq(c, 1, max - SuffixLen) = SubSeq(Mangle(s), 1, max - SuffixLen))
EmitRow == PrintT(ToJson(IF Names THEN [s |-> s, m |-> Mangle(s)] ELSE [y |-> Prefix \o s, d |-> Demangle(Prefix \o s)]))
=============================================================================
