CONSTANTS Source = "small"
SmallLen = 5
INIT Init
NEXT Next
INVARIANTS MachineIsRelation Deterministic
CHECK_DEADLOCK FALSE
