CONSTANTS MaxItems = 4
Pads = {1, 8190, 8192, 8193, 262143, 262144}
INIT Init
NEXT Next
INVARIANTS TargetOk Layout Emitted
CHECK_DEADLOCK FALSE
