------------------------------ MODULE CodecLaws ------------------------------
(* C18, package level: the laws of a codec (Encode : Program -> Bytes, Decode : Bytes -> Program + Err), decided by TLC
   over the history the harness recorded from the REAL encoder/decoder/driver (impl -> spec).  Programs and byte
   strings appear as their sha256; one TLC state per record index.

     L1  Decode(Encode(p)) = p                      an encoded program decodes, and to the same program
     L2  Encode(Decode(b)) = b                      re-encoding what was decoded gives the same bytes
     L3  Decode(Truncate(b, k)) = Err  (k < |b|)    the format is self-delimiting,
         Decode(b . x) = Err           (x # <<>>)   and the decoder checks trailing bytes
     L4  Decode(Flip(b, i)) \in {Err} \cup Ok(_)     never a crash (panic / abort / hang); an undetected flip that
                                                    decodes to another program is counted, the format has no checksum
     L5  Build(Decode(Encode(p))) = Build(p)        building from the package file = building from the source
     L6  Build(Flip(b, i)) \in {refused, Ok(_)}      the code generator never crashes on a damaged package
     L0  Encode is a function                       (same program hash -> same bytes)

   Records: [op, pkg, in, out, res, cls, via, k];  res \in {"ok","err","same","refused","panic","abort","hang","lost","fail"}.
   A record that breaks a law yields a verdict row (PrintT) - the check maps rows to violations / known findings;
   TLC itself never stops at the first one, so all of them are reported.                                               *)
EXTENDS Integers, Sequences, FiniteSets, TLC, Json, IOUtils
Rec == ndJsonDeserialize(IOEnv.EVENTS)
N == Len(Rec)

VARIABLES l,        \* number of records consumed
          enc,      \* {<<p, b>>} : Encode(p) = b was observed
          dec,      \* {<<b, p>>} : Decode(b) = Ok(p) was observed
          builds,   \* {<<pkg (program + back end), via, out>>}
          verdict   \* law broken by record l ("" = none)
vars == <<l, enc, dec, builds, verdict>>

Crash(r) == r.res \in {"panic", "abort", "hang", "lost"}
Other(via) == IF via = "source" THEN "package" ELSE "source"
BuildOut(r) == IF r.res = "ok" THEN r.out ELSE "fail"

Verdict(r) ==
  CASE r.op = "encode" ->
         IF r.res # "ok" THEN "L0:encoder-failed"
         ELSE IF \E e \in enc : e[1] = r.in /\ e[2] # r.out THEN "L0:encode-not-a-function" ELSE ""
    [] r.op = "decode" ->
         IF r.res # "ok" THEN "L1:valid-package-refused"
         ELSE IF \E e \in enc : e[2] = r.in /\ e[1] # r.out THEN "L1:decode-of-encode-differs"
         ELSE IF \E d \in dec : d[1] = r.in /\ d[2] # r.out THEN "L1:decode-not-a-function" ELSE ""
    [] r.op = "reencode" ->
         IF r.res # "ok" THEN "L2:reencode-failed"
         ELSE IF \E d \in dec : d[2] = r.in /\ d[1] # r.out THEN "L2:encode-of-decode-differs" ELSE ""
    [] r.op = "truncate" ->
         IF r.res = "err" THEN "" ELSE IF Crash(r) THEN "L3:truncation-crash" ELSE "L3:truncation-accepted"
    [] r.op = "extend" ->
         IF r.res = "err" THEN "" ELSE IF Crash(r) THEN "L3:extension-crash" ELSE "L3:trailing-bytes-accepted"
    [] r.op = "flip" -> IF Crash(r) THEN "L4:flip-crash" ELSE ""
    [] r.op = "build" ->      \* both routes give the same assembly, or both fail (a program the back end refuses is not C18's business)
         IF \E x \in builds : x[1] = r.pkg /\ x[2] = Other(r.via) /\ x[3] # BuildOut(r) THEN "L5:package-build-differs" ELSE ""
    [] r.op = "flip-build" -> IF Crash(r) THEN "L6:flip-build-crash" ELSE ""
    [] OTHER -> "unknown-record"

Init == l = 0 /\ enc = {} /\ dec = {} /\ builds = {} /\ verdict = ""
Next == /\ l < N
        /\ LET r == Rec[l + 1] IN
           /\ verdict' = Verdict(r)
           /\ enc' = IF r.op = "encode" /\ r.res = "ok" THEN enc \cup {<<r.in, r.out>>} ELSE enc
           /\ dec' = IF r.op = "decode" /\ r.res = "ok" THEN dec \cup {<<r.in, r.out>>} ELSE dec
           /\ builds' = IF r.op = "build" THEN builds \cup {<<r.pkg, r.via, BuildOut(r)>>} ELSE builds
        /\ l' = l + 1
Spec == Init /\ [][Next]_vars

Report == verdict # "" => PrintT(ToJson([violation |-> verdict, idx |-> l, rec |-> Rec[l]]))
(* at the end: L5 needs both routes, L1 needs the decode of every encoded program *)
Complete == l = N =>
   /\ \A x \in builds : (\E y \in builds : y[1] = x[1] /\ y[2] = Other(x[2]))
                        \/ PrintT(ToJson([violation |-> "L5:one-route-only", idx |-> 0, rec |-> [pkg |-> x[1], via |-> x[2], op |-> "build", res |-> "ok", cls |-> ""]]))
   /\ \A e \in enc : (\E d \in dec : d[1] = e[2])
                     \/ PrintT(ToJson([violation |-> "L1:never-decoded", idx |-> 0, rec |-> [pkg |-> "", via |-> "", op |-> "encode", res |-> "ok", cls |-> e[2]]]))
   /\ PrintT(ToJson([summary |-> [records |-> N, encoded |-> Cardinality(enc), decoded |-> Cardinality(dec), builds |-> Cardinality(builds)]]))
=============================================================================
