CONSTANTS
  Tables = {"string", "shape"}
  Keys = {}
  MaxReq = 0
  History = FALSE
SPECIFICATION TraceSpec
INVARIANTS ConsistentStep
CONSTRAINT TraceConstraint
POSTCONDITION TraceAccepted
CHECK_DEADLOCK FALSE
