----------------------------- MODULE ParseEvents -----------------------------
(* C16 / C06: the parser's event protocol (dora-parser/src/parser.rs): the parser walks the token sequence with a
   cursor `idx` and a count `leading` of consumed-but-not-yet-emitted trivia tokens, and emits Open / Advance / Close
   events from which the lossless syntax tree is built (one Advance = the next token becomes a leaf of the innermost
   open node).
     kinds:  c code token | w whitespace | n newline | l line comment | b block comment (one line) | B block comment
             containing a newline | e end of file
   Primitives (one action each): Open, Close (first emits the trailing trivia), Adv (raw_advance(false): emits all
   pending trivia and the token), Skip (raw_advance(true): one trivia token becomes pending), Trailing, NonLeading
   (emit the trivia that does not belong to the next element), All.
   Layer P (Strict = FALSE): the trivia-adoption primitives may emit any k <= leading (which node adopts a comment
   is policy). Layer F (Strict = TRUE): exactly the counts of the code's rules.
   Safety (nothing lost, nothing twice): emitted + leading = idx in every state; opens and closes balance; when the
   parser finishes (Finish) every token has been emitted.                                                         *)
EXTENDS Integers, Sequences, FiniteSets, TLC
CONSTANTS MaxLen, Strict
Kinds == {"c", "w", "n", "l", "b", "B"}
Trivia == {"w", "n", "l", "b", "B"}
VARIABLES toks, idx, leading, emitted, depth, done
vars == <<toks, idx, leading, emitted, depth, done>>
N == Len(toks)
Cur == IF idx < N THEN toks[idx + 1] ELSE "e"

\* advance_by_trailing_trivia: trivia on the same line as the node that ends (up to and including a line comment or
\* a block comment with a newline; whitespace / one-line block comments only if such a comment follows... see code)
RECURSIVE TrailCount(_, _, _, _)
TrailCount(ts, start, k, multi) ==      \* k = number of pending tokens examined so far
  IF start + k + 1 > Len(ts) \/ k >= leading THEN 0
  ELSE LET t == ts[start + k + 1] cc == k + 1 IN
       CASE t = "w" -> TrailCount(ts, start, k + 1, multi)
         [] t = "n" -> multi
         [] t = "l" -> cc
         [] t = "B" -> cc
         [] t = "b" -> TrailCount(ts, start, k + 1, cc)
         [] OTHER -> 0
Trailing == IF leading = 0 THEN 0 ELSE TrailCount(toks, idx - leading, 0, 0)
\* advance_by_non_leading_trivia: walk backwards from the cursor; the comments directly attached to the next element
\* (no empty line in between) stay pending, everything before is emitted
RECURSIVE LeadKeep(_, _, _, _)
LeadKeep(lc, newlines, empty, lastlc) ==
  IF lc >= leading THEN lc
  ELSE LET k == toks[idx - lc] IN
       IF k = "n" THEN (IF newlines > 0 /\ empty THEN lastlc ELSE LeadKeep(lc + 1, newlines + 1, TRUE, lc))
       ELSE IF k = "w" THEN LeadKeep(lc + 1, newlines, empty, lastlc)
       ELSE LeadKeep(lc + 1, newlines, FALSE, lastlc)
NonLeading == IF leading = 0 THEN 0 ELSE leading - LeadKeep(0, 0, TRUE, 0)

Emit(k) == emitted' = emitted + k /\ leading' = leading - k
Open == ~done /\ depth' = depth + 1 /\ UNCHANGED <<toks, idx, leading, emitted, done>>
Adv == ~done /\ Cur \notin Trivia /\ Cur # "e" /\ idx' = idx + 1 /\ emitted' = emitted + leading + 1 /\ leading' = 0
       /\ UNCHANGED <<toks, depth, done>>
Skip == ~done /\ Cur \in Trivia /\ idx' = idx + 1 /\ leading' = leading + 1 /\ UNCHANGED <<toks, emitted, depth, done>>
TrailingStep == ~done /\ (IF Strict THEN Emit(Trailing) ELSE \E k \in 0..leading : Emit(k)) /\ UNCHANGED <<toks, idx, depth, done>>
NonLeadingStep == ~done /\ (IF Strict THEN Emit(NonLeading) ELSE \E k \in 0..leading : Emit(k)) /\ UNCHANGED <<toks, idx, depth, done>>
AllStep == ~done /\ Emit(leading) /\ UNCHANGED <<toks, idx, depth, done>>
\* close = trailing trivia + Close event
Close == ~done /\ depth > 0 /\ (IF Strict THEN Emit(Trailing) ELSE \E k \in 0..leading : Emit(k)) /\ depth' = depth - 1
         /\ UNCHANGED <<toks, idx, done>>
\* parse_file's epilogue: at end of input, emit everything pending and close the root
Finish == ~done /\ Cur = "e" /\ depth = 1 /\ Emit(leading) /\ depth' = 0 /\ done' = TRUE /\ UNCHANGED <<toks, idx>>
Init == /\ toks \in UNION {[1..n -> Kinds] : n \in 0..MaxLen}
        /\ idx = 0 /\ leading = 0 /\ emitted = 0 /\ depth = 1 /\ done = FALSE
Next == Open \/ Adv \/ Skip \/ TrailingStep \/ NonLeadingStep \/ AllStep \/ Close \/ Finish
Spec == Init /\ [][Next]_vars
NothingLostNothingTwice == emitted + leading = idx
Bounded == /\ idx <= N /\ leading >= 0 /\ emitted >= 0 /\ depth >= 0
CompleteAtFinish == done => (emitted = N /\ leading = 0 /\ depth = 0)
TrailingInRange == Trailing >= 0 /\ Trailing <= leading
NonLeadingInRange == NonLeading >= 0 /\ NonLeading <= leading
DepthBound == depth <= 3
=============================================================================
