CONSTANTS
Mode = "opcodes"
MaxItems = 3
Vals = {0, 1, 127, 128, 255, 256, 16383, 16384, 2097151, 2097152, 268435455, 268435456, 2147483647}
Pads = {1}
MaxPads = 0
MaxLabels = 0
PoolMax = 2097152
INIT Init
NEXT Next
INVARIANTS TheoremAndRow
CHECK_DEADLOCK FALSE
