CONSTANTS Stride = 1
Offset = 0
INIT Init
NEXT Next
INVARIANTS Canonical
CHECK_DEADLOCK FALSE
