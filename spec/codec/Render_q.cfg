CONSTANTS MaxNodes = 5
MaxWidth = 12
Mode = "enum"
NTexts = 2
INIT Init
NEXT Next
INVARIANTS Laws
CHECK_DEADLOCK FALSE
