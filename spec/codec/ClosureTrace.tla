---------------------------- MODULE ClosureTrace ----------------------------
(* I->S: validates the work-list events recorded by the hooks in dora-compiler/src/closure.rs
   (DORA_VERIF_CLOSURE) against Closure.tla. One TLC state per consumed record. The file may hold
   several compilations: each starts with a `reset` record and ends with an `end` record (added by
   the check; `end` demands that every pushed key was popped, i.e. the closure was completed).
   Keys are re-numbered to small integers by the check (injectively, per compilation).
   The compiler is single-threaded here, so the file order is the program order and the behaviour
   is deterministic: the only path either consumes the whole file or stops at the first record that
   is not a step of Closure.                                                                       *)
EXTENDS Closure, Json, IOUtils, TLC
Rec == ndJsonDeserialize(IOEnv.TRACE)
VARIABLE l
tvars == <<vars, l>>

TraceInit == /\ l = 1 /\ Init
Ev == Rec[l]
Is(name) == l <= Len(Rec) /\ Ev.ev = name

TReset == /\ Is("reset")
          /\ worklist' = <<>> /\ idx' = 0 /\ visited' = {} /\ thunks' = <<>> /\ vthunks' = {}
          /\ req' = <<>> /\ treq' = <<>> /\ last' = [ev |-> "init"]
TPush == /\ Is("push") /\ Push(Ev.key)
         /\ last'.known = Ev.known /\ last'.len = Ev.len
TPushThunk == /\ Is("push_thunk") /\ PushThunk(Ev.key)
              /\ last'.known = Ev.known /\ last'.len = Ev.len
TPop == /\ Is("pop") /\ Pop
        /\ last'.key = Ev.key /\ last'.idx = Ev.idx
TEnd == /\ Is("end") /\ idx = Len(worklist)
        /\ last' = [ev |-> "end"]
        /\ UNCHANGED <<worklist, idx, visited, thunks, vthunks, req, treq>>

TraceNext == /\ (TReset \/ TPush \/ TPushThunk \/ TPop \/ TEnd)
             /\ l' = l + 1
TraceSpec == TraceInit /\ [][TraceNext]_tvars

(* acceptance: the path consumes the whole file *)
Progress == TLCSet(1, IF l > TLCGet(1) THEN l ELSE TLCGet(1))
TraceConstraint == Progress
TraceAccepted == IF TLCGet(1) = Len(Rec) + 1 THEN TRUE
                 ELSE /\ PrintT(<<"REJECTED at record", TLCGet(1), Rec[TLCGet(1)]>>) /\ FALSE
ASSUME TLCSet(1, 1)
=============================================================================
