CONSTANTS MaxLen = 5
Emit = TRUE
INIT Init
NEXT Next
INVARIANTS RoundTrip Monotonic Clamped LineStartsSorted EmitRow
CHECK_DEADLOCK FALSE
