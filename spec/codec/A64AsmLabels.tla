---------------------------- MODULE A64AsmLabels ----------------------------
(* C08 - label state machine of the AArch64 assembler: create / bind labels, branches to bound labels are
   encoded at once, branches to unbound labels reserve their slot(s) and are resolved at finalize.
   TLC explores every program of at most MaxItems items over the alphabet below (forward and backward
   references, paddings on both sides of the 14-, 19- and 21-bit offset limits); every finalized program is
   printed with the expected words of every branch site (S->I: harness/va64 `labels` replays them into the
   real AssemblerArm64).

   Slot policy (the assembler's contract with its clients, who compute code sizes from it):
     b / b.cond / adr        1 word
     cbz / cbnz  to a bound label   1 word if the offset fits 19 bits, else  c(n)bz-inverted +2 ; b
     cbz / cbnz / tbz / tbnz to an unbound label   2 words: <branch> ; nop   if the offset fits, else
                                                   <inverted branch> +2 ; b
     tbz / tbnz to a bound label    1 word (an offset that does not fit 14 bits may be refused)
   Property (invariant TargetOk): every resolved site transfers control to the bound position of its label:
   position of the branch + 4 * encoded offset = position of the label.                                  *)
EXTENDS A64Asm, Json
CONSTANTS MaxItems, Pads
NL == 2
Labels == 1..NL
VARIABLES prog, pos, lab, sites, phase

CbzVariants == {"cbz", "cbnz_w"}
TbzVariants == {<<"tbz", 5, 3>>, <<"tbnz", 9, 63>>}
Branches(l) == {<<"B", l>>, <<"BCond", "LT", l>>, <<"Adr", 7, l>>}
               \cup {<<"Cbz", v, IF v = "cbz" THEN 3 ELSE 17, l>> : v \in CbzVariants}
               \cup {<<"Tbz", t[1], t[2], t[3], l>> : t \in TbzVariants}
Items == {<<"Pad", n>> : n \in Pads} \cup {<<"Bind", l>> : l \in Labels} \cup UNION {Branches(l) : l \in Labels}

LabelOf(it) == it[Len(it)]
Slots(it, bound) == CASE it[1] \in {"B", "BCond", "Adr"} -> 1
                      [] it[1] = "Cbz" -> IF bound THEN 0 ELSE 2          \* 0: decided by the offset
                      [] it[1] = "Tbz" -> IF bound THEN 1 ELSE 2
CbSf(v) == IF v \in {"cbz", "cbnz"} THEN 1 ELSE 0
CbOp(v) == IF v \in {"cbnz", "cbnz_w"} THEN 1 ELSE 0
TbOp(v) == IF v = "tbnz" THEN 1 ELSE 0
Nop == Word(NopF)

\* words of a site at word position `at` whose label is at word position `target`; late = resolved at finalize
\* result: [ws, must (refusal required), may (refusal allowed)]
W(ws) == [ws |-> ws, must |-> FALSE, may |-> FALSE]
MustRefuse == [ws |-> <<>>, must |-> TRUE, may |-> TRUE]
MayRefuse(ws) == [ws |-> ws, must |-> FALSE, may |-> TRUE]
SiteWords(it, at, target, late) ==
  LET d == target - at
  IN CASE it[1] = "B" -> IF FitsS(d, 26) THEN W(<<Word(BranchImmF(0, d))>>) ELSE MustRefuse
       [] it[1] = "BCond" -> IF FitsS(d, 19) THEN W(<<Word(BranchCondF(CondCode(it[2]), d))>>) ELSE MustRefuse
       [] it[1] = "Adr" -> IF FitsS(d * 4, 21) THEN W(PcRel(0, it[2], d * 4).ws) ELSE MustRefuse
       [] it[1] = "Cbz" ->
            IF FitsS(d, 19) THEN W(<<Word(CmpBranchF(CbSf(it[2]), CbOp(it[2]), it[3], d))>> \o (IF late THEN <<Nop>> ELSE <<>>))
            ELSE W(<<Word(CmpBranchF(CbSf(it[2]), 1 - CbOp(it[2]), it[3], 2)), Word(BranchImmF(0, d - 1))>>)
       [] it[1] = "Tbz" ->
            IF FitsS(d, 14) THEN W(<<Word(TestBranchF(TbOp(it[2]), it[3], it[4], d))>> \o (IF late THEN <<Nop>> ELSE <<>>))
            ELSE LET long == <<Word(TestBranchF(1 - TbOp(it[2]), it[3], it[4], 2)), Word(BranchImmF(0, d - 1))>>
                 IN IF late THEN W(long) ELSE MayRefuse(long)

\* a program is meaningful only up to the first site that must be refused (the assembler panics there)
Must == \E k \in 1..Len(sites) : sites[k].r.must
May == \E k \in 1..Len(sites) : sites[k].r.may

Init == prog = <<>> /\ pos = 0 /\ lab = [l \in Labels |-> -1] /\ sites = <<>> /\ phase = "asm"

Emit(it) ==
  /\ phase = "asm" /\ Len(prog) < MaxItems
  /\ ~Must                                   \* the assembler has panicked at a site that must be refused
  /\ prog' = Append(prog, it)
  /\ CASE it[1] = "Pad" -> pos' = pos + it[2] /\ UNCHANGED <<lab, sites>>
       [] it[1] = "Bind" -> lab[it[2]] = -1 /\ lab' = [lab EXCEPT ![it[2]] = pos] /\ UNCHANGED <<pos, sites>>
       [] OTHER ->
            LET l == LabelOf(it)
                bound == lab[l] # -1 /\ it[1] # "Adr"        \* adr to a label is always resolved at finalize
                now == SiteWords(it, pos, lab[l], FALSE)
                n == IF bound THEN Len(now.ws) ELSE Slots(it, FALSE)
            IN /\ sites' = Append(sites, [at |-> pos, it |-> it, late |-> ~bound,
                                          r |-> IF bound THEN now ELSE W(<<>>)])
               /\ pos' = pos + n
               /\ UNCHANGED lab
  /\ UNCHANGED phase

\* labels still unbound are bound at the end; pending sites are resolved
Finalize ==
  /\ phase = "asm" /\ Len(prog) >= 1
  /\ LET endlab == [l \in Labels |-> IF lab[l] = -1 THEN pos ELSE lab[l]]
     IN /\ lab' = endlab
        /\ sites' = [k \in 1..Len(sites) |->
                       IF sites[k].late THEN [sites[k] EXCEPT !.r = SiteWords(sites[k].it, sites[k].at, endlab[LabelOf(sites[k].it)], TRUE)]
                       ELSE sites[k]]
  /\ phase' = "done" /\ UNCHANGED <<prog, pos>>

Next == (\E it \in Items : Emit(it)) \/ Finalize
Spec == Init /\ [][Next]_<<prog, pos, lab, sites, phase>>

(* ---- the property, on the specification's own words: decode the offset field and follow it *)
Reaches(s) ==
  LET ws == s.r.ws  it == s.it  tgt == lab[LabelOf(it)]
      Off(w, hi, lo) == SignExt(WField(w, hi, lo), hi - lo + 1)
  IN CASE it[1] = "B" -> s.at + Off(ws[1], 25, 0) = tgt
       [] it[1] = "BCond" -> s.at + Off(ws[1], 23, 5) = tgt
       [] it[1] = "Adr" -> 4 * s.at + SignExt(WField(ws[1], 23, 5) * 4 + WField(ws[1], 30, 29), 21) = 4 * tgt
       [] it[1] = "Cbz" -> IF WBit(ws[1], 24) = CbOp(it[2])
                           THEN s.at + Off(ws[1], 23, 5) = tgt /\ (Len(ws) = 1 \/ ws[2] = Nop)
                           ELSE Off(ws[1], 23, 5) = 2 /\ s.at + 1 + Off(ws[2], 25, 0) = tgt
       [] it[1] = "Tbz" -> IF WBit(ws[1], 24) = TbOp(it[2])
                           THEN s.at + Off(ws[1], 18, 5) = tgt /\ (Len(ws) = 1 \/ ws[2] = Nop)
                           ELSE Off(ws[1], 18, 5) = 2 /\ s.at + 1 + Off(ws[2], 25, 0) = tgt
TargetOk == phase = "done" => \A k \in 1..Len(sites) : sites[k].r.ws # <<>> => Reaches(sites[k])
\* sites do not overlap and follow the slot policy
Layout == \A k \in 1..Len(sites) : sites[k].r.ws # <<>> /\ sites[k].late => Len(sites[k].r.ws) = Slots(sites[k].it, FALSE)

Row == ToJson([prog |-> prog, must |-> Must, may |-> May, labs |-> [l \in Labels |-> 4 * lab[l]],
               sites |-> [k \in 1..Len(sites) |-> <<4 * sites[k].at, sites[k].r.ws>>]])
Emitted == phase = "done" => PrintT(Row)
=============================================================================
