CONSTANTS MaxNodes = 6
MaxWidth = 12
Mode = "count"
NTexts = 4
INIT Init
NEXT Next
CHECK_DEADLOCK FALSE
