---------------------------- MODULE X64AsmLabels ----------------------------
(* C07, specification -> implementation: the assembler's label state machine explored by TLC.
   A state is a label program (sequence of items Pad(n) / Bind(l) / jmp / jmp_near / jcc / jcc_near / movq_rl over
   NL labels) together with the assembler state reached by X64Asm!Step; every program of up to MaxItems items is
   a state (no two adjacent pads, labels numbered in order of first use, a refused state is final).
   Invariants: JumpsLand (finalized code: position_after + displacement = bound position for every jump and
   label-addressed operand), Positions (pos = code length).  EmitRow prints program and expected outcome
   (finalized bytes in compact form, or refusal) for replay against the real AssemblerX64.            *)
EXTENDS X64Asm, Json
CONSTANTS NL, MaxItems, Pads, CCs, LoadRegs
VARIABLES prog, asm

Items == { Pad(n) : n \in Pads } \cup { Bind(l) : l \in 1..NL }
         \cup { Ins(m, <<>>, "", l) : m \in {"jmp", "jmp_near"}, l \in 1..NL }
         \cup { Ins(m, <<>>, cc, l) : m \in {"jcc", "jcc_near"}, cc \in CCs, l \in 1..NL }
         \cup { Ins("movq_rl", <<r>>, "", l) : r \in LoadRegs, l \in 1..NL }
Used(p) == { p[i].l : i \in 1..Len(p) } \ {0}
Allowed(p, it) ==
  /\ ~(it.op = "pad" /\ Len(p) > 0 /\ p[Len(p)].op = "pad")
  /\ it.l > 1 => (it.l - 1) \in Used(p)                       \* labels are named in order of first use
Init == prog = <<>> /\ asm = AsmInit(NL)
Next == /\ Len(prog) < MaxItems /\ ~asm.refused
        /\ \E it \in Items : Allowed(prog, it) /\ prog' = Append(prog, it) /\ asm' = Step(asm, it)

Fin == Finalize(asm)
JumpsLand == ~Fin.refused => JumpsLandIn(Fin)
Positions == ~asm.refused => asm.pos = Len(Flat(asm.chunks, 1))
\* the step function agrees with running the whole program from scratch (the state really is the assembler state)
StateIsRun == asm = Run(AsmInit(NL), prog, 1)
Unbound == \E i \in 1..Len(prog) : prog[i].op = "ins" /\ asm.lab[prog[i].l] < 0
\* rows: everything except the (boring, numerous) programs that merely lack a bind - of those only the short ones
EmitRow == (Len(prog) > 0 /\ (~Unbound \/ asm.refused \/ Len(prog) <= 2)) =>
             PrintT(ToJson([nl |-> NL, items |-> prog, refused |-> Fin.refused,
                            code |-> IF Fin.refused THEN <<>> ELSE Compact(Fin.chunks)]))
=============================================================================
