------------------------------ MODULE Interner ------------------------------
(* First-request interners of dora-compiler/src/aot.rs: AotStringTable (map + entries) and
   AotShapeInterner (ids + keys). `Intern(t, k)` returns the existing id of k in table t or hands
   out the next one, which is the number of entries so far. The hash map is used for look-up only;
   the emitted tables are the `entries`/`keys` vectors, so ids - and with them the order of the
   string table and of the shape table in the assembly - are a function of the request order alone
   (invariant FirstRequestOrder).

   `last` is the observable event in the format of the DORA_VERIF_CLOSURE hook:
     intern  table, key, known (k already has an id), next (number of entries before the request)
   `id` (the value returned) is not logged by the hook; it is determined by the three others.     *)
EXTENDS Naturals, Sequences, FiniteSets

CONSTANTS Tables,    \* {"string", "shape"}
          Keys,      \* keys that can be requested (model checking only)
          MaxReq,    \* bound on the number of requests (model checking only)
          History    \* BOOLEAN: keep the request history (needed for FirstRequestOrder only)

VARIABLES ids,       \* ids[t] : function from the interned keys of table t to their ids
          entries,   \* entries[t] : sequence of keys in id order (the emitted table)
          req,       \* req[t] : request history of table t
          last
vars == <<ids, entries, req, last>>

Range(s) == {s[i] : i \in 1..Len(s)}

Init == /\ ids = [t \in Tables |-> <<>>]        \* the empty function
        /\ entries = [t \in Tables |-> <<>>]
        /\ req = [t \in Tables |-> <<>>]
        /\ last = [ev |-> "init"]

Intern(t, k) ==
    LET known == k \in DOMAIN ids[t]
        next  == Len(entries[t])
        id    == IF known THEN ids[t][k] ELSE next
    IN /\ last' = [ev |-> "intern", table |-> t, key |-> k, known |-> known, next |-> next, id |-> id]
       /\ req' = IF History THEN [req EXCEPT ![t] = Append(@, k)] ELSE req
       /\ IF known
            THEN UNCHANGED <<ids, entries>>
            ELSE /\ ids' = [ids EXCEPT ![t] = [x \in (DOMAIN @) \cup {k} |-> IF x = k THEN next ELSE @[x]]]
                 /\ entries' = [entries EXCEPT ![t] = Append(@, k)]

Next == /\ \A t \in Tables : Len(req[t]) < MaxReq
        /\ \E t \in Tables, k \in Keys : Intern(t, k)
Spec == Init /\ [][Next]_vars

------------------------------------------------------------------------------
(* ids are dense, injective, and entries is their inverse *)
Consistent == \A t \in Tables :
                /\ DOMAIN ids[t] = Range(entries[t])
                /\ Cardinality(DOMAIN ids[t]) = Len(entries[t])
                /\ \A i \in 1..Len(entries[t]) : ids[t][entries[t][i]] = i - 1

(* cheap form for long recorded traces: only the entry touched by the last step is looked at *)
ConsistentStep == last.ev = "intern" =>
                    /\ last.key \in DOMAIN ids[last.table]
                    /\ ids[last.table][last.key] = last.id
                    /\ entries[last.table][last.id + 1] = last.key
                    /\ Cardinality(DOMAIN ids[last.table]) = Len(entries[last.table])
                    /\ last.known = (last.id < last.next)

RECURSIVE FirstOcc(_)
FirstOcc(s) == IF s = <<>> THEN <<>>
               ELSE LET p == FirstOcc(SubSeq(s, 1, Len(s) - 1))
                        x == s[Len(s)]
                    IN IF x \in Range(p) THEN p ELSE Append(p, x)

(* ids are handed out in first-request order: a function of the request sequence alone *)
FirstRequestOrder == History => \A t \in Tables : entries[t] = FirstOcc(req[t])
=============================================================================
