CONSTANTS MaxLen = 4
Strict = TRUE
SPECIFICATION Spec
INVARIANTS NothingLostNothingTwice Bounded CompleteAtFinish TrailingInRange NonLeadingInRange
CONSTRAINT DepthBound
CHECK_DEADLOCK FALSE
