INIT Init
NEXT Next
INVARIANT Conforms
CHECK_DEADLOCK FALSE
