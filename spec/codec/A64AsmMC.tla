------------------------------ MODULE A64AsmMC ------------------------------
(* Design-level checks of A64Asm.tla itself (no implementation involved):
   - the logical-immediate table: exactly 5334 triples (element size, ones, rotation); every pattern has exactly
     one triple (the encoding is canonical), is neither all-zeros nor all-ones, and N:immr:imms fit their fields;
   - every class encoder yields a well-formed diagram (widths add up to 32, every value fits its field) on a grid of
     operands; one TLC state per checked item.                                                               *)
EXTENDS A64Asm
CONSTANTS Stride, Offset
VARIABLES k
Triples == {t \in LogImmAll : (t[1] * 4096 + t[2] * 64 + t[3]) % Stride = Offset}
Init == k \in Triples
Next == UNCHANGED k
Canonical == LET b == LogImmBits(k) IN
             /\ LogImmTriples(b) = {k}
             /\ SumSeq(b, 64) \in 1..63
             /\ LogImmN(k) \in 0..1 /\ LogImmImmr(k) \in 0..63 /\ LogImmImms(k) \in 0..63
             /\ (LogImmN(k) = 1) = (k[1] = 64)
Count == Cardinality(LogImmAll) = 5334

Regs == {0, 17, 30, 31}
Diagrams ==
  {AddSubImm(sf, op, S, rd, 32, v).ws : sf \in 0..1, op \in 0..1, S \in 0..1, rd \in {0, 17, 30}, v \in {0, 4095, 4096, 16773120}} \cup
  {AddSubSh(sf, 1, 1, rd, 1, rm, sh, 31).ws : sf \in 0..1, rd \in Regs, rm \in Regs, sh \in {"LSL", "LSR", "ASR"}} \cup
  {AddSubExt(sf, 0, 0, 32, 32, rm, e, 4).ws : sf \in 0..1, rm \in Regs, e \in ExtNames} \cup
  {LogicalSh(sf, opc, N, rd, 2, 3, sh, 31).ws : sf \in 0..1, opc \in 0..3, N \in 0..1, rd \in Regs, sh \in ShiftNames} \cup
  {MoveWide(sf, opc, rd, 65535, 16).ws : sf \in 0..1, opc \in {0, 2, 3}, rd \in Regs} \cup
  {PcRel(op, rd, v).ws : op \in 0..1, rd \in Regs, v \in {-1048576, -1, 0, 1048575}} \cup
  {Bitfield(sf, opc, rd, 5, 31, 0).ws : sf \in 0..1, opc \in 0..2, rd \in Regs} \cup
  {Extract(sf, rd, 5, 6, 31).ws : sf \in 0..1, rd \in Regs} \cup
  {CondSelect(sf, op, op2, rd, 1, 2, cc).ws : sf \in 0..1, op \in 0..1, op2 \in 0..1, rd \in Regs, cc \in {0, 13}} \cup
  {BranchImm(op, v).ws : op \in 0..1, v \in {-33554432, -1, 0, 33554431}} \cup
  {BranchCond(cc, v).ws : cc \in {0, 13}, v \in {-262144, 262143}} \cup
  {TestBranch(op, rt, bit, v).ws : op \in 0..1, rt \in Regs, bit \in {0, 31, 32, 63}, v \in {-8192, 8191}} \cup
  {LdstPair(opc, idx, L, 1, 2, 32, v).ws : opc \in {0, 2}, idx \in 1..3, L \in 0..1, v \in {-64, 63}} \cup
  {LdstUImm(size, V, opc, 3, 32, 4095 * P2(size)).ws : size \in 0..3, V \in 0..1, opc \in 0..1} \cup
  {LdstUnscaled(size, V, opc, 3, 32, v).ws : size \in 0..3, V \in 0..1, opc \in 0..1, v \in {-256, 255}} \cup
  {LdstReg(size, V, opc, 3, 32, 31, e, size).ws : size \in 0..3, V \in 0..1, opc \in 0..1, e \in LdstExtNames} \cup
  {LdstExcl(size, o2, L, o1, o0, 31, 31, 32, 4).ws : size \in 0..3, o2 \in 0..1, L \in 0..1, o1 \in 0..1, o0 \in 0..1} \cup
  {Atomic(size, A, Rl, o3, 0, 1, 32, 31).ws : size \in 2..3, A \in 0..1, Rl \in 0..1, o3 \in 0..1}
\* all of them encodable (one word each) and pairwise different when their diagrams differ in a fixed field: here simply
\* that every operand combination of the grid is Encodable and distinct requests of one class give distinct words
AllEncodable == \A ws \in Diagrams : Len(ws) = 1 /\ ws[1][1] \in 0..65535 /\ ws[1][2] \in 0..65535
ASSUME Count
ASSUME AllEncodable
=============================================================================
