------------------------------- MODULE Render -------------------------------
(* C17 (S->I): the width-aware layout renderer of dora-format (render.rs), Wadler style.

   A document is  <<kind, arg, children>>:
     TEXT(t)        the characters Texts[t], never broken
     SOFTLINE       a space when the enclosing group is flat, a line break otherwise
     SOFTBREAK      nothing when flat, a line break otherwise
     HARDLINE       always a line break (a group that contains one can not be flat)
     IFBREAK(d)     d when the enclosing group is broken, nothing when flat
     GROUP(d)       d laid out flat  iff  it fits: the flat width of d plus everything that follows it up to
                    the first possible line break (or the end of the document) is <= width - current column
     NEST(k, d)     d with the indentation increased by k
     CONCAT(ds)     ds one after the other
   The top level is in break mode. Indentation is materialized lazily, by the first text item (even an empty
   one) placed on a line; a line break removes trailing spaces of the line it ends. Characters are code points
   (32 = space, 10 = line break).

   Mode "enum":  every document with at most MaxNodes nodes x every width in 1..MaxWidth is one (row) state; the
   state emits <<doc, width, expected layout>> for the replay into the real renderer, and the laws below are
   checked in-model for each of them (invariant Laws).
   Mode "adjudicate": rows <<doc, width, actual output of the implementation>> that differ from the expected
   layout are read from IOEnv.ROWS; the property-level question "is the actual output one of the layouts
   of the document at all (some flat/break choice per group)" is decided (EmitVerdict).                       *)
EXTENDS Integers, Sequences, FiniteSets, TLC, Json, IOUtils
CONSTANTS MaxNodes, MaxWidth, Mode, NTexts

TEXT == 1  SOFTLINE == 2  SOFTBREAK == 3  HARDLINE == 4  IFBREAK == 5  GROUP == 6  NEST == 7  CONCAT == 8
FLAT == 0  BREAK == 1
SP == 32   NL == 10
Texts == << <<97>>, <<98, 98>>, <<99, 32>>, <<>> >>              \* "a", "bb", "c " (trailing space), ""
NestBy == 2

Kind(d) == d[1]
Arg(d) == d[2]
Kids(d) == d[3]
Kid(d) == d[3][1]

(* ---------------------------------------------------------------- the renderer *)
Spaces(n) == [i \in 1..n |-> SP]
RECURSIVE TrimRight(_)
TrimRight(s) == IF s # <<>> /\ s[Len(s)] = SP THEN TrimRight(SubSeq(s, 1, Len(s) - 1)) ELSE s
Items(ind, m, ds) == [i \in 1..Len(ds) |-> <<ind, m, ds[i]>>]

(* Does the pending work `st` (top first) fit into `rem` columns up to the first line break taken in break mode? *)
RECURSIVE Fits(_, _)
Fits(rem, st) ==
  IF rem < 0 THEN FALSE
  ELSE IF st = <<>> THEN TRUE
  ELSE LET ind == st[1][1]  m == st[1][2]  d == st[1][3]  rest == Tail(st) IN
    CASE Kind(d) = CONCAT    -> Fits(rem, Items(ind, m, Kids(d)) \o rest)
      [] Kind(d) = NEST      -> Fits(rem, <<<<ind + Arg(d), m, Kid(d)>>>> \o rest)
      [] Kind(d) = GROUP     -> Fits(rem, <<<<ind, FLAT, Kid(d)>>>> \o rest)
      [] Kind(d) = TEXT      -> Fits(rem - Len(Texts[Arg(d)]), rest)
      [] Kind(d) = SOFTLINE  -> IF m = FLAT THEN Fits(rem - 1, rest) ELSE TRUE
      [] Kind(d) = SOFTBREAK -> IF m = FLAT THEN Fits(rem, rest) ELSE TRUE
      [] Kind(d) = IFBREAK   -> IF m = FLAT THEN Fits(rem, rest) ELSE Fits(rem, <<<<ind, m, Kid(d)>>>> \o rest)
      [] Kind(d) = HARDLINE  -> m = BREAK

(* st: pending <<indent, mode, doc>> items, top first; out: characters so far; col: column; fresh: at line start.
   forced = <<-1>>: groups decide by Fits (the renderer). Otherwise forced is a sequence of FLAT/BREAK choices
   consumed by the groups in rendering order (the set of all layouts of a document); the result <<-1>> means
   that the choices are not a layout (a hard line inside a flat group).                                         *)
RECURSIVE Run(_, _, _, _, _, _)
Run(st, out, col, fresh, w, forced) ==
  IF st = <<>> THEN out
  ELSE LET ind == st[1][1]  m == st[1][2]  d == st[1][3]  rest == Tail(st)
           Txt(t) == IF fresh THEN Run(rest, out \o Spaces(ind) \o t, ind + Len(t), FALSE, w, forced)
                              ELSE Run(rest, out \o t, col + Len(t), FALSE, w, forced)
           Line == Run(rest, TrimRight(out) \o <<NL>>, 0, TRUE, w, forced)
       IN
    CASE Kind(d) = CONCAT    -> Run(Items(ind, m, Kids(d)) \o rest, out, col, fresh, w, forced)
      [] Kind(d) = NEST      -> Run(<<<<ind + Arg(d), m, Kid(d)>>>> \o rest, out, col, fresh, w, forced)
      [] Kind(d) = GROUP     ->
           IF forced = <<-1>>
           THEN LET start == IF fresh THEN ind ELSE col
                    flat == Fits(w - start, <<<<ind, FLAT, Kid(d)>>>> \o rest)
                IN Run(<<<<ind, IF flat THEN FLAT ELSE BREAK, Kid(d)>>>> \o rest, out, col, fresh, w, forced)
           ELSE Run(<<<<ind, Head(forced), Kid(d)>>>> \o rest, out, col, fresh, w, Tail(forced))
      [] Kind(d) = TEXT      -> Txt(Texts[Arg(d)])
      [] Kind(d) = SOFTLINE  -> IF m = FLAT THEN Txt(<<SP>>) ELSE Line
      [] Kind(d) = SOFTBREAK -> IF m = FLAT THEN Run(rest, out, col, fresh, w, forced) ELSE Line
      [] Kind(d) = IFBREAK   -> IF m = FLAT THEN Run(rest, out, col, fresh, w, forced)
                                ELSE Run(<<<<ind, m, Kid(d)>>>> \o rest, out, col, fresh, w, forced)
      [] Kind(d) = HARDLINE  -> IF forced # <<-1>> /\ m = FLAT THEN <<-1>> ELSE Line     \* no layout: hard line in a flat group

Layout(d, w) == Run(<<<<0, BREAK, d>>>>, <<>>, 0, TRUE, w, <<-1>>)

(* ---------------------------------------------------------------- all layouts of a document (property level) *)
RECURSIVE NGroups(_)
NGroups(d) == (IF Kind(d) = GROUP THEN 1 ELSE 0) +
              (IF Kids(d) = <<>> THEN 0 ELSE LET S[i \in 0..Len(Kids(d))] == IF i = 0 THEN 0 ELSE S[i-1] + NGroups(Kids(d)[i])
                                             IN S[Len(Kids(d))])
Choices(n) == [1..n -> {FLAT, BREAK}]
(* Every group chooses independently: render.rs can break a group inside a flat one (a group that starts a line
   is measured from its own indentation, the text is placed at the indentation of the text), so the layouts of
   the implementation are not Wadler's "flat means flat all the way down". For C17 only the content matters.   *)
RECURSIVE HasHard(_)
HasHard(d) == Kind(d) = HARDLINE \/ (Kind(d) # IFBREAK /\ \E i \in 1..Len(Kids(d)) : HasHard(Kids(d)[i]))   \* IFBREAK vanishes when flat
Layouts(d) == { Run(<<<<0, BREAK, d>>>>, <<>>, 0, TRUE, 0, c) : c \in Choices(NGroups(d)) } \ {<<-1>>}

(* ---------------------------------------------------------------- enumeration of small documents *)
(* Documents are built by TLC itself, bottom-up (shift/reduce): the state is a forest of finished documents;
   a leaf is pushed, the last document is wrapped, or the last k documents are concatenated. Every document with
   at most MaxNodes nodes is reached (post-order construction); forests that can no longer be completed within
   the bound are pruned. A forest of one document fans out into one row state per width.                        *)
Leaves == {<<TEXT, t, <<>>>> : t \in 1..NTexts} \cup {<<SOFTLINE, 0, <<>>>>, <<SOFTBREAK, 0, <<>>>>, <<HARDLINE, 0, <<>>>>}
RECURSIVE Nodes(_)
Nodes(d) == 1 + (IF Kids(d) = <<>> THEN 0 ELSE LET S[i \in 0..Len(Kids(d))] == IF i = 0 THEN 0 ELSE S[i-1] + Nodes(Kids(d)[i]) IN S[Len(Kids(d))])
ForestNodes(f) == LET S[i \in 0..Len(f)] == IF i = 0 THEN 0 ELSE S[i-1] + Nodes(f[i]) IN S[Len(f)]
Completable(f) == ForestNodes(f) + (IF Len(f) > 1 THEN 1 ELSE 0) <= MaxNodes

(* ---------------------------------------------------------------- state space *)
VARIABLES phase,    \* "build" (forest under construction), "row" (document x width), "adj" (adjudication row)
          forest, width, actual
vars == <<phase, forest, width, actual>>
doc == forest[1]
AdjRows == IF Mode = "adjudicate" THEN ndJsonDeserialize(IOEnv.ROWS) ELSE <<>>
RECURSIVE FromJson(_)
FromJson(j) == <<j[1], j[2], [i \in 1..Len(j[3]) |-> FromJson(j[3][i])]>>
Init == phase = "build" /\ forest = <<>> /\ width = 0 /\ actual = <<>>
Last == forest[Len(forest)]
Front == SubSeq(forest, 1, Len(forest) - 1)
Push == \E l \in Leaves : forest' = Append(forest, l)
Wrap == /\ forest # <<>>
        /\ \E k \in {IFBREAK, GROUP, NEST} : forest' = Append(Front, <<k, IF k = NEST THEN NestBy ELSE 0, <<Last>>>>)
Concat == \E k \in 2..Len(forest) :
             forest' = Append(SubSeq(forest, 1, Len(forest) - k), <<CONCAT, 0, SubSeq(forest, Len(forest) - k + 1, Len(forest))>>)
Build == /\ phase = "build" /\ Mode = "enum"
         /\ (Push \/ Wrap \/ Concat)
         /\ Completable(forest')
         /\ UNCHANGED <<phase, width, actual>>
Emit == /\ phase = "build" /\ Mode = "enum" /\ Len(forest) = 1
        /\ phase' = "row" /\ width' \in 1..MaxWidth /\ UNCHANGED <<forest, actual>>
Adjudicate == /\ phase = "build" /\ Mode = "adjudicate" /\ forest = <<>>
              /\ \E r \in 1..Len(AdjRows) : forest' = <<FromJson(AdjRows[r].d)>> /\ width' = AdjRows[r].w /\ actual' = AdjRows[r].o
              /\ phase' = "adj"
Next == Build \/ Emit \/ Adjudicate

Row == phase = "row"
RECURSIVE FlatWidth(_)
FlatWidth(d) == CASE Kind(d) = TEXT -> Len(Texts[Arg(d)])
                  [] Kind(d) = SOFTLINE -> 1
                  [] Kind(d) \in {SOFTBREAK, IFBREAK, HARDLINE} -> 0
                  [] OTHER -> LET S[i \in 0..Len(Kids(d))] == IF i = 0 THEN 0 ELSE S[i-1] + FlatWidth(Kids(d)[i]) IN S[Len(Kids(d))]
RECURSIVE HasKind(_, _)
HasKind(d, k) == Kind(d) = k \/ \E i \in 1..Len(Kids(d)) : HasKind(Kids(d)[i], k)
RECURSIVE TextChars(_)
TextChars(d) == IF Kind(d) = TEXT THEN SelectSeq(Texts[Arg(d)], LAMBDA c : c # SP)
                ELSE IF Kids(d) = <<>> THEN <<>>
                ELSE LET S[i \in 0..Len(Kids(d))] == IF i = 0 THEN <<>> ELSE S[i-1] \o TextChars(Kids(d)[i]) IN S[Len(Kids(d))]
Ink(s) == SelectSeq(s, LAMBDA c : c # SP /\ c # NL)
RECURSIVE CountHard(_)
CountHard(d) == IF Kind(d) = HARDLINE THEN 1
                ELSE IF Kids(d) = <<>> \/ Kind(d) = IFBREAK THEN 0
                ELSE LET S[i \in 0..Len(Kids(d))] == IF i = 0 THEN 0 ELSE S[i-1] + CountHard(Kids(d)[i]) IN S[Len(Kids(d))]

(* laws of the renderer, checked for every enumerated (document, width); l is the layout *)
IsALayout(l) == l \in Layouts(doc)                                       \* the chosen layout is one of the layouts
(* a group that fits is on one line. Without NEST only: a group that starts a line is measured from its own
   indentation, so group(nest(k, group(x))) at a line start can be flat outside and broken inside - faithful to
   render.rs (fits() takes `indent` of the group, emit_text the indent of the text); layout only.             *)
FlatWhenFits(l) == Kind(doc) = GROUP /\ ~HasHard(doc) /\ ~HasKind(doc, NEST) /\ FlatWidth(doc) <= width
                      => \A i \in 1..Len(l) : l[i] # NL
BrokenWhenNot(l) == Kind(doc) = GROUP /\ FlatWidth(doc) > width /\ (HasKind(doc, SOFTLINE) \/ HasKind(doc, SOFTBREAK))
                       /\ ~HasKind(Kid(doc), GROUP)
                      => \E i \in 1..Len(l) : l[i] = NL                  \* a group that does not fit is broken
NoTrailingSpace(l) == \A i \in 2..Len(l) : l[i] = NL => l[i-1] # SP
WidthOnlyViaGroups(l) == ~HasKind(doc, GROUP) => l = Layout(doc, 1)
InkPreserved(l) == ~HasKind(doc, IFBREAK) => Ink(l) = TextChars(doc)      \* every text, in order, nothing else
HardLinesKept(l) == Cardinality({i \in 1..Len(l) : l[i] = NL}) >= CountHard(doc)   \* those outside IFBREAK
Laws == Row => LET l == Layout(doc, width) IN
                 /\ IsALayout(l) /\ FlatWhenFits(l) /\ BrokenWhenNot(l) /\ NoTrailingSpace(l)
                 /\ WidthOnlyViaGroups(l) /\ InkPreserved(l) /\ HardLinesKept(l)
                 /\ PrintT(ToJson([d |-> doc, w |-> width, o |-> l]))    \* the row for the replay
EmitVerdict == phase = "adj" => PrintT(ToJson([d |-> doc, w |-> width, o |-> actual, expected |-> Layout(doc, width),
                                               isLayout |-> actual \in Layouts(doc)]))
=============================================================================
