\* short traces: with request history, so that Numbering and the quadratic NoDuplicates are checked on real runs too
CONSTANTS
  Keys = {}
  TKeys = {}
  MaxReq = 0
  History = TRUE
SPECIFICATION TraceSpec
INVARIANTS VisitedIsWorklist NoDuplicatesCard NoDuplicates PopsInOrder Numbering TypeOK
CONSTRAINT TraceConstraint
POSTCONDITION TraceAccepted
CHECK_DEADLOCK FALSE
