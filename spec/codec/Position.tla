------------------------------ MODULE Position ------------------------------
(* C20: editor positions. Declarative definition of the LSP convention over six character classes:
     a  (1 byte, 1 UTF-16 unit)   e2 (2,1 - e.g. U+00E9)   e3 (3,1 - U+20AC)   e4 (4,2 - U+1F600)
     cr, lf  (line terminators; CR LF counts once)
   ToPos / ToIdx are defined by counting terminators and units, not as the code's loops.
   Each text is one state; the invariants are checked for every text of length <= MaxLen and the
   expected conversion table of each text is emitted for comparison with the real functions
   (dora-parser compute_line_starts, dora-language-server position.rs).                        *)
EXTENDS Integers, Sequences, FiniteSets, TLC, Json
CONSTANT MaxLen, Emit
Ch == {"a", "e2", "e3", "e4", "cr", "lf"}
Bytes(c) == CASE c = "a" -> 1 [] c = "e2" -> 2 [] c = "e3" -> 3 [] c = "e4" -> 4 [] c = "cr" -> 1 [] c = "lf" -> 1
Units(c) == IF c = "e4" THEN 2 ELSE 1
Texts == UNION {[1..n -> Ch] : n \in 0..MaxLen}
RECURSIVE Sum(_, _, _, _)
Sum(t, f(_), i, j) == IF i > j THEN 0 ELSE f(t[i]) + Sum(t, f, i + 1, j)
Off(t, k) == Sum(t, Bytes, 1, k)                 \* byte offset after k characters
\* a new line starts after character k
EndsLine(t, k) == k >= 1 /\ (t[k] = "lf" \/ (t[k] = "cr" /\ ~(k < Len(t) /\ t[k+1] = "lf")))
LineStartIdx(t) == {0} \cup {k \in 1..Len(t) : EndsLine(t, k)}
LineOfIdx(t, k) == Cardinality({s \in LineStartIdx(t) : s <= k}) - 1
StartOfIdx(t, k) == CHOOSE s \in LineStartIdx(t) : s <= k /\ \A r \in LineStartIdx(t) : r <= k => r <= s
\* offset -> (line, utf16 column)
ToPos(t, k) == <<LineOfIdx(t, k), Sum(t, Units, StartOfIdx(t, k) + 1, k)>>
NthStart(t, n) == CHOOSE s \in LineStartIdx(t) : Cardinality({r \in LineStartIdx(t) : r < s}) = n
NLines(t) == Cardinality(LineStartIdx(t))
\* position -> character index: first k on that line with at least `col` units before it, clamped to the line's end
ToIdx(t, line, col) ==
   IF line >= NLines(t) THEN Len(t)
   ELSE LET s == NthStart(t, line)
            e == IF line + 1 < NLines(t) THEN NthStart(t, line + 1) ELSE Len(t)
            cand == {k \in s..e : Sum(t, Units, s + 1, k) >= col}
        IN IF cand = {} THEN e ELSE CHOOSE k \in cand : \A j \in cand : k <= j

VARIABLE txt
Init == txt \in Texts
Next == UNCHANGED txt
RoundTrip == \A k \in 0..Len(txt) : LET p == ToPos(txt, k) IN ToIdx(txt, p[1], p[2]) = k
PosLess(p, q) == p[1] < q[1] \/ (p[1] = q[1] /\ p[2] < q[2])
Monotonic == \A j, k \in 0..Len(txt) : j < k => PosLess(ToPos(txt, j), ToPos(txt, k))
Clamped == \A l \in 0..(NLines(txt) + 1) : \A c \in 0..(2 * MaxLen + 2) : ToIdx(txt, l, c) \in 0..Len(txt)
LineStartsSorted == \A k \in LineStartIdx(txt) : k \in 0..Len(txt)
Enc(t) == [i \in 1..Len(t) |-> t[i]]
Row(t) == [text |-> Enc(t),
           starts |-> [n \in 0..(NLines(t) - 1) |-> Off(t, NthStart(t, n))],
           pos |-> [k \in 0..Len(t) |-> <<Off(t, k), ToPos(t, k)[1], ToPos(t, k)[2]>>],
           off |-> [l \in 0..(NLines(t)) |-> [c \in 0..(2 * MaxLen + 1) |-> Off(t, ToIdx(t, l, c))]]]
EmitRow == Emit => PrintT(ToJson(Row(txt)))
=============================================================================
