CONSTANTS NL = 2
MaxItems = 4
Pads = {0, 1, 120, 123, 124, 125, 126, 127, 128, 129}
CCs = {"Equal"}
LoadRegs = {9}
INIT Init
NEXT Next
INVARIANTS JumpsLand Positions StateIsRun EmitRow
CHECK_DEADLOCK FALSE
