CONSTANTS MaxItems = 2
Pads = {1, 8190, 8192, 262143}
INIT Init
NEXT Next
INVARIANTS TargetOk Layout Emitted
CHECK_DEADLOCK FALSE
