----------------------------- MODULE StackMaps -----------------------------
(* C10 - every place a frame can be suspended has a correct-looking stack map; code ranges are disjoint; position
   tables are ordered and inside their function.

   Artifact validation: lib/sfile.py reads the assembly file written by `dora compile -S` and produces one record
   per code object (NDJSON, sorted by start address).  Every record is one TLC state (its index i); the invariants
   below are evaluated on Recs[i] and, for the layout laws, on the pair (Recs[i], Recs[i+1]).

   A record:
     name, kind      symbol and code kind of the `.dora.functions' entry (kind -1: a text symbol WITHOUT entry)
     start, end      offsets of the start symbol / end label in the text section (-1: the entry names no symbol)
     framesize       bytes reserved by the prologue (-1 unknown)
     calls           <<[ret, cls]>>   return offset relative to start and callee class of every call instruction
     gcpoints        <<[off, slots, interior, frame]>>  frame = bytes of the frame below the frame pointer at that
                     return address (prologue + pushes of the slow-path code), -1 unknown
     locations       <<[off, line, col]>>
     sym             [name, addr] of the i-th symbol of the text section in address order ("" / -1: none left)
     art, idx        artifact number (one `.s' file) and position of the record in that artifact's sorted list; a
                     file of records may hold several artifacts one after the other

   How the runtime uses the tables (dora-runtime/src/gc/root.rs iterate_roots_from_stack_frame, stack.rs
   determine_stack_entry, runtime/code.rs CodeMap, startup.rs initialize_code_map):
     * every return address met on a managed stack is looked up in the interval map of code ranges; no range or two
       ranges -> panic ("invalid stack frame" / assert in CodeMap::insert).
     * kind 0 OptimizedFct: gcpoint_for_offset(pc - start).expect("no gcpoint"): exact match of the return offset.
     * kinds 1 RuntimeEntryTrampoline, 6 Unreachable-, 7 FatalError-, 8 StackOverflowTrampoline: the single map at
       offset 0 (handles = argument slots of the trampoline frame, or stack-passed arguments above it).
     * kinds 3 AllocationFailure-, 5 SafepointTrampoline: frame skipped, map ignored -> the map must be empty.
     * kind 4 TrapTrampoline: unreachable!() in the root walk (a trapping thread never parks); kind 2
       DoraEntryTrampoline ends the walk.
     * each map entry `offsets' is an fp-relative word holding an object reference; each `interior_pointers' entry
       is an fp-relative TWO-word cell (interior address, then object base).

   Callee classes (by the code kind registered for the target symbol, lib/sfile.py classify):
     can suspend the caller while a collection runs:
       managed        another compiled function or trait-object thunk (kind 0)
       indirect       call through a register: virtual / lambda / trait-object dispatch
       runtime_entry  `...$runtime_entry' trampoline (kind 1): the native may allocate, collect or park
       alloc          dora_aot_gc_allocation_trampoline -> dora_native_gc_alloc -> Gc::alloc may collect
       safepoint      dora_aot_safepoint_trampoline -> dora_native_safepoint_slow parks the thread for a collection
       native/unknown anything else (unknown targets are counted as `uncovered' by the check): conservative
     cannot (dora-runtime/src/stdlib.rs, gc/swiper.rs):
       trap, stack_overflow   dora_native_trap / dora_native_stack_overflow print and _exit; never allocate or park
       unreachable, fatal     dora_native_unreachable / dora_native_fatal_error print and exit
       write_barrier          dora_aot_write_barrier_slow_path: plain C call into the runtime (no DoraToNativeInfo is
                              pushed, so the frame is not even walkable from there); sets the remembered bit and pushes
                              to the remembered set; never allocates on the managed heap, never parks
     All of them still walk the stack for the stack trace, so EVERY return offset must lie strictly inside its own
     code range (that is why a call that never returns is followed by a nop). *)
EXTENDS Integers, Sequences, FiniteSets, TLC, Json, IOUtils

Recs == ndJsonDeserialize(IOEnv.RECS)
N == Len(Recs)

NonSuspending == {"trap", "stack_overflow", "unreachable", "fatal", "write_barrier"}
Suspending == {"managed", "indirect", "runtime_entry", "alloc", "safepoint", "native", "unknown"}
Classes == Suspending \cup NonSuspending

PerCallMap == {0}            \* kinds whose frames are described per return address
MapAtZero == {1, 6, 7, 8}    \* kinds whose frames are described by the map at offset 0
MapIgnored == {3, 5}         \* kinds whose frames are skipped by the root walk
NoWalk == {2, 4}             \* walk ends / never met during a collection: no requirement on the map

Size(r) == r.end - r.start
Rng(s) == {s[k] : k \in DOMAIN s}
StrictlyIncreasing(s, F(_)) == \A k \in DOMAIN s : k + 1 \in DOMAIN s => F(s[k]) < F(s[k + 1])
Off(x) == x.off
HasMapAt(r, o) == \E k \in DOMAIN r.gcpoints : r.gcpoints[k].off = o

(* ---- per record ---- *)
Registered(r) == r.kind \in 0..8                 \* a text symbol without metadata entry arrives as kind -1
Resolves(r) == r.start >= 0 /\ r.end > r.start    \* the entry names an existing symbol and a non-empty range
SymbolPaired(r) == r.sym.name = r.name /\ r.sym.addr = r.start
KnownClasses(r) == \A k \in DOMAIN r.calls : r.calls[k].cls \in Classes
ReturnInside(r) == \A k \in DOMAIN r.calls : 0 < r.calls[k].ret /\ r.calls[k].ret < Size(r)
UncoveredCalls(r) ==
  IF r.kind \in PerCallMap
  THEN {k \in DOMAIN r.calls : r.calls[k].cls \notin NonSuspending /\ ~HasMapAt(r, r.calls[k].ret)}
  ELSE {}
SuspendCovered(r) == UncoveredCalls(r) = {}
TrampolineMap(r) ==
  /\ r.kind \in MapAtZero => HasMapAt(r, 0)
  /\ r.kind \in MapIgnored =>      \* nothing may be in a map that the root walk never reads
       \A k \in DOMAIN r.gcpoints : r.gcpoints[k].slots = <<>> /\ r.gcpoints[k].interior = <<>>
MapOffsets(r) ==
  /\ StrictlyIncreasing(r.gcpoints, Off)
  /\ \A k \in DOMAIN r.gcpoints : 0 <= r.gcpoints[k].off /\ r.gcpoints[k].off < Size(r)
\* a word of the frame: below the frame pointer and inside the frame, or a stack-passed argument above the saved
\* frame pointer and the return address (fp+0, fp+8 are never references)
FrameWord(o, frame) == o % 8 = 0 /\ ((o < 0 /\ (frame >= 0 => o >= 0 - frame)) \/ o >= 16)
SlotsOK(r) == \A k \in DOMAIN r.gcpoints : LET g == r.gcpoints[k] IN
  \A j \in DOMAIN g.slots : FrameWord(g.slots[j], g.frame)
InteriorOK(r) == \A k \in DOMAIN r.gcpoints : LET g == r.gcpoints[k] IN
  \A j \in DOMAIN g.interior : LET o == g.interior[j] IN
    /\ FrameWord(o, g.frame) /\ FrameWord(o + 8, g.frame)
    /\ o \notin Rng(g.slots) /\ (o + 8) \notin Rng(g.slots)        \* the two words are not also plain slots
    /\ \A h \in DOMAIN g.interior : h # j => g.interior[h] # o + 8   \* cells do not overlap
Positions(r) ==
  /\ StrictlyIncreasing(r.locations, Off)
  /\ \A k \in DOMAIN r.locations : 0 <= r.locations[k].off /\ r.locations[k].off < Size(r)

(* ---- layout (records of one artifact): the list is sorted by start; consecutive ranges do not overlap, hence
        all are pairwise disjoint and every address resolves to at most one code object.  SymbolPaired above is the
        merge-join of the sorted symbol list with the sorted entry list: together with strictly increasing starts
        it says that symbols and metadata entries are in bijection ---- *)
Ordered(r, s) == r.start <= s.start /\ r.end <= s.start

Failed(j) == LET r == Recs[j] IN
     (IF Registered(r) THEN {} ELSE {[inv |-> "Registered", cls |-> ""]})
  \cup (IF Resolves(r) THEN {} ELSE {[inv |-> "Resolves", cls |-> ""]})
  \cup (IF SymbolPaired(r) THEN {} ELSE {[inv |-> "SymbolPaired", cls |-> ""]})
  \cup (IF KnownClasses(r) THEN {} ELSE {[inv |-> "KnownClasses", cls |-> ""]})
  \cup (IF ReturnInside(r) THEN {} ELSE
          {[inv |-> "ReturnInside", cls |-> r.calls[k].cls] :
             k \in {k \in DOMAIN r.calls : ~(0 < r.calls[k].ret /\ r.calls[k].ret < Size(r))}})
  \cup {[inv |-> "SuspendCovered", cls |-> r.calls[k].cls] : k \in UncoveredCalls(r)}
  \cup (IF TrampolineMap(r) THEN {} ELSE {[inv |-> "TrampolineMap", cls |-> ""]})
  \cup (IF MapOffsets(r) THEN {} ELSE {[inv |-> "MapOffsets", cls |-> ""]})
  \cup (IF SlotsOK(r) THEN {} ELSE {[inv |-> "SlotsOK", cls |-> ""]})
  \cup (IF InteriorOK(r) THEN {} ELSE {[inv |-> "InteriorOK", cls |-> ""]})
  \cup (IF Positions(r) THEN {} ELSE {[inv |-> "Positions", cls |-> ""]})
  \cup (IF j < N /\ Recs[j + 1].art = r.art /\ ~Ordered(r, Recs[j + 1])
        THEN {[inv |-> "Ordered", cls |-> ""]} ELSE {})

\* One state per record; the records are cut into lanes walked in parallel (i -> i + 1 inside a lane).
VARIABLE i
Lanes == 16
Slice == IF N = 0 THEN 1 ELSE (N + Lanes - 1) \div Lanes
Init == i \in {1 + k * Slice : k \in 0..(Lanes - 1)} /\ i <= N
Next == i % Slice # 0 /\ i < N /\ i' = i + 1

\* strict statement (negative controls; any artifact without known deviation)
Conforms == Failed(i) = {}
\* adjudication mode: one JSON row per failing record, so that every deviation is reported and keyed
Report == Failed(i) = {} \/
          PrintT(ToJson([art |-> Recs[i].art, idx |-> Recs[i].idx, name |-> Recs[i].name, kind |-> Recs[i].kind,
                         failed |-> Failed(i)]))
ASSUME N >= 1
=============================================================================
