CONSTANTS MaxLen = 4
Mode = "names"
INIT Init
NEXT Next
INVARIANTS RoundTrip Charset LengthFormula NoHMarker CapShape EmitRow
CHECK_DEADLOCK FALSE
