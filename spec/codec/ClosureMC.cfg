CONSTANTS
  Keys = {1, 2, 3}
  TKeys = {11, 12}
  MaxReq = 6
  History = TRUE
SPECIFICATION Spec
INVARIANTS NoDuplicates NoDuplicatesCard VisitedIsWorklist PopsInOrder Numbering TypeOK
CHECK_DEADLOCK FALSE
