CONSTANTS MaxLen = 4
Mode = "symbols"
INIT Init
NEXT Next
INVARIANTS RoundTrip Charset LengthFormula NoHMarker CapShape EmitRow
CHECK_DEADLOCK FALSE
