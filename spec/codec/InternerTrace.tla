---------------------------- MODULE InternerTrace ----------------------------
(* I->S: validates the `intern` events recorded by the hooks in dora-compiler/src/aot.rs
   (AotStringTable::intern, AotShapeInterner::intern) against Interner.tla; one TLC state per
   consumed record; `reset` starts a new compilation. See ClosureTrace.tla.                      *)
EXTENDS Interner, Json, IOUtils, TLC
Rec == ndJsonDeserialize(IOEnv.TRACE)
VARIABLE l
tvars == <<vars, l>>

TraceInit == /\ l = 1 /\ Init
Ev == Rec[l]
Is(name) == l <= Len(Rec) /\ Ev.ev = name

TReset == /\ Is("reset")
          /\ ids' = [t \in Tables |-> <<>>] /\ entries' = [t \in Tables |-> <<>>]
          /\ req' = [t \in Tables |-> <<>>] /\ last' = [ev |-> "init"]
TIntern == /\ Is("intern") /\ Ev.table \in Tables /\ Intern(Ev.table, Ev.key)
           /\ last'.known = Ev.known /\ last'.next = Ev.next
TEnd == /\ Is("end") /\ last' = [ev |-> "end"] /\ UNCHANGED <<ids, entries, req>>

TraceNext == /\ (TReset \/ TIntern \/ TEnd)
             /\ l' = l + 1
TraceSpec == TraceInit /\ [][TraceNext]_tvars

Progress == TLCSet(1, IF l > TLCGet(1) THEN l ELSE TLCGet(1))
TraceConstraint == Progress
TraceAccepted == IF TLCGet(1) = Len(Rec) + 1 THEN TRUE
                 ELSE /\ PrintT(<<"REJECTED at record", TLCGet(1), Rec[TLCGet(1)]>>) /\ FALSE
ASSUME TLCSet(1, 1)
=============================================================================
