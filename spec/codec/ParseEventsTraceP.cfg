CONSTANTS MaxLen = 0
Strict = FALSE
SPECIFICATION TSpec
INVARIANTS NothingLostNothingTwice
POSTCONDITION Accepted
CHECK_DEADLOCK FALSE
