CONSTANTS
  Tables = {"string", "shape"}
  Keys = {}
  MaxReq = 0
  History = TRUE
SPECIFICATION TraceSpec
INVARIANTS ConsistentStep Consistent FirstRequestOrder
CONSTRAINT TraceConstraint
POSTCONDITION TraceAccepted
CHECK_DEADLOCK FALSE
