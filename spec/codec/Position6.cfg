CONSTANTS MaxLen = 6
Emit = FALSE
INIT Init
NEXT Next
INVARIANTS RoundTrip Monotonic Clamped LineStartsSorted
CHECK_DEADLOCK FALSE
