CONSTANTS
  Tables = {"string", "shape"}
  Keys = {1, 2, 3}
  MaxReq = 4
  History = TRUE
SPECIFICATION Spec
INVARIANTS Consistent ConsistentStep FirstRequestOrder
CHECK_DEADLOCK FALSE
