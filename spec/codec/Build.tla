-------------------------------- MODULE Build --------------------------------
(* Build histories. A record of the history file (NDJSON, env HISTORY) describes one build:
     stage    0 = an ordinary program build; 1, 2, 3 = bootstrap stage of the optimizing compiler
     kind     "pkg" (.dora-package), "s" (assembly), "exe" (linked executable),
              "events" (the work-list / interner event sequence of the back end)
     input    digest of the sources (and the source path as given, which the tool chain embeds)
     options  code generator, collector, flags
     builder  digest of the compiler executable that produced the output
     env      how the build was run: working directory, output name and neighbours, TMPDIR,
              sequential or one of N parallel builds, process
     output   digest of the produced artifact

   The spec is deliberately small: the content of the check is in the recorded histories. The
   state is the set of build results seen so far WITHOUT their environment - forgetting `env` is the
   abstraction that the property claims to be sound ("whatever the environment"): on a history that
   satisfies the property the set has exactly one element per (stage, kind, input, options, builder).
   One TLC state per consumed record.                                                              *)
EXTENDS Naturals, Sequences, FiniteSets, Json, IOUtils, TLC
Rec == ndJsonDeserialize(IOEnv.HISTORY)
VARIABLES hist, l
vars == <<hist, l>>

Abs(r) == [stage |-> r.stage, kind |-> r.kind, input |-> r.input, options |-> r.options,
           builder |-> r.builder, output |-> r.output]

Init == hist = {} /\ l = 1
Next == /\ l <= Len(Rec)
        /\ hist' = hist \cup {Abs(Rec[l])}
        /\ l' = l + 1
Spec == Init /\ [][Next]_vars

SameRequest(a, b) == a.kind = b.kind /\ a.input = b.input /\ a.options = b.options

(* The invariants compare the record added last with everything before it; a pair of records is
   compared in the state in which the later one was added, so checking every state of the (single)
   behaviour checks every pair. (Quantifying over all pairs in every state says the same and costs
   a factor |hist| more.) *)
New == IF l = 1 THEN {} ELSE {Abs(Rec[l - 1])}

(* the output is a function of (input, options) for one and the same compiler *)
FunctionalConsistency ==
    \A a \in New, b \in hist : SameRequest(a, b) /\ a.builder = b.builder /\ a.stage = b.stage => a.output = b.output

(* the optimizing compiler reproduces itself: every build of it by an optimizing-compiler-built
   compiler (stage >= 2: built by stage 1, by stage 2, by a differently built stage 1) is the same,
   although the builders are different executables *)
Bootstrap ==
    \A a \in New, b \in hist : a.stage >= 2 /\ b.stage >= 2 /\ SameRequest(a, b) => a.output = b.output

(* acceptance: the whole file was consumed *)
Progress == TLCSet(1, IF l > TLCGet(1) THEN l ELSE TLCGet(1))
Consumed == IF TLCGet(1) = Len(Rec) + 1 THEN TRUE
            ELSE /\ PrintT(<<"history not consumed, stopped at record", TLCGet(1)>>) /\ FALSE
ASSUME TLCSet(1, 1)
=============================================================================
