---------------------------- MODULE X64AsmTrace ----------------------------
(* C07, implementation -> specification: every recorded call of the real AssemblerX64 (NDJSON, one record per call)
   is a TLC state (its index); the verdict of record i is
     "match"         bytes = Encode(record).bytes and the operands are encodable
     "refused_ok"    the assembler refused operands that are not encodable
     "over_refused"  the assembler refused although the operands are encodable (no bytes emitted: counted only)
     "uncovered"     the method has no entry in X64Asm!Table (counted only)
     "mismatch"      anything else - reported as a row with the specification's bytes for adjudication
   Invariant Conforms is the strict statement (used by the negative controls and when no deviation is known);
   Report prints one JSON row per non-matching record so that every deviation is adjudicated, not just the first. *)
EXTENDS X64Asm, Json, IOUtils
Recs == ndJsonDeserialize(IOEnv.RECS)
Refused(rec) == "refused" \in DOMAIN rec
Verdict(rec) ==
  IF rec.m \notin Methods THEN [v |-> "uncovered", exp |-> <<>>]
  ELSE LET e == Encode(rec) IN
       IF Refused(rec) THEN [v |-> IF e.ok THEN "over_refused" ELSE "refused_ok", exp |-> <<>>]
       ELSE IF e.ok /\ e.bytes = rec.bytes THEN [v |-> "match", exp |-> <<>>]
       ELSE [v |-> "mismatch", exp |-> IF e.ok THEN e.bytes ELSE <<-1>>]
\* Lanes: the records are cut into consecutive slices that are walked in parallel (i -> i + 1 inside a slice), so
\* that every record index is one state, every step to the next record one transition, and TLC's workers share
\* the work.
VARIABLE i
N == Len(Recs)
Lanes == 64
Slice == (N + Lanes - 1) \div Lanes
Init == i \in { 1 + k * Slice : k \in 0..(Lanes - 1) } /\ i <= N
Next == i % Slice # 0 /\ i < N /\ i' = i + 1
Conforms == Verdict(Recs[i]).v # "mismatch"
Report == LET v == Verdict(Recs[i]) IN
          v.v = "match" \/ PrintT(ToJson([i |-> i, v |-> v.v, exp |-> v.exp]))
=============================================================================
