CONSTANTS MaxLen = 3
Emit = TRUE
INIT Init
NEXT Next
INVARIANTS RoundTrip Monotonic Clamped LineStartsSorted EmitRow
CHECK_DEADLOCK FALSE
