INIT Init
NEXT Next
INVARIANTS Report
CHECK_DEADLOCK FALSE
