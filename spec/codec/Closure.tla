------------------------------- MODULE Closure -------------------------------
(* The transitive-closure work list of dora-compiler/src/closure.rs (TransitiveClosureComputation).

   State of the implementation        here
     worklist : Vec<(FunctionId, TA)>   worklist (sequence of keys)
     worklist_idx                        idx      (number of pops so far)
     visited  : HashSet<..>              visited  (set of keys)
     thunks   : Vec<TraitObjectThunk>    thunks
     visited_thunks : HashSet<..>        vthunks

   push(k)       appends k iff k was never pushed before          (closure.rs push)
   push_thunk(k) likewise for the thunk list                       (closure.rs push_thunk)
   pop           takes worklist[idx] and advances idx - index order, never hash order (closure.rs pop)

   The hash sets are only asked "is k a member"; nothing ever iterates them. The position of a
   function in `worklist` is its number in the compiled image (aot_compile.rs walks
   TransitiveClosure.functions in order), so the property "numbering does not depend on the process /
   hash seed" is the invariant Numbering below: the work list is the first-occurrence subsequence of
   the sequence of push requests - a function of the request order alone.

   `last` is the observable event of the step, in the format of the DORA_VERIF_CLOSURE hook:
     push       key, known (was k visited before), len (length of the work list before)
     push_thunk key, known, len
     pop        key, idx                                                                        *)
EXTENDS Naturals, Sequences, FiniteSets

CONSTANTS Keys,      \* function instantiations that can be requested (model checking only)
          TKeys,     \* thunk identities (model checking only)
          MaxReq,    \* bound on the number of requests (model checking only)
          History    \* BOOLEAN: keep the request histories req/treq (needed for Numbering only; off when
                     \* long recorded traces are validated, where they would only make states bigger)

VARIABLES worklist, idx, visited, thunks, vthunks, req, treq, last
vars == <<worklist, idx, visited, thunks, vthunks, req, treq, last>>

Range(s) == {s[i] : i \in 1..Len(s)}

Init == /\ worklist = <<>> /\ idx = 0 /\ visited = {}
        /\ thunks = <<>> /\ vthunks = {}
        /\ req = <<>> /\ treq = <<>>
        /\ last = [ev |-> "init"]

Push(k) ==
    /\ last' = [ev |-> "push", key |-> k, known |-> (k \in visited), len |-> Len(worklist)]
    /\ req' = IF History THEN Append(req, k) ELSE req
    /\ IF k \in visited
         THEN UNCHANGED <<worklist, visited>>
         ELSE /\ worklist' = Append(worklist, k)
              /\ visited' = visited \cup {k}
    /\ UNCHANGED <<idx, thunks, vthunks, treq>>

PushThunk(k) ==
    /\ last' = [ev |-> "push_thunk", key |-> k, known |-> (k \in vthunks), len |-> Len(thunks)]
    /\ treq' = IF History THEN Append(treq, k) ELSE treq
    /\ IF k \in vthunks
         THEN UNCHANGED <<thunks, vthunks>>
         ELSE /\ thunks' = Append(thunks, k)
              /\ vthunks' = vthunks \cup {k}
    /\ UNCHANGED <<worklist, idx, visited, req>>

Pop ==
    /\ idx < Len(worklist)
    /\ last' = [ev |-> "pop", key |-> worklist[idx + 1], idx |-> idx]
    /\ idx' = idx + 1
    /\ UNCHANGED <<worklist, visited, thunks, vthunks, req, treq>>

Next == \/ /\ Len(req) + Len(treq) < MaxReq
           /\ \/ \E k \in Keys : Push(k)
              \/ \E k \in TKeys : PushThunk(k)
        \/ Pop
Spec == Init /\ [][Next]_vars

------------------------------------------------------------------------------
(* invariants *)

NoDuplicates == /\ \A i, j \in 1..Len(worklist) : worklist[i] = worklist[j] => i = j
                /\ \A i, j \in 1..Len(thunks) : thunks[i] = thunks[j] => i = j

VisitedIsWorklist == /\ visited = Range(worklist)
                     /\ vthunks = Range(thunks)

(* given VisitedIsWorklist this is NoDuplicates again, but linear instead of quadratic to evaluate *)
NoDuplicatesCard == /\ Cardinality(visited) = Len(worklist)
                    /\ Cardinality(vthunks) = Len(thunks)

PopsInOrder == /\ idx \in 0..Len(worklist)
               /\ last.ev = "pop" => /\ last.idx = idx - 1          \* the k-th pop has index k-1
                                     /\ last.key = worklist[idx]    \* ... and takes that slot
                                     /\ last.key \in visited        \* every popped key was pushed

(* first-occurrence subsequence of a sequence of requests *)
RECURSIVE FirstOcc(_)
FirstOcc(s) == IF s = <<>> THEN <<>>
               ELSE LET p == FirstOcc(SubSeq(s, 1, Len(s) - 1))
                        x == s[Len(s)]
                    IN IF x \in Range(p) THEN p ELSE Append(p, x)

(* the numbering is a function of the request order alone (needs History) *)
Numbering == History => /\ worklist = FirstOcc(req)
                        /\ thunks = FirstOcc(treq)

(* the pops seen so far are exactly the first idx slots, so the order in which functions are traced
   (and hence the request order of the next round) is determined too *)
TypeOK == /\ idx \in Nat
          /\ History => (visited = Range(req) /\ vthunks = Range(treq))
=============================================================================
