INIT Init
NEXT Next
INVARIANTS Conforms
CHECK_DEADLOCK FALSE
