CONSTANTS MaxItems = 3
Pads = {1, 8190, 8191, 8192, 8193, 262142, 262143, 262144}
INIT Init
NEXT Next
INVARIANTS TargetOk Layout Emitted
CHECK_DEADLOCK FALSE
