-------------------------- MODULE ParseEventsTrace --------------------------
(* I->S: validates the recorded primitive log of real parses (hook in dora-parser, one record per primitive with the
   parser's cursor, pending-trivia count and number of Advance events after it) against ParseEvents.tla. The file is a
   sequence of lines: {"k":"file","toks":[kinds...],"n":N} starts a parse, {"k":"p","r":[prim, idx, leading, advances]}
   is one primitive, {"k":"end"} closes the parse (every token must have been emitted). One TLC state per line.      *)
EXTENDS ParseEvents, Json, IOUtils
Rec == ndJsonDeserialize(IOEnv.TRACE)
VARIABLE l
tvars == <<vars, l>>
Ev == Rec[l]
TInit == l = 1 /\ toks = <<>> /\ idx = 0 /\ leading = 0 /\ emitted = 0 /\ depth = 1 /\ done = FALSE
Bind(r) == idx' = r[2] /\ leading' = r[3] /\ emitted' = r[4]
FileStart == Ev.k = "file" /\ toks' = Ev.toks /\ idx' = 0 /\ leading' = 0 /\ emitted' = 0 /\ depth' = 1 /\ done' = FALSE
FileEnd == Ev.k = "end" /\ emitted = N /\ leading = 0 /\ idx = N /\ UNCHANGED vars
Prim == /\ Ev.k = "p"
        /\ LET r == Ev.r p == r[1] IN
           /\ Bind(r)
           /\ CASE p = 0 -> UNCHANGED <<idx, leading, emitted>>
                [] p = 1 -> UNCHANGED <<idx, leading, emitted>>
                [] p = 2 -> Cur \notin Trivia /\ Cur # "e" /\ idx' = idx + 1 /\ emitted' = emitted + leading + 1 /\ leading' = 0
                [] p = 3 -> Cur \in Trivia /\ idx' = idx + 1 /\ leading' = leading + 1 /\ emitted' = emitted
                [] p = 4 -> idx' = idx /\ (IF Strict THEN leading' = leading - Trailing ELSE leading' \in 0..leading) /\ emitted' = emitted + (leading - leading')
                [] p = 5 -> idx' = idx /\ (IF Strict THEN leading' = leading - NonLeading ELSE leading' \in 0..leading) /\ emitted' = emitted + (leading - leading')
                [] p = 6 -> idx' = idx /\ leading' = 0 /\ emitted' = emitted + leading
        /\ UNCHANGED <<toks, depth, done>>
TNext == l <= Len(Rec) /\ (FileStart \/ FileEnd \/ Prim) /\ l' = l + 1
TSpec == TInit /\ [][TNext]_tvars
Accepted == IF TLCGet("stats").diameter = Len(Rec) + 1 THEN TRUE
            ELSE PrintT(<<"REJECTED at line", TLCGet("stats").diameter, Rec[TLCGet("stats").diameter]>>) /\ FALSE
=============================================================================
