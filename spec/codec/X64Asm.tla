------------------------------- MODULE X64Asm -------------------------------
(* C07: x86-64 instruction encoding, written from the Intel SDM (vol. 2: 2.1 instruction format, 2.2.1 REX,
   2.3 VEX, tables 2-2/2-3 ModRM/SIB, appendix B condition encodings, the per-instruction opcode lines), NOT from
   dora-asm/src/x64.rs.  Three parts:
     1. byte-level operators: REX, VEX2/VEX3, ModRM, SIB, disp8/disp32, little-endian immediates
     2. Table: one entry per public instruction method of AssemblerX64 (legacy prefix, REX.W, opcode bytes,
        which parameter goes to ModRM.reg / ModRM.rm / VEX.vvvv, /digit, immediate kind, byte-register operands)
     3. the assembler's label state machine (pure step functions AsmInit / Step / Finalize) with the property
        JumpsLand: position_after_instruction + displacement = bound position.
   Where the SDM offers several encodings of the same instruction the canonical one is the shortest
   (imm8 form, accumulator short form, disp8, VEX2); 64-bit immediates are 8-byte little-endian tuples so that all
   arithmetic stays inside TLC's 32-bit integers.
   An operation record `rec` (from the recorder, or built by the label model) has
     m   method name            r    register numbers 0..15 in the method's parameter order (GPR and XMM alike)
     a   [k, base, index, scale, disp] memory operand (Address::offset/array/index/rip)
     imm 8 bytes LE              cc   condition name       u8  rounding mode      rel  rel32 of call_rel32
     lbl [before, pad]           label operand bound `pad` nops before / after the instruction                 *)
EXTENDS Integers, Sequences, FiniteSets, TLC

Lo3(r) == r % 8
Hi(r) == r \div 8
FitsI8(v) == v >= -128 /\ v <= 127
Disp8(v) == IF v >= 0 THEN v ELSE v + 256
LE32(v) == LET u == IF v >= 0 THEN v ELSE (v + 2147483647) + 1   \* low 31 bits of the two's complement
               top == IF v >= 0 THEN 0 ELSE 128
           IN << u % 256, (u \div 256) % 256, (u \div 65536) % 256, (u \div 16777216) + top >>
\* signed value of 1 / 4 little-endian bytes (decoder side, used by JumpsLand)
S8(b) == IF b >= 128 THEN b - 256 ELSE b
S32(b) == LET x == b[1] + b[2] * 256 + b[3] * 65536 + (b[4] % 128) * 16777216
          IN IF b[4] >= 128 THEN (x - 2147483647) - 1 ELSE x

\* ---- 64-bit immediates as byte tuples -----------------------------------------------------------------------
AllFrom(ib, k, v) == \A j \in k..8 : ib[j] = v
ImmIsInt8(ib)   == (ib[1] < 128 /\ AllFrom(ib, 2, 0)) \/ (ib[1] >= 128 /\ AllFrom(ib, 2, 255))
ImmIsUint8(ib)  == AllFrom(ib, 2, 0)
ImmIsInt32(ib)  == (ib[4] < 128 /\ AllFrom(ib, 5, 0)) \/ (ib[4] >= 128 /\ AllFrom(ib, 5, 255))
ImmIsUint32(ib) == AllFrom(ib, 5, 0)

\* ---- condition codes (SDM vol. 2 appendix B, table B-10: tttn) --------------------------------------------
CondCode == [ Overflow |-> 0, NoOverflow |-> 1,
              Below |-> 2, NeitherAboveNorEqual |-> 2, NotBelow |-> 3, AboveOrEqual |-> 3,
              Equal |-> 4, Zero |-> 4, NotEqual |-> 5, NotZero |-> 5,
              BelowOrEqual |-> 6, NotAbove |-> 6, NeitherBelowNorEqual |-> 7, Above |-> 7,
              Sign |-> 8, NoSign |-> 9, Parity |-> 10, ParityEven |-> 10, NoParity |-> 11, ParityOdd |-> 11,
              Less |-> 12, NeitherGreaterNorEqual |-> 12, NotLess |-> 13, GreaterOrEqual |-> 13,
              LessOrEqual |-> 14, NotGreater |-> 14, NeitherLessNorEqual |-> 15, Greater |-> 15 ]

\* ---- prefixes ----------------------------------------------------------------------------------------------
Rex(w, r, x, b) == 64 + w * 8 + r * 4 + x * 2 + b
\* VEX: 2-byte form (C5) only when X = B = 0, map 0F and W = 0; all of R, X, B, vvvv are stored inverted
Vex(r, x, b, mm, w, vvvv, l, pp) ==
  IF x = 0 /\ b = 0 /\ mm = 1 /\ w = 0
    THEN << 197, (1 - r) * 128 + (15 - vvvv) * 8 + l * 4 + pp >>
    ELSE << 196, (1 - r) * 128 + (1 - x) * 64 + (1 - b) * 32 + mm, w * 128 + (15 - vvvv) * 8 + l * 4 + pp >>
ModRM(mod, reg, rm) == mod * 64 + Lo3(reg) * 8 + Lo3(rm)

\* ---- memory operand: ModRM (+SIB) (+disp); SDM vol. 2, 2.1.5, tables 2-2, 2-3 --------------------------------
\* [x |-> REX.X, b |-> REX.B, tail |-> bytes after the opcode, ok |-> encodable] for the reg field value `reg`
DispMode(base, disp) == IF disp = 0 /\ Lo3(base) # 5 THEN 0          \* rbp / r13 as base: mod=00 means no base
                        ELSE IF FitsI8(disp) THEN 1 ELSE 2
DispBytes(mode, disp) == IF mode = 0 THEN <<>> ELSE IF mode = 1 THEN << Disp8(disp) >> ELSE LE32(disp)
Mem(reg, a) ==
  CASE a.k = "offset" ->
         LET mode == DispMode(a.base, a.disp)
             needSib == Lo3(a.base) = 4                      \* rsp / r12 as base require a SIB byte
         IN [x |-> 0, b |-> Hi(a.base), ok |-> TRUE,
             tail |-> << ModRM(mode, reg, IF needSib THEN 4 ELSE a.base) >>
                      \o (IF needSib THEN << 0 * 64 + 4 * 8 + Lo3(a.base) >> ELSE <<>>)   \* index=100: none
                      \o DispBytes(mode, a.disp)]
    [] a.k = "array" ->
         LET mode == DispMode(a.base, a.disp)
         IN [x |-> Hi(a.index), b |-> Hi(a.base), ok |-> a.index # 4,      \* rsp cannot be an index (r12 can)
             tail |-> << ModRM(mode, reg, 4), a.scale * 64 + Lo3(a.index) * 8 + Lo3(a.base) >>
                      \o DispBytes(mode, a.disp)]
    [] a.k = "index" ->                                     \* SIB base=101 with mod=00: no base, disp32
         [x |-> Hi(a.index), b |-> 0, ok |-> a.index # 4,
          tail |-> << ModRM(0, reg, 4), a.scale * 64 + Lo3(a.index) * 8 + 5 >> \o LE32(a.disp)]
    [] a.k = "rip" ->                                       \* mod=00 rm=101: RIP + disp32
         [x |-> 0, b |-> 0, ok |-> TRUE, tail |-> << ModRM(0, reg, 5) >> \o LE32(a.disp)]

\* ---- instruction table -----------------------------------------------------------------------------------
\* reg / rm / vv select a parameter (1..3 = position in rec.r); reg = Dig(d) is an opcode extension /d;
\* rm = MEM takes the memory operand, rm = LBL a RIP-relative label operand; vv = 0: VEX.vvvv unused (1111b).
\* b8 = parameters that are 8-bit registers (SPL, BPL, SIL, DIL need a REX prefix).
\* imm: "none", "ib" (8-bit pattern), "id" (32-bit pattern, 32-bit operand), "ids" (imm32 sign-extended to 64),
\*      "u8" (rec.u8).   cc: the condition code is added to the last opcode byte.
Dig(d) == 10 + d
MEM == 0
LBL == -1
NP == <<>>
Leg(pfx, w, opc, reg, rm, b8, imm) ==
  [k |-> "M", vex |-> FALSE, pfx |-> pfx, w |-> w, opc |-> opc, reg |-> reg, rm |-> rm, b8 |-> b8, imm |-> imm,
   cc |-> FALSE, pp |-> 0, mm |-> 0, vv |-> 0]
LegCC(w, opc, reg, rm, b8) == [Leg(NP, w, opc, reg, rm, b8, "none") EXCEPT !.cc = TRUE]
\* pp: 0 none, 1 = 66, 2 = F3, 3 = F2;  mm: 1 = 0F, 2 = 0F38, 3 = 0F3A   (SDM 2.3.6)
VexI(pp, mm, w, opc, reg, vv, rm, imm) ==
  [k |-> "M", vex |-> TRUE, pfx |-> NP, w |-> w, opc |-> opc, reg |-> reg, rm |-> rm, b8 |-> {}, imm |-> imm,
   cc |-> FALSE, pp |-> pp, mm |-> mm, vv |-> vv]
Fixed(bytes) == [k |-> "ZO", bytes |-> bytes]
OpReg(w, base, imm) == [k |-> "O", w |-> w, base |-> base, imm |-> imm]            \* opcode + rd
AluRI(w, digit, acc) == [k |-> "ALU", w |-> w, digit |-> digit, acc |-> acc]       \* 83 /d ib | acc id | 81 /d id
AluMI(w, digit) == [k |-> "ALUM", w |-> w, digit |-> digit]                        \* 83 /d ib | 81 /d id
Lock(e) == [e EXCEPT !.pfx = <<240>> \o e.pfx]
\* shorthand: MR = "op r/m, r" (destination parameter 1 in rm), RM = "op r, r/m" (destination parameter 1 in reg)
MR(w, opc) == Leg(NP, w, opc, 2, 1, {}, "none")
RMr(pfx, w, opc) == Leg(pfx, w, opc, 1, 2, {}, "none")
RMm(pfx, w, opc, rm) == Leg(pfx, w, opc, 1, rm, {}, "none")
Unary(w, opc, d) == Leg(NP, w, opc, Dig(d), 1, {}, "none")
ShiftI(w, d) == Leg(NP, w, <<193>>, Dig(d), 1, {}, "ib")
V3(pp, opc) == VexI(pp, 1, 0, opc, 1, 2, 3, "none")                              \* op xmm1, xmm2(vvvv), xmm3/m
F2 == <<242>>
F3 == <<243>>
P66 == <<102>>

Table == [
  \* ---- no operands ----
  cdq |-> Fixed(<<153>>),                       \* 99          CDQ
  cqo |-> Fixed(<<72, 153>>),                   \* REX.W 99    CQO
  int3 |-> Fixed(<<204>>),                      \* CC
  mfence |-> Fixed(<<15, 174, 240>>),           \* NP 0F AE F0
  nop |-> Fixed(<<144>>),                       \* 90
  retq |-> Fixed(<<195>>),                      \* C3
  call_rel32 |-> [k |-> "REL", opc |-> <<232>>],  \* E8 cd
  \* ---- one register ----
  call_r |-> Unary(0, <<255>>, 2),              \* FF /2       CALL r/m64
  jmp_r |-> Unary(0, <<255>>, 4),               \* FF /4       JMP r/m64
  idivl_r |-> Unary(0, <<247>>, 7),             \* F7 /7
  idivq_r |-> Unary(1, <<247>>, 7),
  negl |-> Unary(0, <<247>>, 3),                \* F7 /3
  negq |-> Unary(1, <<247>>, 3),
  notl |-> Unary(0, <<247>>, 2),                \* F7 /2
  notq |-> Unary(1, <<247>>, 2),
  roll_r |-> Unary(0, <<211>>, 0),              \* D3 /0       ROL r/m32, CL
  rolq_r |-> Unary(1, <<211>>, 0),
  rorl_r |-> Unary(0, <<211>>, 1),              \* D3 /1
  rorq_r |-> Unary(1, <<211>>, 1),
  sarl_r |-> Unary(0, <<211>>, 7),              \* D3 /7
  sarq_r |-> Unary(1, <<211>>, 7),
  shll_r |-> Unary(0, <<211>>, 4),              \* D3 /4
  shlq_r |-> Unary(1, <<211>>, 4),
  shrl_r |-> Unary(0, <<211>>, 5),              \* D3 /5
  shrq_r |-> Unary(1, <<211>>, 5),
  pushq_r |-> OpReg(0, 80, "none"),             \* 50+rd
  popq_r |-> OpReg(0, 88, "none"),              \* 58+rd
  \* ---- register, register (general purpose) ----
  addl_rr |-> MR(0, <<1>>),                     \* 01 /r       ADD r/m32, r32
  addq_rr |-> MR(1, <<1>>),
  andl_rr |-> MR(0, <<33>>),                    \* 21 /r
  andq_rr |-> MR(1, <<33>>),
  cmpb_rr |-> Leg(NP, 0, <<56>>, 2, 1, {1, 2}, "none"),     \* 38 /r  CMP r/m8, r8
  cmpl_rr |-> MR(0, <<57>>),                    \* 39 /r
  cmpq_rr |-> MR(1, <<57>>),
  orl_rr |-> MR(0, <<9>>),                      \* 09 /r
  orq_rr |-> MR(1, <<9>>),
  subl_rr |-> MR(0, <<41>>),                    \* 29 /r
  subq_rr |-> MR(1, <<41>>),
  xorl_rr |-> MR(0, <<49>>),                    \* 31 /r
  xorq_rr |-> MR(1, <<49>>),
  movl_rr |-> MR(0, <<137>>),                   \* 89 /r       MOV r/m32, r32
  movq_rr |-> MR(1, <<137>>),
  testb_rr |-> Leg(NP, 0, <<132>>, 2, 1, {1, 2}, "none"),   \* 84 /r  TEST r/m8, r8
  testl_rr |-> MR(0, <<133>>),                  \* 85 /r
  testq_rr |-> MR(1, <<133>>),
  imull_rr |-> RMr(NP, 0, <<15, 175>>),         \* 0F AF /r    IMUL r32, r/m32
  imulq_rr |-> RMr(NP, 1, <<15, 175>>),
  lzcntl_rr |-> RMr(F3, 0, <<15, 189>>),        \* F3 0F BD /r
  lzcntq_rr |-> RMr(F3, 1, <<15, 189>>),
  popcntl_rr |-> RMr(F3, 0, <<15, 184>>),       \* F3 0F B8 /r
  popcntq_rr |-> RMr(F3, 1, <<15, 184>>),
  tzcntl_rr |-> RMr(F3, 0, <<15, 188>>),        \* F3 0F BC /r
  tzcntq_rr |-> RMr(F3, 1, <<15, 188>>),
  movsxbl_rr |-> Leg(NP, 0, <<15, 190>>, 1, 2, {2}, "none"),  \* 0F BE /r  MOVSX r32, r/m8
  movsxbq_rr |-> Leg(NP, 1, <<15, 190>>, 1, 2, {2}, "none"),
  movsxlq_rr |-> RMr(NP, 1, <<99>>),            \* REX.W 63 /r MOVSXD r64, r/m32
  movzxb_rr |-> Leg(NP, 0, <<15, 182>>, 1, 2, {2}, "none"),   \* 0F B6 /r  MOVZX r32, r/m8
  \* ---- condition, register(s) ----
  setcc_r |-> LegCC(0, <<15, 144>>, Dig(0), 1, {1}),          \* 0F 90+cc  SETcc r/m8
  cmovl |-> LegCC(0, <<15, 64>>, 1, 2, {}),     \* 0F 40+cc /r CMOVcc r32, r/m32
  cmovq |-> LegCC(1, <<15, 64>>, 1, 2, {}),
  \* ---- register, immediate ----
  addl_ri |-> AluRI(0, 0, 5),                   \* 83 /0 ib | 05 id | 81 /0 id
  addq_ri |-> AluRI(1, 0, 5),
  andq_ri |-> AluRI(1, 4, 37),                  \* /4, 25
  cmpl_ri |-> AluRI(0, 7, 61),                  \* /7, 3D
  cmpq_ri |-> AluRI(1, 7, 61),
  subq_ri |-> AluRI(1, 5, 45),                  \* /5, 2D
  xorl_ri |-> AluRI(0, 6, 53),                  \* /6, 35
  movl_ri |-> OpReg(0, 184, "id"),              \* B8+rd id
  movq_ri |-> [k |-> "MOVQI"],                  \* REX.W C7 /0 id (sign-extended) | REX.W B8+rd io
  testl_ri |-> [k |-> "TESTI"],                 \* A9 id | F7 /0 id
  sarl_ri |-> ShiftI(0, 7),                     \* C1 /7 ib
  sarq_ri |-> ShiftI(1, 7),
  shll_ri |-> ShiftI(0, 4),                     \* C1 /4 ib
  shlq_ri |-> ShiftI(1, 4),
  shrl_ri |-> ShiftI(0, 5),                     \* C1 /5 ib
  shrq_ri |-> ShiftI(1, 5),
  \* ---- register, memory ----
  lea |-> RMm(NP, 1, <<141>>, MEM),             \* REX.W 8D /r
  movb_ra |-> Leg(NP, 0, <<138>>, 1, MEM, {1}, "none"),       \* 8A /r  MOV r8, r/m8
  movl_ra |-> RMm(NP, 0, <<139>>, MEM),         \* 8B /r
  movq_ra |-> RMm(NP, 1, <<139>>, MEM),
  movq_rl |-> RMm(NP, 1, <<139>>, LBL),
  movsxbl_ra |-> RMm(NP, 0, <<15, 190>>, MEM),
  movsxbq_ra |-> RMm(NP, 1, <<15, 190>>, MEM),
  movzxb_ra |-> RMm(NP, 0, <<15, 182>>, MEM),
  \* ---- memory, register (the register parameter is rec.r[1]) ----
  cmpb_ar |-> Leg(NP, 0, <<56>>, 1, MEM, {1}, "none"),        \* 38 /r
  cmpl_ar |-> RMm(NP, 0, <<57>>, MEM),
  cmpq_ar |-> RMm(NP, 1, <<57>>, MEM),
  cmpxchgl_ar |-> RMm(NP, 0, <<15, 177>>, MEM),               \* 0F B1 /r  CMPXCHG r/m32, r32
  cmpxchgq_ar |-> RMm(NP, 1, <<15, 177>>, MEM),
  lock_cmpxchgl_ar |-> Lock(RMm(NP, 0, <<15, 177>>, MEM)),    \* F0 ...
  lock_cmpxchgq_ar |-> Lock(RMm(NP, 1, <<15, 177>>, MEM)),
  xaddl_ar |-> RMm(NP, 0, <<15, 193>>, MEM),                  \* 0F C1 /r  XADD r/m32, r32
  xaddq_ar |-> RMm(NP, 1, <<15, 193>>, MEM),
  lock_xaddl_ar |-> Lock(RMm(NP, 0, <<15, 193>>, MEM)),
  lock_xaddq_ar |-> Lock(RMm(NP, 1, <<15, 193>>, MEM)),
  movb_ar |-> Leg(NP, 0, <<136>>, 1, MEM, {1}, "none"),       \* 88 /r
  movl_ar |-> RMm(NP, 0, <<137>>, MEM),
  movq_ar |-> RMm(NP, 1, <<137>>, MEM),
  testl_ar |-> RMm(NP, 0, <<133>>, MEM),
  testq_ar |-> RMm(NP, 1, <<133>>, MEM),
  xchgb_ar |-> Leg(NP, 0, <<134>>, 1, MEM, {1}, "none"),      \* 86 /r
  xchgl_ar |-> RMm(NP, 0, <<135>>, MEM),                      \* 87 /r
  xchgq_ar |-> RMm(NP, 1, <<135>>, MEM),
  \* ---- memory, immediate ----
  cmpb_ai |-> Leg(NP, 0, <<128>>, Dig(7), MEM, {}, "ib"),     \* 80 /7 ib
  cmpl_ai |-> AluMI(0, 7),
  cmpq_ai |-> AluMI(1, 7),
  movb_ai |-> Leg(NP, 0, <<198>>, Dig(0), MEM, {}, "ib"),     \* C6 /0 ib
  movl_ai |-> Leg(NP, 0, <<199>>, Dig(0), MEM, {}, "id"),     \* C7 /0 id
  movq_ai |-> Leg(NP, 1, <<199>>, Dig(0), MEM, {}, "ids"),
  testb_ai |-> Leg(NP, 0, <<246>>, Dig(0), MEM, {}, "ib"),    \* F6 /0 ib
  testl_ai |-> Leg(NP, 0, <<247>>, Dig(0), MEM, {}, "id"),    \* F7 /0 id
  testq_ai |-> Leg(NP, 1, <<247>>, Dig(0), MEM, {}, "ids"),
  \* ---- SSE: general purpose <-> xmm ----
  cvttsd2sid_rr |-> RMr(F2, 0, <<15, 44>>),     \* F2 0F 2C /r        CVTTSD2SI r32, xmm
  cvttsd2siq_rr |-> RMr(F2, 1, <<15, 44>>),     \* F2 REX.W 0F 2C /r
  cvttss2sid_rr |-> RMr(F3, 0, <<15, 44>>),
  cvttss2siq_rr |-> RMr(F3, 1, <<15, 44>>),
  movd_rx |-> Leg(P66, 0, <<15, 126>>, 2, 1, {}, "none"),     \* 66 0F 7E /r  MOVD r/m32, xmm
  movq_rx |-> Leg(P66, 1, <<15, 126>>, 2, 1, {}, "none"),
  cvtsi2sdd_rr |-> RMr(F2, 0, <<15, 42>>),      \* F2 0F 2A /r        CVTSI2SD xmm, r/m32
  cvtsi2sdq_rr |-> RMr(F2, 1, <<15, 42>>),
  cvtsi2ssd_rr |-> RMr(F3, 0, <<15, 42>>),
  cvtsi2ssq_rr |-> RMr(F3, 1, <<15, 42>>),
  movd_xr |-> RMr(P66, 0, <<15, 110>>),         \* 66 0F 6E /r        MOVD xmm, r/m32
  movq_xr |-> RMr(P66, 1, <<15, 110>>),
  \* ---- SSE: xmm, xmm ----
  addsd_rr |-> RMr(F2, 0, <<15, 88>>),          \* F2 0F 58 /r
  addss_rr |-> RMr(F3, 0, <<15, 88>>),
  cvtsd2ss_rr |-> RMr(F2, 0, <<15, 90>>),       \* F2 0F 5A /r
  cvtss2sd_rr |-> RMr(F3, 0, <<15, 90>>),
  divsd_rr |-> RMr(F2, 0, <<15, 94>>),          \* 5E
  divss_rr |-> RMr(F3, 0, <<15, 94>>),
  movsd_rr |-> RMr(F2, 0, <<15, 16>>),          \* F2 0F 10 /r
  movss_rr |-> RMr(F3, 0, <<15, 16>>),
  mulsd_rr |-> RMr(F2, 0, <<15, 89>>),          \* 59
  mulss_rr |-> RMr(F3, 0, <<15, 89>>),
  pxor_rr |-> RMr(P66, 0, <<15, 239>>),         \* 66 0F EF /r
  sqrtsd_rr |-> RMr(F2, 0, <<15, 81>>),         \* 51
  sqrtss_rr |-> RMr(F3, 0, <<15, 81>>),
  subsd_rr |-> RMr(F2, 0, <<15, 92>>),          \* 5C
  subss_rr |-> RMr(F3, 0, <<15, 92>>),
  ucomisd_rr |-> RMr(P66, 0, <<15, 46>>),       \* 66 0F 2E /r
  ucomiss_rr |-> RMr(NP, 0, <<15, 46>>),        \* NP 0F 2E /r
  xorps_rr |-> RMr(NP, 0, <<15, 87>>),          \* NP 0F 57 /r
  roundsd_ri |-> Leg(P66, 0, <<15, 58, 11>>, 1, 2, {}, "u8"), \* 66 0F 3A 0B /r ib
  roundss_ri |-> Leg(P66, 0, <<15, 58, 10>>, 1, 2, {}, "u8"), \* 66 0F 3A 0A /r ib
  \* ---- SSE: xmm, memory / label ----
  andps_ra |-> RMm(NP, 0, <<15, 84>>, MEM),     \* NP 0F 54 /r
  andps_rl |-> RMm(NP, 0, <<15, 84>>, LBL),
  movsd_ra |-> RMm(F2, 0, <<15, 16>>, MEM),
  movsd_rl |-> RMm(F2, 0, <<15, 16>>, LBL),
  movss_ra |-> RMm(F3, 0, <<15, 16>>, MEM),
  movss_rl |-> RMm(F3, 0, <<15, 16>>, LBL),
  xorpd_ra |-> RMm(P66, 0, <<15, 87>>, MEM),    \* 66 0F 57 /r
  xorpd_rl |-> RMm(P66, 0, <<15, 87>>, LBL),
  xorps_ra |-> RMm(NP, 0, <<15, 87>>, MEM),
  xorps_rl |-> RMm(NP, 0, <<15, 87>>, LBL),
  movaps_ar |-> RMm(NP, 0, <<15, 41>>, MEM),    \* NP 0F 29 /r        MOVAPS xmm/m128, xmm
  movups_ar |-> RMm(NP, 0, <<15, 17>>, MEM),    \* NP 0F 11 /r
  movsd_ar |-> RMm(F2, 0, <<15, 17>>, MEM),     \* F2 0F 11 /r
  movss_ar |-> RMm(F3, 0, <<15, 17>>, MEM),
  \* ---- AVX (VEX.LIG/128, map 0F unless noted) ----
  vaddsd_rr |-> V3(3, <<88>>),
  vaddss_rr |-> V3(2, <<88>>),
  vcvtsd2ss_rr |-> V3(3, <<90>>),
  vcvtss2sd_rr |-> V3(2, <<90>>),
  vdivsd_rr |-> V3(3, <<94>>),
  vdivss_rr |-> V3(2, <<94>>),
  vmovsd_rr |-> V3(3, <<16>>),
  vmovss_rr |-> V3(2, <<16>>),
  vmulsd_rr |-> V3(3, <<89>>),
  vmulss_rr |-> V3(2, <<89>>),
  vsqrtsd_rr |-> V3(3, <<81>>),
  vsqrtss_rr |-> V3(2, <<81>>),
  vsubsd_rr |-> V3(3, <<92>>),
  vsubss_rr |-> V3(2, <<92>>),
  vxorps_rr |-> V3(0, <<87>>),
  vcvtsi2sdd_rr |-> VexI(3, 1, 0, <<42>>, 1, 2, 3, "none"),   \* VEX.LIG.F2.0F.W0 2A /r
  vcvtsi2sdq_rr |-> VexI(3, 1, 1, <<42>>, 1, 2, 3, "none"),   \* W1
  vcvtsi2ssd_rr |-> VexI(2, 1, 0, <<42>>, 1, 2, 3, "none"),
  vcvtsi2ssq_rr |-> VexI(2, 1, 1, <<42>>, 1, 2, 3, "none"),
  vcvttsd2sid_rr |-> VexI(3, 1, 0, <<44>>, 1, 0, 2, "none"),  \* VEX.LIG.F2.0F.W0 2C /r
  vcvttsd2siq_rr |-> VexI(3, 1, 1, <<44>>, 1, 0, 2, "none"),
  vcvttss2sid_rr |-> VexI(2, 1, 0, <<44>>, 1, 0, 2, "none"),
  vcvttss2siq_rr |-> VexI(2, 1, 1, <<44>>, 1, 0, 2, "none"),
  vmovapd_rr |-> VexI(1, 1, 0, <<40>>, 1, 0, 2, "none"),      \* VEX.128.66.0F 28 /r
  vmovaps_rr |-> VexI(0, 1, 0, <<40>>, 1, 0, 2, "none"),      \* VEX.128.0F 28 /r
  vucomisd_rr |-> VexI(1, 1, 0, <<46>>, 1, 0, 2, "none"),
  vucomiss_rr |-> VexI(0, 1, 0, <<46>>, 1, 0, 2, "none"),
  vmovd_rx |-> VexI(1, 1, 0, <<126>>, 2, 0, 1, "none"),       \* VEX.128.66.0F.W0 7E /r  VMOVD r/m32, xmm
  vmovq_rx |-> VexI(1, 1, 1, <<126>>, 2, 0, 1, "none"),
  vmovd_xr |-> VexI(1, 1, 0, <<110>>, 1, 0, 2, "none"),       \* VEX.128.66.0F.W0 6E /r
  vmovq_xr |-> VexI(1, 1, 1, <<110>>, 1, 0, 2, "none"),
  vroundsd_ri |-> VexI(1, 3, 0, <<11>>, 1, 2, 3, "u8"),       \* VEX.LIG.66.0F3A 0B /r ib
  vroundss_ri |-> VexI(1, 3, 0, <<10>>, 1, 2, 3, "u8"),
  vmovsd_ra |-> VexI(3, 1, 0, <<16>>, 1, 0, MEM, "none"),
  vmovsd_rl |-> VexI(3, 1, 0, <<16>>, 1, 0, LBL, "none"),
  vmovss_ra |-> VexI(2, 1, 0, <<16>>, 1, 0, MEM, "none"),
  vmovss_rl |-> VexI(2, 1, 0, <<16>>, 1, 0, LBL, "none"),
  vmovsd_ar |-> VexI(3, 1, 0, <<17>>, 1, 0, MEM, "none"),
  vmovss_ar |-> VexI(2, 1, 0, <<17>>, 1, 0, MEM, "none"),
  vandpd_ra |-> VexI(1, 1, 0, <<84>>, 1, 2, MEM, "none"),     \* VEX.128.66.0F 54 /r
  vandpd_rl |-> VexI(1, 1, 0, <<84>>, 1, 2, LBL, "none"),
  vandps_ra |-> VexI(0, 1, 0, <<84>>, 1, 2, MEM, "none"),
  vandps_rl |-> VexI(0, 1, 0, <<84>>, 1, 2, LBL, "none"),
  vxorpd_ra |-> VexI(1, 1, 0, <<87>>, 1, 2, MEM, "none"),
  vxorpd_rl |-> VexI(1, 1, 0, <<87>>, 1, 2, LBL, "none"),
  vxorps_ra |-> VexI(0, 1, 0, <<87>>, 1, 2, MEM, "none"),
  vxorps_rl |-> VexI(0, 1, 0, <<87>>, 1, 2, LBL, "none"),
  \* ---- jumps to labels (label state machine below) ----
  jmp |-> [k |-> "JMP"],                        \* EB cb | E9 cd
  jmp_near |-> [k |-> "JMPN"],                  \* EB cb           ("near" = the assembler's name for rel8)
  jcc |-> [k |-> "JCC"],                        \* 70+cc cb | 0F 80+cc cd
  jcc_near |-> [k |-> "JCCN"] ]

Methods == DOMAIN Table
UsesLabel(m) == LET t == Table[m] IN t.k \in {"JMP", "JMPN", "JCC", "JCCN"} \/ (t.k = "M" /\ t.rm = LBL)

\* ---- encoding of one operation without label operand: [ok |-> encodable, bytes |-> ...] ---------------------
ImmEnc(kind, rec) ==
  CASE kind = "none" -> [ok |-> TRUE, b |-> <<>>]
    [] kind = "ib"  -> [ok |-> ImmIsInt8(rec.imm) \/ ImmIsUint8(rec.imm), b |-> << rec.imm[1] >>]
    [] kind = "id"  -> [ok |-> ImmIsInt32(rec.imm) \/ ImmIsUint32(rec.imm), b |-> SubSeq(rec.imm, 1, 4)]
    [] kind = "ids" -> [ok |-> ImmIsInt32(rec.imm), b |-> SubSeq(rec.imm, 1, 4)]
    [] kind = "u8"  -> [ok |-> rec.u8 \in 0..255, b |-> << rec.u8 >>]
LastPlus(opc, n) == [opc EXCEPT ![Len(opc)] = @ + n]

\* the ModRM family; `lblTail`: TRUE = RIP-relative operand with a zero placeholder displacement
EncodeM(t, rec) ==
  LET isDig == t.reg >= 10
      regv == IF isDig THEN t.reg - 10 ELSE rec.r[t.reg]
      rmp == IF t.rm >= 1 THEN [x |-> 0, b |-> Hi(rec.r[t.rm]), ok |-> TRUE, tail |-> << ModRM(3, regv, rec.r[t.rm]) >>]
             ELSE IF t.rm = MEM THEN Mem(regv, rec.a)
             ELSE [x |-> 0, b |-> 0, ok |-> TRUE, tail |-> << ModRM(0, regv, 5), 0, 0, 0, 0 >>]
      R == IF isDig THEN 0 ELSE Hi(regv)
      imm == ImmEnc(t.imm, rec)
      opc == IF t.cc THEN LastPlus(t.opc, CondCode[rec.cc]) ELSE t.opc
      byteReg == \E p \in t.b8 : rec.r[p] \in 4..7            \* SPL, BPL, SIL, DIL exist only with a REX prefix
      rex == IF t.w = 1 \/ R + rmp.x + rmp.b > 0 \/ byteReg THEN << Rex(t.w, R, rmp.x, rmp.b) >> ELSE <<>>
      vvvv == IF t.vv = 0 THEN 0 ELSE rec.r[t.vv]
  IN [ok |-> rmp.ok /\ imm.ok,
      bytes |-> IF t.vex THEN t.pfx \o Vex(R, rmp.x, rmp.b, t.mm, t.w, vvvv, 0, t.pp) \o opc \o rmp.tail \o imm.b
                ELSE t.pfx \o rex \o opc \o rmp.tail \o imm.b]       \* legacy prefixes, REX, opcode, ModRM.., imm

RexW(w, b) == IF w = 1 \/ b = 1 THEN << Rex(w, 0, 0, b) >> ELSE <<>>
EncodeOther(t, rec) ==
  CASE t.k = "ZO" -> [ok |-> TRUE, bytes |-> t.bytes]
    [] t.k = "REL" -> [ok |-> TRUE, bytes |-> t.opc \o LE32(rec.rel)]
    [] t.k = "O" -> LET imm == ImmEnc(t.imm, rec) r == rec.r[1]
                    IN [ok |-> imm.ok, bytes |-> RexW(t.w, Hi(r)) \o << t.base + Lo3(r) >> \o imm.b]
    [] t.k = "ALU" ->
         LET r == rec.r[1] ib == rec.imm rex == RexW(t.w, Hi(r))
         IN [ok |-> IF t.w = 1 THEN ImmIsInt32(ib) ELSE ImmIsInt32(ib) \/ ImmIsUint32(ib),
             bytes |-> IF ImmIsInt8(ib) THEN rex \o << 131, ModRM(3, t.digit, r), ib[1] >>
                       ELSE IF r = 0 THEN rex \o << t.acc >> \o SubSeq(ib, 1, 4)
                       ELSE rex \o << 129, ModRM(3, t.digit, r) >> \o SubSeq(ib, 1, 4)]
    [] t.k = "ALUM" ->
         LET ib == rec.imm mem == Mem(t.digit, rec.a)
             rex == IF t.w + mem.x + mem.b > 0 THEN << Rex(t.w, 0, mem.x, mem.b) >> ELSE <<>>
         IN [ok |-> mem.ok /\ (IF t.w = 1 THEN ImmIsInt32(ib) ELSE ImmIsInt32(ib) \/ ImmIsUint32(ib)),
             bytes |-> IF ImmIsInt8(ib) THEN rex \o << 131 >> \o mem.tail \o << ib[1] >>
                       ELSE rex \o << 129 >> \o mem.tail \o SubSeq(ib, 1, 4)]
    [] t.k = "MOVQI" ->
         LET r == rec.r[1] ib == rec.imm
         IN [ok |-> TRUE,
             bytes |-> IF ImmIsInt32(ib) THEN << Rex(1, 0, 0, Hi(r)), 199, ModRM(3, 0, r) >> \o SubSeq(ib, 1, 4)
                       ELSE << Rex(1, 0, 0, Hi(r)), 184 + Lo3(r) >> \o ib]
    [] t.k = "TESTI" ->
         LET r == rec.r[1] ib == rec.imm
         IN [ok |-> ImmIsInt32(ib) \/ ImmIsUint32(ib),
             bytes |-> IF r = 0 THEN << 169 >> \o SubSeq(ib, 1, 4)
                       ELSE RexW(0, Hi(r)) \o << 247, ModRM(3, 0, r) >> \o SubSeq(ib, 1, 4)]
EncodePlain(rec) == LET t == Table[rec.m] IN IF t.k = "M" THEN EncodeM(t, rec) ELSE EncodeOther(t, rec)

\* ---- the assembler's label state machine ---------------------------------------------------------------------
\* items: [op |-> "pad", n] | [op |-> "bind", l] | [op |-> "ins", m, r, cc, l]   (uniform fields op, n, l, m, r, cc)
\* state: pos, chunks (<< [pad |-> n, b |-> bytes, at |-> start, fix |-> "none"|"rel8"|"rel32", l |-> label] >>),
\*        lab (bound position or -1), refused
Pad(n) == [op |-> "pad", n |-> n, l |-> 0, m |-> "", r |-> <<>>, cc |-> ""]
Bind(l) == [op |-> "bind", n |-> 0, l |-> l, m |-> "", r |-> <<>>, cc |-> ""]
Ins(m, r, cc, l) == [op |-> "ins", n |-> 0, l |-> l, m |-> m, r |-> r, cc |-> cc]
AsmInit(nl) == [pos |-> 0, chunks |-> <<>>, lab |-> [l \in 1..nl |-> -1], refused |-> FALSE]
Refuse(s) == [s EXCEPT !.refused = TRUE]
Emit(s, bytes, fix, l) ==
  [s EXCEPT !.pos = @ + Len(bytes),
            !.chunks = Append(@, [pad |-> 0, b |-> bytes, at |-> s.pos, fix |-> fix, l |-> l])]
\* a jump: backward (label bound) -> rel8 when the target is reachable, else rel32; forward -> rel32 placeholder
\* (a one-pass assembler cannot know the distance) - short8 / near32 are the two opcode sequences
JumpStep(s, l, short8, near32, onlyShort) ==
  IF s.lab[l] >= 0
    THEN LET d8 == s.lab[l] - (s.pos + Len(short8) + 1)
             d32 == s.lab[l] - (s.pos + Len(near32) + 4)
         IN IF d8 >= -128 THEN Emit(s, short8 \o << Disp8(d8) >>, "none", l)
            ELSE IF onlyShort THEN Refuse(s)                       \* rel8 cannot reach: must not emit anything
            ELSE Emit(s, near32 \o LE32(d32), "none", l)
    ELSE IF onlyShort THEN Emit(s, short8 \o << 0 >>, "rel8", l)
         ELSE Emit(s, near32 \o << 0, 0, 0, 0 >>, "rel32", l)
Step(s, it) ==
  IF s.refused THEN s
  ELSE CASE it.op = "pad" -> [s EXCEPT !.pos = @ + it.n,
                                       !.chunks = Append(@, [pad |-> it.n, b |-> <<>>, at |-> s.pos, fix |-> "none", l |-> 0])]
         [] it.op = "bind" -> IF s.lab[it.l] >= 0 THEN Refuse(s) ELSE [s EXCEPT !.lab[it.l] = s.pos]
         [] it.op = "ins" ->
              LET t == Table[it.m] IN
              CASE t.k = "JMP"  -> JumpStep(s, it.l, <<235>>, <<233>>, FALSE)
                [] t.k = "JMPN" -> JumpStep(s, it.l, <<235>>, <<233>>, TRUE)
                [] t.k = "JCC"  -> JumpStep(s, it.l, << 112 + CondCode[it.cc] >>, << 15, 128 + CondCode[it.cc] >>, FALSE)
                [] t.k = "JCCN" -> JumpStep(s, it.l, << 112 + CondCode[it.cc] >>, << 15, 128 + CondCode[it.cc] >>, TRUE)
                [] OTHER -> Emit(s, EncodeM(t, [m |-> it.m, r |-> it.r]).bytes, "rel32", it.l)   \* RIP-relative load
RECURSIVE Run(_, _, _)
Run(s, prog, i) == IF i > Len(prog) THEN s ELSE Run(Step(s, prog[i]), prog, i + 1)
\* finalize: every placeholder is patched with label - position_after_instruction (the displacement is the last
\* field of every label-using instruction); an unbound label or an unreachable rel8 target refuses
Patch(c, lab) ==
  LET d == lab[c.l] - (c.at + Len(c.b)) n == Len(c.b) IN
  IF c.fix = "rel8" THEN [c EXCEPT !.b = SubSeq(c.b, 1, n - 1) \o << Disp8(d) >>]
  ELSE IF c.fix = "rel32" THEN [c EXCEPT !.b = SubSeq(c.b, 1, n - 4) \o LE32(d)]
  ELSE c
Finalize(s) ==
  IF s.refused THEN s
  ELSE IF \E i \in 1..Len(s.chunks) : LET c == s.chunks[i] IN
             c.fix # "none" /\ (s.lab[c.l] < 0 \/ (c.fix = "rel8" /\ ~FitsI8(s.lab[c.l] - (c.at + Len(c.b)))))
       THEN Refuse(s)
       ELSE [s EXCEPT !.chunks = [i \in 1..Len(s.chunks) |-> Patch(s.chunks[i], s.lab)]]
RECURSIVE Nops(_)
Nops(n) == IF n = 0 THEN <<>> ELSE <<144>> \o Nops(n - 1)
RECURSIVE Flat(_, _)
Flat(ch, i) == IF i > Len(ch) THEN <<>> ELSE (IF ch[i].pad > 0 THEN Nops(ch[i].pad) ELSE ch[i].b) \o Flat(ch, i + 1)
\* compact form of the expected code: a number n stands for n nop bytes, a tuple for literal bytes
Compact(ch) == [i \in 1..Len(ch) |-> IF ch[i].b = <<>> THEN [n |-> ch[i].pad, b |-> <<>>] ELSE [n |-> 0, b |-> ch[i].b]]

\* the property: in finalized code every jump / label-addressed operand lands on the bound position of its label
\* (displacement decoded back from the emitted bytes)
IsJumpItem(it) == it.op = "ins"
JumpsLandIn(f) ==
  \A i \in 1..Len(f.chunks) : LET c == f.chunks[i] n == Len(c.b) IN
     c.l > 0 =>
       \/ /\ c.b[1] \in {235} \cup (112..127) /\ n = 2          \* rel8 forms
          /\ c.at + n + S8(c.b[n]) = f.lab[c.l]
       \/ /\ ~(c.b[1] \in {235} \cup (112..127) /\ n = 2)       \* rel32 forms
          /\ c.at + n + S32(SubSeq(c.b, n - 3, n)) = f.lab[c.l]

\* ---- one recorded call -> expected outcome -------------------------------------------------------------------
EncodeLabelled(rec) ==
  LET it == Ins(rec.m, rec.r, IF "cc" \in DOMAIN rec THEN rec.cc ELSE "", 1)
      prog == IF rec.lbl.before = 1 THEN << Bind(1), Pad(rec.lbl.pad), it >> ELSE << it, Pad(rec.lbl.pad), Bind(1) >>
      f == Finalize(Run(AsmInit(1), prog, 1))
  IN [ok |-> ~f.refused, bytes |-> IF f.refused THEN <<>> ELSE Flat(f.chunks, 1)]
Encode(rec) == IF UsesLabel(rec.m) THEN EncodeLabelled(rec) ELSE EncodePlain(rec)
=============================================================================
