INIT Init
NEXT Next
INVARIANTS Report Complete
CHECK_DEADLOCK FALSE
