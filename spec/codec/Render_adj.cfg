CONSTANTS MaxNodes = 1
MaxWidth = 12
Mode = "adjudicate"
NTexts = 4
INIT Init
NEXT Next
INVARIANTS EmitVerdict
CHECK_DEADLOCK FALSE
