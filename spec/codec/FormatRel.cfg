CONSTANTS Source = "file"
SmallLen = 0
INIT Init
NEXT Next
INVARIANTS Emit Deterministic
CHECK_DEADLOCK FALSE
