CONSTANTS MaxLen = 5
Mode = "symbols"
INIT Init
NEXT Next
INVARIANTS RoundTrip Charset LengthFormula NoHMarker CapShape EmitRow
CHECK_DEADLOCK FALSE
