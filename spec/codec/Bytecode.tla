------------------------------ MODULE Bytecode ------------------------------
(* C18: the bytecode wire format of dora-bytecode (writer.rs / reader.rs / opcode.rs) and its round-trip law.

   FORMAT.  A function body is a byte string: a concatenation of instructions, each
        opcode byte . fields            (Fields(op), one of the shapes below)
     "V"  unsigned LEB128: little-endian base-128 digits, minimal length, bit 7 set on every digit but the last
          (registers, constant-pool indices, global/const ids, argument counts, the backward distance of JumpLoop)
     "B"  one raw byte (the immediate of ConstUInt8)
     "F"  fixed-width u32, little endian: the distance of a FORWARD jump, counted from the first byte of the jump
          instruction to its label; written as 0 when the jump is emitted and patched by Generate
     "A"  argument list: a "V" count followed by that many "V" registers (always the last field)
   JumpLoop carries the distance from its own first byte BACK to its (already bound) label as a "V".
   Constant pool: the emit_const_* calls append an entry and reference it by its index (no sharing);
   a jump table is a pool entry holding absolute label offsets, filled in by Generate.
   Line table: (offset, location) for instructions that need a location, consecutive duplicates dropped.

   STATE MACHINE = the public writer API: Emit, EmitConst, AddConst (CPad), CreateLabel, DefineLabel, BindLabel,
   EmitJump, EmitLoop, AddJumpTable, Generate.  `items` is the history of calls (one TLC state per call sequence).

   THEOREM (checked by TLC on every generated body: invariant TheoremAndRow = RoundTrip /\ OffsetsIncrease /\
   LabelTable /\ JumpTables /\ LinesOK, evaluated with one ReadCode per state; the same invariant prints the row
   [items, expected code, instruction list, labels, pool, line table] that the harness replays into the real writer):
     Read(Write(is)) = is, offsets strictly increase from 0, the reader stops exactly at the end, every jump
     lands on the first byte of the instruction that followed its label's bind (= the writer's label table),
     jump-table entries likewise, every emit_const_* reads back the index of its own pool entry.

   REPRESENTATION.  Code is a sequence of segments: explicit bytes ("b") or a run of n LoopStart instructions
   ("p", n bytes 44) - Pad pseudo-items that move jump distances across the encoding boundaries without
   making TLC carry megabytes; Lemma PadLemma ties the compressed form to the flat one.  The constant pool is
   compressed the same way ("fill" = n filler entries).
   TLC integers are 32 bit: all values stay below 2^31 (values with bit 31 set are exercised by the harness only). *)
EXTENDS Integers, Sequences, FiniteSets, TLC, Json
CONSTANTS Mode,        \* "opcodes" | "operands" | "jumps" | "pool"
          MaxItems,    \* bound on API calls before Generate
          Vals,        \* operand values (both sides of every LEB128 boundary)
          Pads,        \* pad sizes
          MaxPads, MaxLabels,
          PoolMax      \* largest run of filler pool entries (moves emit_const_* indices across the boundaries)

-----------------------------------------------------------------------------
(* opcode table (dora-bytecode/src/opcode.rs; the check compares names and numbers with the current tree) *)
OpName == << "ADD","SUB","NEG","MUL","DIV","MOD","CHECKED_ADD","CHECKED_SUB","CHECKED_NEG","CHECKED_MUL",
  "CHECKED_DIV","CHECKED_MOD","AND","OR","XOR","NOT","SHL","SHR","SAR","MOV","LOAD_ENUM_ELEMENT",
  "LOAD_ENUM_VARIANT","LOAD_FIELD","STORE_FIELD","LOAD_GLOBAL","STORE_GLOBAL","LOAD_CONST","CONST_TRUE",
  "CONST_FALSE","CONST_UINT8","CONST_CHAR","CONST_INT32","CONST_INT64","CONST_FLOAT32","CONST_FLOAT64",
  "CONST_STRING","TEST_IDENTITY","TEST_EQ","TEST_NE","TEST_GT","TEST_GE","TEST_LT","TEST_LE","JUMP_LOOP",
  "LOOP_START","JUMP","JUMP_IF_FALSE","JUMP_IF_TRUE","SWITCH","INVOKE_DIRECT","INVOKE_VIRTUAL","INVOKE_STATIC",
  "INVOKE_GENERIC_STATIC","INVOKE_GENERIC_DIRECT","NEW_OBJECT","NEW_ARRAY","NEW_TUPLE","NEW_ENUM","NEW_STRUCT",
  "NEW_TRAIT_OBJECT","ARRAY_LENGTH","LOAD_ARRAY","STORE_ARRAY","GET_FIELD_REF","STORE_REF","LOAD_REF",
  "GET_REGISTER_REF","GET_GLOBAL_REF","RET","GET_ARRAY_REF" >>
AllOps == 0..(Len(OpName) - 1)
R3 == {0,1,3,4,5,6,7,9,10,11,12,13,14,16,17,18,20,21,22,23,36,37,38,39,40,41,42,55,59,61,62,63,69}
R2 == {2,8,15,19,24,25,26,30,31,32,33,34,35,48,60,64,65,66,67}
R1 == {27,28,68}
Calls == {49,50,51,52,53,54,56,57,58}
ConstOps == 30..35                       \* emit_const_char .. emit_const_string: (register, own pool index)
OpLoop == 43
OpPad == 44
OpJump == 45
OpJF == 46
OpJT == 47
OpSwitch == 48
FwdJumps == {OpJump, OpJF, OpJT}
Fields(op) == IF op \in R3 THEN <<"V","V","V">> ELSE IF op \in R2 THEN <<"V","V">> ELSE IF op \in R1 THEN <<"V">>
              ELSE IF op = 29 THEN <<"V","B">> ELSE IF op = OpLoop THEN <<"V">> ELSE IF op = OpPad THEN <<>>
              ELSE IF op = OpJump THEN <<"F">> ELSE IF op \in {OpJF, OpJT} THEN <<"V","F">>
              ELSE IF op \in Calls THEN <<"V","V","A">> ELSE <<"?">>
NeedsLoc(op) == op \in {6,7,8,9,10,11,16,17,18,49,50,51,52,53,54,55,56,57,58,59,60,61,62,69,20,21,24,67,63,64}
ASSUME \A op \in AllOps : Fields(op) # <<"?">>

-----------------------------------------------------------------------------
(* field encodings *)
Pow128(i) == CASE i = 0 -> 1 [] i = 1 -> 128 [] i = 2 -> 16384 [] i = 3 -> 2097152 [] i = 4 -> 268435456
LebLen(n) == IF n < 128 THEN 1 ELSE IF n < 16384 THEN 2 ELSE IF n < 2097152 THEN 3 ELSE IF n < 268435456 THEN 4 ELSE 5
             \* = the least k with n < 128^k (spelled out: 128^5 does not fit TLC's integers)
Leb(n) == [i \in 1..LebLen(n) |-> ((n \div Pow128(i - 1)) % 128) + (IF i < LebLen(n) THEN 128 ELSE 0)]
Fixed32(n) == << n % 256, (n \div 256) % 256, (n \div 65536) % 256, (n \div 16777216) % 256 >>
RECURSIVE LebAll(_)
LebAll(v) == IF v = <<>> THEN <<>> ELSE Leb(Head(v)) \o LebAll(Tail(v))
RECURSIVE EncF(_, _)
EncF(fs, v) == IF fs = <<>> THEN <<>>
               ELSE IF Head(fs) = "V" THEN Leb(Head(v)) \o EncF(Tail(fs), Tail(v))
               ELSE IF Head(fs) = "B" THEN <<Head(v)>> \o EncF(Tail(fs), Tail(v))
               ELSE IF Head(fs) = "F" THEN Fixed32(Head(v)) \o EncF(Tail(fs), Tail(v))
               ELSE LebAll(v)                                   \* "A": count, then the registers
EncInst(op, v) == <<op>> \o EncF(Fields(op), v)
RECURSIVE WFF(_, _)
WFF(fs, v) == IF fs = <<>> THEN v = <<>>
              ELSE IF v = <<>> THEN FALSE
              ELSE IF Head(fs) = "A" THEN Len(v) = 1 + Head(v) /\ \A i \in 1..Len(v) : v[i] >= 0
              ELSE Head(v) >= 0 /\ (Head(fs) = "B" => Head(v) < 256) /\ WFF(Tail(fs), Tail(v))
WellFormed(op, v) == op \in AllOps /\ WFF(Fields(op), v)

(* decoding: total functions, pos = -1 is "the reader fails" *)
Fail == [v |-> <<>>, pos |-> -1]
RECURSIVE LebVal(_, _, _)
LebVal(b, p, k) == IF k = 0 THEN 0 ELSE (b[p] % 128) + 128 * LebVal(b, p + 1, k - 1)
LebEnds(b, p, k) == p + k - 1 <= Len(b) /\ b[p + k - 1] < 128 /\ \A j \in 0..(k - 2) : b[p + j] >= 128
DecLeb(b, p) == IF \E k \in 1..5 : LebEnds(b, p, k)
                THEN LET k == CHOOSE k \in 1..5 : LebEnds(b, p, k) IN [v |-> <<LebVal(b, p, k)>>, pos |-> p + k]
                ELSE Fail
RECURSIVE ReadN(_, _, _)
ReadN(n, b, p) == IF n = 0 THEN [v |-> <<>>, pos |-> p]
                  ELSE LET d == DecLeb(b, p) IN
                       IF d.pos = -1 THEN Fail
                       ELSE LET r == ReadN(n - 1, b, d.pos) IN IF r.pos = -1 THEN Fail ELSE [v |-> d.v \o r.v, pos |-> r.pos]
RECURSIVE ReadF(_, _, _)
ReadF(fs, b, p) ==
  IF fs = <<>> THEN [v |-> <<>>, pos |-> p]
  ELSE LET f == Head(fs)
           one == IF f = "V" THEN DecLeb(b, p)
                  ELSE IF f = "B" THEN (IF p <= Len(b) THEN [v |-> <<b[p]>>, pos |-> p + 1] ELSE Fail)
                  ELSE IF f = "F" THEN (IF p + 3 <= Len(b)
                                        THEN [v |-> <<b[p] + 256 * b[p+1] + 65536 * b[p+2] + 16777216 * b[p+3]>>, pos |-> p + 4]
                                        ELSE Fail)
                  ELSE (LET d == DecLeb(b, p) IN
                        IF d.pos = -1 THEN Fail
                        ELSE LET r == ReadN(d.v[1], b, d.pos) IN IF r.pos = -1 THEN Fail ELSE [v |-> d.v \o r.v, pos |-> r.pos])
       IN IF one.pos = -1 THEN Fail
          ELSE LET rest == ReadF(Tail(fs), b, one.pos) IN
               IF rest.pos = -1 THEN Fail ELSE [v |-> one.v \o rest.v, pos |-> rest.pos]
Bad(off) == [off |-> off, op |-> -2, v |-> <<>>]              \* illegal opcode or truncated instruction
RECURSIVE ReadSeg(_, _, _)
ReadSeg(b, p, base) ==
  IF p > Len(b) THEN <<>>
  ELSE IF b[p] \notin AllOps THEN <<Bad(base + p - 1)>>
  ELSE LET r == ReadF(Fields(b[p]), b, p + 1) IN
       IF r.pos = -1 THEN <<Bad(base + p - 1)>>
       ELSE <<[off |-> base + p - 1, op |-> b[p], v |-> r.v]>> \o ReadSeg(b, r.pos, base)

(* segments *)
SegB(bs) == [t |-> "b", b |-> bs, n |-> 0]
SegP(n) == [t |-> "p", b |-> <<>>, n |-> n]
SegLen(s) == IF s.t = "b" THEN Len(s.b) ELSE s.n
RECURSIVE SegStart(_, _)
SegStart(code, i) == IF i <= 1 THEN 0 ELSE SegStart(code, i - 1) + SegLen(code[i - 1])
CodeLen(code) == SegStart(code, Len(code) + 1)
AppendBytes(code, bs) == IF code # <<>> /\ code[Len(code)].t = "b"
                         THEN [code EXCEPT ![Len(code)].b = @ \o bs] ELSE Append(code, SegB(bs))
PatchSeg(code, addr, bs) ==
  [i \in 1..Len(code) |->
     LET st == SegStart(code, i) IN
     IF code[i].t = "b" /\ st <= addr /\ addr + Len(bs) <= st + Len(code[i].b)
     THEN [code[i] EXCEPT !.b = [j \in 1..Len(code[i].b) |->
                                   IF st + j - 1 >= addr /\ st + j - 1 < addr + Len(bs) THEN bs[st + j - addr] ELSE code[i].b[j]]]
     ELSE code[i]]
RECURSIVE ReadFrom(_, _)
ReadFrom(code, i) == IF i > Len(code) THEN <<>>
                     ELSE (IF code[i].t = "b" THEN ReadSeg(code[i].b, 1, SegStart(code, i))
                           ELSE <<[off |-> SegStart(code, i), op |-> -1, v |-> <<code[i].n>>]>>) \o ReadFrom(code, i + 1)
ReadCode(code) == ReadFrom(code, 1)       \* op -1 = Pad(n): n LoopStart instructions at consecutive offsets
PadLemma == \A n \in 1..4 : ReadSeg([i \in 1..n |-> OpPad], 1, 7) = [i \in 1..n |-> [off |-> 6 + i, op |-> OpPad, v |-> <<>>]]
ASSUME PadLemma
LebLemma == \A n \in (0..20000) \cup Vals \cup {2097151, 2097152, 268435455, 268435456, 2147483647} :
              /\ DecLeb(Leb(n) \o <<200>>, 1) = [v |-> <<n>>, pos |-> LebLen(n) + 1]       \* self-delimiting
              /\ Leb(n)[LebLen(n)] # 128                                                 \* minimal (no padding digit)
              /\ ReadF(<<"F">>, Fixed32(n), 1).v = <<n>>
ASSUME LebLemma

-----------------------------------------------------------------------------
VARIABLES items, code, labels, unres, pool, tables, lines, curloc, done
vars == <<items, code, labels, unres, pool, tables, lines, curloc, done>>

It(k, op, v, l, n, loc) == [k |-> k, op |-> op, v |-> v, l |-> l, n |-> n, loc |-> loc]
PConst(op, c) == [t |-> "const", n |-> op, c |-> c, ts |-> <<>>, d |-> 0]
PFill(n)      == [t |-> "fill", n |-> n, c |-> 0, ts |-> <<>>, d |-> 0]
PTable(ts, d) == [t |-> "jt", n |-> 0, c |-> 0, ts |-> ts, d |-> d]
PLen(e) == IF e.t = "fill" THEN e.n ELSE 1
RECURSIVE PoolLenTo(_, _)
PoolLenTo(p, i) == IF i = 0 THEN 0 ELSE PoolLenTo(p, i - 1) + PLen(p[i])
PoolLen(p) == PoolLenTo(p, Len(p))
PoolAt(p, idx) == LET i == CHOOSE i \in 1..Len(p) : PoolLenTo(p, i - 1) <= idx /\ idx < PoolLenTo(p, i) IN p[i]

Init == items = <<>> /\ code = <<>> /\ labels = <<>> /\ unres = <<>> /\ pool = <<>> /\ tables = <<>>
        /\ lines = <<>> /\ curloc = 0 /\ done = FALSE

(* emit_values: location bookkeeping, opcode, fields *)
EmitCore(op, v, loc, item) ==
  LET cl == IF loc # 0 THEN loc ELSE curloc
      off == CodeLen(code) IN
  /\ WellFormed(op, v)
  /\ NeedsLoc(op) => cl # 0                                   \* the writer asserts a location was set
  /\ code' = AppendBytes(code, EncInst(op, v))
  /\ lines' = IF NeedsLoc(op) /\ (lines = <<>> \/ lines[Len(lines)].loc # cl) THEN Append(lines, [off |-> off, loc |-> cl]) ELSE lines
  /\ curloc' = 0
  /\ items' = Append(items, item)
Emit(op, v, loc) == /\ op \notin FwdJumps \cup {OpLoop} \cup ConstOps
                    /\ EmitCore(op, v, loc, It("inst", op, v, 0, 0, loc))
                    /\ UNCHANGED <<labels, unres, pool, tables, done>>
EmitConst(op, r, c) == /\ op \in ConstOps
                       /\ pool' = Append(pool, PConst(op, c))
                       /\ EmitCore(op, <<r, PoolLen(pool)>>, 0, It("const", op, <<r, c>>, 0, 0, 0))
                       /\ UNCHANGED <<labels, unres, tables, done>>
CPad(n) == /\ n >= 1 /\ pool' = Append(pool, PFill(n)) /\ items' = Append(items, It("cpad", 0, <<>>, 0, n, 0))
           /\ UNCHANGED <<code, labels, unres, tables, lines, curloc, done>>
Pad(n) == /\ n >= 1 /\ code' = Append(code, SegP(n)) /\ curloc' = 0
          /\ items' = Append(items, It("pad", OpPad, <<>>, 0, n, 0))
          /\ UNCHANGED <<labels, unres, pool, tables, lines, done>>
CreateLabel == /\ labels' = Append(labels, -1) /\ items' = Append(items, It("create", 0, <<>>, Len(labels) + 1, 0, 0))
               /\ UNCHANGED <<code, unres, pool, tables, lines, curloc, done>>
DefineLabel == /\ labels' = Append(labels, CodeLen(code)) /\ items' = Append(items, It("define", 0, <<>>, Len(labels) + 1, 0, 0))
               /\ UNCHANGED <<code, unres, pool, tables, lines, curloc, done>>
BindLabel(l) == /\ labels[l] = -1                              \* "bind label twice" is asserted by the writer
                /\ labels' = [labels EXCEPT ![l] = CodeLen(code)]
                /\ items' = Append(items, It("bind", 0, <<>>, l, 0, 0))
                /\ UNCHANGED <<code, unres, pool, tables, lines, curloc, done>>
EmitJump(op, r, l, loc) ==
  LET start == CodeLen(code)
      cond == IF op = OpJump THEN <<>> ELSE Leb(r) IN
  /\ op \in FwdJumps /\ labels[l] = -1                         \* forward only: the label is not bound yet
  /\ code' = AppendBytes(code, <<op>> \o cond \o <<0, 0, 0, 0>>)
  /\ unres' = Append(unres, [start |-> start, addr |-> start + 1 + Len(cond), l |-> l])
  /\ curloc' = IF loc # 0 THEN loc ELSE curloc                 \* a forward jump does not consume the pending location
  /\ items' = Append(items, It("jump", op, IF op = OpJump THEN <<>> ELSE <<r>>, l, 0, loc))
  /\ UNCHANGED <<labels, pool, tables, lines, done>>
EmitLoop(l) == /\ labels[l] # -1                               \* backward only
               /\ EmitCore(OpLoop, <<CodeLen(code) - labels[l]>>, 0, It("loop", OpLoop, <<>>, l, 0, 0))
               /\ UNCHANGED <<labels, unres, pool, tables, done>>
AddJumpTable(ts, d) == /\ pool' = Append(pool, PTable(<<>>, 0))
                       /\ tables' = Append(tables, [idx |-> PoolLen(pool), ts |-> ts, d |-> d])
                       /\ items' = Append(items, It("jtable", 0, ts, d, 0, 0))
                       /\ UNCHANGED <<code, labels, unres, lines, curloc, done>>
RECURSIVE PatchAll(_, _)
PatchAll(c, us) == IF us = <<>> THEN c
                   ELSE PatchAll(PatchSeg(c, Head(us).addr, Fixed32(labels[Head(us).l] - Head(us).start)), Tail(us))
TableAt(idx) == LET i == CHOOSE i \in 1..Len(tables) : tables[i].idx = idx IN tables[i]
ResolveTables(p) ==        \* the placeholder entry of every jump table is replaced by the label offsets
  [k \in 1..Len(p) |-> IF p[k].t = "jt"
                       THEN LET tb == TableAt(PoolLenTo(p, k - 1)) IN PTable([j \in 1..Len(tb.ts) |-> labels[tb.ts[j]]], labels[tb.d])
                       ELSE p[k]]
Generate == /\ \A i \in 1..Len(unres) : labels[unres[i].l] # -1 /\ unres[i].start < labels[unres[i].l]
            /\ \A i \in 1..Len(tables) : labels[tables[i].d] # -1 /\ \A j \in 1..Len(tables[i].ts) : labels[tables[i].ts[j]] # -1
            /\ code' = PatchAll(code, unres)
            /\ pool' = ResolveTables(pool)
            /\ done' = TRUE
            /\ UNCHANGED <<items, labels, unres, tables, lines, curloc>>

-----------------------------------------------------------------------------
(* enumeration menus (the bounded domain) *)
IsB(op, i) == op = 29 /\ i = 2
NPos(op) == IF op \in Calls THEN 5 ELSE Len(Fields(op))
VarPos(op) == IF op \in Calls THEN {1, 2, 4, 5} ELSE 1..Len(Fields(op))
Vec(op, p, x) == [i \in 1..NPos(op) |-> IF op \in Calls /\ i = 3 THEN 2
                                        ELSE IF i = p THEN (IF IsB(op, i) THEN x % 256 ELSE x) ELSE i]
DefLoc(op) == IF NeedsLoc(op) THEN 1 ELSE 0
ManyArgs(n) == <<1, 2, n>> \o [i \in 1..n |-> 200 + i]
NKind(k) == Cardinality({i \in 1..Len(items) : items[i].k = k})
LastIs(k) == items # <<>> /\ items[Len(items)].k = k
Referenced(l) == (\E i \in 1..Len(unres) : unres[i].l = l) \/ (\E i \in 1..Len(tables) : tables[i].d = l \/ \E j \in 1..Len(tables[i].ts) : tables[i].ts[j] = l)
PoolVals == {x \in Vals : x >= 1 /\ x <= PoolMax}

OpcodesStep ==
  \/ items = <<>> /\ \E op \in AllOps \ (FwdJumps \cup {OpLoop} \cup ConstOps) :
        \/ \E p \in VarPos(op), x \in Vals : Emit(op, Vec(op, p, x), DefLoc(op))
        \/ op = OpPad /\ Emit(op, <<>>, 0)
        \/ op \in Calls /\ \E n \in {0, 127, 128} : Emit(op, ManyArgs(n), 1)
  \/ items = <<>> /\ \E n \in PoolVals : CPad(n)
  \/ (items = <<>> \/ LastIs("cpad")) /\ \E op \in ConstOps : EmitConst(op, IF LastIs("cpad") THEN 1 ELSE 300, op + 7)
  \/ items = <<>> /\ (CreateLabel \/ DefineLabel)                                        \* the four jump opcodes, alone
  \/ LastIs("create") /\ \E op \in FwdJumps, x \in Vals : (op = OpJump => x = 0) /\ EmitJump(op, x, 1, 0)
  \/ LastIs("jump") /\ BindLabel(1)
  \/ LastIs("define") /\ (EmitLoop(1) \/ \E n \in {127, 128} : Pad(n))
  \/ LastIs("pad") /\ EmitLoop(1)

Menu == {[op |-> 0, v |-> Vec(0, p, x), loc |-> 0] : p \in 1..3, x \in Vals}
   \cup {[op |-> 19, v |-> Vec(19, p, x), loc |-> 0] : p \in 1..2, x \in Vals}
   \cup {[op |-> 68, v |-> <<x>>, loc |-> 0] : x \in Vals}
   \cup {[op |-> 29, v |-> <<x, 7>>, loc |-> 0] : x \in Vals} \cup {[op |-> 29, v |-> <<1, u>>, loc |-> 0] : u \in {0, 127, 128, 255}}
   \cup {[op |-> OpPad, v |-> <<>>, loc |-> 0]}
   \cup {[op |-> 51, v |-> Vec(51, p, x), loc |-> 1] : p \in {1, 2, 5}, x \in Vals}
   \cup {[op |-> 51, v |-> <<x, 3, 0>>, loc |-> 2] : x \in {0, 128}} \cup {[op |-> 51, v |-> <<1, 2, 1, x>>, loc |-> 1] : x \in Vals}
   \cup {[op |-> 59, v |-> Vec(59, p, x), loc |-> 2] : p \in 1..3, x \in {127, 128}}
   \cup {[op |-> 16, v |-> <<1, 2, 3>>, loc |-> l] : l \in {1, 2}} \cup {[op |-> 19, v |-> <<1, 2>>, loc |-> 2]}
OperandsStep == \E m \in Menu : Emit(m.op, m.v, m.loc)

JumpForms == {[op |-> OpJump, r |-> 0, loc |-> 0], [op |-> OpJF, r |-> 1, loc |-> 0], [op |-> OpJT, r |-> 128, loc |-> 3]}
NoIdleLabel == \A l \in 1..Len(labels) : labels[l] = -1 => Referenced(l)
JumpsStep ==
  \/ NKind("pad") < MaxPads /\ \E n \in Pads : (n >= 8388608 => LastIs("jump")) /\ Pad(n)   \* 2^24 only matters to the fixed u32
  \/ Emit(19, <<0, 1>>, 0)
  \/ curloc # 0 /\ Emit(16, <<1, 2, 3>>, 0)
  \/ Len(labels) < MaxLabels /\ NoIdleLabel /\ CreateLabel
  \/ Len(labels) < MaxLabels /\ ~LastIs("define") /\ DefineLabel
  \/ \E l \in 1..Len(labels) : BindLabel(l)
  \/ \E l \in 1..Len(labels), f \in JumpForms : EmitJump(f.op, f.r, l, f.loc)
  \/ \E l \in 1..Len(labels) : EmitLoop(l)

PoolStep ==
  \/ NKind("cpad") < 1 /\ \E n \in PoolVals : CPad(n)
  \/ NKind("const") < 2 /\ \E op \in {31, 35} : EmitConst(op, 1, -5)
  \/ NKind("pad") < MaxPads /\ \E n \in Pads : Pad(n)
  \/ Len(labels) < MaxLabels /\ NoIdleLabel /\ CreateLabel
  \/ Len(labels) < MaxLabels /\ ~LastIs("define") /\ DefineLabel
  \/ \E l \in 1..Len(labels) : Referenced(l) /\ BindLabel(l)
  \/ NKind("jtable") < 1 /\ Len(labels) >= 1 /\
       \E ts \in {<<>>, [i \in 1..(Len(labels) - 1) |-> i], <<Len(labels), 1>>, <<1, Len(labels), 1>>} : AddJumpTable(ts, Len(labels))
  \/ \E i \in 1..Len(tables) : Emit(OpSwitch, <<129, tables[i].idx>>, 0)

Step == IF Mode = "opcodes" THEN OpcodesStep ELSE IF Mode = "operands" THEN OperandsStep
        ELSE IF Mode = "jumps" THEN JumpsStep ELSE PoolStep
GenOK == items # <<>> /\ (Mode = "jumps" => NKind("jump") + NKind("loop") >= 1)       \* rows worth emitting
                      /\ (Mode = "pool" => NKind("const") + NKind("jtable") >= 1)
Next == ~done /\ ((GenOK /\ Generate) \/ (Len(items) < MaxItems /\ Step))
Spec == Init /\ [][Next]_vars

-----------------------------------------------------------------------------
(* the theorem, checked on every generated body; r = ReadCode(code) is computed once per invariant *)
IsInstr(it) == it.k \in {"inst", "const", "jump", "loop", "pad"}
A == SelectSeq(items, IsInstr)
NInstrBefore(i) == Cardinality({j \in 1..(i - 1) : IsInstr(items[j])})
BindIdx(l) == CHOOSE i \in 1..Len(items) : (items[i].k \in {"define", "bind"} /\ items[i].l = l)
Bound(l) == \E i \in 1..Len(items) : items[i].k \in {"define", "bind"} /\ items[i].l = l
(* where a label points according to the READER: the first byte of the instruction that followed its bind *)
LabelOff(r, l) == LET c == NInstrBefore(BindIdx(l)) IN IF c < Len(r) THEN r[c + 1].off ELSE CodeLen(code)
Last(s) == s[Len(s)]
Match(r, a, x) ==
  CASE a.k = "inst"  -> x.op = a.op /\ x.v = a.v
    [] a.k = "const" -> x.op = a.op /\ x.v[1] = a.v[1] /\ PoolAt(pool, x.v[2]) = PConst(a.op, a.v[2])
    [] a.k = "pad"   -> x.op = -1 /\ x.v = <<a.n>>
    [] a.k = "jump"  -> x.op = a.op /\ (a.op # OpJump => x.v[1] = a.v[1]) /\ x.off + Last(x.v) = LabelOff(r, a.l)
    [] a.k = "loop"  -> x.op = OpLoop /\ x.off - x.v[1] = LabelOff(r, a.l)
RoundTripR(r) == Len(r) = Len(A) /\ \A j \in 1..Len(A) : Match(r, A[j], r[j])              \* Read(Write(is)) = is
OffsetsIncreaseR(r) == /\ (r # <<>> => r[1].off = 0)
                       /\ \A j \in 1..(Len(r) - 1) : r[j].off < r[j + 1].off
                       /\ \A j \in 1..Len(r) : r[j].op # -2                                 \* the reader never fails / stops early
LabelTableR(r) == \A l \in 1..Len(labels) : IF Bound(l) THEN labels[l] = LabelOff(r, l) ELSE labels[l] = -1
JumpTablesR(r) == \A i \in 1..Len(tables) :
                 LET e == PoolAt(pool, tables[i].idx) IN
                 /\ e.t = "jt" /\ e.d = LabelOff(r, tables[i].d) /\ Len(e.ts) = Len(tables[i].ts)
                 /\ \A j \in 1..Len(e.ts) : e.ts[j] = LabelOff(r, tables[i].ts[j])
LinesOKR(r) == /\ \A i \in 1..Len(lines) : \E j \in 1..Len(r) : r[j].off = lines[i].off /\ NeedsLoc(r[j].op)
               /\ \A i \in 1..(Len(lines) - 1) : lines[i].off < lines[i + 1].off /\ lines[i].loc # lines[i + 1].loc
RoundTrip == done => RoundTripR(ReadCode(code))
OffsetsIncrease == done => OffsetsIncreaseR(ReadCode(code))
LabelTable == done => LabelTableR(ReadCode(code))
JumpTables == done => JumpTablesR(ReadCode(code))
LinesOK == done => LinesOKR(ReadCode(code))
Theorem == done => LET r == ReadCode(code) IN RoundTripR(r) /\ OffsetsIncreaseR(r) /\ LabelTableR(r) /\ JumpTablesR(r) /\ LinesOKR(r)
(* Theorem and the row in one pass (the configurations use this one; the named parts above localize a failure) *)
TheoremAndRow == done => LET r == ReadCode(code) IN
                   /\ RoundTripR(r) /\ OffsetsIncreaseR(r) /\ LabelTableR(r) /\ JumpTablesR(r) /\ LinesOKR(r)
                   /\ PrintT(ToJson([items |-> items, code |-> code, insts |-> r, labels |-> labels, pool |-> pool, lines |-> lines]))
ASSUME PrintT(ToJson([optable |-> [i \in 1..Len(OpName) |-> [op |-> i - 1, name |-> OpName[i], fields |-> Fields(i - 1)]]]))
=============================================================================
