CONSTANTS
Mode = "operands"
MaxItems = 3
Vals = {0, 127, 128, 16384, 268435456}
Pads = {1}
MaxPads = 0
MaxLabels = 0
PoolMax = 16384
INIT Init
NEXT Next
INVARIANTS TheoremAndRow
CHECK_DEADLOCK FALSE
