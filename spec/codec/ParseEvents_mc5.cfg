CONSTANTS MaxLen = 5
Strict = TRUE
SPECIFICATION Spec
INVARIANTS NothingLostNothingTwice Bounded CompleteAtFinish TrailingInRange NonLeadingInRange
CONSTRAINT DepthBound
CHECK_DEADLOCK FALSE
