------------------------------ MODULE A64Asm ------------------------------
(* C08 - AArch64 instruction encoding, written from the Arm Architecture Reference Manual (A64 base
   instructions, "C4 A64 Instruction Set Encoding"), NOT from dora-asm/src/arm64.rs.

   Representation. TLC integers are 32-bit signed, so an instruction word never exists as one number:
   an encoding is the Arm ARM's diagram itself - a sequence of fields <<width, value>> from bit 31 down to
   bit 0 (widths add up to 32, every value fits its width) - and is compared with the implementation's word
   as the pair <<bits 31..16, bits 15..0>>.  64-bit immediates are 4 limbs of 16 bits (most significant
   first) or 64-element bit sequences (index 1 = bit 0).

   A request is a record [m |-> method name, r |-> registers in parameter order, i |-> immediates in
   parameter order, x |-> Extend/Shift/Cond name].  Registers as the assembler's API exposes them:
   0..30, ZR = 31 (REG_ZERO), SP = 32 (REG_SP); vector registers 0..31.  i32 immediates are integers,
   u32 immediates <<hi16, lo16>>, 64-bit immediates <<h3, h2, h1, h0>>.

   Enc(req) = [cov, ok, ws, alt]:  cov = the specification covers the method; ok = Encodable(req): the
   requested instruction exists; ws = the canonical word sequence; alt = set of further word sequences that
   encode exactly the same operation (empty for almost every method).
   Refusal rule: ~ok => the only allowed outcome is a refusal (A64AsmTrace.tla).                        *)
EXTENDS Integers, Sequences, FiniteSets, TLC

ZR == 31
SP == 32
HUGE == 1073741824          \* stands for "a value >= 2^30" (no field of any instruction is that wide)

(* ---------------------------------------------------------------- numbers *)
P2(n) == 2 ^ n
U32(v) == IF v[1] >= 16384 THEN HUGE ELSE v[1] * 65536 + v[2]             \* <<hi16, lo16>>
\* value of a 64-bit limb vector as a signed number if it fits 31 bits, else +-HUGE
S64(v) == IF v[1] = 0 /\ v[2] = 0 /\ v[3] < 16384 THEN v[3] * 65536 + v[4]
          ELSE IF v[1] = 65535 /\ v[2] = 65535 /\ v[3] >= 49152 THEN (v[3] - 65536) * 65536 + v[4]
          ELSE IF v[1] >= 32768 THEN -HUGE ELSE HUGE
FitsU(v, w) == v >= 0 /\ v < P2(w)
FitsS(v, w) == v >= -P2(w - 1) /\ v < P2(w - 1)
TwoC(v, w) == IF v >= 0 THEN v ELSE v + P2(w)                              \* two's complement in w bits

(* ---------------------------------------------------------------- words *)
\* fields MSB first; lo = number of bits to the right of the current field
RECURSIVE Halves(_, _)
Halves(fs, left) ==
  IF fs = <<>> THEN <<0, 0>>
  ELSE LET w == fs[1][1]  v == fs[1][2]  lo == left - w
           rest == Halves(Tail(fs), lo)
       IN IF lo >= 16 THEN <<rest[1] + v * P2(lo - 16), rest[2]>>
          ELSE IF left <= 16 THEN <<rest[1], rest[2] + v * P2(lo)>>
          ELSE <<rest[1] + (v \div P2(16 - lo)), rest[2] + (v % P2(16 - lo)) * P2(lo)>>
RECURSIVE Widths(_)
Widths(fs) == IF fs = <<>> THEN 0 ELSE fs[1][1] + Widths(Tail(fs))
WellFormed(fs) == Widths(fs) = 32 /\ \A k \in 1..Len(fs) : FitsU(fs[k][2], fs[k][1])
Word(fs) == Halves(fs, 32)
\* bit k (0 = least significant) of a word given as halves
WBit(w, k) == IF k >= 16 THEN (w[1] \div P2(k - 16)) % 2 ELSE (w[2] \div P2(k)) % 2
\* field [hi:lo] of a word given as halves (width <= 30)
WField(w, hi, lo) ==
  IF lo >= 16 THEN (w[1] \div P2(lo - 16)) % P2(hi - lo + 1)
  ELSE IF hi < 16 THEN (w[2] \div P2(lo)) % P2(hi - lo + 1)
  ELSE (w[2] \div P2(lo)) + (w[1] % P2(hi - 15)) * P2(16 - lo)
SignExt(v, w) == IF v >= P2(w - 1) THEN v - P2(w) ELSE v

(* ---------------------------------------------------------------- registers *)
\* operand positions of the Arm ARM: "<Xd>" (31 = XZR/WZR) and "<Xd|SP>" (31 = SP/WSP)
OkZ(r) == r \in 0..31
OkSP(r) == r \in 0..30 \/ r = SP
NumZ(r) == r
NumSP(r) == IF r = SP THEN 31 ELSE r
OkV(r) == r \in 0..31

(* ---------------------------------------------------------------- results *)
R(ok, fs) == [cov |-> TRUE, ok |-> ok, ws |-> IF ok THEN <<Word(fs)>> ELSE <<>>, alt |-> {}]
RA(ok, fs, afs) == [cov |-> TRUE, ok |-> ok, ws |-> IF ok THEN <<Word(fs)>> ELSE <<>>,
                    alt |-> IF ok THEN {<<Word(afs)>>} ELSE {}]
NotCovered == [cov |-> FALSE, ok |-> FALSE, ws |-> <<>>, alt |-> {}]

(* ---------------------------------------------------------------- operand enumerations *)
CondCode(c) == CASE c = "EQ" -> 0 [] c = "NE" -> 1 [] c \in {"CS", "HS"} -> 2 [] c \in {"CC", "LO"} -> 3
                 [] c = "MI" -> 4 [] c = "PL" -> 5 [] c = "VS" -> 6 [] c = "VC" -> 7 [] c = "HI" -> 8
                 [] c = "LS" -> 9 [] c = "GE" -> 10 [] c = "LT" -> 11 [] c = "GT" -> 12 [] c = "LE" -> 13
CondNames == {"EQ", "NE", "CS", "HS", "CC", "LO", "MI", "PL", "VS", "VC", "HI", "LS", "GE", "LT", "GT", "LE"}
InvertCode(cc) == IF cc % 2 = 0 THEN cc + 1 ELSE cc - 1                    \* the least significant bit inverts
ShiftCode(s) == CASE s = "LSL" -> 0 [] s = "LSR" -> 1 [] s = "ASR" -> 2 [] s = "ROR" -> 3
ShiftNames == {"LSL", "LSR", "ASR", "ROR"}
\* add/sub (extended register): option; LSL is the spelling of UXTX (64-bit) / UXTW (32-bit)
ExtNames == {"UXTB", "UXTH", "LSL", "UXTW", "UXTX", "SXTB", "SXTH", "SXTW", "SXTX"}
ExtOption(e, sf) == CASE e = "UXTB" -> 0 [] e = "UXTH" -> 1 [] e = "UXTW" -> 2 [] e = "UXTX" -> 3
                      [] e = "SXTB" -> 4 [] e = "SXTH" -> 5 [] e = "SXTW" -> 6 [] e = "SXTX" -> 7
                      [] e = "LSL" -> IF sf = 1 THEN 3 ELSE 2
\* load/store (register offset): option
LdstExtNames == {"UXTW", "LSL", "SXTW", "SXTX"}
LdstOption(e) == CASE e = "UXTW" -> 2 [] e = "LSL" -> 3 [] e = "SXTW" -> 6 [] e = "SXTX" -> 7

(* ================================================================ data processing - immediate *)
\* Add/subtract (immediate):  sf op S 100010 sh imm12 Rn Rd ;  Rn is <Xn|SP>, Rd is <Xd|SP> unless S
AddSubImmOk(v) == FitsU(v, 12) \/ (FitsU(v, 24) /\ v % 4096 = 0)
AddSubImm(sf, op, S, rd, rn, v) ==
  LET sh == IF FitsU(v, 12) THEN 0 ELSE 1
      imm12 == IF sh = 0 THEN v ELSE v \div 4096
  IN R(AddSubImmOk(v) /\ OkSP(rn) /\ (IF S = 1 THEN OkZ(rd) ELSE OkSP(rd)),
       << <<1, sf>>, <<1, op>>, <<1, S>>, <<6, 34>>, <<1, sh>>, <<12, imm12>>, <<5, NumSP(rn)>>,
          <<5, IF S = 1 THEN NumZ(rd) ELSE NumSP(rd)>> >>)

\* Logical (immediate): sf opc 100100 N immr imms Rn Rd. The immediate is a bit pattern: an element of size
\* e in {2,..,64} holding a run of `ones` set bits (0 < ones < e), rotated right by r, replicated to 64 bits.
Sizes == {2, 4, 8, 16, 32, 64}
ElemBit(e, ones, r, k) == ((k + r) % e) < ones
LogImmBits(t) == [j \in 1..64 |-> IF ElemBit(t[1], t[2], t[3], (j - 1) % t[1]) THEN 1 ELSE 0]
ImmsHigh(e) == CASE e = 64 -> 0 [] e = 32 -> 0 [] e = 16 -> 32 [] e = 8 -> 48 [] e = 4 -> 56 [] e = 2 -> 60
LogImmAll == {t \in Sizes \X (1..63) \X (0..63) : t[2] < t[1] /\ t[3] < t[1]}      \* 5334 triples
LogImmN(t) == IF t[1] = 64 THEN 1 ELSE 0
LogImmImmr(t) == t[3]
LogImmImms(t) == ImmsHigh(t[1]) + (t[2] - 1)
LimbBits(v) == [j \in 1..64 |-> (v[4 - ((j - 1) \div 16)] \div P2((j - 1) % 16)) % 2]
RECURSIVE SumSeq(_, _)
SumSeq(s, k) == IF k = 0 THEN 0 ELSE s[k] + SumSeq(s, k - 1)
\* the triples whose pattern is b (at most one: the representation is canonical - checked by A64AsmMC)
LogImmTriples(b) == LET pc == SumSeq(b, 64)
                    IN {t \in LogImmAll : t[2] * (64 \div t[1]) = pc /\ LogImmBits(t) = b}
\* 32-bit form: the upper half must be zero; the pattern is the low word replicated, element size <= 32
LogImm(sf, opc, rd, rn, v) ==
  LET v64 == IF sf = 1 THEN v ELSE <<v[3], v[4], v[3], v[4]>>
      ts == IF sf = 0 /\ (v[1] # 0 \/ v[2] # 0) THEN {} ELSE {t \in LogImmTriples(LimbBits(v64)) : sf = 1 \/ t[1] <= 32}
      t == CHOOSE t \in ts : TRUE
      flags == opc = 3
  IN R(ts # {} /\ OkZ(rn) /\ (IF flags THEN OkZ(rd) ELSE OkSP(rd)),
       << <<1, sf>>, <<2, opc>>, <<6, 36>>, <<1, LogImmN(t)>>, <<6, LogImmImmr(t)>>, <<6, LogImmImms(t)>>,
          <<5, NumZ(rn)>>, <<5, IF flags THEN NumZ(rd) ELSE NumSP(rd)>> >>)

\* Move wide (immediate): sf opc 100101 hw imm16 Rd ; opc: MOVN 00, MOVZ 10, MOVK 11 ; hw<1> = 0 when sf = 0
MoveWide(sf, opc, rd, imm16, shift) ==
  R(OkZ(rd) /\ FitsU(imm16, 16) /\ shift >= 0 /\ shift < HUGE /\ shift % 16 = 0 /\ shift \div 16 < (IF sf = 1 THEN 4 ELSE 2),
    << <<1, sf>>, <<2, opc>>, <<6, 37>>, <<2, shift \div 16>>, <<16, imm16>>, <<5, NumZ(rd)>> >>)

\* PC-relative addressing: op immlo 10000 immhi Rd ; 21-bit signed (bytes for ADR, pages for ADRP)
PcRel(op, rd, imm) ==
  LET u == TwoC(imm, 21)
  IN R(OkZ(rd) /\ FitsS(imm, 21),
       << <<1, op>>, <<2, u % 4>>, <<5, 16>>, <<19, u \div 4>>, <<5, NumZ(rd)>> >>)

\* Bitfield: sf opc 100110 N immr imms Rn Rd ; N = sf ; immr, imms < datasize ; opc: SBFM 00, BFM 01, UBFM 10
Bitfield(sf, opc, rd, rn, immr, imms) ==
  LET sz == IF sf = 1 THEN 64 ELSE 32
  IN R(OkZ(rd) /\ OkZ(rn) /\ immr >= 0 /\ immr < sz /\ imms >= 0 /\ imms < sz,
       << <<1, sf>>, <<2, opc>>, <<6, 38>>, <<1, sf>>, <<6, immr>>, <<6, imms>>, <<5, NumZ(rn)>>, <<5, NumZ(rd)>> >>)

\* Extract: sf 00 100111 N 0 Rm imms Rn Rd  (EXTR; ROR (immediate) is EXTR Rd, Rs, Rs, #shift)
Extract(sf, rd, rn, rm, lsb) ==
  R(OkZ(rd) /\ OkZ(rn) /\ OkZ(rm) /\ lsb >= 0 /\ lsb < (IF sf = 1 THEN 64 ELSE 32),
    << <<1, sf>>, <<2, 0>>, <<6, 39>>, <<1, sf>>, <<1, 0>>, <<5, NumZ(rm)>>, <<6, lsb>>, <<5, NumZ(rn)>>, <<5, NumZ(rd)>> >>)

(* ================================================================ data processing - register *)
\* Add/subtract (shifted register): sf op S 01011 shift 0 Rm imm6 Rn Rd ; shift = 11 reserved; imm6<5> = 0 when sf = 0
AddSubShF(sf, op, S, rd, rn, rm, sh, amount) ==
  << <<1, sf>>, <<1, op>>, <<1, S>>, <<5, 11>>, <<2, ShiftCode(sh)>>, <<1, 0>>, <<5, NumZ(rm)>>, <<6, amount>>,
     <<5, NumZ(rn)>>, <<5, NumZ(rd)>> >>
AddSubShOk(sf, rd, rn, rm, sh, amount) ==
  OkZ(rd) /\ OkZ(rn) /\ OkZ(rm) /\ sh \in {"LSL", "LSR", "ASR"} /\ amount >= 0 /\ amount < (IF sf = 1 THEN 64 ELSE 32)
AddSubSh(sf, op, S, rd, rn, rm, sh, amount) ==
  R(AddSubShOk(sf, rd, rn, rm, sh, amount), AddSubShF(sf, op, S, rd, rn, rm, sh, amount))

\* Add/subtract (extended register): sf op S 01011 00 1 Rm option imm3 Rn Rd ; imm3 <= 4 ; Rn <Xn|SP>, Rd <Xd|SP> unless S
AddSubExtF(sf, op, S, rd, rn, rm, option, amount) ==
  << <<1, sf>>, <<1, op>>, <<1, S>>, <<5, 11>>, <<2, 0>>, <<1, 1>>, <<5, NumZ(rm)>>, <<3, option>>, <<3, amount>>,
     <<5, NumSP(rn)>>, <<5, IF S = 1 THEN NumZ(rd) ELSE NumSP(rd)>> >>
AddSubExtOk(S, rd, rn, rm, ext, amount) ==
  OkSP(rn) /\ OkZ(rm) /\ (IF S = 1 THEN OkZ(rd) ELSE OkSP(rd)) /\ ext \in ExtNames /\ amount >= 0 /\ amount <= 4
AddSubExt(sf, op, S, rd, rn, rm, ext, amount) ==
  R(AddSubExtOk(S, rd, rn, rm, ext, amount), AddSubExtF(sf, op, S, rd, rn, rm, ExtOption(ext, sf), amount))

\* ADD/SUB/ADDS/SUBS <Xd>, <Xn>, <Xm>: the shifted-register form cannot name SP; with SP as Rd or Rn the
\* extended-register form with LSL #0 (option 011 for 64-bit, 010 for 32-bit) is the instruction. For the 32-bit
\* data size option 011 denotes the same operation (ExtendReg: len = Min(64, 32 - shift)): accepted as alt.
AddSubReg(sf, op, S, rd, rn, rm) ==
  IF rd = SP \/ rn = SP
  THEN RA(AddSubExtOk(S, rd, rn, rm, "LSL", 0), AddSubExtF(sf, op, S, rd, rn, rm, ExtOption("LSL", sf), 0),
          AddSubExtF(sf, op, S, rd, rn, rm, 3, 0))
  ELSE AddSubSh(sf, op, S, rd, rn, rm, "LSL", 0)

\* Logical (shifted register): sf opc 01010 shift N Rm imm6 Rn Rd
LogicalSh(sf, opc, N, rd, rn, rm, sh, amount) ==
  R(OkZ(rd) /\ OkZ(rn) /\ OkZ(rm) /\ sh \in ShiftNames /\ amount >= 0 /\ amount < (IF sf = 1 THEN 64 ELSE 32),
    << <<1, sf>>, <<2, opc>>, <<5, 10>>, <<2, ShiftCode(sh)>>, <<1, N>>, <<5, NumZ(rm)>>, <<6, amount>>,
       <<5, NumZ(rn)>>, <<5, NumZ(rd)>> >>)

\* Conditional select: sf op S 11010100 Rm cond op2 Rn Rd ; CSEL 0/00, CSINC 0/01, CSINV 1/00, CSNEG 1/01
CondSelect(sf, op, op2, rd, rn, rm, cc) ==
  R(OkZ(rd) /\ OkZ(rn) /\ OkZ(rm) /\ cc \in 0..15,
    << <<1, sf>>, <<1, op>>, <<1, 0>>, <<8, 212>>, <<5, NumZ(rm)>>, <<4, cc>>, <<2, op2>>, <<5, NumZ(rn)>>, <<5, NumZ(rd)>> >>)

\* Data-processing (1 source): sf 1 S 11010110 opcode2 opcode Rn Rd
DataProc1(sf, opcode, rd, rn) ==
  R(OkZ(rd) /\ OkZ(rn),
    << <<1, sf>>, <<1, 1>>, <<1, 0>>, <<8, 214>>, <<5, 0>>, <<6, opcode>>, <<5, NumZ(rn)>>, <<5, NumZ(rd)>> >>)
\* Data-processing (2 source): sf 0 S 11010110 Rm opcode Rn Rd
DataProc2(sf, opcode, rd, rn, rm) ==
  R(OkZ(rd) /\ OkZ(rn) /\ OkZ(rm),
    << <<1, sf>>, <<1, 0>>, <<1, 0>>, <<8, 214>>, <<5, NumZ(rm)>>, <<6, opcode>>, <<5, NumZ(rn)>>, <<5, NumZ(rd)>> >>)
\* Data-processing (3 source): sf op54 11011 op31 Rm o0 Ra Rn Rd
DataProc3(sf, op31, o0, rd, rn, rm, ra) ==
  R(OkZ(rd) /\ OkZ(rn) /\ OkZ(rm) /\ OkZ(ra),
    << <<1, sf>>, <<2, 0>>, <<5, 27>>, <<3, op31>>, <<5, NumZ(rm)>>, <<1, o0>>, <<5, NumZ(ra)>>, <<5, NumZ(rn)>>, <<5, NumZ(rd)>> >>)

(* ================================================================ branches, exceptions, system *)
\* Unconditional branch (immediate): op 00101 imm26 (offset in words)
BranchImmF(op, off) == << <<1, op>>, <<5, 5>>, <<26, TwoC(off, 26)>> >>
BranchImm(op, off) == R(FitsS(off, 26), BranchImmF(op, off))
\* Conditional branch (immediate): 0101010 0 imm19 0 cond
BranchCondF(cc, off) == << <<7, 42>>, <<1, 0>>, <<19, TwoC(off, 19)>>, <<1, 0>>, <<4, cc>> >>
BranchCond(cc, off) == R(FitsS(off, 19), BranchCondF(cc, off))
\* Unconditional branch (register): 1101011 opc 11111 000000 Rn 00000 ; BR 0000, BLR 0001, RET 0010
BranchReg(opc, rn) == R(OkZ(rn), << <<7, 107>>, <<4, opc>>, <<5, 31>>, <<6, 0>>, <<5, NumZ(rn)>>, <<5, 0>> >>)
\* Compare and branch: sf 011010 op imm19 Rt
CmpBranchF(sf, op, rt, off) == << <<1, sf>>, <<6, 26>>, <<1, op>>, <<19, TwoC(off, 19)>>, <<5, NumZ(rt)>> >>
CmpBranch(sf, op, rt, off) == R(OkZ(rt) /\ FitsS(off, 19), CmpBranchF(sf, op, rt, off))
\* Test and branch: b5 011011 op b40 imm14 Rt
TestBranchF(op, rt, bit, off) ==
  << <<1, bit \div 32>>, <<6, 27>>, <<1, op>>, <<5, bit % 32>>, <<14, TwoC(off, 14)>>, <<5, NumZ(rt)>> >>
TestBranchOk(rt, bit, off) == OkZ(rt) /\ bit >= 0 /\ bit < 64 /\ FitsS(off, 14)
TestBranch(op, rt, bit, off) == R(TestBranchOk(rt, bit, off), TestBranchF(op, rt, bit, off))
\* Exception generation: 11010100 opc imm16 000 LL ; BRK opc 001, LL 00
Brk(imm16) == R(FitsU(imm16, 16), << <<8, 212>>, <<3, 1>>, <<16, imm16>>, <<3, 0>>, <<2, 0>> >>)
\* Hints: 1101 0101 0000 0011 0010 CRm op2 11111 ; NOP = CRm 0000, op2 000
NopF == << <<16, 54531>>, <<4, 2>>, <<4, 0>>, <<3, 0>>, <<5, 31>> >>
\* Barriers: 1101 0101 0000 0011 0011 CRm op2 11111 ; DMB op2 = 101
Dmb(crm) == R(FitsU(crm, 4), << <<16, 54531>>, <<4, 3>>, <<4, crm>>, <<3, 5>>, <<5, 31>> >>)

(* ================================================================ loads and stores *)
\* size = log2 of the access size in bytes. General registers: Rt is <Xt> (31 = ZR); base Rn is <Xn|SP>.
RtNum(V, rt) == rt
RtOk(V, rt) == IF V = 1 THEN OkV(rt) ELSE OkZ(rt)

\* Load/store pair: opc 101 V idx L imm7 Rt2 Rn Rt ; idx: 001 post-index, 010 signed offset, 011 pre-index ;
\* opc 00 = 32-bit, 10 = 64-bit general registers ; imm7 = byte offset / access size, signed
LdstPair(opc, idx, L, rt, rt2, rn, scaled) ==
  R(OkZ(rt) /\ OkZ(rt2) /\ OkSP(rn) /\ FitsS(scaled, 7),
    << <<2, opc>>, <<3, 5>>, <<1, 0>>, <<3, idx>>, <<1, L>>, <<7, TwoC(scaled, 7)>>, <<5, NumZ(rt2)>>, <<5, NumSP(rn)>>, <<5, NumZ(rt)>> >>)
LdstPairBytes(opc, idx, L, rt, rt2, rn, bytes) ==
  LET sc == IF opc = 2 THEN 8 ELSE 4
      al == bytes > -HUGE /\ bytes < HUGE /\ bytes % sc = 0
  IN LdstPair(opc, idx, L, rt, rt2, rn, IF al THEN bytes \div sc ELSE HUGE)

\* Load/store register (unsigned immediate): size 111 V 01 opc imm12 Rn Rt ; imm12 = byte offset / access size
LdstUImmF(size, V, opc, rt, rn, bytes) ==
  << <<2, size>>, <<3, 7>>, <<1, V>>, <<2, 1>>, <<2, opc>>, <<12, bytes \div P2(size)>>, <<5, NumSP(rn)>>, <<5, RtNum(V, rt)>> >>
LdstUImmOk(size, V, rt, rn, bytes) ==
  RtOk(V, rt) /\ OkSP(rn) /\ bytes >= 0 /\ bytes < HUGE /\ bytes % P2(size) = 0 /\ bytes \div P2(size) < 4096
LdstUImm(size, V, opc, rt, rn, bytes) == R(LdstUImmOk(size, V, rt, rn, bytes), LdstUImmF(size, V, opc, rt, rn, bytes))

\* Load/store register (unscaled immediate / post / pre): size 111 V 00 opc 0 imm9 idx Rn Rt ; idx 00 unscaled, 01 post, 11 pre
LdstImm9F(size, V, opc, idx, rt, rn, imm9) ==
  << <<2, size>>, <<3, 7>>, <<1, V>>, <<2, 0>>, <<2, opc>>, <<1, 0>>, <<9, TwoC(imm9, 9)>>, <<2, idx>>, <<5, NumSP(rn)>>, <<5, RtNum(V, rt)>> >>
LdstImm9Ok(V, rt, rn, imm9) == RtOk(V, rt) /\ OkSP(rn) /\ FitsS(imm9, 9)
LdstUnscaled(size, V, opc, rt, rn, imm9) == R(LdstImm9Ok(V, rt, rn, imm9), LdstImm9F(size, V, opc, 0, rt, rn, imm9))
LdstPost(size, V, opc, rt, rn, imm9) == R(LdstImm9Ok(V, rt, rn, imm9), LdstImm9F(size, V, opc, 1, rt, rn, imm9))
LdstPre(size, V, opc, rt, rn, imm9) == R(LdstImm9Ok(V, rt, rn, imm9), LdstImm9F(size, V, opc, 3, rt, rn, imm9))

\* Load/store register (register offset): size 111 V 00 opc 1 Rm option S 10 Rn Rt ; amount is 0 or log2(access size)
LdstRegF(size, V, opc, rt, rn, rm, ext, amount) ==
  << <<2, size>>, <<3, 7>>, <<1, V>>, <<2, 0>>, <<2, opc>>, <<1, 1>>, <<5, NumZ(rm)>>, <<3, LdstOption(ext)>>,
     <<1, IF amount = 0 THEN 0 ELSE 1>>, <<2, 2>>, <<5, NumSP(rn)>>, <<5, RtNum(V, rt)>> >>
LdstRegOk(size, V, rt, rn, rm, ext, amount) ==
  RtOk(V, rt) /\ OkSP(rn) /\ OkZ(rm) /\ ext \in LdstExtNames /\ (amount = 0 \/ amount = size)
LdstReg(size, V, opc, rt, rn, rm, ext, amount) ==
  R(LdstRegOk(size, V, rt, rn, rm, ext, amount), LdstRegF(size, V, opc, rt, rn, rm, ext, amount))

\* Load/store exclusive, load-acquire/store-release: size 001000 o2 L o1 Rs o0 Rt2 Rn Rt
LdstExcl(size, o2, L, o1, o0, rs, rt2, rn, rt) ==
  R(OkZ(rs) /\ OkZ(rt2) /\ OkSP(rn) /\ OkZ(rt),
    << <<2, size>>, <<6, 8>>, <<1, o2>>, <<1, L>>, <<1, o1>>, <<5, NumZ(rs)>>, <<1, o0>>, <<5, NumZ(rt2)>>, <<5, NumSP(rn)>>, <<5, NumZ(rt)>> >>)
\* Atomic memory operations (LSE): size 111 V 00 A R 1 Rs o3 opc 00 Rn Rt ; LDADD o3 0 opc 000 ; SWP o3 1 opc 000
Atomic(size, A, Rl, o3, opc, rs, rn, rt) ==
  R(OkZ(rs) /\ OkSP(rn) /\ OkZ(rt),
    << <<2, size>>, <<3, 7>>, <<1, 0>>, <<2, 0>>, <<1, A>>, <<1, Rl>>, <<1, 1>>, <<5, NumZ(rs)>>, <<1, o3>>, <<3, opc>>, <<2, 0>>,
       <<5, NumSP(rn)>>, <<5, NumZ(rt)>> >>)

(* ================================================================ floating point and SIMD *)
\* ftype: 00 single, 01 double
\* FP data-processing (1 source): M 0 S 11110 ftype 1 opcode 10000 Rn Rd
FpDp1(ftype, opcode, rd, rn) ==
  R(OkV(rd) /\ OkV(rn), << <<3, 0>>, <<5, 30>>, <<2, ftype>>, <<1, 1>>, <<6, opcode>>, <<5, 16>>, <<5, rn>>, <<5, rd>> >>)
\* FP data-processing (2 source): M 0 S 11110 ftype 1 Rm opcode 10 Rn Rd
FpDp2(ftype, opcode, rd, rn, rm) ==
  R(OkV(rd) /\ OkV(rn) /\ OkV(rm), << <<3, 0>>, <<5, 30>>, <<2, ftype>>, <<1, 1>>, <<5, rm>>, <<4, opcode>>, <<2, 2>>, <<5, rn>>, <<5, rd>> >>)
\* FP compare: M 0 S 11110 ftype 1 Rm op 1000 Rn opcode2 ; FCMP 00000, FCMPE 10000
FpCmp(ftype, opcode2, rn, rm) ==
  R(OkV(rn) /\ OkV(rm), << <<3, 0>>, <<5, 30>>, <<2, ftype>>, <<1, 1>>, <<5, rm>>, <<2, 0>>, <<4, 8>>, <<5, rn>>, <<5, opcode2>> >>)
\* Conversion between FP and integer: sf 0 S 11110 ftype 1 rmode opcode 000000 Rn Rd
FpInt(sf, ftype, rmode, opcode, rd, rn, okd, okn) ==
  R(okd /\ okn, << <<1, sf>>, <<2, 0>>, <<5, 30>>, <<2, ftype>>, <<1, 1>>, <<2, rmode>>, <<3, opcode>>, <<6, 0>>, <<5, rn>>, <<5, rd>> >>)
\* SIMD across lanes: 0 Q U 01110 size 11000 opcode 10 Rn Rd ; ADDV U 0 opcode 11011 ; arrangements 8B 16B 4H 8H 4S
AddV(q, size, rd, rn) ==
  R(OkV(rd) /\ OkV(rn) /\ q \in 0..1 /\ (size \in 0..1 \/ (size = 2 /\ q = 1)),
    << <<1, 0>>, <<1, q>>, <<1, 0>>, <<5, 14>>, <<2, size>>, <<5, 24>>, <<5, 27>>, <<2, 2>>, <<5, rn>>, <<5, rd>> >>)
\* SIMD two-register miscellaneous: 0 Q U 01110 size 10000 opcode 10 Rn Rd ; CNT U 0 opcode 00101 size 00 (8B, 16B)
Cnt(q, size, rd, rn) ==
  R(OkV(rd) /\ OkV(rn) /\ q \in 0..1 /\ size = 0,
    << <<1, 0>>, <<1, q>>, <<1, 0>>, <<5, 14>>, <<2, size>>, <<5, 16>>, <<5, 5>>, <<2, 2>>, <<5, rn>>, <<5, rd>> >>)

(* ================================================================ the assembler's methods *)
(* Which instruction each public method of AssemblerArm64 requests (method name + Arm ARM mnemonic/alias
   definitions). Operand units are the API's contract (checked against the callers in dora-cannon-compiler
   and dora-compiler): byte offsets for ldp/ldp_w/stp_post/stp_post_w and every *_imm/ldur/stur load/store,
   scaled imm7 for ldp_post/stp/stp_pre, words for bl_imm/cbz_imm/cbnz_imm, bytes for adr_imm, pages for adrp_imm. *)
W32 == {"add_w", "adds_w", "sub_w", "subs_w", "add_ext_w", "sub_ext_w", "subs_ext_w", "cmp_ext_w", "add_sh_w", "adds_sh_w",
        "sub_sh_w", "subs_sh_w", "cmp_sh_w", "cmp_w", "add_imm_w", "adds_imm_w", "sub_imm_w", "subs_imm_w", "cmn_imm_w",
        "cmp_imm_w", "and_imm_w", "and_sh_w", "ands_sh_w", "bic_sh_w", "bics_sh_w", "eon_sh_w", "eor_sh_w", "orn_sh_w",
        "orr_sh_w", "asrv_w", "lsl_w", "lsr_w", "ror_w", "sdiv_w", "udiv_w", "mul_w", "madd_w", "msub_w", "bfm_w", "sbfm_w",
        "ubfm_w", "lsl_imm_w", "lsr_imm_w", "cls_w", "clz_w", "rbit_w", "rev_w", "csel_w", "csinc_w", "csinv_w", "cset_w",
        "mov_w", "movn_w", "movz_w", "movk_w", "cbz_imm_w", "cbnz_imm_w", "uxtb"}
Sf(m) == IF m \in W32 THEN 0 ELSE 1
\* add/sub family: op (0 add, 1 sub) and S (flags)
SubFamily == {"sub", "sub_w", "subs", "subs_w", "sub_ext", "sub_ext_w", "subs_ext", "subs_ext_w", "cmp_ext", "cmp_ext_w",
              "sub_sh", "sub_sh_w", "subs_sh", "subs_sh_w", "cmp_sh", "cmp_sh_w", "cmp", "cmp_w", "sub_imm", "sub_imm_w",
              "subs_imm", "subs_imm_w", "cmp_imm", "cmp_imm_w"}
FlagFamily == {"adds", "adds_w", "subs", "subs_w", "subs_ext", "subs_ext_w", "cmp_ext", "cmp_ext_w", "adds_sh", "adds_sh_w",
               "subs_sh", "subs_sh_w", "cmp_sh", "cmp_sh_w", "cmp", "cmp_w", "adds_imm", "adds_imm_w", "subs_imm",
               "subs_imm_w", "cmn_imm", "cmn_imm_w", "cmp_imm", "cmp_imm_w"}
Op(m) == IF m \in SubFamily THEN 1 ELSE 0
Fl(m) == IF m \in FlagFamily THEN 1 ELSE 0

\* logical (shifted register): <<opc, N>>
LogOp(m) == CASE m \in {"and_sh", "and_sh_w"} -> <<0, 0>> [] m \in {"bic_sh", "bic_sh_w"} -> <<0, 1>>
              [] m \in {"orr_sh", "orr_sh_w"} -> <<1, 0>> [] m \in {"orn_sh", "orn_sh_w"} -> <<1, 1>>
              [] m \in {"eor_sh", "eor_sh_w"} -> <<2, 0>> [] m \in {"eon_sh", "eon_sh_w"} -> <<2, 1>>
              [] m \in {"ands_sh", "ands_sh_w"} -> <<3, 0>> [] m \in {"bics_sh", "bics_sh_w"} -> <<3, 1>>

\* load/store single register: <<log2 size, V, opc>> ; opc 00 store, 01 load
LdstKind(m) ==
  CASE m \in {"ldr_imm_x", "ldr_reg", "ldur", "ldr"} -> <<3, 0, 1>>
    [] m \in {"ldr_imm_w", "ldr_reg_w", "ldur_w"} -> <<2, 0, 1>>
    [] m \in {"ldrh_imm", "ldrh_reg", "ldurh"} -> <<1, 0, 1>>
    [] m \in {"ldrb_imm", "ldrb_reg", "ldurb"} -> <<0, 0, 1>>
    [] m \in {"ldr_imm_d", "ldr_reg_d", "ldur_d"} -> <<3, 1, 1>>
    [] m \in {"ldr_imm_s", "ldr_reg_s", "ldur_s"} -> <<2, 1, 1>>
    [] m \in {"str_imm", "str_imm_x", "str_reg", "stur"} -> <<3, 0, 0>>
    [] m \in {"str_imm_w", "str_reg_w", "stur_w"} -> <<2, 0, 0>>
    [] m \in {"strh_imm", "strh_reg", "sturh"} -> <<1, 0, 0>>
    [] m \in {"strb_imm", "strb_reg", "sturb"} -> <<0, 0, 0>>
    [] m \in {"str_imm_d", "str_reg_d", "stur_d"} -> <<3, 1, 0>>
    [] m \in {"str_imm_s", "str_reg_s", "stur_s"} -> <<2, 1, 0>>
LdstUImmMethods == {"ldr_imm_x", "ldr_imm_w", "ldrh_imm", "ldrb_imm", "ldr_imm_d", "ldr_imm_s", "str_imm", "str_imm_x",
                    "str_imm_w", "strh_imm", "strb_imm", "str_imm_d", "str_imm_s"}
LdstRegMethods == {"ldr_reg", "ldr_reg_w", "ldrh_reg", "ldrb_reg", "ldr_reg_d", "ldr_reg_s", "str_reg", "str_reg_w",
                   "strh_reg", "strb_reg", "str_reg_d", "str_reg_s"}
LdstUnscaledMethods == {"ldur", "ldur_w", "ldurh", "ldurb", "ldur_d", "ldur_s", "stur", "stur_w", "sturh", "sturb", "stur_d", "stur_s"}
\* ldr_mem_* / str_mem_*: <<log2 size, V, opc>>
MemKind(m) == CASE m = "ldr_mem_x" -> <<3, 0, 1>> [] m = "ldr_mem_w" -> <<2, 0, 1>> [] m = "ldr_mem_b" -> <<0, 0, 1>>
                [] m = "ldr_mem_d" -> <<3, 1, 1>> [] m = "ldr_mem_s" -> <<2, 1, 1>>
                [] m = "str_mem_x" -> <<3, 0, 0>> [] m = "str_mem_w" -> <<2, 0, 0>> [] m = "str_mem_b" -> <<0, 0, 0>>
                [] m = "str_mem_d" -> <<3, 1, 0>> [] m = "str_mem_s" -> <<2, 1, 0>>
MemMethods == {"ldr_mem_x", "ldr_mem_w", "ldr_mem_b", "ldr_mem_d", "ldr_mem_s", "str_mem_x", "str_mem_w", "str_mem_b", "str_mem_d", "str_mem_s"}

\* exclusive / acquire-release: <<size, o2, L, o1, o0>>
ExclKind(m) ==
  CASE m = "ldxr" -> <<3, 0, 1, 0, 0>> [] m = "ldxr_w" -> <<2, 0, 1, 0, 0>>
    [] m = "ldaxr" -> <<3, 0, 1, 0, 1>> [] m = "ldaxr_w" -> <<2, 0, 1, 0, 1>>
    [] m = "stxr" -> <<3, 0, 0, 0, 0>> [] m = "stxr_w" -> <<2, 0, 0, 0, 0>>
    [] m = "stlxr" -> <<3, 0, 0, 0, 1>> [] m = "stlxr_w" -> <<2, 0, 0, 0, 1>>
    [] m = "ldar" -> <<3, 1, 1, 0, 1>> [] m = "ldar_w" -> <<2, 1, 1, 0, 1>> [] m = "ldarh" -> <<1, 1, 1, 0, 1>> [] m = "ldarb" -> <<0, 1, 1, 0, 1>>
    [] m = "stlr" -> <<3, 1, 0, 0, 1>> [] m = "stlr_w" -> <<2, 1, 0, 0, 1>> [] m = "stlrh" -> <<1, 1, 0, 0, 1>> [] m = "stlrb" -> <<0, 1, 0, 0, 1>>
\* CAS: size 001000 1 L 1 Rs o0 11111 Rn Rt ; A (acquire) = L, release = o0 : <<size, L, o0>>
CasKind(m) == CASE m = "cas" -> <<3, 0, 0>> [] m = "cas_w" -> <<2, 0, 0>> [] m = "casa" -> <<3, 1, 0>> [] m = "casa_w" -> <<2, 1, 0>>
                [] m = "casl" -> <<3, 0, 1>> [] m = "casl_w" -> <<2, 0, 1>> [] m = "casal" -> <<3, 1, 1>> [] m = "casal_w" -> <<2, 1, 1>>
\* LDADD / SWP: <<size, A, R, o3>>
AtomicKind(m) ==
  CASE m = "ldadd" -> <<3, 0, 0, 0>> [] m = "ldadd_w" -> <<2, 0, 0, 0>> [] m = "ldadda" -> <<3, 1, 0, 0>> [] m = "ldadda_w" -> <<2, 1, 0, 0>>
    [] m = "ldaddl" -> <<3, 0, 1, 0>> [] m = "ldaddl_w" -> <<2, 0, 1, 0>> [] m = "ldaddal" -> <<3, 1, 1, 0>> [] m = "ldaddal_w" -> <<2, 1, 1, 0>>
    [] m = "swp" -> <<3, 0, 0, 1>> [] m = "swp_w" -> <<2, 0, 0, 1>> [] m = "swpa" -> <<3, 1, 0, 1>> [] m = "swpa_w" -> <<2, 1, 0, 1>>
    [] m = "swpl" -> <<3, 0, 1, 1>> [] m = "swpl_w" -> <<2, 0, 1, 1>> [] m = "swpal" -> <<3, 1, 1, 1>> [] m = "swpal_w" -> <<2, 1, 1, 1>>
ExclMethods == {"ldxr", "ldxr_w", "ldaxr", "ldaxr_w", "ldar", "ldar_w", "ldarh", "ldarb", "stlr", "stlr_w", "stlrh", "stlrb"}
StxrMethods == {"stxr", "stxr_w", "stlxr", "stlxr_w"}
CasMethods == {"cas", "cas_w", "casa", "casa_w", "casl", "casl_w", "casal", "casal_w"}
AtomicMethods == {"ldadd", "ldadd_w", "ldadda", "ldadda_w", "ldaddl", "ldaddl_w", "ldaddal", "ldaddal_w",
                  "swp", "swp_w", "swpa", "swpa_w", "swpl", "swpl_w", "swpal", "swpal_w"}

\* FP: suffix _s single (ftype 00), _d double (ftype 01)
FpDouble == {"fadd_d", "fsub_d", "fmul_d", "fdiv_d", "fcmp_d", "fcmpe_d", "fmov_d", "fabs_d", "fneg_d", "fsqrt_d",
             "frintn_d", "frintp_d", "frintm_d", "frintz_d", "frinta_d"}
Ft(m) == IF m \in FpDouble THEN 1 ELSE 0
FpDp2Op(m) == CASE m \in {"fmul_s", "fmul_d"} -> 0 [] m \in {"fdiv_s", "fdiv_d"} -> 1 [] m \in {"fadd_s", "fadd_d"} -> 2 [] m \in {"fsub_s", "fsub_d"} -> 3
FpDp1Op(m) == CASE m \in {"fmov_s", "fmov_d"} -> 0 [] m \in {"fabs_s", "fabs_d"} -> 1 [] m \in {"fneg_s", "fneg_d"} -> 2
                [] m \in {"fsqrt_s", "fsqrt_d"} -> 3 [] m \in {"frintn_s", "frintn_d"} -> 8 [] m \in {"frintp_s", "frintp_d"} -> 9
                [] m \in {"frintm_s", "frintm_d"} -> 10 [] m \in {"frintz_s", "frintz_d"} -> 11 [] m \in {"frinta_s", "frinta_d"} -> 12
FpDp2Methods == {"fadd_s", "fadd_d", "fsub_s", "fsub_d", "fmul_s", "fmul_d", "fdiv_s", "fdiv_d"}
FpDp1Methods == {"fmov_s", "fmov_d", "fabs_s", "fabs_d", "fneg_s", "fneg_d", "fsqrt_s", "fsqrt_d", "frintn_s", "frintn_d",
                 "frintp_s", "frintp_d", "frintm_s", "frintm_d", "frintz_s", "frintz_d", "frinta_s", "frinta_d"}

(* ---- move wide sequences (mov_imm, the address materialisation of ldr_mem/str_mem): any sequence
   MOVZ|MOVN Rd ; MOVK Rd ... whose value is the requested one is the requested operation. Decoded with the
   move-wide diagram above; the value is kept as 4 limbs.                                                *)
IsMoveWide(w, sf, rd) == WBit(w, 31) = sf /\ WField(w, 28, 23) = 37 /\ WField(w, 4, 0) = rd
                         /\ WField(w, 30, 29) # 1 /\ (sf = 1 \/ WField(w, 22, 21) < 2)
\* limb index (1 = most significant) of hw
LimbOf(hw) == 4 - hw
MwStep(val, w, first) ==
  LET opc == WField(w, 30, 29)  hw == WField(w, 22, 21)  imm == WField(w, 20, 5)  sf == WBit(w, 31)
  IN CASE opc = 2 /\ first -> [k \in 1..4 |-> IF k = LimbOf(hw) THEN imm ELSE 0]
       [] opc = 0 /\ first -> [k \in 1..4 |-> IF k = LimbOf(hw) THEN 65535 - imm ELSE IF sf = 0 /\ k <= 2 THEN 0 ELSE 65535]
       [] opc = 3 /\ ~first -> [k \in 1..4 |-> IF k = LimbOf(hw) THEN imm ELSE val[k]]
       [] OTHER -> <<-1, -1, -1, -1>>
RECURSIVE MwEval(_, _, _)
MwEval(ws, k, val) == IF k > Len(ws) THEN val ELSE MwEval(ws, k + 1, MwStep(val, ws[k], k = 1))
\* ws materialises the 64-bit value v (sf = 1) or the 32-bit value in the low limbs of v (sf = 0) in rd
MovSeqOk(ws, sf, rd, v) ==
  /\ Len(ws) \in 1..(IF sf = 1 THEN 4 ELSE 2)
  /\ \A k \in 1..Len(ws) : IsMoveWide(ws[k], sf, rd)
  /\ MwEval(ws, 1, <<0, 0, 0, 0>>) = (IF sf = 1 THEN v ELSE <<0, 0, v[3], v[4]>>)
\* i32 as limbs without leaving 32-bit arithmetic
LowLimbs(n) == IF n >= 0 THEN <<n \div 65536, n % 65536>> ELSE <<65536 + ((n - (n % 65536)) \div 65536), n % 65536>>

(* Enc for the single-word methods *)
Enc1(q) ==
  LET m == q.m  r == q.r  i == q.i  x == q.x  sf == Sf(m)
  IN CASE m \in {"add", "add_w", "adds", "adds_w", "sub", "sub_w", "subs", "subs_w"} -> AddSubReg(sf, Op(m), Fl(m), r[1], r[2], r[3])
       [] m \in {"cmp", "cmp_w"} -> AddSubReg(sf, 1, 1, ZR, r[1], r[2])
       [] m \in {"add_ext", "add_ext_w", "sub_ext", "sub_ext_w", "subs_ext", "subs_ext_w"} ->
            AddSubExt(sf, Op(m), Fl(m), r[1], r[2], r[3], x, U32(i[1]))
       [] m \in {"cmp_ext", "cmp_ext_w"} -> AddSubExt(sf, 1, 1, ZR, r[1], r[2], x, U32(i[1]))
       [] m \in {"add_sh", "add_sh_w", "adds_sh", "adds_sh_w", "sub_sh", "sub_sh_w", "subs_sh", "subs_sh_w"} ->
            AddSubSh(sf, Op(m), Fl(m), r[1], r[2], r[3], x, U32(i[1]))
       [] m \in {"cmp_sh", "cmp_sh_w"} -> AddSubSh(sf, 1, 1, ZR, r[1], r[2], x, U32(i[1]))
       [] m \in {"add_imm", "add_imm_w", "adds_imm", "adds_imm_w", "sub_imm", "sub_imm_w", "subs_imm", "subs_imm_w"} ->
            AddSubImm(sf, Op(m), Fl(m), r[1], r[2], U32(i[1]))
       [] m \in {"cmn_imm", "cmn_imm_w", "cmp_imm", "cmp_imm_w"} -> AddSubImm(sf, Op(m), 1, ZR, r[1], U32(i[1]))
       [] m \in {"and_imm", "and_imm_w"} -> LogImm(sf, 0, r[1], r[2], i[1])
       [] m \in {"and_sh", "and_sh_w", "ands_sh", "ands_sh_w", "bic_sh", "bic_sh_w", "bics_sh", "bics_sh_w", "eon_sh", "eon_sh_w",
                 "eor_sh", "eor_sh_w", "orn_sh", "orn_sh_w", "orr_sh", "orr_sh_w"} ->
            LogicalSh(sf, LogOp(m)[1], LogOp(m)[2], r[1], r[2], r[3], x, U32(i[1]))
       \* MOV (to/from SP) = ADD <Xd|SP>, <Xn|SP>, #0 ; MOV (register) = ORR <Xd>, XZR, <Xm>
       [] m \in {"mov", "mov_w"} -> IF r[1] = SP \/ r[2] = SP THEN AddSubImm(sf, 0, 0, r[1], r[2], 0)
                                    ELSE LogicalSh(sf, 1, 0, r[1], ZR, r[2], "LSL", 0)
       [] m \in {"movn", "movn_w"} -> MoveWide(sf, 0, r[1], U32(i[1]), U32(i[2]))
       [] m \in {"movz", "movz_w"} -> MoveWide(sf, 2, r[1], U32(i[1]), U32(i[2]))
       [] m \in {"movk", "movk_w"} -> MoveWide(sf, 3, r[1], U32(i[1]), U32(i[2]))
       [] m = "adr_imm" -> PcRel(0, r[1], i[1])
       [] m = "adrp_imm" -> PcRel(1, r[1], i[1])
       [] m \in {"sbfm", "sbfm_w"} -> Bitfield(sf, 0, r[1], r[2], U32(i[1]), U32(i[2]))
       [] m \in {"bfm", "bfm_w"} -> Bitfield(sf, 1, r[1], r[2], U32(i[1]), U32(i[2]))
       [] m \in {"ubfm", "ubfm_w"} -> Bitfield(sf, 2, r[1], r[2], U32(i[1]), U32(i[2]))
       \* LSL (immediate) = UBFM Rd, Rn, #(-shift MOD size), #(size - 1 - shift) ; LSR (immediate) = UBFM Rd, Rn, #shift, #(size - 1)
       [] m \in {"lsl_imm", "lsl_imm_w"} -> LET sz == IF sf = 1 THEN 64 ELSE 32  s == U32(i[1])
                                            IN IF s < sz THEN Bitfield(sf, 2, r[1], r[2], (sz - s) % sz, sz - 1 - s)
                                               ELSE R(FALSE, <<>>)
       [] m \in {"lsr_imm", "lsr_imm_w"} -> Bitfield(sf, 2, r[1], r[2], U32(i[1]), IF sf = 1 THEN 63 ELSE 31)
       [] m = "sxtw" -> Bitfield(1, 0, r[1], r[2], 0, 31)                   \* SXTW Xd, Wn = SBFM Xd, Xn, #0, #31
       [] m = "uxtb" -> Bitfield(0, 2, r[1], r[2], 0, 7)                    \* UXTB Wd, Wn = UBFM Wd, Wn, #0, #7
       [] m = "uxtw" -> Bitfield(1, 2, r[1], r[2], 0, 31)                   \* zero-extend word: UBFM Xd, Xn, #0, #31
       [] m \in {"csel", "csel_w"} -> CondSelect(sf, 0, 0, r[1], r[2], r[3], CondCode(x))
       [] m \in {"csinc", "csinc_w"} -> CondSelect(sf, 0, 1, r[1], r[2], r[3], CondCode(x))
       [] m \in {"csinv", "csinv_w"} -> CondSelect(sf, 1, 0, r[1], r[2], r[3], CondCode(x))
       [] m \in {"cset", "cset_w"} -> CondSelect(sf, 0, 1, r[1], ZR, ZR, InvertCode(CondCode(x)))   \* CSET = CSINC Rd, ZR, ZR, invert(cond)
       [] m \in {"rbit", "rbit_w"} -> DataProc1(sf, 0, r[1], r[2])
       [] m = "rev_w" -> DataProc1(0, 2, r[1], r[2])
       [] m = "rev" -> DataProc1(1, 3, r[1], r[2])
       [] m \in {"clz", "clz_w"} -> DataProc1(sf, 4, r[1], r[2])
       [] m \in {"cls", "cls_w"} -> DataProc1(sf, 5, r[1], r[2])
       [] m \in {"udiv", "udiv_w"} -> DataProc2(sf, 2, r[1], r[2], r[3])
       [] m \in {"sdiv", "sdiv_w"} -> DataProc2(sf, 3, r[1], r[2], r[3])
       [] m \in {"lsl", "lsl_w"} -> DataProc2(sf, 8, r[1], r[2], r[3])
       [] m \in {"lsr", "lsr_w"} -> DataProc2(sf, 9, r[1], r[2], r[3])
       [] m \in {"asrv", "asrv_w"} -> DataProc2(sf, 10, r[1], r[2], r[3])
       [] m \in {"ror", "ror_w"} -> DataProc2(sf, 11, r[1], r[2], r[3])
       [] m \in {"madd", "madd_w"} -> DataProc3(sf, 0, 0, r[1], r[2], r[3], r[4])
       [] m \in {"msub", "msub_w"} -> DataProc3(sf, 0, 1, r[1], r[2], r[3], r[4])
       [] m \in {"mul", "mul_w"} -> DataProc3(sf, 0, 0, r[1], r[2], r[3], ZR)          \* MUL = MADD Rd, Rn, Rm, ZR
       [] m = "smaddl" -> DataProc3(1, 1, 0, r[1], r[2], r[3], r[4])
       [] m = "smull" -> DataProc3(1, 1, 0, r[1], r[2], r[3], ZR)
       [] m = "smulh" -> DataProc3(1, 2, 0, r[1], r[2], r[3], ZR)
       [] m = "bl_imm" -> BranchImm(1, i[1])
       [] m = "b_r" -> BranchReg(0, r[1])
       [] m = "bl_r" -> BranchReg(1, r[1])
       [] m = "ret" -> BranchReg(2, r[1])
       [] m \in {"cbz_imm", "cbz_imm_w"} -> CmpBranch(sf, 0, r[1], i[1])
       [] m \in {"cbnz_imm", "cbnz_imm_w"} -> CmpBranch(sf, 1, r[1], i[1])
       [] m = "brk" -> Brk(U32(i[1]))
       [] m = "nop" -> R(TRUE, NopF)
       [] m = "dmb" -> Dmb(U32(i[1]))
       [] m = "dmb_ish" -> Dmb(11)
       [] m = "dmb_ishst" -> Dmb(10)
       [] m \in {"ldp", "ldp_w"} -> LdstPairBytes(IF m = "ldp" THEN 2 ELSE 0, 2, 1, r[1], r[2], r[3], i[1])
       [] m \in {"ldp_post", "ldp_post_w"} -> LdstPair(IF m = "ldp_post" THEN 2 ELSE 0, 1, 1, r[1], r[2], r[3], i[1])
       [] m \in {"stp", "stp_w"} -> LdstPair(IF m = "stp" THEN 2 ELSE 0, 2, 0, r[1], r[2], r[3], i[1])
       [] m \in {"stp_pre", "stp_pre_w"} -> LdstPair(IF m = "stp_pre" THEN 2 ELSE 0, 3, 0, r[1], r[2], r[3], i[1])
       [] m \in {"stp_post", "stp_post_w"} -> LdstPairBytes(IF m = "stp_post" THEN 2 ELSE 0, 1, 0, r[1], r[2], r[3], i[1])
       [] m \in LdstUImmMethods -> LET k == LdstKind(m) IN LdstUImm(k[1], k[2], k[3], r[1], r[2], U32(i[1]))
       [] m = "ldr" -> LdstUImm(3, 0, 1, r[1], r[2], S64(i[1]))
       [] m \in LdstRegMethods -> LET k == LdstKind(m) IN LdstReg(k[1], k[2], k[3], r[1], r[2], r[3], x, U32(i[1]))
       [] m \in LdstUnscaledMethods -> LET k == LdstKind(m) IN LdstUnscaled(k[1], k[2], k[3], r[1], r[2], i[1])
       [] m \in ExclMethods -> LET k == ExclKind(m) IN LdstExcl(k[1], k[2], k[3], k[4], k[5], ZR, ZR, r[2], r[1])
       [] m \in StxrMethods -> LET k == ExclKind(m) IN LdstExcl(k[1], k[2], k[3], k[4], k[5], r[1], ZR, r[3], r[2])
       [] m \in CasMethods -> LET k == CasKind(m) IN LdstExcl(k[1], 1, k[2], 1, k[3], r[1], ZR, r[3], r[2])
       [] m \in AtomicMethods -> LET k == AtomicKind(m) IN Atomic(k[1], k[2], k[3], k[4], 0, r[1], r[3], r[2])
       [] m \in FpDp2Methods -> FpDp2(Ft(m), FpDp2Op(m), r[1], r[2], r[3])
       [] m \in FpDp1Methods -> FpDp1(Ft(m), FpDp1Op(m), r[1], r[2])
       [] m = "fcvt_ds" -> FpDp1(0, 5, r[1], r[2])                         \* FCVT Dd, Sn: ftype = source (single), opc = 01
       [] m = "fcvt_sd" -> FpDp1(1, 4, r[1], r[2])                         \* FCVT Sd, Dn
       [] m \in {"fcmp_s", "fcmp_d"} -> FpCmp(Ft(m), 0, r[1], r[2])
       [] m \in {"fcmpe_s", "fcmpe_d"} -> FpCmp(Ft(m), 16, r[1], r[2])
       [] m = "fcvtzs_d" -> FpInt(1, 1, 3, 0, r[1], r[2], OkZ(r[1]), OkV(r[2]))     \* FCVTZS Xd, Dn
       [] m = "fcvtzs_s" -> FpInt(1, 0, 3, 0, r[1], r[2], OkZ(r[1]), OkV(r[2]))     \* FCVTZS Xd, Sn
       [] m = "fcvtzs_wd" -> FpInt(0, 1, 3, 0, r[1], r[2], OkZ(r[1]), OkV(r[2]))    \* FCVTZS Wd, Dn
       [] m = "fcvtzs_ws" -> FpInt(0, 0, 3, 0, r[1], r[2], OkZ(r[1]), OkV(r[2]))    \* FCVTZS Wd, Sn
       [] m = "fmov_fs_d" -> FpInt(1, 1, 0, 7, r[1], r[2], OkV(r[1]), OkZ(r[2]))    \* FMOV Dd, Xn
       [] m = "fmov_fs_s" -> FpInt(0, 0, 0, 7, r[1], r[2], OkV(r[1]), OkZ(r[2]))    \* FMOV Sd, Wn
       [] m = "fmov_sf_d" -> FpInt(1, 1, 0, 6, r[1], r[2], OkZ(r[1]), OkV(r[2]))    \* FMOV Xd, Dn
       [] m = "fmov_sf_s" -> FpInt(0, 0, 0, 6, r[1], r[2], OkZ(r[1]), OkV(r[2]))    \* FMOV Wd, Sn
       [] m = "scvtf_si_dw" -> FpInt(0, 1, 0, 2, r[1], r[2], OkV(r[1]), OkZ(r[2]))  \* SCVTF Dd, Wn
       [] m = "scvtf_si_dx" -> FpInt(1, 1, 0, 2, r[1], r[2], OkV(r[1]), OkZ(r[2]))  \* SCVTF Dd, Xn
       [] m = "scvtf_si_sw" -> FpInt(0, 0, 0, 2, r[1], r[2], OkV(r[1]), OkZ(r[2]))  \* SCVTF Sd, Wn
       [] m = "scvtf_si_sx" -> FpInt(1, 0, 0, 2, r[1], r[2], OkV(r[1]), OkZ(r[2]))  \* SCVTF Sd, Xn
       [] m = "addv" -> AddV(U32(i[1]), U32(i[2]), r[1], r[2])
       [] m = "cnt" -> Cnt(U32(i[1]), U32(i[2]), r[1], r[2])
       [] OTHER -> NotCovered

(* Macro methods produce a sequence of words; they are specified as a relation Accepts(q, ws).
   mov_imm / mov_imm_w: a move-wide sequence materialising the value.
   ldr_mem_* / str_mem_* (rt, [base, #offset], scratch): one of
     - the unsigned-offset form, - the unscaled form, - offset materialised in scratch + the register-offset form (LSL #0) *)
Macro(m) == m \in MemMethods \/ m \in {"mov_imm", "mov_imm_w"}
MovImmV(q) == IF q.m = "mov_imm" THEN q.i[1] ELSE LET l == LowLimbs(q.i[1]) IN <<0, 0, l[1], l[2]>>
MemAlternatives(q) ==
  LET k == MemKind(q.m)  off == S64(q.i[1])
      a == LdstUImm(k[1], k[2], k[3], q.r[1], q.r[2], off)
      b == LdstUnscaled(k[1], k[2], k[3], q.r[1], q.r[2], off)
  IN {e.ws : e \in {e \in {a, b} : e.ok}}
MacroEncodable(q) ==
  IF q.m \in MemMethods
  THEN LET k == MemKind(q.m) IN RtOk(k[2], q.r[1]) /\ OkSP(q.r[2])
                                /\ (MemAlternatives(q) # {} \/ (OkZ(q.r[3]) /\ q.r[3] # ZR))
  ELSE OkZ(q.r[1])
Accepts(q, ws) ==
  IF q.m \in MemMethods
  THEN \/ ws \in MemAlternatives(q)
       \/ /\ Len(ws) >= 2
          /\ OkZ(q.r[3]) /\ q.r[3] # ZR
          /\ MovSeqOk(SubSeq(ws, 1, Len(ws) - 1), 1, q.r[3], q.i[1])
          /\ LET k == MemKind(q.m)  e == LdstReg(k[1], k[2], k[3], q.r[1], q.r[2], q.r[3], "LSL", 0)
             IN e.ok /\ <<ws[Len(ws)]>> = e.ws
  ELSE OkZ(q.r[1]) /\ MovSeqOk(ws, IF q.m = "mov_imm" THEN 1 ELSE 0, NumZ(q.r[1]), MovImmV(q))

=============================================================================
