CONSTANTS Stride = 8
Offset = 1
INIT Init
NEXT Next
INVARIANTS Canonical
CHECK_DEADLOCK FALSE
