------------------------------ MODULE FormatRel ------------------------------
(* C17 (I->S): the relation between a source text and what the formatter makes of it, on token streams.

   A record is one observed formatter run (harness/vfmt, sub-command corpus):
     I, O      code tokens (real lexer: everything except white space, line breaks and comments) of the input and
               of the output, interned to positive integers by (kind, text). Fixed ids:
                 1 = `,`    2 = `)`    3 = `]`    4 = `}`    5 = a `|` that closes a lambda parameter list
               The `,` of a one-element tuple expression `(x,)` is NOT token 1: it is interned as a token of its own,
               because without it the text is a parenthesised expression of another type - it is not a separator that
               may come and go (one-element tuple types and patterns stay tuples without the comma: ordinary commas).
     ci, co    comments of input / output (text without trailing white space), interned, as sorted sequences
     has       1 iff the formatter produced a text at all;  api = 0 iff format_source_with_line_length returned it
     pe        number of syntax errors of the output (real parser; -1: the parser itself died)
     f2        0 iff formatting the output again (same width) returned a text; ol, o2l: the lines of the output and
               of the second output, interned byte-exactly
   Laws (property C17):
     Total     every syntactically valid input is formatted (has = 1), through the public entry point (Returns)
     Tokens    Code(O) = Code(I) modulo the optional separator: a `,` directly before a closing `)`, `]`, `}` or
               lambda `|` may appear or disappear. Nothing else: this set is calibrated from the repository corpus
               and is not to be widened.
     Comments  the comments of O are the comments of I, as multisets
     Parses    the output has no syntax errors
     Idem      formatting the output again changes nothing (byte-exact)

   Tokens is decided by an explicit alignment machine: cursors i (in I) and j (in O);
     Match                       equal tokens: both advance
     SkipOptionalCommaInInput    tokens differ, I[i] is an optional comma: i advances
     SkipOptionalCommaInOutput   tokens differ, O[j] is an optional comma: j advances
   accepted iff both cursors reach the end. The skips are enabled only when the tokens differ and at most one of
   them is (both tokens would be the comma), so every record is one deterministic path: the state space is linear
   in the number of tokens. One TLC run decides a whole batch (root -> one path per record); every terminal
   state emits the verdict of its record (invariant Emit).

   Source = "small" (FormatRel_small.cfg) checks the machine itself against the declarative reading - delete every
   optional comma on both sides, then compare - for ALL pairs of token strings up to SmallLen over {`,` `)` x}
   that have no two adjacent commas (invariant MachineIsRelation).                                              *)
EXTENDS Integers, Sequences, SequencesExt, TLC, Json, IOUtils
CONSTANTS Source, SmallLen

Comma == 1
Closers == 2..5
Optional(s, k) == s[k] = Comma /\ k < Len(s) /\ s[k+1] \in Closers

SmallAlphabet == {1, 2, 6}
SmallStrings == UNION {[1..n -> SmallAlphabet] : n \in 0..SmallLen}
NoDoubleComma(s) == \A k \in 1..(Len(s) - 1) : ~(s[k] = Comma /\ s[k+1] = Comma)
SmallPairs == {<<a, b>> : a \in {s \in SmallStrings : NoDoubleComma(s)}, b \in {s \in SmallStrings : NoDoubleComma(s)}}
SmallRec(p) == [id |-> 0, w |-> 0, api |-> 0, has |-> 1, I |-> p[1], O |-> p[2], ci |-> <<>>, co |-> <<>>,
                pe |-> 0, f2 |-> 0, ol |-> <<>>, o2l |-> <<>>]
Recs == IF Source = "file" THEN ndJsonDeserialize(IOEnv.RECS) ELSE SetToSeq({SmallRec(p) : p \in SmallPairs})
NRecs == Len(Recs)

VARIABLES st,      \* "root", "align", "aligned" (accepted), "stuck" (rejected), "none" (no output to align)
          r,       \* index of the record
          i, j
vars == <<st, r, i, j>>

rec == Recs[r]
I == rec.I
O == rec.O
Init == st = "root" /\ r = 0 /\ i = 0 /\ j = 0

Pick == /\ st = "root"
        /\ r' \in 1..NRecs
        /\ st' = IF Recs[r'].has = 1 THEN "align" ELSE "none"
        /\ i' = 1 /\ j' = 1

InI == i <= Len(I)
InO == j <= Len(O)
Differ == ~(InI /\ InO /\ I[i] = O[j])
CanMatch == InI /\ InO /\ I[i] = O[j]
CanSkipIn == InI /\ Differ /\ Optional(I, i)
CanSkipOut == InO /\ Differ /\ Optional(O, j)
AtEnd == ~InI /\ ~InO

Match == st = "align" /\ CanMatch /\ i' = i + 1 /\ j' = j + 1 /\ UNCHANGED <<st, r>>
SkipOptionalCommaInInput == st = "align" /\ CanSkipIn /\ i' = i + 1 /\ UNCHANGED <<st, r, j>>
SkipOptionalCommaInOutput == st = "align" /\ CanSkipOut /\ j' = j + 1 /\ UNCHANGED <<st, r, i>>
Accept == st = "align" /\ AtEnd /\ st' = "aligned" /\ UNCHANGED <<r, i, j>>
Reject == st = "align" /\ ~CanMatch /\ ~CanSkipIn /\ ~CanSkipOut /\ ~AtEnd /\ st' = "stuck" /\ UNCHANGED <<r, i, j>>
Next == Pick \/ Match \/ SkipOptionalCommaInInput \/ SkipOptionalCommaInOutput \/ Accept \/ Reject

(* ---------------------------------------------------------------- the laws, at the end of a record's path *)
Terminal == st \in {"aligned", "stuck", "none"}
Sorted(s) == \A k \in 1..(Len(s) - 1) : s[k] <= s[k+1]
Total == rec.has = 1
Returns == rec.api = 0
Tokens == st = "aligned"
Comments == Sorted(rec.ci) /\ Sorted(rec.co) /\ rec.ci = rec.co
Parses == rec.pe = 0
Idem == rec.f2 = 0 /\ rec.o2l = rec.ol
Verdict == [id |-> rec.id, w |-> rec.w, total |-> Total, returns |-> Returns,
            tokens |-> Total => Tokens, i |-> i, j |-> j,
            comments |-> Total => Comments, parses |-> Total => Parses,
            idem |-> (Total /\ Parses) => Idem]
Emit == (Source = "file" /\ Terminal) => PrintT(ToJson(Verdict))
Deterministic == st = "align" => ~(CanSkipIn /\ CanSkipOut) /\ ~(CanMatch /\ (CanSkipIn \/ CanSkipOut))

(* ---------------------------------------------------------------- small scope: the machine is the relation *)
RECURSIVE Strip(_)
Strip(s) == IF s = <<>> THEN <<>>
            ELSE IF Optional(s, 1) THEN Strip(Tail(s)) ELSE <<Head(s)>> \o Strip(Tail(s))
MachineIsRelation == (Source = "small" /\ Terminal) => ((st = "aligned") <=> (Strip(I) = Strip(O)))
=============================================================================
