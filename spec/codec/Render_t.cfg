CONSTANTS MaxNodes = 6
MaxWidth = 12
Mode = "enum"
NTexts = 4
INIT Init
NEXT Next
INVARIANTS Laws
CHECK_DEADLOCK FALSE
