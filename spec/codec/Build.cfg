SPECIFICATION Spec
INVARIANTS FunctionalConsistency Bootstrap
CONSTRAINT Progress
POSTCONDITION Consumed
CHECK_DEADLOCK FALSE
