CONSTANTS MaxLen = 0
Strict = TRUE
SPECIFICATION TSpec
INVARIANTS NothingLostNothingTwice
POSTCONDITION Accepted
CHECK_DEADLOCK FALSE
