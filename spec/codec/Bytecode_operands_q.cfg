CONSTANTS
Mode = "operands"
MaxItems = 2
Vals = {0, 127, 128, 16383, 16384, 2097151, 2097152, 268435456}
Pads = {1}
MaxPads = 0
MaxLabels = 0
PoolMax = 16384
INIT Init
NEXT Next
INVARIANTS TheoremAndRow
CHECK_DEADLOCK FALSE
