CONSTANTS
Mode = "pool"
MaxItems = 6
Vals = {0, 1, 127, 128, 255, 256, 16383, 16384, 2097151, 2097152, 268435455, 268435456, 2147483647}
Pads = {1, 128, 300}
MaxPads = 1
MaxLabels = 2
PoolMax = 16384
INIT Init
NEXT Next
INVARIANTS TheoremAndRow
CHECK_DEADLOCK FALSE
