CONSTANTS
Mode = "jumps"
MaxItems = 4
Vals = {0, 1, 127, 128, 255, 256, 16383, 16384, 2097151, 2097152, 268435455, 268435456, 2147483647}
Pads = {2097151, 2097152, 16777210, 16777211}
MaxPads = 1
MaxLabels = 1
PoolMax = 16384
INIT Init
NEXT Next
INVARIANTS TheoremAndRow
CHECK_DEADLOCK FALSE
