CONSTANTS
  Keys = {}
  TKeys = {}
  MaxReq = 0
  History = FALSE
SPECIFICATION TraceSpec
INVARIANTS VisitedIsWorklist NoDuplicatesCard PopsInOrder
CONSTRAINT TraceConstraint
POSTCONDITION TraceAccepted
CHECK_DEADLOCK FALSE
