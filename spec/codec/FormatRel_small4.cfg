CONSTANTS Source = "small"
SmallLen = 4
INIT Init
NEXT Next
INVARIANTS MachineIsRelation Deterministic
CHECK_DEADLOCK FALSE
