CONSTANTS N = 3
K = 1
SPECIFICATION Spec
VIEW View
INVARIANTS TypeOK StwExclusion InitiatorHoldsLock NoDeadlock AtMostOneInitiator StoppedBounded NoOneLeftOut
PROPERTIES StaysStopped Terminates Refines
CHECK_DEADLOCK FALSE
