CONSTANTS N = 3
Scenario = "cond_all"
R = 2
SPECIFICATION Spec
INVARIANTS MutualExclusion NoDeadlock QueuedAreFlagged PermitsConserved
PROPERTY Terminates
CHECK_DEADLOCK FALSE
