CONSTANTS N = 4
K = 0
SPECIFICATION TraceSpec
VIEW TView
INVARIANTS StwExclusion InitiatorHoldsLock AtMostOneInitiator NoOneLeftOut
CONSTRAINT Progress
POSTCONDITION TraceAccepted
CHECK_DEADLOCK FALSE
