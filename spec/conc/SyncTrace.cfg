CONSTANT Strict = TRUE
SPECIFICATION Spec
INVARIANTS QueuesDisjoint QueuedAreFlagged
POSTCONDITION Accepted
CHECK_DEADLOCK FALSE
