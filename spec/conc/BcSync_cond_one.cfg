CONSTANTS N = 3
Scenario = "cond_one"
R = 2
SPECIFICATION Spec
INVARIANTS MutualExclusion NoDeadlock QueuedAreFlagged PermitsConserved
PROPERTY Terminates
CHECK_DEADLOCK FALSE
