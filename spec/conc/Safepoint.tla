------------------------------ MODULE Safepoint ------------------------------
(* Faithful specification (layer F) of the stop-the-world protocol:
   dora-runtime/src/safepoint.rs (stop_the_world, stop_threads, resume_threads, safepoint_slow) and
   dora-runtime/src/threads.rs (park/unpark and their slow paths, Barrier, Threads::add_thread /
   remove_current_thread, parked_scope). One action per scheduling point of the code: each atomic
   on the thread-state byte, each critical section of the barrier mutex / thread-list mutex, each
   condvar re-acquisition (step inventory: DESIGN.md Appendix A).

   Thread states: R Running, P Parked, SR SafepointRequested, PSR ParkedSafepointRequested,
   S Safepoint. `mut[t]` is a ghost: thread t is touching managed memory (only possible while it is
   R or SR and not inside a runtime operation). `last` is an observation variable (label of the
   step just taken), excluded from the model-checking VIEW.
   Abstractions: the operation inside the closure is one OpBegin/OpEnd pair; memory is sequentially
   consistent (all protocol atomics are SeqCst in the code).                                       *)
EXTENDS Integers, FiniteSets, Sequences, TLC
CONSTANTS N, K
T == 1..N
VARIABLES ts, reg, lock, armed, stopped, waitW, waitN, woken, rt, pc, cont, idx, running, ops, mut, init, last
vars == <<ts, reg, lock, armed, stopped, waitW, waitN, woken, rt, pc, cont, idx, running, ops, mut, init, last>>
core == <<ts, reg, lock, armed, stopped, waitW, waitN, woken, rt, pc, cont, idx, running, ops, mut, init>>

Init == /\ ts = [t \in T |-> IF t = 1 THEN "R" ELSE "none"]
        /\ reg = <<1>> /\ lock = 0 /\ armed = FALSE /\ stopped = 0
        /\ waitW = {} /\ waitN = {} /\ woken = {} /\ rt = "run"
        /\ pc = [t \in T |-> IF t = 1 THEN "idle" ELSE "unborn"]
        /\ cont = [t \in T |-> "idle"] /\ idx = [t \in T |-> 0] /\ running = [t \in T |-> 0]
        /\ ops = [t \in T |-> K] /\ mut = [t \in T |-> FALSE] /\ init = 0 /\ last = [t |-> 0, a |-> "init"]

S(f, t, v) == [f EXCEPT ![t] = v]
\* operation budget per thread; K = 0 means unbounded (trace validation)
HasOps(t) == K = 0 \/ ops[t] > 0
Spend(t) == ops' = IF K = 0 THEN ops ELSE S(ops, t, ops[t] - 1)
NoOpsLeft(t) == K = 0 \/ ops[t] = 0
Go(t, p) == pc' = S(pc, t, p)
Log(t, a) == last' = [t |-> t, a |-> a]
Active(t) == ts[t] \in {"R", "SR"}
InReg(t) == \E i \in 1..Len(reg) : reg[i] = t

\* ---------------- harness-level operations chosen at "idle" ----------------
MutOn(t) == /\ pc[t] = "idle" /\ ~mut[t] /\ HasOps(t) /\ Active(t)
            /\ mut' = S(mut, t, TRUE) /\ Log(t, "mut_on")
            /\ UNCHANGED <<ts, reg, lock, armed, stopped, waitW, waitN, woken, rt, pc, cont, idx, running, ops, init>>
MutOff(t) == /\ pc[t] = "idle" /\ mut[t]
             /\ mut' = S(mut, t, FALSE) /\ Spend(t) /\ Log(t, "mut_off")
             /\ UNCHANGED <<ts, reg, lock, armed, stopped, waitW, waitN, woken, rt, pc, cont, idx, running, init>>
\* a poll that sees a request (a poll that sees Running is a no-op and not modelled)
Poll(t) == /\ pc[t] = "idle" /\ ~mut[t] /\ ts[t] = "SR" /\ Go(t, "slow_swap") /\ Log(t, "poll")
           /\ UNCHANGED <<ts, reg, lock, armed, stopped, waitW, waitN, woken, rt, cont, idx, running, ops, mut, init>>
Native(t) == /\ pc[t] = "idle" /\ ~mut[t] /\ HasOps(t) /\ Active(t)
             /\ Spend(t) /\ Go(t, "park") /\ cont' = S(cont, t, "native_body") /\ Log(t, "native")
             /\ UNCHANGED <<ts, reg, lock, armed, stopped, waitW, waitN, woken, rt, idx, running, mut, init>>
NativeBody(t) == /\ pc[t] = "native_body" /\ Go(t, "unpark") /\ cont' = S(cont, t, "idle") /\ Log(t, "native_body")
                 /\ UNCHANGED <<ts, reg, lock, armed, stopped, waitW, waitN, woken, rt, idx, running, ops, mut, init>>
Stw(t) == /\ pc[t] = "idle" /\ ~mut[t] /\ HasOps(t) /\ Active(t)
          /\ Spend(t) /\ Go(t, "park") /\ cont' = S(cont, t, "stw_lock") /\ Log(t, "stw")
          /\ UNCHANGED <<ts, reg, lock, armed, stopped, waitW, waitN, woken, rt, idx, running, mut, init>>
Spawn(t) == /\ pc[t] = "idle" /\ ~mut[t] /\ HasOps(t) /\ Active(t)
            /\ \E c \in T : /\ pc[c] = "unborn" /\ \A d \in T : pc[d] = "unborn" => c <= d
                            /\ pc' = [pc EXCEPT ![t] = "park", ![c] = "reserved"] /\ idx' = S(idx, t, c)
            /\ Spend(t) /\ cont' = S(cont, t, "spawn_lock") /\ Log(t, "spawn")
            /\ UNCHANGED <<ts, reg, lock, armed, stopped, waitW, waitN, woken, rt, running, mut, init>>
Exit(t) == /\ pc[t] = "idle" /\ ~mut[t] /\ NoOpsLeft(t) /\ Active(t)
           /\ Go(t, "park") /\ cont' = S(cont, t, "exit_lock") /\ Log(t, "exit")
           /\ UNCHANGED <<ts, reg, lock, armed, stopped, waitW, waitN, woken, rt, idx, running, ops, mut, init>>

\* ---------------- safepoint slow path ----------------
SlowSwap(t) == /\ pc[t] = "slow_swap" /\ Assert(ts[t] = "SR", "safepoint_slow: old state is not SafepointRequested")
               /\ ts' = S(ts, t, "S") /\ Go(t, "sp_enter") /\ Log(t, "slow_swap")
               /\ UNCHANGED <<reg, lock, armed, stopped, waitW, waitN, woken, rt, cont, idx, running, ops, mut, init>>
\* wait_in_safepoint, first critical section
SpEnter(t) == /\ pc[t] = "sp_enter" /\ Assert(armed, "wait_in_safepoint: barrier not armed")
              /\ stopped' = stopped + 1
              /\ (IF waitN = {} THEN UNCHANGED <<waitN, woken>> ELSE \E w \in waitN : waitN' = waitN \ {w} /\ woken' = woken \cup {w})
              /\ waitW' = waitW \cup {t} /\ Go(t, "sp_sleep") /\ Log(t, "sp_enter")
              /\ UNCHANGED <<ts, reg, lock, armed, rt, cont, idx, running, ops, mut, init>>
SpWake(t) == /\ pc[t] = "sp_sleep" /\ t \in woken /\ woken' = woken \ {t}
             /\ IF armed THEN waitW' = waitW \cup {t} /\ UNCHANGED <<pc, cont>>
                ELSE UNCHANGED waitW /\ Go(t, "unpark") /\ cont' = S(cont, t, "idle")
             /\ Log(t, "sp_wake")
             /\ UNCHANGED <<ts, reg, lock, armed, stopped, waitN, rt, idx, running, ops, mut, init>>

\* ---------------- park / unpark ----------------
Park(t) == /\ pc[t] = "park"
           /\ IF ts[t] = "R" THEN ts' = S(ts, t, "P") /\ Go(t, cont[t]) ELSE UNCHANGED ts /\ Go(t, "park_slow")
           /\ Log(t, "park")
           /\ UNCHANGED <<reg, lock, armed, stopped, waitW, waitN, woken, rt, cont, idx, running, ops, mut, init>>
ParkSlow(t) == /\ pc[t] = "park_slow" /\ Assert(ts[t] = "SR", "park_slow: CAS SR->PSR failed")
               /\ ts' = S(ts, t, "PSR") /\ Go(t, "notify_park") /\ Log(t, "park_slow")
               /\ UNCHANGED <<reg, lock, armed, stopped, waitW, waitN, woken, rt, cont, idx, running, ops, mut, init>>
NotifyPark(t) == /\ pc[t] = "notify_park" /\ Assert(armed, "notify_park: barrier not armed")
                 /\ stopped' = stopped + 1
                 /\ (IF waitN = {} THEN UNCHANGED <<waitN, woken>> ELSE \E w \in waitN : waitN' = waitN \ {w} /\ woken' = woken \cup {w})
                 /\ Go(t, cont[t]) /\ Log(t, "notify_park")
                 /\ UNCHANGED <<ts, reg, lock, armed, waitW, rt, cont, idx, running, ops, mut, init>>
Unpark(t) == /\ pc[t] = "unpark"
             /\ IF ts[t] = "P" THEN ts' = S(ts, t, "R") /\ Go(t, cont[t]) ELSE UNCHANGED ts /\ Go(t, "unpark_slow")
             /\ Log(t, "unpark")
             /\ UNCHANGED <<reg, lock, armed, stopped, waitW, waitN, woken, rt, cont, idx, running, ops, mut, init>>
UnparkSlow(t) == /\ pc[t] = "unpark_slow"
                 /\ IF ts[t] = "P" THEN ts' = S(ts, t, "R") /\ Go(t, cont[t])
                    ELSE Assert(ts[t] = "PSR", "unpark_slow: state is not ParkedSafepointRequested") /\ UNCHANGED ts /\ Go(t, "unpark_wait")
                 /\ Log(t, "unpark_slow")
                 /\ UNCHANGED <<reg, lock, armed, stopped, waitW, waitN, woken, rt, cont, idx, running, ops, mut, init>>
UnparkWait(t) == /\ pc[t] = "unpark_wait"
                 /\ IF armed THEN waitW' = waitW \cup {t} /\ Go(t, "unpark_sleep") ELSE UNCHANGED waitW /\ Go(t, "unpark_slow")
                 /\ Log(t, "unpark_wait")
                 /\ UNCHANGED <<ts, reg, lock, armed, stopped, waitN, woken, rt, cont, idx, running, ops, mut, init>>
UnparkWake(t) == /\ pc[t] = "unpark_sleep" /\ t \in woken /\ woken' = woken \ {t}
                 /\ IF armed THEN waitW' = waitW \cup {t} /\ UNCHANGED pc ELSE UNCHANGED waitW /\ Go(t, "unpark_slow")
                 /\ Log(t, "unpark_wake")
                 /\ UNCHANGED <<ts, reg, lock, armed, stopped, waitN, rt, cont, idx, running, ops, mut, init>>

\* ---------------- stop the world ----------------
StwLock(t) == /\ pc[t] = "stw_lock" /\ lock = 0 /\ lock' = t
              /\ IF Len(reg) = 1 THEN Go(t, "op_begin") ELSE Go(t, "arm")
              /\ Log(t, "stw_lock")
              /\ UNCHANGED <<ts, reg, armed, stopped, waitW, waitN, woken, rt, cont, idx, running, ops, mut, init>>
Arm(t) == /\ pc[t] = "arm" /\ Assert(~armed, "arm: already armed")
          /\ armed' = TRUE /\ stopped' = 0 /\ idx' = S(idx, t, 1) /\ running' = S(running, t, 0) /\ Go(t, "request") /\ Log(t, "arm")
          /\ UNCHANGED <<ts, reg, lock, waitW, waitN, woken, rt, cont, ops, mut, init>>
Request(t) == /\ pc[t] = "request" /\ idx[t] <= Len(reg)
              /\ LET x == reg[idx[t]] IN
                   IF ts[x] = "R" THEN ts' = S(ts, x, "SR") /\ running' = S(running, t, running[t] + 1)
                   ELSE Assert(ts[x] = "P", "stop_threads: state is neither Running nor Parked") /\ ts' = S(ts, x, "PSR") /\ UNCHANGED running
              /\ idx' = S(idx, t, idx[t] + 1)
              /\ (IF idx[t] = Len(reg) THEN Go(t, "stw_wait") ELSE UNCHANGED pc)
              /\ Log(t, "request")
              /\ UNCHANGED <<reg, lock, armed, stopped, waitW, waitN, woken, rt, cont, ops, mut, init>>
StwWait(t) == /\ pc[t] = "stw_wait" /\ Assert(armed, "wait_until_threads_stopped: not armed")
              /\ IF stopped < running[t] THEN waitN' = waitN \cup {t} /\ Go(t, "stw_sleep")
                 ELSE Assert(stopped = running[t], "stopped > running") /\ UNCHANGED waitN /\ Go(t, "op_begin")
              /\ Log(t, "stw_wait")
              /\ UNCHANGED <<ts, reg, lock, armed, stopped, waitW, woken, rt, cont, idx, running, ops, mut, init>>
StwWake(t) == /\ pc[t] = "stw_sleep" /\ t \in woken /\ woken' = woken \ {t}
              /\ IF stopped < running[t] THEN waitN' = waitN \cup {t} /\ UNCHANGED pc
                 ELSE Assert(stopped = running[t], "stopped > running") /\ UNCHANGED waitN /\ Go(t, "op_begin")
              /\ Log(t, "stw_wake")
              /\ UNCHANGED <<ts, reg, lock, armed, stopped, waitW, rt, cont, idx, running, ops, mut, init>>
OpBegin(t) == /\ pc[t] = "op_begin" /\ Assert(rt = "run", "invoke_safepoint_operation: runtime not Running")
              /\ rt' = "sp" /\ init' = t /\ Go(t, "op_end") /\ Log(t, "op_begin")
              /\ UNCHANGED <<ts, reg, lock, armed, stopped, waitW, waitN, woken, cont, idx, running, ops, mut>>
OpEnd(t) == /\ pc[t] = "op_end" /\ rt' = "run" /\ init' = 0
            /\ IF Len(reg) = 1 THEN lock' = 0 /\ Go(t, "unpark") /\ cont' = S(cont, t, "idle") /\ UNCHANGED idx
               ELSE Go(t, "resume") /\ idx' = S(idx, t, 1) /\ UNCHANGED <<lock, cont>>
            /\ Log(t, "op_end")
            /\ UNCHANGED <<ts, reg, armed, stopped, waitW, waitN, woken, running, ops, mut>>
Resume(t) == /\ pc[t] = "resume" /\ idx[t] <= Len(reg)
             /\ LET x == reg[idx[t]] IN
                  /\ Assert(ts[x] \in {"S", "PSR"}, "resume_threads: state is neither Safepoint nor ParkedSafepointRequested")
                  /\ ts' = S(ts, x, "P")
             /\ idx' = S(idx, t, idx[t] + 1)
             /\ (IF idx[t] = Len(reg) THEN Go(t, "disarm") ELSE UNCHANGED pc)
             /\ Log(t, "resume")
             /\ UNCHANGED <<reg, lock, armed, stopped, waitW, waitN, woken, rt, cont, running, ops, mut, init>>
Disarm(t) == /\ pc[t] = "disarm" /\ Assert(armed, "disarm: not armed")
             /\ armed' = FALSE /\ woken' = woken \cup waitW /\ waitW' = {} /\ lock' = 0
             /\ Go(t, "unpark") /\ cont' = S(cont, t, "idle") /\ Log(t, "disarm")
             /\ UNCHANGED <<ts, reg, stopped, waitN, rt, idx, running, ops, mut, init>>
\* ---------------- spawn / exit ----------------
SpawnLock(t) == /\ pc[t] = "spawn_lock" /\ lock = 0
                /\ LET c == idx[t] IN
                     /\ reg' = Append(reg, c) /\ ts' = S(ts, c, "P")
                     /\ pc' = [pc EXCEPT ![t] = "unpark", ![c] = "unpark"]
                     /\ cont' = [cont EXCEPT ![t] = "idle", ![c] = "idle"]
                /\ Log(t, "spawn_lock")
                /\ UNCHANGED <<lock, armed, stopped, waitW, waitN, woken, rt, idx, running, ops, mut, init>>
ExitLock(t) == /\ pc[t] = "exit_lock" /\ lock = 0
               /\ LET i == CHOOSE j \in 1..Len(reg) : reg[j] = t
                      lastT == reg[Len(reg)]
                      shorter == SubSeq(reg, 1, Len(reg) - 1)
                  IN reg' = IF i = Len(reg) THEN shorter ELSE [shorter EXCEPT ![i] = lastT]     \* swap-remove
               /\ Go(t, "dead") /\ Log(t, "exit_lock")
               /\ UNCHANGED <<ts, lock, armed, stopped, waitW, waitN, woken, rt, cont, idx, running, ops, mut, init>>

Step(t) == \/ MutOn(t) \/ MutOff(t) \/ Poll(t) \/ Native(t) \/ NativeBody(t) \/ Stw(t) \/ Spawn(t) \/ Exit(t)
           \/ SlowSwap(t) \/ SpEnter(t) \/ SpWake(t) \/ Park(t) \/ ParkSlow(t) \/ NotifyPark(t)
           \/ Unpark(t) \/ UnparkSlow(t) \/ UnparkWait(t) \/ UnparkWake(t)
           \/ StwLock(t) \/ Arm(t) \/ Request(t) \/ StwWait(t) \/ StwWake(t) \/ OpBegin(t) \/ OpEnd(t)
           \/ Resume(t) \/ Disarm(t) \/ SpawnLock(t) \/ ExitLock(t)
Next == \E t \in T : Step(t)
Spec == Init /\ [][Next]_vars /\ \A t \in T : WF_vars(Step(t))

\* ---------------- properties ----------------
StwExclusion == rt = "sp" => \A t \in T : t # init => (~mut[t] /\ (InReg(t) /\ Len(reg) > 1 => ts[t] \in {"S", "PSR"}))
InitiatorHoldsLock == rt = "sp" => lock = init
AllDone == \A t \in T : pc[t] \in {"dead", "unborn"}
NoDeadlock == AllDone \/ ENABLED Next
Terminates == <>AllDone
View == core

(* every assert! of safepoint.rs / threads.rs is an Assert inside the action that executes it *)
TypeOK == /\ ts \in [T -> {"none", "R", "P", "SR", "PSR", "S"}] /\ stopped \in 0..N /\ lock \in 0..N
AtMostOneInitiator == Cardinality({t \in T : pc[t] \in {"arm", "request", "stw_wait", "stw_sleep", "op_begin", "op_end", "resume", "disarm"}}) <= 1
StoppedBounded == armed => stopped <= Len(reg)
(* while the world is stopped nobody but the initiator changes any thread state *)
StaysStopped == [][rt = "sp" /\ rt' = "sp" => ts' = ts]_vars
(* at the start of the operation every registered thread has been asked to stop *)
NoOneLeftOut == rt = "sp" /\ Len(reg) > 1 => \A i \in 1..Len(reg) : ts[reg[i]] \in {"S", "PSR"}

(* refinement to the property layer *)
AS == INSTANCE AbstractStw WITH Threads <- T, world <- rt, initiator <- init, mutating <- {t \in T : mut[t]},
                                alive <- {t \in T : pc[t] \notin {"unborn", "reserved", "dead"}}
Refines == AS!Spec
=============================================================================
