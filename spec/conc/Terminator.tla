---------------------------- MODULE Terminator ----------------------------
(* Faithful specification (layer F) of the termination protocol of the parallel collection phases:
   dora-runtime/src/gc/swiper/terminator.rs (try_terminate / wake_up) driven by the worker loop of
   gc/swiper/marking.rs and gc/swiper/minor.rs (pop -> process -> push / wake_up -> try_terminate).

   One action per critical section / atomic access of the code:
     TtEnter   terminator.rs:36-48   (under `lock`)       working-- ; last one out notifies all
     TtWoke    terminator.rs:50-64   (after condvar wait, under `lock`)
     WuR1,WuR2 terminator.rs:72-73   (two relaxed loads, no lock)
     WuSlow    terminator.rs:80-89   (under `lock`)
   The work pool is adversarial: a pop sees the worker's own segment, own deque and the injector
   accurately; stealing from another deque may succeed or miss (crossbeam Steal::Retry/Empty races).
   Batch operations (steal_batch_and_pop) move k items: one is returned, k-1 land in the own deque.

   `last` is an observation variable (label of the action just taken); it is excluded from the
   model-checking VIEW and used by the behaviour generator and the trace specification.            *)
EXTENDS Integers, FiniteSets, TLC

CONSTANTS N,      \* number of workers
          B       \* budget: number of items that may still be created

W == 1..N

VARIABLES working, awakening,   \* the two counters of Terminator
          cvw,                  \* workers blocked in condvar.wait
          pc,                   \* per worker control state
          rw, ra,               \* values of `working` / `awakening` read by WuR1 / WuR2
          loc, dq, inj,         \* pool: per-worker local segment, per-worker deque, injector (counts)
          budget,
          hold,                 \* worker currently processes an item
          last                  \* observation: label of the last action

pool  == <<loc, dq, inj, budget, hold>>
vars  == <<working, awakening, cvw, pc, rw, ra, loc, dq, inj, budget, hold, last>>
view  == <<working, awakening, cvw, pc, rw, ra, loc, dq, inj, budget, hold>>

S(f, w, v) == [f EXCEPT ![w] = v]
LL(w, a, arg, k, v) == last' = [w |-> w, a |-> a, arg |-> arg, k |-> k, v |-> v]
L(w, a, arg) == LL(w, a, arg, 0, 0)

Init == /\ working = N /\ awakening = 0 /\ cvw = {}
        /\ pc \in [W -> {"pop", "proc"}]      \* "proc" without an item = root-scanning phase of minor.rs
        /\ rw = [w \in W |-> 0] /\ ra = [w \in W |-> 0]
        /\ loc = [w \in W |-> 0] /\ dq = [w \in W |-> 0] /\ inj \in {0, 1} /\ budget = B
        /\ hold = [w \in W |-> FALSE]
        /\ last = [w |-> 0, a |-> "init", arg |-> "", k |-> 0, v |-> 0]

----------------------------------------------------------------------------
(* pool side: MarkingTask::pop / CopyTask::pop *)
PopLocal(w) == /\ pc[w] = "pop" /\ loc[w] > 0
               /\ loc' = S(loc, w, loc[w]-1) /\ hold' = S(hold, w, TRUE) /\ pc' = S(pc, w, "proc")
               /\ UNCHANGED <<working, awakening, cvw, rw, ra, dq, inj, budget>> /\ L(w, "pop", "local")
PopDeque(w) == /\ pc[w] = "pop" /\ loc[w] = 0 /\ dq[w] > 0
               /\ dq' = S(dq, w, dq[w]-1) /\ hold' = S(hold, w, TRUE) /\ pc' = S(pc, w, "proc")
               /\ UNCHANGED <<working, awakening, cvw, rw, ra, loc, inj, budget>> /\ L(w, "pop", "deque")
PopInj(w) ==   /\ pc[w] = "pop" /\ loc[w] = 0 /\ dq[w] = 0 /\ inj > 0
               /\ \E k \in 1..inj : /\ inj' = inj - k /\ dq' = S(dq, w, k - 1)
                                    /\ LL(w, "pop", "inj", k, 0)
               /\ hold' = S(hold, w, TRUE) /\ pc' = S(pc, w, "proc")
               /\ UNCHANGED <<working, awakening, cvw, rw, ra, loc, budget>>
Steal(w) ==    /\ pc[w] = "pop" /\ loc[w] = 0 /\ dq[w] = 0 /\ inj = 0
               /\ \E v \in W \ {w} : /\ dq[v] > 0
                                     /\ \E k \in 1..dq[v] : /\ dq' = [dq EXCEPT ![v] = dq[v] - k, ![w] = k - 1]
                                                            /\ LL(w, "pop", "steal", k, v)
               /\ hold' = S(hold, w, TRUE) /\ pc' = S(pc, w, "proc")
               /\ UNCHANGED <<working, awakening, cvw, rw, ra, loc, inj, budget>>
PopFail(w) ==  /\ pc[w] = "pop" /\ loc[w] = 0 /\ dq[w] = 0 /\ inj = 0   \* stealing may miss
               /\ pc' = S(pc, w, "tt_enter")
               /\ UNCHANGED <<working, awakening, cvw, rw, ra, loc, dq, inj, budget, hold>> /\ L(w, "pop", "fail")

(* processing one item creates children; each is pushed local (no wake-up) or shared (+ wake_up) *)
ProcFinish(w) == /\ pc[w] = "proc" /\ hold' = S(hold, w, FALSE) /\ pc' = S(pc, w, "pop")
                 /\ UNCHANGED <<working, awakening, cvw, rw, ra, loc, dq, inj, budget>> /\ L(w, "proc", "finish")
PushLocal(w) ==  /\ pc[w] = "proc" /\ budget > 0 /\ budget' = budget - 1 /\ loc' = S(loc, w, loc[w]+1)
                 /\ UNCHANGED <<working, awakening, cvw, rw, ra, dq, inj, hold, pc>> /\ L(w, "proc", "push_local")
PushDeque(w) ==  /\ pc[w] = "proc" /\ budget > 0 /\ budget' = budget - 1 /\ dq' = S(dq, w, dq[w]+1)
                 /\ pc' = S(pc, w, "wu_r1")
                 /\ UNCHANGED <<working, awakening, cvw, rw, ra, loc, inj, hold>> /\ L(w, "proc", "push_deque")
PushInj(w) ==    /\ pc[w] = "proc" /\ budget > 0 /\ budget' = budget - 1 /\ inj' = inj + 1
                 /\ pc' = S(pc, w, "wu_r1")
                 /\ UNCHANGED <<working, awakening, cvw, rw, ra, loc, dq, hold>> /\ L(w, "proc", "push_inj")
(* defensive_push: half of the local segment goes to the injector, then wake_up *)
ShareLocal(w) == /\ pc[w] = "proc" /\ loc[w] > 0
                 /\ \E k \in 1..loc[w] : loc' = S(loc, w, loc[w] - k) /\ inj' = inj + k
                                         /\ LL(w, "proc", "share", k, 0)
                 /\ pc' = S(pc, w, "wu_r1")
                 /\ UNCHANGED <<working, awakening, cvw, rw, ra, dq, budget, hold>>

----------------------------------------------------------------------------
(* Terminator::wake_up *)
WuR1(w) == /\ pc[w] = "wu_r1" /\ rw' = S(rw, w, working) /\ pc' = S(pc, w, "wu_r2")
           /\ UNCHANGED <<working, awakening, cvw, ra, loc, dq, inj, budget, hold>> /\ L(w, "wu_r1", "")
WuR2(w) == /\ pc[w] = "wu_r2"
           /\ Assert(rw[w] > 0, "wake_up: debug_assert!(working > 0)")
           /\ pc' = S(pc, w, IF rw[w] + awakening = N THEN "proc" ELSE "wu_slow")
           /\ ra' = S(ra, w, awakening)
           /\ UNCHANGED <<working, awakening, cvw, rw, loc, dq, inj, budget, hold>> /\ L(w, "wu_r2", "")
WuSlow(w) == /\ pc[w] = "wu_slow"
             /\ Assert(working > 0 /\ working + awakening <= N, "wake_up slow path debug_asserts")
             /\ IF working + awakening # N
                  THEN /\ awakening' = awakening + 1
                       /\ IF cvw = {}
                            THEN /\ UNCHANGED cvw /\ pc' = S(pc, w, "proc")        \* notify_one without sleeper
                            ELSE \E v \in cvw : /\ cvw' = cvw \ {v}
                                                /\ pc' = [pc EXCEPT ![w] = "proc", ![v] = "tt_woke"]
                  ELSE UNCHANGED <<awakening, cvw>> /\ pc' = S(pc, w, "proc")
             /\ UNCHANGED <<working, rw, ra, loc, dq, inj, budget, hold>> /\ L(w, "wu_slow", "")

(* Terminator::try_terminate *)
TtEnter(w) == /\ pc[w] = "tt_enter"
              /\ Assert(working > 0, "try_terminate: assert!(working > 0)")
              /\ working' = working - 1
              /\ Assert(working - 1 + awakening <= N, "try_terminate: debug_assert counters")
              /\ IF working - 1 = 0 /\ awakening = 0
                   THEN /\ cvw' = {}                                    \* notify_all, return true
                        /\ pc' = [v \in W |-> IF v = w THEN "done" ELSE IF v \in cvw THEN "tt_woke" ELSE pc[v]]
                   ELSE /\ cvw' = cvw \cup {w} /\ pc' = S(pc, w, "tt_sleep")
              /\ UNCHANGED <<awakening, rw, ra, loc, dq, inj, budget, hold>> /\ L(w, "tt_enter", "")
TtWoke(w) == /\ pc[w] = "tt_woke"
             /\ Assert(working + awakening <= N, "try_terminate loop: debug_assert counters")
             /\ IF working = 0 /\ awakening = 0
                  THEN pc' = S(pc, w, "done") /\ UNCHANGED <<working, awakening, cvw>>
                  ELSE IF awakening > 0
                         THEN /\ awakening' = awakening - 1 /\ working' = working + 1
                              /\ pc' = S(pc, w, "pop") /\ UNCHANGED cvw
                         ELSE /\ cvw' = cvw \cup {w} /\ pc' = S(pc, w, "tt_sleep")
                              /\ UNCHANGED <<working, awakening>>
             /\ UNCHANGED <<rw, ra, loc, dq, inj, budget, hold>> /\ L(w, "tt_woke", "")

PoolStep(w) == PopLocal(w) \/ PopDeque(w) \/ PopInj(w) \/ Steal(w) \/ PopFail(w)
               \/ ProcFinish(w) \/ PushLocal(w) \/ PushDeque(w) \/ PushInj(w) \/ ShareLocal(w)
TermStep(w) == WuR1(w) \/ WuR2(w) \/ WuSlow(w) \/ TtEnter(w) \/ TtWoke(w)
Step(w) == PoolStep(w) \/ TermStep(w)
Next == \E w \in W : Step(w)
Spec == Init /\ [][Next]_vars /\ \A w \in W : WF_vars(Step(w))

----------------------------------------------------------------------------
(* properties *)
Items == inj + (LET Sum[S0 \in SUBSET W] == IF S0 = {} THEN 0 ELSE
                        LET x == CHOOSE x \in S0 : TRUE IN loc[x] + dq[x] + (IF hold[x] THEN 1 ELSE 0) + Sum[S0 \ {x}]
                IN Sum[W])
DoneSet == {w \in W : pc[w] = "done"}
AllDone == DoneSet = W

TypeOK == /\ working \in 0..N /\ awakening \in 0..N /\ cvw \subseteq W
          /\ pc \in [W -> {"pop", "proc", "wu_r1", "wu_r2", "wu_slow", "tt_enter", "tt_sleep", "tt_woke", "done"}]
NoEarlyTermination == DoneSet # {} => Items = 0
QuiescentAtEnd == DoneSet # {} => \A w \in W : pc[w] \in {"done", "tt_woke"}
Counters == working + awakening <= N
SleepersAreCounted == \A w \in cvw : pc[w] = "tt_sleep"
NoDeadlock == AllDone \/ ENABLED Next
NoSleeperAfterEnd == AllDone => cvw = {}
Terminates == <>AllDone

(* refinement to the property layer *)
AT == INSTANCE AbstractTermination WITH W <- W, MaxItems <- B + N + 1, items <- Items, done <- DoneSet
Refines == AT!Spec
=============================================================================
