CONSTANTS N = 3
B = 100000
SPECIFICATION TraceSpec
INVARIANTS NoEarlyTermination QuiescentAtEnd Counters SleepersAreCounted
CONSTRAINT TraceConstraint
POSTCONDITION TraceAccepted
CHECK_DEADLOCK FALSE
