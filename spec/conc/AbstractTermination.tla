------------------------ MODULE AbstractTermination ------------------------
(* Property layer (P) for C12: what "parallel phases finish exactly when all work is done" states,
   and nothing else. `items` = work items that exist anywhere (shared pool, private buffers, in
   processing); `done` = workers that have left the phase.
     - a worker leaves only when no item exists, and from then on no item ever appears again;
     - every worker eventually leaves.
   Counters, sleeping, who wakes whom, batching are all policy and do not appear here.           *)
EXTENDS Integers, FiniteSets
CONSTANTS W, MaxItems
VARIABLES items, done
avars == <<items, done>>
Init == done = {} /\ items \in 0..MaxItems
Work == done = {} /\ items' \in 0..MaxItems /\ UNCHANGED done
Leave == items = 0 /\ items' = 0 /\ \E w \in W \ done : done' = done \cup {w}
Next == Work \/ Leave
Spec == Init /\ [][Next]_avars /\ <>(done = W)
=============================================================================
