CONSTANTS N = 2
B = 4
SPECIFICATION Spec
VIEW view
INVARIANTS TypeOK NoEarlyTermination QuiescentAtEnd Counters SleepersAreCounted NoDeadlock NoSleeperAfterEnd
PROPERTIES Terminates Refines
CHECK_DEADLOCK FALSE
