--------------------------- MODULE AbstractStwTrace ---------------------------
(* Property-layer adjudication (DESIGN 2.8) of a recorded run for C04: only what AbstractStw states
   is interpreted. Between op_begin and op_end of an initiator (a) the snapshot of all registered
   threads taken at op_begin shows every other thread at a safepoint (4) or parked with the request
   bit (3); (b) no other thread performs a state change that makes it run (successful unpark, or
   leaving the safepoint wait); (c) every begun operation ends before the next begins.          *)
EXTENDS Integers, Sequences, Json, IOUtils, TLC
Rec == ndJsonDeserialize(IOEnv.TRACE)
VARIABLES world, l
avars == <<world, l>>
Ev == Rec[l]
Init == world = 0 /\ l = 1
Begin == /\ Ev.ev = "op_begin" /\ world = 0 /\ world' = Ev.t
         /\ \A k \in 1..Len(Ev.states) : Ev.states[k][1] # Ev.t => Ev.states[k][2] \in {3, 4}
End == Ev.ev = "op_end" /\ world = Ev.t /\ world' = 0
Runs == /\ Ev.ev \in {"unpark", "unpark_slow"} /\ Ev.ok
Other == /\ Ev.ev \notin {"op_begin", "op_end"}
         /\ (world # 0 /\ Ev.t # world => ~Runs /\ Ev.ev # "sp_leave")
         /\ (Ev.ev = "reset" => world = 0)
         /\ UNCHANGED world
Next == l <= Len(Rec) /\ (Begin \/ End \/ Other) /\ l' = l + 1
Spec == Init /\ [][Next]_avars
Accepted == IF TLCGet("stats").diameter = Len(Rec) + 1 THEN TRUE
            ELSE PrintT(<<"P-REJECTED at record", TLCGet("stats").diameter, Rec[TLCGet("stats").diameter]>>) /\ FALSE
=============================================================================
