--------------------------- MODULE TerminatorTrace ---------------------------
(* I->S: validates an event log of the real Terminator (hooks in terminator.rs, pool events from the
   harness or from marking.rs/minor.rs) against Terminator.tla. Every record was written while
   holding the log lock around the access it describes, so file order is a linearization: the trace
   is consumed strictly in order; the only nondeterminism left to TLC is which sleeper a notify_one
   wakes (resolved by who reports `tt_woke` next).                                                 *)
EXTENDS Terminator, Sequences, Json, IOUtils
Rec == ndJsonDeserialize(IOEnv.TRACE)
VARIABLE l
tvars == <<vars, l>>

ResetTo(e) == /\ working' = N /\ awakening' = 0 /\ cvw' = {}
              /\ pc' = [w \in W |-> IF e.sp[w] THEN "proc" ELSE "pop"]
              /\ rw' = [w \in W |-> 0] /\ ra' = [w \in W |-> 0]
              /\ loc' = [w \in W |-> 0] /\ dq' = [w \in W |-> 0] /\ inj' = e.inj /\ budget' = B
              /\ hold' = [w \in W |-> FALSE]
              /\ last' = [w |-> 0, a |-> "init", arg |-> "", k |-> 0, v |-> 0]

TraceInit == /\ l = 1 /\ Init

Ev == Rec[l]
Wk == Ev.t + 1
Is(name) == l <= Len(Rec) /\ Ev.ev = name

TReset == Is("reset") /\ ResetTo(Ev)
TPop  == /\ Is("pop") /\ PoolStep(Wk) /\ last'.a = "pop" /\ last'.arg = Ev.arg /\ last'.k = Ev.k /\ last'.v = Ev.v
TProc == /\ Is("proc") /\ PoolStep(Wk) /\ last'.a = "proc" /\ last'.arg = Ev.arg /\ last'.k = Ev.k
TWuR1 == /\ Is("wu_r1") /\ WuR1(Wk) /\ rw'[Wk] = Ev.rw
TWuR2 == /\ Is("wu_r2") /\ WuR2(Wk) /\ ra'[Wk] = Ev.ra
TWuSlow == /\ Is("wu_slow") /\ working = Ev.working /\ awakening = Ev.awakening /\ WuSlow(Wk)
TTtEnter == /\ Is("tt_enter") /\ TtEnter(Wk) /\ working' = Ev.working /\ awakening = Ev.awakening
TTtWoke == /\ Is("tt_woke") /\ working = Ev.working /\ awakening = Ev.awakening /\ TtWoke(Wk)
TTtRet == /\ Is("tt_ret") /\ pc[Wk] = (IF Ev.ret THEN "done" ELSE "pop") /\ UNCHANGED vars

TraceNext == /\ (TReset \/ TPop \/ TProc \/ TWuR1 \/ TWuR2 \/ TWuSlow \/ TTtEnter \/ TTtWoke \/ TTtRet)
             /\ l' = l + 1
TraceSpec == TraceInit /\ [][TraceNext]_tvars

(* acceptance: some path consumes the whole file *)
Progress == TLCSet(1, IF l > TLCGet(1) THEN l ELSE TLCGet(1))
TraceConstraint == Progress
TraceAccepted == IF TLCGet(1) = Len(Rec) + 1 THEN TRUE
                 ELSE /\ PrintT(<<"REJECTED at record", TLCGet(1), Rec[TLCGet(1)]>>) /\ FALSE
ASSUME TLCSet(1, 1)
=============================================================================
