------------------------------- MODULE BcSync -------------------------------
(* C09: TLC interprets the REAL bytecode of std::thread (Mutex, Condition), dumped from the current
   tree by lib/bcdump.py, through a small-step bytecode machine, and checks it against the property
   layer (mutual exclusion, std's own asserts, no lost wake-up = deadlock freedom + termination).
   Because the program text is the code's own bytecode, the verdict follows the code: a changed
   constant, a dropped notify, a wrong compare-exchange in thread.dora changes the model.

   Heap: one mutex object "M" (fields data, owner_thread_id) and one condition object "C" (field
   waiters). Atomic intrinsics are single steps on the addressed word (AtomicReg); the natives
   wait/notify/enqueue/block/wakeup_one/wakeup_all are the WaitLists actions (runtime/waitlists.rs:
   conditional enqueue under the table lock, FIFO wake-up, per-thread blocking flag).
   Thread-local instruction runs (constants, moves, tests, jumps, calls/returns among the methods,
   asserts) are fused: a step = one shared access followed by all local instructions up to the next. *)
EXTENDS Integers, Sequences, FiniteSets, TLC, Json, IOUtils
BC == ndJsonDeserialize(IOEnv.BC)[1]
CONSTANTS N,          \* threads
          Scenario,   \* "mutex" | "cond_one" | "cond_all"
          R           \* rounds (mutex) / number of permits = number of consumers (cond)
T == 1..N
VARIABLES word,      \* [field name |-> Int]  shared words: "Mutex.data", "Mutex.owner_thread_id", "Condition.waiters"
          q,         \* [obj |-> Seq(T)]      wait queues keyed by object
          flag,      \* [T -> BOOLEAN]  per-thread blocking flag (set when queued, cleared by a wake-up)
          sleeping,  \* [T -> BOOLEAN]  inside thread.block() of Mutex::wait
          st,        \* [T -> call stack]
          ph, rounds, permits, got
vars == <<word, q, flag, sleeping, st, ph, rounds, permits, got>>
NRegs == 12
Methods == DOMAIN BC
Frame(fn, args, dst) == [fn |-> fn, ip |-> 1, dst |-> dst,
                         regs |-> [i \in 0..NRegs |-> IF i < Len(args) THEN args[i + 1] ELSE 0]]
Atomics == {"AtomicInt32::get", "AtomicInt32::set", "AtomicInt32::exchange", "AtomicInt32::compare_exchange", "AtomicInt32::fetch_add"}
Natives == {"Mutex::wait", "Mutex::notify", "Condition::enqueue", "Condition::block", "Condition::wakeup_one", "Condition::wakeup_all"}
IsCall(i) == i.op \in {"InvokeDirect", "InvokeStatic"}
Shared(i) == \/ i.op \in {"LoadField", "StoreField"}
             \/ (IsCall(i) /\ i.c \in Atomics \cup Natives)
TopOf(s) == s[Len(s)]
InsOf(s) == BC[TopOf(s).fn][TopOf(s).ip]
SetTop(s, f) == [s EXCEPT ![Len(s)] = f]
Supported == {"ConstFalse", "ConstTrue", "ConstInt32", "ConstInt64", "LoadConst", "Mov", "Not", "TestEq", "TestNe",
              "JumpIfFalse", "JumpIfTrue", "JumpLoop", "LoopStart", "GetFieldRef", "InvokeDirect", "InvokeStatic", "Ret"}
\* one thread-local instruction on stack s of thread t
LocalStep(s, t) ==
  LET f == TopOf(s) i == InsOf(s)
      rg(k) == f.regs[i.r[k]]
      set(v) == SetTop(s, [f EXCEPT !.regs[i.r[1]] = v, !.ip = @ + 1])
      goto(k) == SetTop(s, [f EXCEPT !.ip = k])
  IN CASE i.op = "ConstFalse" -> set(FALSE) [] i.op = "ConstTrue" -> set(TRUE)
       [] i.op \in {"ConstInt32", "ConstInt64", "LoadConst"} -> set(i.v)
       [] i.op = "Mov" -> set(rg(2)) [] i.op = "Not" -> set(~rg(2))
       [] i.op = "TestEq" -> set(rg(2) = rg(3)) [] i.op = "TestNe" -> set(rg(2) # rg(3))
       [] i.op = "JumpIfFalse" -> goto(IF ~rg(1) THEN i.t ELSE f.ip + 1)
       [] i.op = "JumpIfTrue" -> goto(IF rg(1) THEN i.t ELSE f.ip + 1)
       [] i.op = "JumpLoop" -> goto(i.t) [] i.op = "LoopStart" -> goto(f.ip + 1)
       [] i.op = "GetFieldRef" -> set(i.c)                       \* a reference to the word named by the field
       [] IsCall(i) /\ i.c = "std::assert" ->
             IF Assert(rg(2), <<"std::assert failed in", f.fn, "thread", t>>) THEN goto(f.ip + 1) ELSE s
       [] IsCall(i) /\ i.c = "Thread::current" -> set("thread")
       [] IsCall(i) /\ i.c = "Thread::id" -> set(t)
       [] IsCall(i) /\ i.c \in Methods ->
             Append(s, Frame(i.c, [k \in 1..(Len(i.r) - 1) |-> f.regs[i.r[k + 1]]], i.r[1]))
       [] i.op = "Ret" -> IF Len(s) = 1 THEN <<>>
                          ELSE LET caller == s[Len(s) - 1] IN
                               SubSeq(s, 1, Len(s) - 2) \o << [caller EXCEPT !.regs[f.dst] = rg(1), !.ip = caller.ip + 1] >>
       [] OTHER -> Assert(FALSE, <<"UNSUPPORTED bytecode in std::thread", i.op, i.c, f.fn>>)
RECURSIVE Run(_, _)
Run(s, t) == IF s = <<>> THEN s ELSE IF Shared(InsOf(s)) THEN s ELSE Run(LocalStep(s, t), t)

Init == /\ word = [w \in {"Mutex.data", "Mutex.owner_thread_id", "Condition.waiters"} |-> 0]
        /\ q = [o \in {"M", "C"} |-> <<>>] /\ flag = [t \in T |-> FALSE] /\ sleeping = [t \in T |-> FALSE]
        /\ st = [t \in T |-> <<>>]
        /\ ph = [t \in T |-> IF Scenario = "mutex" THEN "lock" ELSE IF t = N THEN "p_lock" ELSE "c_lock"]
        /\ rounds = [t \in T |-> R] /\ permits = 0 /\ got = 0
Put(t, s) == st' = [st EXCEPT ![t] = Run(s, t)]
Adv(s) == SetTop(s, [TopOf(s) EXCEPT !.ip = @ + 1])
SharedStep(t) ==
  LET s == st[t] f == TopOf(s) i == InsOf(s) rg(k) == f.regs[i.r[k]]
      set(v) == SetTop(s, [f EXCEPT !.regs[i.r[1]] = v, !.ip = @ + 1])
      W(name, v) == word' = [word EXCEPT ![name] = v]
  IN /\ s # <<>>
     /\ \/ i.op = "LoadField" /\ Put(t, set(word[i.c])) /\ UNCHANGED <<word, q, flag, sleeping>>
        \/ i.op = "StoreField" /\ W(i.c, rg(1)) /\ Put(t, Adv(s)) /\ UNCHANGED <<q, flag, sleeping>>
        \/ IsCall(i) /\ i.c = "AtomicInt32::get" /\ Put(t, set(word[rg(2)])) /\ UNCHANGED <<word, q, flag, sleeping>>
        \/ IsCall(i) /\ i.c = "AtomicInt32::set" /\ W(rg(2), rg(3)) /\ Put(t, Adv(s)) /\ UNCHANGED <<q, flag, sleeping>>
        \/ IsCall(i) /\ i.c = "AtomicInt32::exchange" /\ W(rg(2), rg(3)) /\ Put(t, set(word[rg(2)])) /\ UNCHANGED <<q, flag, sleeping>>
        \/ IsCall(i) /\ i.c = "AtomicInt32::fetch_add" /\ W(rg(2), word[rg(2)] + rg(3)) /\ Put(t, set(word[rg(2)])) /\ UNCHANGED <<q, flag, sleeping>>
        \/ IsCall(i) /\ i.c = "AtomicInt32::compare_exchange"
             /\ W(rg(2), IF word[rg(2)] = rg(3) THEN rg(4) ELSE word[rg(2)]) /\ Put(t, set(word[rg(2)])) /\ UNCHANGED <<q, flag, sleeping>>
        \* WaitLists::block(mutex, expected), first half: under the table lock, enqueue iff the lock word still has the expected value
        \/ IsCall(i) /\ i.c = "Mutex::wait" /\ ~sleeping[t]
             /\ (IF word["Mutex.data"] = rg(3)
                  THEN /\ q' = [q EXCEPT !["M"] = Append(@, t)] /\ flag' = [flag EXCEPT ![t] = TRUE]
                       /\ sleeping' = [sleeping EXCEPT ![t] = TRUE] /\ UNCHANGED st
                  ELSE /\ Put(t, Adv(s)) /\ UNCHANGED <<q, flag, sleeping>>)
             /\ UNCHANGED word
        \* second half: DoraThread::block returns once the flag has been cleared
        \/ IsCall(i) /\ i.c = "Mutex::wait" /\ sleeping[t] /\ ~flag[t]
             /\ sleeping' = [sleeping EXCEPT ![t] = FALSE] /\ Put(t, Adv(s)) /\ UNCHANGED <<word, q, flag>>
        \* WaitLists::wakeup: pop the head of the queue (if any) and clear its flag
        \/ IsCall(i) /\ i.c \in {"Mutex::notify", "Condition::wakeup_one"}
             /\ (LET o == IF i.c = "Mutex::notify" THEN "M" ELSE "C" IN
                  IF q[o] # <<>> THEN q' = [q EXCEPT ![o] = Tail(@)] /\ flag' = [flag EXCEPT ![Head(q[o])] = FALSE]
                  ELSE UNCHANGED <<q, flag>>)
             /\ Put(t, Adv(s)) /\ UNCHANGED <<word, sleeping>>
        \* WaitLists::enqueue(condition): state := 1 and append, under the table lock; the thread keeps running
        \/ IsCall(i) /\ i.c = "Condition::enqueue"
             /\ W("Condition.waiters", 1) /\ q' = [q EXCEPT !["C"] = Append(@, t)] /\ flag' = [flag EXCEPT ![t] = TRUE]
             /\ Put(t, Adv(s)) /\ UNCHANGED sleeping
        \* block_after_enqueue: returns once the flag is clear (it may already be)
        \/ IsCall(i) /\ i.c = "Condition::block" /\ ~flag[t] /\ Put(t, Adv(s)) /\ UNCHANGED <<word, q, flag, sleeping>>
        \/ IsCall(i) /\ i.c = "Condition::wakeup_all"
             /\ q' = [q EXCEPT !["C"] = <<>>]
             /\ flag' = [u \in T |-> IF \E k \in 1..Len(q["C"]) : q["C"][k] = u THEN FALSE ELSE flag[u]]
             /\ Put(t, Adv(s)) /\ UNCHANGED <<word, sleeping>>
     /\ UNCHANGED <<ph, rounds, permits, got>>
Call(t, fn, args) == Put(t, <<Frame(fn, args, 0)>>)
Go(t, p) == ph' = [ph EXCEPT ![t] = p]
\* ---- drivers: what a user program does around the library calls ----
MutexDriver(t) ==
  \/ ph[t] = "lock" /\ rounds[t] > 0 /\ Call(t, "Mutex::lock_op", <<"M">>) /\ Go(t, "locking") /\ UNCHANGED <<rounds, permits, got>>
  \/ ph[t] = "locking" /\ Go(t, "cs") /\ UNCHANGED <<st, rounds, permits, got>>
  \/ ph[t] = "cs" /\ Call(t, "Mutex::unlock_op", <<"M">>) /\ Go(t, "unlocking") /\ UNCHANGED <<rounds, permits, got>>
  \/ ph[t] = "unlocking" /\ Go(t, IF rounds[t] > 1 THEN "lock" ELSE "done") /\ rounds' = [rounds EXCEPT ![t] = @ - 1] /\ UNCHANGED <<st, permits, got>>
\* consumers (threads 1..N-1): lock; while permits = 0 { cond.wait(m) }; permits--; unlock
ConsumerDriver(t) ==
  \/ ph[t] = "c_lock" /\ Call(t, "Mutex::lock_op", <<"M">>) /\ Go(t, "c_check") /\ UNCHANGED <<rounds, permits, got>>
  \/ ph[t] = "c_check" /\ permits = 0 /\ Call(t, "Condition::wait", <<"C", "M">>) /\ UNCHANGED <<ph, rounds, permits, got>>
  \/ ph[t] = "c_check" /\ permits > 0 /\ permits' = permits - 1 /\ got' = got + 1 /\ Go(t, "cs") /\ UNCHANGED <<st, rounds>>
  \/ ph[t] = "cs" /\ Call(t, "Mutex::unlock_op", <<"M">>) /\ Go(t, "c_unlocking") /\ UNCHANGED <<rounds, permits, got>>
  \/ ph[t] = "c_unlocking" /\ Go(t, "done") /\ UNCHANGED <<st, rounds, permits, got>>
\* producer (thread N): R times { lock; permits++; unlock; notify_one | notify_all }
ProducerDriver(t) ==
  \/ ph[t] = "p_lock" /\ rounds[t] > 0 /\ Call(t, "Mutex::lock_op", <<"M">>) /\ Go(t, "p_locked") /\ UNCHANGED <<rounds, permits, got>>
  \/ ph[t] = "p_locked" /\ permits' = permits + 1 /\ Go(t, "pcs") /\ UNCHANGED <<st, rounds, got>>
  \/ ph[t] = "pcs" /\ Call(t, "Mutex::unlock_op", <<"M">>) /\ Go(t, "p_notify") /\ UNCHANGED <<rounds, permits, got>>
  \/ ph[t] = "p_notify" /\ Call(t, IF Scenario = "cond_one" THEN "Condition::notify_one" ELSE "Condition::notify_all", <<"C">>)
        /\ Go(t, "p_notified") /\ UNCHANGED <<rounds, permits, got>>
  \/ ph[t] = "p_notified" /\ Go(t, IF rounds[t] > 1 THEN "p_lock" ELSE "done") /\ rounds' = [rounds EXCEPT ![t] = @ - 1] /\ UNCHANGED <<st, permits, got>>
Driver(t) ==
  /\ st[t] = <<>>
  /\ (IF Scenario = "mutex" THEN MutexDriver(t) ELSE IF t = N THEN ProducerDriver(t) ELSE ConsumerDriver(t))
  /\ UNCHANGED <<word, q, flag, sleeping>>
Step(t) == Driver(t) \/ SharedStep(t)
Next == \E t \in T : Step(t)
Spec == Init /\ [][Next]_vars /\ \A t \in T : WF_vars(Step(t))
\* ---- property layer (AbstractSync) ----
InCs(t) == ph[t] \in {"cs", "pcs", "p_locked", "c_check"} /\ st[t] = <<>>
MutualExclusion == \A a, b \in T : (InCs(a) /\ InCs(b)) => a = b
AllDone == \A t \in T : ph[t] = "done"
NoDeadlock == AllDone \/ ENABLED Next            \* a lost wake-up ends in a state where sleepers remain and nobody can move
QueuedAreFlagged == \A o \in {"M", "C"} : \A k \in 1..Len(q[o]) : flag[q[o][k]]
PermitsConserved == permits >= 0 /\ (AllDone => (Scenario = "mutex" \/ (permits = 0 /\ got = N - 1)))
Terminates == <>AllDone
=============================================================================
