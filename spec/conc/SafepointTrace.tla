---------------------------- MODULE SafepointTrace ----------------------------
(* I->S: validates the event log of a real multi-threaded Dora executable (or of free-running
   harness threads) against Safepoint.tla. Every record was written while holding the log lock
   around the atomic it describes (verif::hold/release) or inside the critical section of the
   barrier / thread-list mutex, so file order is a linearization of all writes to the protocol
   state; the only accesses not in the log are the compiled safepoint poll (a read) and the choice
   of the next runtime operation, which TLC infers as silent steps of the thread whose record is
   next. Observed values (CAS outcome, old state, counters, list length, the snapshot of all thread
   states at op_begin) are bound to the model's variables.                                      *)
EXTENDS Safepoint, Json, IOUtils
Rec == ndJsonDeserialize(IOEnv.TRACE)
VARIABLE l
tvars == <<vars, l>>
Ev == Rec[l]
Th == Ev.t
Is(name) == l <= Len(Rec) /\ Ev.ev = name
StCode(x) == CASE x = "R" -> 0 [] x = "P" -> 1 [] x = "SR" -> 2 [] x = "PSR" -> 3 [] x = "S" -> 4 [] OTHER -> 9

(* a new run in the same file: back to the initial state *)
ResetAll == /\ ts' = [t \in T |-> IF t = 1 THEN "R" ELSE "none"]
            /\ reg' = <<1>> /\ lock' = 0 /\ armed' = FALSE /\ stopped' = 0
            /\ waitW' = {} /\ waitN' = {} /\ woken' = {} /\ rt' = "run"
            /\ pc' = [t \in T |-> IF t = 1 THEN "idle" ELSE "unborn"]
            /\ cont' = [t \in T |-> "idle"] /\ idx' = [t \in T |-> 0] /\ running' = [t \in T |-> 0]
            /\ ops' = [t \in T |-> K] /\ mut' = [t \in T |-> FALSE] /\ init' = 0
            /\ last' = [t |-> 0, a |-> "init"]

Logged ==
  \/ Is("park") /\ Park(Th) /\ (Ev.ok <=> ts[Th] = "R")
  \/ Is("park_slow") /\ ParkSlow(Th)
  \/ Is("notify_park") /\ NotifyPark(Th) /\ stopped' = Ev.stopped
  \/ Is("unpark") /\ Unpark(Th) /\ (Ev.ok <=> ts[Th] = "P")
  \/ Is("unpark_slow") /\ UnparkSlow(Th) /\ (Ev.ok <=> ts[Th] = "P")
  \/ Is("unpark_wait") /\ UnparkWait(Th) /\ Ev.armed = armed
  \/ Is("slow_swap") /\ SlowSwap(Th) /\ Ev.old = StCode(ts[Th])
  \/ Is("sp_enter") /\ SpEnter(Th) /\ stopped' = Ev.stopped
  \/ Is("sp_leave") /\ SpWake(Th) /\ ~armed
  \/ Is("stw_lock") /\ StwLock(Th) /\ Ev.len = Len(reg)
  \/ Is("arm") /\ Arm(Th)
  \/ Is("request") /\ Request(Th) /\ Ev.x = reg[idx[Th]] /\ Ev.old = StCode(ts[reg[idx[Th]]])
  \/ Is("stw_wait") /\ StwWait(Th) /\ Ev.stopped = stopped /\ Ev.running = running[Th]
  \/ Is("stw_stopped") /\ StwWake(Th) /\ ~(stopped < running[Th]) /\ Ev.stopped = stopped
  \/ Is("stw_stopped") /\ pc[Th] = "op_begin" /\ Ev.stopped = stopped /\ UNCHANGED vars     \* did not have to wait
  \/ /\ Is("op_begin") /\ OpBegin(Th)
     /\ \A k \in 1..Len(Ev.states) : Ev.states[k][2] = StCode(ts[Ev.states[k][1]])
     /\ Len(Ev.states) = Len(reg)
  \/ Is("op_end") /\ OpEnd(Th)
  \/ Is("resume") /\ Resume(Th) /\ Ev.x = reg[idx[Th]] /\ Ev.old = StCode(ts[reg[idx[Th]]])
  \/ Is("disarm") /\ Disarm(Th)
  \/ Is("spawn_lock") /\ SpawnLock(Th) /\ Ev.child = idx[Th]
  \/ Is("exit_lock") /\ ExitLock(Th)
  \/ Is("reset") /\ l > 1 /\ AllDone /\ ResetAll

(* unlogged steps. The choice of the next runtime operation (and the compiled poll that saw the request) is inferred for
   the thread whose record comes next: these steps are enabled by the thread's own state only. A condvar waiter that has
   been notified re-acquires the barrier lock at a time of its own: what it then sees (armed or not, stopped < running)
   is shared state, so these wake-ups may be taken by ANY thread at ANY point of the trace.                          *)
SilentChoice(t) == Poll(t) \/ Native(t) \/ NativeBody(t) \/ Stw(t) \/ Spawn(t) \/ Exit(t)
SilentWake(t) == (SpWake(t) /\ armed) \/ UnparkWake(t) \/ (StwWake(t) /\ stopped < running[t])

TraceInit == Init /\ l = 1
TraceNext == \/ Logged /\ l' = l + 1
             \/ l <= Len(Rec) /\ Ev.ev # "reset" /\ SilentChoice(Th) /\ UNCHANGED l
             \/ (\E t \in T : SilentWake(t)) /\ UNCHANGED l
TraceSpec == TraceInit /\ [][TraceNext]_tvars

TView == <<core, l>>
Progress == TLCSet(1, IF l > TLCGet(1) THEN l ELSE TLCGet(1))
TraceAccepted == IF TLCGet(1) = Len(Rec) + 1 THEN TRUE
                 ELSE /\ PrintT(<<"REJECTED at record", TLCGet(1), Rec[TLCGet(1)]>>) /\ FALSE
ASSUME TLCSet(1, 1)
=============================================================================
