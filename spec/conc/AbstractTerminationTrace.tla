---------------------- MODULE AbstractTerminationTrace ----------------------
(* Property-layer adjudication of a recorded run (DESIGN 2.8): only the pool events and the return
   values of try_terminate are interpreted; counters, sleeping and wake-ups are ignored. A trace
   that the faithful TerminatorTrace rejects but this accepts is MODEL-DRIFT, not a violation.   *)
EXTENDS Integers, Sequences, FiniteSets, Json, IOUtils, TLC
CONSTANTS N
W == 1..N
Rec == ndJsonDeserialize(IOEnv.TRACE)
VARIABLES items, done, hold, l
avars == <<items, done, hold, l>>
Ev == Rec[l]
Wk == Ev.t + 1
Is(name) == l <= Len(Rec) /\ Ev.ev = name
Init == l = 1 /\ items = 0 /\ done = {} /\ hold = [w \in W |-> FALSE]
Reset == Is("reset") /\ (done = {} \/ done = W)      \* every worker of the previous run left
         /\ items' = Ev.inj /\ done' = {} /\ hold' = [w \in W |-> FALSE]
Pop == /\ Is("pop") /\ done = {}
       /\ IF Ev.arg = "fail" THEN UNCHANGED <<items, hold>>
          ELSE items' = items /\ hold' = [hold EXCEPT ![Wk] = TRUE]
       /\ UNCHANGED done
Proc == /\ Is("proc") /\ done = {}
        /\ CASE Ev.arg = "finish" -> items' = items - (IF hold[Wk] THEN 1 ELSE 0) /\ hold' = [hold EXCEPT ![Wk] = FALSE]
             [] Ev.arg \in {"push_local", "push_deque", "push_inj"} -> items' = items + 1 /\ UNCHANGED hold
             [] OTHER -> UNCHANGED <<items, hold>>
        /\ UNCHANGED done
Ret == /\ Is("tt_ret")
       /\ IF Ev.ret THEN items = 0 /\ done' = done \cup {Wk} ELSE done = {} /\ UNCHANGED done
       /\ UNCHANGED <<items, hold>>
Other == l <= Len(Rec) /\ Ev.ev \in {"wu_r1", "wu_r2", "wu_slow", "tt_enter", "tt_woke"} /\ UNCHANGED <<items, done, hold>>
Next == (Reset \/ Pop \/ Proc \/ Ret \/ Other) /\ l' = l + 1
Spec == Init /\ [][Next]_avars
Accepted == IF TLCGet("stats").diameter = Len(Rec) + 1 THEN TRUE
            ELSE PrintT(<<"P-REJECTED at record", TLCGet("stats").diameter, Rec[TLCGet("stats").diameter]>>) /\ FALSE
=============================================================================
