CONSTANTS N = 3
SPECIFICATION Spec
POSTCONDITION Accepted
CHECK_DEADLOCK FALSE
