CONSTANTS N = 3
Scenario = "mutex"
R = 2
SPECIFICATION Spec
INVARIANTS MutualExclusion NoDeadlock QueuedAreFlagged
PROPERTY Terminates
CHECK_DEADLOCK FALSE
