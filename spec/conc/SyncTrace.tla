------------------------------ MODULE SyncTrace ------------------------------
(* C09, I->S: validates the event log of a real multi-threaded Dora workload against the property
   layer AbstractSync and the wait-queue discipline of runtime/waitlists.rs:
     - markers "acq"/"rel" written by the workload inside its critical sections: critical sections
       of the (single) mutex never overlap;
     - wl_append / wakeup / wakeup_all (logged under the wait-table lock): queues are FIFO, a wake-up
       removes exactly the head, wakeup_all removes exactly one whole queue in order; queues are keyed by the
       address of their mutex / condition object as logged; wl_rekey records (logged under the same lock when a
       moving collection rewrites the keys) keep the model's keys exact, so a wake-up that finds NOBODY while the
       model has waiters under that key is rejected (lost wake-up);
     - block: a thread is queued iff the lock word still had the expected value;
     - unblocked: a thread returns from blocking only after a wake-up cleared its flag (no spurious
       return), and "joined" markers never outnumber "fin" markers (join returns after the end).    *)
EXTENDS Integers, Sequences, FiniteSets, Json, IOUtils, TLC
Rec == ndJsonDeserialize(IOEnv.TRACE)
CONSTANT Strict      \* TRUE: FIFO discipline of waitlists.rs (layer F); FALSE: any queued thread may be woken (layer P)
VARIABLES holder, qs, flagged, fin, joined, l
vars == <<holder, qs, flagged, fin, joined, l>>
Ev == Rec[l]
Is(name) == Ev.ev = name
Mark(m) == Is("mark") /\ Ev.m = m
\* qs: set of wait queues [k |-> key of the wait table (the object's address, as logged), q |-> sequence of thread ids]
QWithHead(h) == CHOOSE s \in qs : Head(s.q) = h
QWith(x) == CHOOSE s \in qs : \E k \in 1..Len(s.q) : s.q[k] = x
Without(s, x) == SelectSeq(s, LAMBDA y : y # x)
Elems(s) == {s[k] : k \in 1..Len(s)}
AtKey(key) == {s \in qs : s.k = key}
Init == holder = 0 /\ qs = {} /\ flagged = {} /\ fin = 0 /\ joined = 0 /\ l = 1
Step ==
  \/ Mark("acq") /\ holder = 0 /\ holder' = Ev.t /\ UNCHANGED <<qs, flagged, fin, joined>>
  \/ Mark("rel") /\ holder = Ev.t /\ holder' = 0 /\ UNCHANGED <<qs, flagged, fin, joined>>
  \/ Mark("fin") /\ fin' = fin + 1 /\ UNCHANGED <<holder, qs, flagged, joined>>
  \/ Mark("joined") /\ joined < fin /\ joined' = joined + 1 /\ UNCHANGED <<holder, qs, flagged, fin>>
  \/ Is("block") /\ (Ev.queued <=> Ev.word = Ev.expected) /\ UNCHANGED <<holder, qs, flagged, fin, joined>>
  \/ /\ Is("wl_append") /\ Ev.who \notin flagged
     /\ \A s \in qs : Ev.who \notin Elems(s.q)
     /\ IF Ev.head = 0 THEN /\ AtKey(Ev.key) = {}                     \* a new queue only if the object has none
                             /\ qs' = qs \cup {[k |-> Ev.key, q |-> <<Ev.who>>]}
        ELSE /\ \E s \in qs : Head(s.q) = Ev.head /\ s.k = Ev.key
             /\ LET s == QWithHead(Ev.head) IN qs' = (qs \ {s}) \cup {[s EXCEPT !.q = Append(s.q, Ev.who)]}
     /\ flagged' = flagged \cup {Ev.who} /\ UNCHANGED <<holder, fin, joined>>
  \/ /\ Is("wakeup")
     /\ IF Ev.woken = 0 THEN AtKey(Ev.key) = {} /\ UNCHANGED <<qs, flagged>>      \* nobody found => nobody was waiting on that object
        ELSE /\ \E s \in AtKey(Ev.key) : IF Strict THEN Head(s.q) = Ev.woken ELSE Ev.woken \in Elems(s.q)
             /\ LET s == QWith(Ev.woken) IN qs' = (qs \ {s}) \cup (IF Len(s.q) > 1 THEN {[s EXCEPT !.q = Without(s.q, Ev.woken)]} ELSE {})
             /\ flagged' = flagged \ {Ev.woken}
     /\ UNCHANGED <<holder, fin, joined>>
  \/ /\ Is("wakeup_all")
     /\ IF Len(Ev.woken) = 0 THEN AtKey(Ev.key) = {} /\ UNCHANGED <<qs, flagged>>
        ELSE /\ \E s \in AtKey(Ev.key) : (IF Strict THEN s.q = Ev.woken ELSE Elems(s.q) = Elems(Ev.woken))
             /\ qs' = qs \ {QWith(Ev.woken[1])}
             /\ flagged' = flagged \ Elems(Ev.woken)
     /\ UNCHANGED <<holder, fin, joined>>
  \/ /\ Is("wl_rekey")              \* a moving collection rewrote keys of the wait table in place: <<old, new>> pairs, simultaneously
     /\ LET New(key) == IF \E m \in Elems(Ev.moved) : m[1] = key THEN (CHOOSE m \in Elems(Ev.moved) : m[1] = key)[2] ELSE key
        IN qs' = {[s EXCEPT !.k = New(s.k)] : s \in qs}
     /\ UNCHANGED <<holder, flagged, fin, joined>>
  \/ Is("unblocked") /\ Ev.t \notin flagged /\ UNCHANGED <<holder, qs, flagged, fin, joined>>
  \/ Is("reset") /\ holder' = 0 /\ qs' = {} /\ flagged' = {} /\ fin' = 0 /\ joined' = 0     \* next recorded run
  \/ Ev.ev \notin {"mark", "block", "wl_append", "wakeup", "wakeup_all", "wl_rekey", "unblocked", "reset"} /\ UNCHANGED <<holder, qs, flagged, fin, joined>>
  \/ Is("mark") /\ Ev.m \notin {"acq", "rel", "fin", "joined"} /\ UNCHANGED <<holder, qs, flagged, fin, joined>>
Next == l <= Len(Rec) /\ Step /\ l' = l + 1
Spec == Init /\ [][Next]_vars
QueuesDisjoint == \A a, b \in qs : a # b => Elems(a.q) \cap Elems(b.q) = {} /\ a.k # b.k
QueuedAreFlagged == \A s \in qs : Elems(s.q) \subseteq flagged
Accepted == IF TLCGet("stats").diameter = Len(Rec) + 1 THEN TRUE
            ELSE PrintT(<<"REJECTED at record", TLCGet("stats").diameter, Rec[TLCGet("stats").diameter]>>) /\ FALSE
=============================================================================
