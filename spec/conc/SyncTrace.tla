------------------------------ MODULE SyncTrace ------------------------------
(* C09, I->S: validates the event log of a real multi-threaded Dora workload against the property
   layer AbstractSync and the wait-queue discipline of runtime/waitlists.rs:
     - markers "acq"/"rel" written by the workload inside its critical sections: critical sections
       of the (single) mutex never overlap;
     - wl_append / wakeup / wakeup_all (logged under the wait-table lock): queues are FIFO, a wake-up
       removes exactly the head, wakeup_all removes exactly one whole queue in order; a queue is
       identified by its head thread, so the check is insensitive to collections moving the keys;
     - block: a thread is queued iff the lock word still had the expected value;
     - unblocked: a thread returns from blocking only after a wake-up cleared its flag (no spurious
       return), and "joined" markers never outnumber "fin" markers (join returns after the end).    *)
EXTENDS Integers, Sequences, FiniteSets, Json, IOUtils, TLC
Rec == ndJsonDeserialize(IOEnv.TRACE)
CONSTANT Strict      \* TRUE: FIFO discipline of waitlists.rs (layer F); FALSE: any queued thread may be woken (layer P)
VARIABLES holder, qs, flagged, fin, joined, l
vars == <<holder, qs, flagged, fin, joined, l>>
Ev == Rec[l]
Is(name) == Ev.ev = name
Mark(m) == Is("mark") /\ Ev.m = m
QWithHead(h) == CHOOSE s \in qs : Head(s) = h
QWith(x) == CHOOSE s \in qs : \E k \in 1..Len(s) : s[k] = x
Without(s, x) == SelectSeq(s, LAMBDA y : y # x)
Init == holder = 0 /\ qs = {} /\ flagged = {} /\ fin = 0 /\ joined = 0 /\ l = 1
Step ==
  \/ Mark("acq") /\ holder = 0 /\ holder' = Ev.t /\ UNCHANGED <<qs, flagged, fin, joined>>
  \/ Mark("rel") /\ holder = Ev.t /\ holder' = 0 /\ UNCHANGED <<qs, flagged, fin, joined>>
  \/ Mark("fin") /\ fin' = fin + 1 /\ UNCHANGED <<holder, qs, flagged, joined>>
  \/ Mark("joined") /\ joined < fin /\ joined' = joined + 1 /\ UNCHANGED <<holder, qs, flagged, fin>>
  \/ Is("block") /\ (Ev.queued <=> Ev.word = Ev.expected) /\ UNCHANGED <<holder, qs, flagged, fin, joined>>
  \/ /\ Is("wl_append") /\ Ev.who \notin flagged
     /\ \A s \in qs : \A k \in 1..Len(s) : s[k] # Ev.who
     /\ IF Ev.head = 0 THEN qs' = qs \cup {<<Ev.who>>}
        ELSE /\ \E s \in qs : Head(s) = Ev.head
             /\ qs' = (qs \ {QWithHead(Ev.head)}) \cup {Append(QWithHead(Ev.head), Ev.who)}
     /\ flagged' = flagged \cup {Ev.who} /\ UNCHANGED <<holder, fin, joined>>
  \/ /\ Is("wakeup")
     /\ IF Ev.woken = 0 THEN UNCHANGED <<qs, flagged>>
        ELSE /\ \E s \in qs : IF Strict THEN Head(s) = Ev.woken ELSE \E k \in 1..Len(s) : s[k] = Ev.woken
             /\ LET s == QWith(Ev.woken) IN qs' = (qs \ {s}) \cup (IF Len(s) > 1 THEN {Without(s, Ev.woken)} ELSE {})
             /\ flagged' = flagged \ {Ev.woken}
     /\ UNCHANGED <<holder, fin, joined>>
  \/ /\ Is("wakeup_all")
     /\ IF Len(Ev.woken) = 0 THEN UNCHANGED <<qs, flagged>>
        ELSE /\ \E s \in qs : (IF Strict THEN s = Ev.woken ELSE {s[k] : k \in 1..Len(s)} = {Ev.woken[k] : k \in 1..Len(Ev.woken)})
             /\ qs' = qs \ {QWith(Ev.woken[1])}
             /\ flagged' = flagged \ {Ev.woken[k] : k \in 1..Len(Ev.woken)}
     /\ UNCHANGED <<holder, fin, joined>>
  \/ Is("unblocked") /\ Ev.t \notin flagged /\ UNCHANGED <<holder, qs, flagged, fin, joined>>
  \/ Is("reset") /\ holder' = 0 /\ qs' = {} /\ flagged' = {} /\ fin' = 0 /\ joined' = 0     \* next recorded run
  \/ Ev.ev \notin {"mark", "block", "wl_append", "wakeup", "wakeup_all", "unblocked", "reset"} /\ UNCHANGED <<holder, qs, flagged, fin, joined>>
  \/ Is("mark") /\ Ev.m \notin {"acq", "rel", "fin", "joined"} /\ UNCHANGED <<holder, qs, flagged, fin, joined>>
Next == l <= Len(Rec) /\ Step /\ l' = l + 1
Spec == Init /\ [][Next]_vars
QueuesDisjoint == \A a, b \in qs : a # b => \A i \in 1..Len(a) : \A j \in 1..Len(b) : a[i] # b[j]
QueuedAreFlagged == \A s \in qs : \A k \in 1..Len(s) : s[k] \in flagged
Accepted == IF TLCGet("stats").diameter = Len(Rec) + 1 THEN TRUE
            ELSE PrintT(<<"REJECTED at record", TLCGet("stats").diameter, Rec[TLCGet("stats").diameter]>>) /\ FALSE
=============================================================================
