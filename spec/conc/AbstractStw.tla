---------------------------- MODULE AbstractStw ----------------------------
(* Property layer (P) for C04: no managed thread runs while the world is stopped.
   world = "sp" between the start and the end of a stop-the-world operation; while it is "sp"
   no thread other than the initiator is mutating managed state, and none starts to. Every
   operation ends (the world runs again). How threads are asked, counted, parked and woken is
   policy and does not appear here.                                                            *)
EXTENDS Integers, FiniteSets
CONSTANTS Threads
VARIABLES world, initiator, mutating, alive
avars == <<world, initiator, mutating, alive>>
Init == world = "run" /\ initiator = 0 /\ mutating = {} /\ alive \subseteq Threads
MutOn(t) == world = "run" /\ t \in alive /\ mutating' = mutating \cup {t} /\ UNCHANGED <<world, initiator, alive>>
MutOff(t) == t \in mutating /\ mutating' = mutating \ {t} /\ UNCHANGED <<world, initiator, alive>>
Stop(t) == /\ world = "run" /\ t \in alive /\ mutating = {}
           /\ world' = "sp" /\ initiator' = t /\ UNCHANGED <<mutating, alive>>
Start == world = "sp" /\ world' = "run" /\ initiator' = 0 /\ UNCHANGED <<mutating, alive>>
Membership == alive' \subseteq Threads /\ alive' # alive /\ mutating \subseteq alive' /\ UNCHANGED <<world, initiator, mutating>>
Next == (\E t \in Threads : MutOn(t) \/ MutOff(t) \/ Stop(t)) \/ Start \/ Membership
Spec == Init /\ [][Next]_avars /\ []<>(world = "run")
Exclusion == world = "sp" => mutating = {}
=============================================================================
