---------------------------- MODULE SafepointGen ----------------------------
(* Behaviour generator for S->I replay of Safepoint.tla: history of labelled steps with the projected
   state expected after each step (thread-state bytes, barrier, runtime state, thread list).     *)
EXTENDS Safepoint, Json
VARIABLE hs
InitH == Init /\ hs = <<>>
NextH == /\ Next
         /\ hs' = Append(hs, [t |-> last'.t, a |-> last'.a, ts |-> ts', armed |-> armed', stopped |-> stopped',
                              rt |-> rt', reg |-> reg'])
Emit == AllDone => PrintT(ToJson(hs))
=============================================================================
