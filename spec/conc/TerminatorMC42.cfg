CONSTANTS N = 4
B = 2
SPECIFICATION Spec
VIEW view
INVARIANTS TypeOK NoEarlyTermination QuiescentAtEnd Counters SleepersAreCounted NoDeadlock NoSleeperAfterEnd
PROPERTIES Terminates Refines
CHECK_DEADLOCK FALSE
