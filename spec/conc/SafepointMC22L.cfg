CONSTANTS N = 2
K = 2
SPECIFICATION Spec
VIEW View
INVARIANTS TypeOK StwExclusion InitiatorHoldsLock NoDeadlock AtMostOneInitiator StoppedBounded NoOneLeftOut
PROPERTIES StaysStopped Terminates Refines
CHECK_DEADLOCK FALSE
