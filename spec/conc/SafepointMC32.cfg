CONSTANTS N = 3
K = 2
SPECIFICATION Spec
VIEW View
INVARIANTS TypeOK StwExclusion InitiatorHoldsLock NoDeadlock AtMostOneInitiator StoppedBounded NoOneLeftOut
PROPERTIES StaysStopped
CHECK_DEADLOCK FALSE
