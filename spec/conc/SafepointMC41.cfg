CONSTANTS N = 4
K = 1
SPECIFICATION Spec
VIEW View
INVARIANTS TypeOK StwExclusion InitiatorHoldsLock NoDeadlock AtMostOneInitiator StoppedBounded NoOneLeftOut
PROPERTIES StaysStopped
CHECK_DEADLOCK FALSE
