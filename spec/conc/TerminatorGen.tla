---------------------------- MODULE TerminatorGen ----------------------------
(* Behaviour generator for S->I replay: Terminator + a history of labelled steps with the counter
   values expected after each step. Run with `tlc -simulate`; one JSON line per finished behaviour. *)
EXTENDS Terminator, Sequences, Json
VARIABLE hist
GenInit == Init /\ hist = <<[w |-> 0, a |-> "init", arg |-> "", k |-> inj, v |-> 0, working |-> working, awakening |-> awakening,
                             pcs |-> [w \in W |-> pc[w]]]>>
GenNext == Next /\ hist' = Append(hist, [w |-> last'.w, a |-> last'.a, arg |-> last'.arg, k |-> last'.k, v |-> last'.v,
                                          working |-> working', awakening |-> awakening',
                                          pcs |-> [w \in W |-> pc'[w]]])
Emit == AllDone => PrintT(ToJson(hist))
=============================================================================
