CONSTANTS N = 3
K = 2
INIT InitH
NEXT NextH
INVARIANTS StwExclusion Emit
CHECK_DEADLOCK FALSE
