CONSTANTS N = 3
B = 4
INIT GenInit
NEXT GenNext
INVARIANT Emit
CHECK_DEADLOCK FALSE
