------------------------------ MODULE HeapGen ------------------------------
(* behaviours of Heap.tla for S->I replay: every step with the root table and the field table after it *)
EXTENDS Heap, Sequences, Json
VARIABLE hs
InitH == Init /\ hs = <<>>
NextH == Next /\ hs' = Append(hs, [op |-> last'.op, a |-> last'.a, b |-> last'.b, c |-> last'.c,
                                    root |-> root', fld |-> fld', alive |-> alive', space |-> space'])
Emit == ops = MAXOPS => PrintT(ToJson(hs))
=============================================================================
