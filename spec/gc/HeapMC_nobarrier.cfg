CONSTANTS NO = 4
NR = 2
NF = 1
MAXOPS = 8
MUT = "nobarrier"
SPECIFICATION Spec
VIEW view
INVARIANTS NoDangling RemsetComplete RemBitConsistent YoungBornRemembered NoLostObject
PROPERTIES GraphPreserved GarbageReclaimed
CHECK_DEADLOCK FALSE
