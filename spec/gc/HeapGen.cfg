CONSTANTS NO = 7
NR = 3
NF = 2
MAXOPS = 30
MUT = "none"
INIT InitH
NEXT NextH
INVARIANTS NoDangling RemsetComplete Emit
CHECK_DEADLOCK FALSE
