-------------------------------- MODULE Heap --------------------------------
(* C03: abstract generational heap (layer F for the swiper collector; the other collectors are instances that
   ignore the generational bookkeeping). Objects have NF reference fields; root slots stand for stack slots,
   globals, handles. Young objects are born with the remembered bit set (no barrier needed for them), promotion
   clears it and re-sets it iff the promoted copy still refers to young objects, a full collection clears the
   remembered set; the write barrier fires when the host's remembered bit is clear (as compiled:
   dora-cannon-compiler asm.rs emit_write_barrier, swiper.rs object_write_barrier_slow_path, minor.rs, full.rs,
   mirror.rs try_mark). MUT selects planted design errors used to show the invariants have teeth.
   `last` labels the step just taken (observation only; excluded from VIEW).                                   *)
EXTENDS Integers, FiniteSets, TLC
CONSTANTS NO, NR, NF, MAXOPS, MUT     \* objects, root slots, fields, bound on mutator ops, mutation switch
Obj == 1..NO
Slot == 1..NR
Fld == 1..NF
VARIABLES alive, space, fld, rem, remset, root, ops, last
vars == <<alive, space, fld, rem, remset, root, ops, last>>
view == <<alive, space, fld, rem, remset, root, ops>>
Init == /\ alive = {} /\ space = [o \in Obj |-> "free"] /\ fld = [o \in Obj |-> [f \in Fld |-> 0]]
        /\ rem = [o \in Obj |-> FALSE] /\ remset = {} /\ root = [r \in Slot |-> 0] /\ ops = 0
        /\ last = [op |-> "init", a |-> 0, b |-> 0, c |-> 0]
Young(o) == space[o] \in {"fresh", "surv"}
\* reachability
Succ(S) == S \cup ({fld[o][f] : o \in S, f \in Fld} \ {0})
RECURSIVE Close(_)
Close(S) == LET T == Succ(S) IN IF T = S THEN S ELSE Close(T)
RootSet == {root[r] : r \in Slot} \ {0}
Reach == Close(RootSet)
\* young objects reachable in a minor collection: from roots and from fields of remembered old objects, through young objects only
YSucc(S) == S \cup {x \in ({fld[o][f] : o \in S, f \in Fld} \ {0}) : Young(x)}
RECURSIVE YClose(_)
YClose(S) == LET T == YSucc(S) IN IF T = S THEN S ELSE YClose(T)
MinorRoots == {x \in RootSet : Young(x)} \cup {x \in ({fld[o][f] : o \in remset, f \in Fld} \ {0}) : Young(x)}
MinorLive == YClose(MinorRoots)

Bump == ops' = ops + 1
L(op, a, b, c) == last' = [op |-> op, a |-> a, b |-> b, c |-> c]
Alloc(r) == /\ ops < MAXOPS /\ \E o \in Obj : /\ o \notin alive /\ \A p \in Obj : p < o => p \in alive
                               /\ alive' = alive \cup {o} /\ space' = [space EXCEPT ![o] = "fresh"]
                               /\ fld' = [fld EXCEPT ![o] = [f \in Fld |-> 0]]
                               /\ rem' = [rem EXCEPT ![o] = TRUE]      \* young objects are born remembered
                               /\ root' = [root EXCEPT ![r] = o] /\ L("alloc", r, o, 0)
            /\ Bump /\ UNCHANGED remset
Write(r1, f, r2) == /\ ops < MAXOPS /\ root[r1] # 0
                    /\ LET a == root[r1] b == root[r2] IN
                       /\ fld' = [fld EXCEPT ![a][f] = b]
                       /\ IF ~rem[a] /\ MUT # "nobarrier" THEN rem' = [rem EXCEPT ![a] = TRUE] /\ remset' = remset \cup {a}
                          ELSE UNCHANGED <<rem, remset>>
                    /\ Bump /\ UNCHANGED <<alive, space, root>> /\ L("write", r1, f, r2)
Read(r1, f, r2) == /\ ops < MAXOPS /\ root[r1] # 0 /\ root' = [root EXCEPT ![r2] = fld[root[r1]][f]]
                   /\ Bump /\ UNCHANGED <<alive, space, fld, rem, remset>> /\ L("read", r1, f, r2)
Drop(r) == /\ ops < MAXOPS /\ root[r] # 0 /\ root' = [root EXCEPT ![r] = 0] /\ Bump /\ UNCHANGED <<alive, space, fld, rem, remset>> /\ L("drop", r, 0, 0)
Minor == /\ ops < MAXOPS
         /\ LET live == MinorLive
                dead == {o \in alive : Young(o) /\ o \notin live}
                newspace == [o \in Obj |-> IF o \in dead THEN "free"
                                           ELSE IF o \in live /\ space[o] = "surv" THEN "old"
                                           ELSE IF o \in live /\ space[o] = "fresh" THEN "surv" ELSE space[o]]
                promoted == {o \in live : space[o] = "surv"}
                refsYoung(o) == \E f \in Fld : fld[o][f] # 0 /\ newspace[fld[o][f]] \in {"fresh", "surv"}
                newrem == {o \in promoted : refsYoung(o)}
            IN /\ alive' = alive \ dead /\ space' = newspace
               /\ rem' = [o \in Obj |-> IF o \in promoted THEN (IF MUT = "keeprem" THEN rem[o] ELSE o \in newrem) ELSE IF o \in dead THEN FALSE ELSE rem[o]]
               /\ remset' = remset \cup newrem
               /\ fld' = [o \in Obj |-> IF o \in dead THEN [f \in Fld |-> 0] ELSE fld[o]]
         /\ Bump /\ UNCHANGED root /\ L("minor", 0, 0, 0)
Full == /\ ops < MAXOPS
        /\ LET live == Reach dead == alive \ live IN
           /\ alive' = live
           /\ space' = [o \in Obj |-> IF o \in dead THEN "free" ELSE IF o \in live THEN "old" ELSE space[o]]
           /\ rem' = [o \in Obj |-> FALSE] /\ remset' = {}
           /\ fld' = [o \in Obj |-> IF o \in dead THEN [f \in Fld |-> 0] ELSE fld[o]]
        /\ Bump /\ UNCHANGED root /\ L("full", 0, 0, 0)
Next == \/ \E r \in Slot : Alloc(r) \/ Drop(r)
        \/ \E r1, r2 \in Slot, f \in Fld : Write(r1, f, r2) \/ Read(r1, f, r2)
        \/ Minor \/ Full
Spec == Init /\ [][Next]_vars
NoDangling == \A o \in Reach : o \in alive
RemsetComplete == \A o \in alive : space[o] = "old" => \A f \in Fld : (fld[o][f] # 0 /\ Young(fld[o][f])) => o \in remset
RemBitConsistent == \A o \in alive : space[o] = "old" => (rem[o] <=> o \in remset)
YoungBornRemembered == \A o \in alive : Young(o) => rem[o]
\* property layer (AbstractCollect): a collection never changes what the program can observe
GraphPreserved == [][last'.op \in {"minor", "full"} => (root' = root /\ \A o \in Reach : fld'[o] = fld[o] /\ o \in alive')]_vars
\* a full collection reclaims everything unreachable
GarbageReclaimed == [][last'.op = "full" => alive' = Reach]_vars
\* nothing reachable is ever reclaimed, whatever the collector's bookkeeping (what a lost object would violate)
NoLostObject == \A o \in Reach : space[o] # "free"
=============================================================================
