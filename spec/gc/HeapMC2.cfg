CONSTANTS NO = 5
NR = 2
NF = 2
MAXOPS = 7
MUT = "none"
SPECIFICATION Spec
VIEW view
INVARIANTS NoDangling RemsetComplete RemBitConsistent YoungBornRemembered NoLostObject
PROPERTIES GraphPreserved GarbageReclaimed
CHECK_DEADLOCK FALSE
