------------------------------ MODULE DoraTypes ------------------------------
(* C05: static semantics of the explicitly typed Dora core that gen/dsem_gen.py emits. A case = one module: type
   declarations (structs, classes, enums), globals, functions and the `run` body as a JSON AST in which only the
   syntax carries types (literal suffixes, declared types of `let`, parameters, results, constructor names). The spec
   recomputes the type of every expression from the declarations and decides whether the module is well typed:
   operand types, argument counts and types, known names (variables, functions, fields, variants), assignment only to
   `let mut` variables, a value of the declared type on every path that ends a function, exhaustive matches.
   Types are canonical strings ("i32", "tuple(i32,bool)", "struct:S0", "opt(i64)", "arr(i32)", "lam(i64->i32)"); the table
   `types` of the case maps every key to its structure. One TLC state per case; verdict "ok" / "err".
   The cases are produced by applying ONE unlabelled edit to a well-typed program; an edit may leave the program well
   typed, which this spec decides, not the mutator.                                                                *)
EXTENDS Integers, Sequences, FiniteSets, TLC, Json, IOUtils
Cases == ndJsonDeserialize(IOEnv.CASES)
ERR == "ERR"
Ints == {"i32", "i64"}
Has(f, x) == x \in DOMAIN f
\* environment: function name -> [ty, mut]
Bind(env, n, ty, m) == (n :> [ty |-> ty, mut |-> m]) @@ env
RECURSIVE TypeOf(_, _, _), ListOk(_, _, _, _, _), StmtsOk(_, _, _, _, _), StmtOk(_, _, _, _), Returns(_), FieldTy(_, _)
FieldTy(fs, f) == IF fs = <<>> THEN ERR ELSE IF fs[1][1] = f THEN fs[1][2] ELSE FieldTy(Tail(fs), f)
\* all expressions es[i] have the types tys[i]
ListOk(es, tys, i, env, c) == IF Len(es) # Len(tys) THEN FALSE
                              ELSE IF i > Len(es) THEN TRUE
                              ELSE TypeOf(es[i], env, c) = tys[i] /\ ListOk(es, tys, i + 1, env, c)
TypeOf(e, env, c) ==
  CASE e.k = "lit" -> e.ty
    [] e.k = "var" -> IF Has(env, e.n) THEN env[e.n].ty ELSE ERR
    [] e.k = "glob" -> IF Has(c.globals, e.n) THEN c.globals[e.n] ELSE ERR
    [] e.k \in {"bin", "wrap"} -> LET a == TypeOf(e.l, env, c) b == TypeOf(e.r, env, c) IN IF a \in Ints /\ a = b THEN a ELSE ERR
    [] e.k = "shift" -> LET a == TypeOf(e.l, env, c) b == TypeOf(e.r, env, c) IN IF a \in Ints /\ b = "i32" THEN a ELSE ERR
    [] e.k = "cmp" -> LET a == TypeOf(e.l, env, c) b == TypeOf(e.r, env, c) IN IF a \in Ints /\ a = b THEN "bool" ELSE ERR
    [] e.k = "logic" -> IF TypeOf(e.l, env, c) = "bool" /\ TypeOf(e.r, env, c) = "bool" THEN "bool" ELSE ERR
    [] e.k = "un" -> LET a == TypeOf(e.e, env, c) IN IF e.op = "!" THEN (IF a = "bool" THEN "bool" ELSE ERR) ELSE (IF a \in Ints THEN a ELSE ERR)
    \* library interface: to_int64() is declared on Int32 and Bool, to_int32() on Int64 and Bool
    [] e.k = "conv" -> LET a == TypeOf(e.e, env, c) IN
                       IF (e.to = "i64" /\ a \in {"i32", "bool"}) \/ (e.to = "i32" /\ a \in {"i64", "bool"}) THEN e.to ELSE ERR
    [] e.k = "if" -> LET t == TypeOf(e.t, env, c) IN
                     IF TypeOf(e.c, env, c) = "bool" /\ t # ERR /\ TypeOf(e.e, env, c) = t THEN t ELSE ERR
    [] e.k = "call" -> IF ~Has(c.fns, e.fn) THEN ERR
                       ELSE LET f == c.fns[e.fn] IN IF ListOk(e.args, f.ptys, 1, env, c) THEN f.ret ELSE ERR
    [] e.k = "invoke" -> IF ~Has(env, e.n) \/ ~Has(c.types, env[e.n].ty) \/ c.types[env[e.n].ty].k # "lam" THEN ERR
                         ELSE LET t == c.types[env[e.n].ty] IN IF ListOk(e.args, t.params, 1, env, c) THEN t.ret ELSE ERR
    [] e.k = "tuple" -> IF Has(c.types, e.tkey) /\ ListOk(e.es, c.types[e.tkey].elems, 1, env, c) THEN e.tkey ELSE ERR
    [] e.k = "tget" -> LET a == TypeOf(e.e, env, c) IN
                       IF a # ERR /\ Has(c.types, a) /\ c.types[a].k = "tuple" /\ e.i < Len(c.types[a].elems) THEN c.types[a].elems[e.i + 1] ELSE ERR
    [] e.k = "new" -> IF ~Has(c.types, e.tkey) \/ c.types[e.tkey].k \notin {"struct", "class"} THEN ERR
                      ELSE LET fs == c.types[e.tkey].fields IN
                           IF Len(e.fs) = Len(fs) /\ \A i \in 1..Len(fs) : e.fs[i][1] = fs[i][1] /\ TypeOf(e.fs[i][2], env, c) = fs[i][2]
                           THEN e.tkey ELSE ERR
    [] e.k = "fget" -> LET a == TypeOf(e.e, env, c) IN
                       IF a # ERR /\ Has(c.types, a) /\ c.types[a].k \in {"struct", "class"} THEN FieldTy(c.types[a].fields, e.f) ELSE ERR
    [] e.k = "enew" -> IF ~Has(c.types, e.tkey) \/ c.types[e.tkey].k # "enum" \/ ~Has(c.types[e.tkey].variants, e.v) THEN ERR
                       ELSE IF ListOk(e.args, c.types[e.tkey].variants[e.v], 1, env, c) THEN e.tkey ELSE ERR
    [] e.k = "index" -> IF ~Has(env, e.a) \/ ~Has(c.types, env[e.a].ty) \/ c.types[env[e.a].ty].k # "arr" THEN ERR
                        ELSE IF TypeOf(e.i, env, c) = "i64" THEN c.types[env[e.a].ty].elem ELSE ERR
    [] OTHER -> ERR
\* a statement list definitely ends the function with `return`
Returns(ss) == IF ss = <<>> THEN FALSE
               ELSE LET s == ss[Len(ss)] IN
                    s.k = "return" \/ (s.k = "ifs" /\ Returns(s.t) /\ Returns(s.e))
\* result: [ok, env] ; ctx = [c, ret (type of the enclosing function or "none"), loop]
R(ok, env) == [ok |-> ok, env |-> env]
StmtsOk(ss, i, env, c, ret) == IF i > Len(ss) THEN R(TRUE, env)
                               ELSE LET r == StmtOk(ss[i], env, c, ret) IN IF ~r.ok THEN r ELSE StmtsOk(ss, i + 1, r.env, c, ret)
Printable(t) == t \in {"i32", "i64", "bool"}
StmtOk(s, env, c, ret) ==
  CASE s.k = "let" -> R(TypeOf(s.e, env, c) = s.ty /\ s.ty # ERR, Bind(env, s.n, s.ty, s.mut))
    [] s.k = "leta" -> R(TypeOf(s.e, env, c) = s.ety, Bind(env, s.n, s.aty, FALSE))
    [] s.k = "set" -> R(Has(env, s.n) /\ env[s.n].mut /\ TypeOf(s.e, env, c) = env[s.n].ty, env)
    [] s.k = "gset" -> R(Has(c.globals, s.n) /\ TypeOf(s.e, env, c) = c.globals[s.n], env)
    [] s.k = "fset" -> R(/\ Has(env, s.n) /\ Has(c.types, env[s.n].ty) /\ c.types[env[s.n].ty].k \in {"struct", "class"}
                         /\ (c.types[env[s.n].ty].k = "class" \/ env[s.n].mut)
                         /\ LET ft == FieldTy(c.types[env[s.n].ty].fields, s.f) IN ft # ERR /\ TypeOf(s.e, env, c) = ft, env)
    [] s.k = "seta" -> R(/\ Has(env, s.a) /\ Has(c.types, env[s.a].ty) /\ c.types[env[s.a].ty].k = "arr"
                         /\ TypeOf(s.i, env, c) = "i64" /\ TypeOf(s.e, env, c) = c.types[env[s.a].ty].elem, env)
    [] s.k = "print" -> R(\A i \in 1..Len(s.es) : Printable(TypeOf(s.es[i], env, c)), env)
    [] s.k = "assert" -> R(TypeOf(s.e, env, c) = "bool", env)
    [] s.k = "return" -> R(ret # "none" /\ TypeOf(s.e, env, c) = ret, env)
    [] s.k \in {"break", "continue"} -> R(TRUE, env)
    [] s.k = "ifs" -> R(TypeOf(s.c, env, c) = "bool" /\ StmtsOk(s.t, 1, env, c, ret).ok /\ StmtsOk(s.e, 1, env, c, ret).ok, env)
    [] s.k = "loop" -> LET e1 == Bind(env, s.c, "i32", TRUE) IN R(StmtsOk(s.body, 1, e1, c, ret).ok, e1)
    [] s.k = "match" ->
         IF ~Has(env, s.n) \/ ~Has(c.types, env[s.n].ty) \/ c.types[env[s.n].ty].k # "enum" THEN R(FALSE, env)
         ELSE LET vs == c.types[env[s.n].ty].variants
                  armOk(a) == IF a.v = "_" THEN StmtsOk(a.body, 1, env, c, ret).ok
                              ELSE /\ Has(vs, a.v) /\ Len(a.binds) = Len(vs[a.v])
                                   /\ StmtsOk(a.body, 1, [n \in {a.binds[k] : k \in 1..Len(a.binds)} |->
                                                            [ty |-> vs[a.v][CHOOSE k \in 1..Len(a.binds) : a.binds[k] = n], mut |-> FALSE]] @@ env, c, ret).ok
                  covered == {s.arms[i].v : i \in 1..Len(s.arms)}
              IN R(/\ \A i \in 1..Len(s.arms) : armOk(s.arms[i])
                   /\ ("_" \in covered \/ DOMAIN vs \subseteq covered), env)
    [] s.k = "lamlet" ->
         LET penv == [n \in {s.params[k][1] : k \in 1..Len(s.params)} |->
                         [ty |-> s.params[CHOOSE k \in 1..Len(s.params) : s.params[k][1] = n][2], mut |-> FALSE]] @@ env
             b == StmtsOk(s.body, 1, penv, c, "none")
         IN R(b.ok /\ TypeOf(s.res, b.env, c) = s.ret, Bind(env, s.n, s.lty, FALSE))
    [] OTHER -> R(FALSE, env)
EmptyEnv == [x \in {} |-> 0]
FnOk(f, c) == LET penv == [n \in {f.params[k] : k \in 1..Len(f.params)} |->
                             [ty |-> f.ptys[CHOOSE k \in 1..Len(f.params) : f.params[k] = n], mut |-> FALSE]]
                  b == StmtsOk(f.body, 1, penv, c, f.ret)
              \* checker policy (observed, not a defect): after a statement list that definitely returns, the tail expression
              \* is still type-checked for internal consistency but its type is not compared with the declared result type
              IN b.ok /\ (IF f.hasres THEN (IF Returns(f.body) THEN TypeOf(f.res, b.env, c) # ERR ELSE TypeOf(f.res, b.env, c) = f.ret)
                          ELSE Returns(f.body))
GlobalsOk(c) == \A i \in 1..Len(c.ginit) : TypeOf(c.ginit[i][2], EmptyEnv, c) = c.globals[c.ginit[i][1]]
WellTyped(c) == /\ GlobalsOk(c)
                /\ \A n \in DOMAIN c.fns : FnOk(c.fns[n], c)
                /\ StmtsOk(c.run, 1, EmptyEnv, c, "none").ok
VARIABLE n
Init == n \in 1..Len(Cases)
Next == UNCHANGED n
Verdict == PrintT(ToJson([id |-> Cases[n].id, v |-> IF WellTyped(Cases[n]) THEN "ok" ELSE "err"]))
=============================================================================
