CONSTANTS Types = {"bool", "e3", "opt", "pair", "p", "int"}
Rows = 2
Depth = 2
Dense = FALSE
WithAlts = FALSE
INIT Init
NEXT Next
INVARIANTS UnreachableMonotone ExhaustiveNeverFallsThrough EmitRow
CHECK_DEADLOCK FALSE
