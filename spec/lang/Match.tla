------------------------------- MODULE Match -------------------------------
(* C11: pattern semantics by brute force over small finite scrutinee types.
   Types:  bool | e3 (enum E3 {A,B,C}) | opt (Option[Bool]) | pair ((Bool, E3)) | p (enum P {X(Bool), Y, Z(Bool,Bool)})
           | int (Int32 with the literal patterns 0 and 1; values abstracted to {0, 1, other})
   Patterns: wildcard/binding, constructor with sub-patterns (depth <= Depth), literal, and a top-level alternative p|q.
   An arm = [p |-> pattern, g |-> guarded?].
     Exhaustive(arms)      every value is matched by some UNGUARDED arm
     Unreachable(arms, i)  every value arm i matches is already matched by an earlier unguarded arm
     UselessAlt(arms,i,k)  alternative k of arm i adds nothing over earlier unguarded arms and earlier alternatives
     FirstMatch(arms,v,gs) the first arm whose pattern matches v and whose guard (if any) holds under valuation gs
   Each (type, matrix) is one TLC state; the invariant emits the verdict row that the harness compares with the
   real checker's diagnostics and with the arm chosen at run time by compiled code.                                *)
EXTENDS Integers, Sequences, FiniteSets, TLC, Json, SequencesExt
CONSTANTS Types, Rows, Depth, WithAlts, Dense
V(c, a) == [c |-> c, a |-> a]
Bools == {V("true", <<>>), V("false", <<>>)}
E3 == {V("A", <<>>), V("B", <<>>), V("C", <<>>)}
Values(ty) == CASE ty = "bool" -> Bools
                [] ty = "e3" -> E3
                [] ty = "opt" -> {V("None", <<>>)} \cup {V("Some", <<b>>) : b \in Bools}
                [] ty = "pair" -> {V("tuple", <<b, e>>) : b \in Bools, e \in E3}
                [] ty = "p" -> {V("X", <<b>>) : b \in Bools} \cup {V("Y", <<>>)} \cup {V("Z", <<b1, b2>>) : b1 \in Bools, b2 \in Bools}
                [] ty = "int" -> {V("0", <<>>), V("1", <<>>), V("other", <<>>)}
                \* dense integer matches (jump-table lowering): literals 0..3 of Int64 / Int32; every other tag is some value
                \* that equals no literal: neighbours (m1, 4), values whose low 32 bits alias a literal (lo<k> = k - 2^32,
                \* hi<k> = k + 2^32; for Int32 just far values), and the ends of the range
                [] ty \in {"i64d", "i32d"} -> {V(t, <<>>) : t \in {"0", "1", "2", "3", "m1", "4", "lo0", "lo1", "lo3", "hi0", "hi2", "min", "max"}}
\* constructors that can be written as patterns, with argument types
Ctors(ty) == CASE ty = "bool" -> {<<"true", <<>>>>, <<"false", <<>>>>}
               [] ty = "e3" -> {<<"A", <<>>>>, <<"B", <<>>>>, <<"C", <<>>>>}
               [] ty = "opt" -> {<<"None", <<>>>>, <<"Some", <<"bool">>>>}
               [] ty = "pair" -> {<<"tuple", <<"bool", "e3">>>>}
               [] ty = "p" -> {<<"X", <<"bool">>>>, <<"Y", <<>>>>, <<"Z", <<"bool", "bool">>>>}
               [] ty = "int" -> {<<"0", <<>>>>, <<"1", <<>>>>}
               [] ty \in {"i64d", "i32d"} -> {<<"0", <<>>>>, <<"1", <<>>>>, <<"2", <<>>>>, <<"3", <<>>>>}
Wild == [k |-> "wild"]
RECURSIVE Pats(_, _)
Pats(ty, d) == {Wild} \cup
   IF d = 0 THEN {} ELSE
   UNION {  LET name == ct[1] tys == ct[2] IN
            IF Len(tys) = 0 THEN {[k |-> "ctor", c |-> name, a |-> <<>>]}
            ELSE IF Len(tys) = 1 THEN {[k |-> "ctor", c |-> name, a |-> <<p>>] : p \in Pats(tys[1], d-1)}
            ELSE {[k |-> "ctor", c |-> name, a |-> <<p, q>>] : p \in Pats(tys[1], d-1), q \in Pats(tys[2], d-1)}
          : ct \in Ctors(ty) }
\* top-level patterns: plain, or (if WithAlts) an alternative of two shallow patterns
TopPats(ty) == Pats(ty, Depth) \cup
               (IF WithAlts THEN {[k |-> "alt", alts |-> <<p, q>>] : p \in Pats(ty, 1), q \in Pats(ty, 1)} ELSE {})
RECURSIVE Matches(_, _)
Matches(p, v) == IF p.k = "wild" THEN TRUE
                 ELSE IF p.k = "alt" THEN \E i \in 1..Len(p.alts) : Matches(p.alts[i], v)
                 ELSE p.c = v.c /\ \A i \in 1..Len(p.a) : Matches(p.a[i], v.a[i])
CoveredBefore(arms, i, v) == \E j \in 1..(i-1) : ~arms[j].g /\ Matches(arms[j].p, v)
Exhaustive(ty, arms) == \A v \in Values(ty) : \E i \in 1..Len(arms) : ~arms[i].g /\ Matches(arms[i].p, v)
Unreachable(ty, arms, i) == \A v \in Values(ty) : Matches(arms[i].p, v) => CoveredBefore(arms, i, v)
UselessAlt(ty, arms, i, k) ==
   arms[i].p.k = "alt" /\
   \A v \in Values(ty) : Matches(arms[i].p.alts[k], v) =>
        (CoveredBefore(arms, i, v) \/ \E k2 \in 1..(k-1) : Matches(arms[i].p.alts[k2], v))
GuardSets(arms) == SUBSET {i \in 1..Len(arms) : arms[i].g}
FirstMatch(arms, v, gs) == LET ok == {i \in 1..Len(arms) : Matches(arms[i].p, v) /\ (~arms[i].g \/ i \in gs)}
                           IN IF ok = {} THEN 0 ELSE CHOOSE i \in ok : \A j \in ok : i <= j
ArmSet(ty) == [p : TopPats(ty), g : BOOLEAN]
Matrices(ty) == UNION {[1..n -> ArmSet(ty)] : n \in 1..Rows}

VARIABLES ty, m
\* dense family: at least three distinct literal arms, at most one guard, the last arm an unguarded wildcard (accepted matches)
Lits(mm) == {mm[i].p.c : i \in {j \in 1..Len(mm) : mm[j].p.k = "ctor"}}
DenseOK(mm) == /\ Cardinality(Lits(mm)) >= 3 /\ Cardinality({i \in 1..Len(mm) : mm[i].g}) <= 1
               /\ mm[Len(mm)].p.k = "wild" /\ ~mm[Len(mm)].g
Init == ty \in Types /\ m \in Matrices(ty) /\ (Dense => DenseOK(m))
Next == UNCHANGED <<ty, m>>
\* sanity theorems of the spec itself (checked on every state)
UnreachableMonotone == \A i \in 1..Len(m) : Unreachable(ty, m, i) => \A v \in Values(ty) : \A gs \in GuardSets(m) : FirstMatch(m, v, gs) # i \/ m[i].g
ExhaustiveNeverFallsThrough == Exhaustive(ty, m) => \A v \in Values(ty) : \A gs \in GuardSets(m) : FirstMatch(m, v, gs) # 0
Table == LET vs == SetToSeq(Values(ty)) gss == SetToSeq(GuardSets(m)) IN
         [i \in 1..Len(vs) |-> [v |-> vs[i], arms |-> [j \in 1..Len(gss) |-> [gs |-> SetToSeq(gss[j]), arm |-> FirstMatch(m, vs[i], gss[j])]]]]
Verdict == [ty |-> ty, arms |-> m, exh |-> Exhaustive(ty, m),
            unreach |-> SetToSeq({i \in 1..Len(m) : Unreachable(ty, m, i)}),
            uselessalt |-> SetToSeq({<<i, k>> \in (1..Len(m)) \X (1..2) : m[i].p.k = "alt" /\ ~Unreachable(ty, m, i) /\ UselessAlt(ty, m, i, k)}),
            table |-> IF Exhaustive(ty, m) THEN Table ELSE <<>>]
EmitRow == PrintT(ToJson(Verdict))
=============================================================================
