------------------------------ MODULE DoraFloat ------------------------------
(* C01 (floating point fragment): the meaning of Float32 / Float64 operations on an exactly representable sub-domain.

   A float is   [c |-> "nan"]   |   [c |-> "inf", s |-> 0|1]   |   [c |-> "fin", s |-> 0|1, n |-> Nat]
   where a finite value is (-1)^s * n / 8 (three binary fraction digits; n = 0 is the signed zero). Every operation
   below is the IEEE-754 round-to-nearest-even operation RESTRICTED to arguments whose exact result is again of this
   form; otherwise the result is "unrep" and the case is discarded by the harness (never guessed). Within the
   domain no rounding ever happens, so the definitions are the mathematically exact ones plus the IEEE rules for
   NaN, infinities and the sign of zero.

   One TLC state = one row (kind, op, width, operands); the invariant Emit prints the expected observation of each
   row; gen/float_render.py turns the rows into Dora programs (operands supplied at run time through arrays, and as
   literals so that compile-time folding is exercised too), and checks/c01.py compares what the executables of
   both code generators print. Observations are bit patterns (sign, biased exponent, fraction split in two
   halves), never decimal renderings.                                                                            *)
EXTENDS Integers, Sequences, FiniteSets, TLC, Json

CONSTANTS Numerators,      \* the finite magnitudes n (value n/8) of the operand set
          Kinds            \* which row families to enumerate

NaN == [c |-> "nan", s |-> 0, n |-> 0]            \* (uniform records; s and n are meaningless for NaN / unrep, n for inf)
Inf(s) == [c |-> "inf", s |-> s, n |-> 0]
Fin(s, n) == [c |-> "fin", s |-> s, n |-> n]
Unrep == [c |-> "unrep", s |-> 0, n |-> 0]

Values == {NaN} \cup {Inf(s) : s \in {0, 1}} \cup {Fin(s, n) : s \in {0, 1}, n \in Numerators \cup {0}}
IsNaN(a) == a.c = "nan"
IsZero(a) == a.c = "fin" /\ a.n = 0
Xor(s, t) == IF s = t THEN 0 ELSE 1

(* ---------------------------------------------------------------- comparison *)
\* "lt" "eq" "gt" or "un" (unordered: an operand is NaN)
Signed(a) == IF a.s = 1 THEN 0 - a.n ELSE a.n
Cmp(a, b) ==
    IF IsNaN(a) \/ IsNaN(b) THEN "un"
    ELSE IF a.c = "inf" /\ b.c = "inf" THEN (IF a.s = b.s THEN "eq" ELSE IF a.s = 1 THEN "lt" ELSE "gt")
    ELSE IF a.c = "inf" THEN (IF a.s = 1 THEN "lt" ELSE "gt")
    ELSE IF b.c = "inf" THEN (IF b.s = 1 THEN "gt" ELSE "lt")
    ELSE IF Signed(a) < Signed(b) THEN "lt" ELSE IF Signed(a) > Signed(b) THEN "gt" ELSE "eq"      \* -0 = +0

CmpOps == {"<", "<=", ">", ">=", "==", "!="}
Holds(op, a, b) ==
    LET r == Cmp(a, b) IN
    CASE op = "<"  -> r = "lt"
      [] op = "<=" -> r \in {"lt", "eq"}
      [] op = ">"  -> r = "gt"
      [] op = ">=" -> r \in {"gt", "eq"}
      [] op = "==" -> r = "eq"
      [] op = "!=" -> r # "eq"                       \* true when unordered

(* ---------------------------------------------------------------- arithmetic *)
Neg(a) == IF IsNaN(a) THEN NaN ELSE [a EXCEPT !.s = 1 - a.s]
Abs(a) == IF IsNaN(a) THEN NaN ELSE [a EXCEPT !.s = 0]

Add(a, b) ==
    IF IsNaN(a) \/ IsNaN(b) THEN NaN
    ELSE IF a.c = "inf" /\ b.c = "inf" THEN (IF a.s = b.s THEN a ELSE NaN)
    ELSE IF a.c = "inf" THEN a
    ELSE IF b.c = "inf" THEN b
    ELSE LET sum == Signed(a) + Signed(b) IN
         IF sum = 0 THEN Fin(IF a.s = 1 /\ b.s = 1 THEN 1 ELSE 0, 0)      \* x + (-x) = +0; (-0) + (-0) = -0
         ELSE IF sum < 0 THEN Fin(1, 0 - sum) ELSE Fin(0, sum)
Sub(a, b) == Add(a, Neg(b))

Mul(a, b) ==
    IF IsNaN(a) \/ IsNaN(b) THEN NaN
    ELSE IF (a.c = "inf" /\ IsZero(b)) \/ (b.c = "inf" /\ IsZero(a)) THEN NaN
    ELSE IF a.c = "inf" \/ b.c = "inf" THEN Inf(Xor(a.s, b.s))
    ELSE IF (a.n * b.n) % 8 # 0 THEN Unrep
    ELSE Fin(Xor(a.s, b.s), (a.n * b.n) \div 8)

Div(a, b) ==
    IF IsNaN(a) \/ IsNaN(b) THEN NaN
    ELSE IF a.c = "inf" /\ b.c = "inf" THEN NaN
    ELSE IF a.c = "inf" THEN Inf(Xor(a.s, b.s))
    ELSE IF b.c = "inf" THEN Fin(Xor(a.s, b.s), 0)
    ELSE IF b.n = 0 THEN (IF a.n = 0 THEN NaN ELSE Inf(Xor(a.s, b.s)))
    ELSE IF (8 * a.n) % b.n # 0 THEN Unrep
    ELSE Fin(Xor(a.s, b.s), (8 * a.n) \div b.n)

BinOps == {"+", "-", "*", "/"}
Bin(op, a, b) == CASE op = "+" -> Add(a, b) [] op = "-" -> Sub(a, b) [] op = "*" -> Mul(a, b) [] op = "/" -> Div(a, b)

(* ---------------------------------------------------------------- rounding to integral values, conversion to integers *)
Q(a) == a.n \div 8
R(a) == a.n % 8
Integral(s, q) == Fin(s, 8 * q)
Round(mode, a) ==
    IF a.c # "fin" THEN a
    ELSE CASE mode = "round_to_zero"   -> Integral(a.s, Q(a))
           [] mode = "round_up"        -> Integral(a.s, IF a.s = 0 /\ R(a) > 0 THEN Q(a) + 1 ELSE Q(a))
           [] mode = "round_down"      -> Integral(a.s, IF a.s = 1 /\ R(a) > 0 THEN Q(a) + 1 ELSE Q(a))
           [] mode = "round_half_even" -> Integral(a.s, IF R(a) > 4 \/ (R(a) = 4 /\ Q(a) % 2 = 1) THEN Q(a) + 1 ELSE Q(a))
RoundModes == {"round_to_zero", "round_up", "round_down", "round_half_even"}

\* conversion to an integer type truncates toward zero; defined here for finite values only
ToInt(a) == IF a.c = "fin" THEN (IF a.s = 1 THEN 0 - Q(a) ELSE Q(a)) ELSE "undefined"

\* square root where it is exact: n/8 = (m/8)^2  <=>  8 n = m^2
Sqrt(a) ==
    IF IsNaN(a) THEN NaN
    ELSE IF IsZero(a) THEN a                              \* sqrt(-0) = -0
    ELSE IF a.s = 1 THEN NaN
    ELSE IF a.c = "inf" THEN a
    ELSE LET ms == {m \in 1..(8 * a.n) : m * m = 8 * a.n} IN
         IF ms = {} THEN Unrep ELSE Fin(0, CHOOSE m \in ms : TRUE)

Un(op, a) == CASE op = "neg" -> Neg(a) [] op = "abs" -> Abs(a) [] op = "sqrt" -> Sqrt(a) [] OTHER -> Round(op, a)
UnOps == {"neg", "abs", "sqrt"} \cup RoundModes

\* the total order of sorts_as (sign-magnitude bit patterns): -inf < negatives < -0 < +0 < positives < +inf; NaN excluded
Key(a) == IF a.c = "inf" THEN (IF a.s = 1 THEN -2000000 ELSE 2000000)
          ELSE IF a.s = 1 THEN (0 - a.n) * 2 - 1 ELSE a.n * 2
SortsAs(a, b) == IF Key(a) < Key(b) THEN -1 ELSE IF Key(a) = Key(b) THEN 0 ELSE 1

(* ---------------------------------------------------------------- bit patterns *)
RECURSIVE Log2(_)
Log2(n) == IF n <= 1 THEN 0 ELSE 1 + Log2(n \div 2)
RECURSIVE Pow2(_)
Pow2(k) == IF k = 0 THEN 1 ELSE 2 * Pow2(k - 1)

\* <<sign, biased exponent, upper fraction bits, lower fraction bits>>; width 64: fraction 52 = 26 + 26, width 32: 23 = 23 + 0
Bits(w, a) ==
    LET bias == IF w = 64 THEN 1023 ELSE 127
        emax == IF w = 64 THEN 2047 ELSE 255
        top  == IF w = 64 THEN 26 ELSE 23
    IN IF a.c = "inf" THEN <<a.s, emax, 0, 0>>
       ELSE IF a.n = 0 THEN <<a.s, 0, 0, 0>>
       ELSE LET L == Log2(a.n) IN <<a.s, L - 3 + bias, (a.n - Pow2(L)) * Pow2(top - L), 0>>
Obs(w, v) == IF v.c = "nan" THEN "nan" ELSE IF v.c = "unrep" THEN "unrep" ELSE Bits(w, v)

(* ---------------------------------------------------------------- rows *)
Widths == {32, 64}
Rows ==
    (IF "cmp" \in Kinds THEN {[kind |-> "cmp", op |-> op, w |-> w, a |-> a, b |-> b] : op \in CmpOps, w \in Widths, a \in Values, b \in Values} ELSE {})
    \cup (IF "bin" \in Kinds THEN {[kind |-> "bin", op |-> op, w |-> w, a |-> a, b |-> b] : op \in BinOps, w \in Widths, a \in Values, b \in Values} ELSE {})
    \cup (IF "un" \in Kinds THEN {[kind |-> "un", op |-> op, w |-> w, a |-> a, b |-> NaN] : op \in UnOps, w \in Widths, a \in Values} ELSE {})
    \cup (IF "conv" \in Kinds THEN {[kind |-> "conv", op |-> op, w |-> w, a |-> a, b |-> NaN] :
                                     op \in {"to_int32", "to_int64", "is_nan", "widen_narrow"}, w \in Widths, a \in Values} ELSE {})
    \cup (IF "sorts" \in Kinds THEN {[kind |-> "sorts", op |-> "sorts_as", w |-> w, a |-> a, b |-> b] :
                                     w \in Widths, a \in Values \ {NaN}, b \in Values \ {NaN}} ELSE {})

Expected(r) ==
    CASE r.kind = "cmp"   -> IF Holds(r.op, r.a, r.b) THEN 1 ELSE 0
      [] r.kind = "bin"   -> Obs(r.w, Bin(r.op, r.a, r.b))
      [] r.kind = "un"    -> Obs(r.w, Un(r.op, r.a))
      [] r.kind = "sorts" -> SortsAs(r.a, r.b)
      [] r.kind = "conv"  -> CASE r.op = "is_nan" -> (IF IsNaN(r.a) THEN 1 ELSE 0)
                               [] r.op \in {"to_int32", "to_int64"} -> ToInt(r.a)
                               [] r.op = "widen_narrow" -> Obs(IF r.w = 64 THEN 32 ELSE 64, r.a)   \* to the other width: exact

VARIABLE row
Init == row \in Rows
Next == UNCHANGED row
Spec == Init /\ [][Next]_row

Emit == PrintT(ToJson([kind |-> row.kind, op |-> row.op, w |-> row.w, a |-> row.a, b |-> row.b, exp |-> Expected(row)]))

(* ---------------------------------------------------------------- laws of the definitions themselves (every row is also a test of the spec) *)
Trichotomy == row.kind = "cmp" =>
    LET r == Cmp(row.a, row.b) IN
      /\ (Holds("<", row.a, row.b) <=> Holds(">", row.b, row.a))
      /\ (Holds("<=", row.a, row.b) <=> (Holds("<", row.a, row.b) \/ Holds("==", row.a, row.b)))
      /\ (Holds("!=", row.a, row.b) <=> ~Holds("==", row.a, row.b))
      /\ (r = "un" <=> (~Holds("<=", row.a, row.b) /\ ~Holds(">=", row.a, row.b)))
      /\ Cardinality({o \in {"<", "==", ">"} : Holds(o, row.a, row.b)}) = (IF r = "un" THEN 0 ELSE 1)
Commutes == row.kind = "bin" /\ row.op \in {"+", "*"} => Bin(row.op, row.a, row.b) = Bin(row.op, row.b, row.a)
NegInvolution == row.kind = "un" => Neg(Neg(row.a)) = row.a
RoundIsIntegral == row.kind = "un" /\ row.op \in RoundModes /\ row.a.c = "fin" =>
    LET v == Round(row.op, row.a) IN v.n % 8 = 0 /\ v.s = row.a.s
      /\ (IF v.n >= row.a.n THEN v.n - row.a.n ELSE row.a.n - v.n) < 8
SortsRefinesCmp == row.kind = "sorts" =>
    /\ (Cmp(row.a, row.b) = "lt" => SortsAs(row.a, row.b) = -1)
    /\ (Cmp(row.a, row.b) = "gt" => SortsAs(row.a, row.b) = 1)
    /\ (SortsAs(row.a, row.b) = 0 <=> row.a = row.b)
=============================================================================
