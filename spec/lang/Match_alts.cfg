CONSTANTS Types = {"bool", "e3", "opt", "int"}
Rows = 2
Depth = 1
Dense = FALSE
WithAlts = TRUE
INIT Init
NEXT Next
INVARIANTS UnreachableMonotone ExhaustiveNeverFallsThrough EmitRow
CHECK_DEADLOCK FALSE
