INIT Init
NEXT Next
INVARIANT Verdict
CHECK_DEADLOCK FALSE
