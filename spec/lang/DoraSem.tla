------------------------------ MODULE DoraSem ------------------------------
(* Executable semantics of the Dora core used by C01/C02/C14 (a definitional interpreter).
   A case = [id, ast, obs]: the JSON AST written by gen/dsem_gen.py and the observed run of the real
   executable (stdout tokens, exit status, trap report frames). TLC evaluates the semantics on the AST and
   judges the observation: one TLC state per case index.

   Integers are BoundaryInt pairs [c, o]: value = c * 2^(w-1) + o, c \in {-1,0,1}, |o| <= K (exact near 0 and
   near both ends of the range, independent of the width w); an operation whose exact result is not
   representable yields "unrep" and the case is DISCARDED (never guessed).

   Rules fixed here (DESIGN Appendix E): operands and arguments left to right, exactly once; && and || short
   circuit; checked arithmetic traps with OVERFLOW(109), x/0 and x%0 with DIV0(101), min/-1 and min%-1 with
   OVERFLOW; wrapping_* wrap; shifts trap with SHIFT(110) unless 0 <= amount < width; array index is checked
   against the length (INDEX 103); assert traps with ASSERT(102); structs/tuples/enums are values (copied),
   classes/arrays are references; a trap ends the program with status 101 + kind and a report naming the
   frames innermost first.                                                                                  *)
EXTENDS Integers, Sequences, FiniteSets, TLC, Json, IOUtils
Cases == ndJsonDeserialize(IOEnv.CASES)
K == 32767
\* ---------- BoundaryInt ----------
V(c, o) == [k |-> "v", c |-> c, o |-> o]
E(e) == [k |-> e]
IsVal(x) == x.k = "v"
Norm(k, p) == IF k = 0 THEN (IF p >= -K /\ p <= K THEN V(0, p) ELSE E("unrep"))
              ELSE IF k = 1 THEN (IF p >= 0 THEN E("ovf") ELSE IF p >= -K THEN V(1, p) ELSE E("unrep"))
              ELSE IF k = -1 THEN (IF p < 0 THEN E("ovf") ELSE IF p <= K THEN V(-1, p) ELSE E("unrep"))
              ELSE E("ovf")
Odd(k) == k % 2 # 0
WrapNorm(k, p) == IF Odd(k) THEN (IF p >= 0 THEN (IF p <= K THEN V(-1, p) ELSE E("unrep")) ELSE (IF p >= -K THEN V(1, p) ELSE E("unrep")))
                  ELSE (IF p >= -K /\ p <= K THEN V(0, p) ELSE E("unrep"))
Add(a, b) == Norm(a.c + b.c, a.o + b.o)
Sub(a, b) == Norm(a.c - b.c, a.o - b.o)
Neg(a) == Norm(-a.c, -a.o)
WAdd(a, b) == WrapNorm(a.c + b.c, a.o + b.o)
WSub(a, b) == WrapNorm(a.c - b.c, a.o - b.o)
Mul(a, b) == IF a.c # 0 /\ b.c # 0 THEN E("ovf") ELSE Norm(a.c * b.o + b.c * a.o, a.o * b.o)
WMul(a, b) == IF a.c # 0 /\ b.c # 0 THEN E("unrep") ELSE WrapNorm(a.c * b.o + b.c * a.o, a.o * b.o)
Abs(x) == IF x < 0 THEN -x ELSE x
Sgn(x) == IF x < 0 THEN -1 ELSE IF x > 0 THEN 1 ELSE 0
TDiv(x, y) == Sgn(x) * Sgn(y) * (Abs(x) \div Abs(y))
SignOf(a) == IF a.c # 0 THEN a.c ELSE Sgn(a.o)
M(a) == IF a.c = 1 THEN a.o ELSE -a.o
Div(a, b) == IF b.c = 0 /\ b.o = 0 THEN E("div0")
             ELSE IF a.c = 0 /\ b.c = 0 THEN Norm(0, TDiv(a.o, b.o))
             ELSE IF a.c = 0 THEN V(0, 0)
             ELSE IF b.c = 0 THEN (IF b.o = 1 THEN a ELSE IF b.o = -1 THEN Neg(a) ELSE E("unrep"))
             ELSE IF M(a) >= M(b) THEN V(0, SignOf(a) * SignOf(b)) ELSE V(0, 0)
Mod(a, b) == LET q == Div(a, b) IN
             IF q.k = "div0" THEN E("div0") ELSE IF q.k = "unrep" THEN E("unrep")
             ELSE IF q.k = "ovf" THEN E("ovf")
             ELSE LET m == Mul(q, b) IN IF ~IsVal(m) THEN E("unrep") ELSE Sub(a, m)
Lt(a, b) == a.c < b.c \/ (a.c = b.c /\ a.o < b.o)
Pow2(n) == 2 ^ n
Width(ty) == IF ty = "i32" THEN 32 ELSE 64
\* shifts on values near zero only (others: unrep); amount must be a plain small integer
Shift(op, ty, a, n) ==
   IF n.c # 0 \/ n.o < 0 \/ n.o >= Width(ty) THEN E("shift")
   ELSE IF n.o = 0 THEN a
   ELSE IF a.c # 0 THEN E("unrep")
   ELSE IF op = "<<" THEN (IF n.o <= 14 /\ Abs(a.o) * Pow2(n.o) <= K THEN V(0, a.o * Pow2(n.o)) ELSE E("unrep"))
   ELSE IF op = ">>" THEN (IF n.o > 20 THEN V(0, IF a.o < 0 THEN -1 ELSE 0)
                           ELSE V(0, IF a.o >= 0 THEN a.o \div Pow2(n.o) ELSE -((-a.o + Pow2(n.o) - 1) \div Pow2(n.o))))
   ELSE (IF a.o >= 0 THEN (IF n.o > 20 THEN V(0, 0) ELSE V(0, a.o \div Pow2(n.o))) ELSE E("unrep"))      \* >>> of a negative: huge
\* conversions: Int32 -> Int64 keeps the value; Int64 -> Int32 truncates (wraps)
Conv(to, a) == IF to = "i64" THEN (IF a.c = 0 THEN a ELSE E("unrep")) ELSE V(0, a.o)

\* ---------- machine state ----------
\* s = [env, heap, glob, out, cur, st, ctl, ret, stack, fns]
B(b) == [k |-> "b", b |-> b]
Ok(s) == s.st = "ok"
Running(s) == s.st = "ok" /\ s.ctl = ""
Trap(s, kind, line) == [s EXCEPT !.st = kind, !.trapline = line]
R(v, s) == [v |-> v, s |-> s]
Dummy == B(FALSE)
Has(f, x) == x \in DOMAIN f
Bind(env, n, v) == (n :> v) @@ env
Fields(fs, vals) == [i \in 1..Len(fs) |-> <<fs[i][1], vals[i]>>]
RECURSIVE GetF(_, _), SetF(_, _, _)
GetF(fl, f) == IF fl[1][1] = f THEN fl[1][2] ELSE GetF(Tail(fl), f)
SetF(fl, f, v) == IF fl[1][1] = f THEN << <<f, v>> >> \o Tail(fl) ELSE <<fl[1]>> \o SetF(Tail(fl), f, v)

RECURSIVE Eval(_, _), EvalList(_, _, _, _), Exec(_, _), ExecSeq(_, _, _), Loop(_, _), CallFn(_, _, _, _), Arms(_, _, _, _)
TrapOf(r) == CASE r.k = "ovf" -> "ovf" [] r.k = "div0" -> "div0" [] r.k = "shift" -> "shift" [] OTHER -> "unrep"
Arith(e, a, b) ==
   CASE e.k = "bin" -> (CASE e.op = "+" -> Add(a, b) [] e.op = "-" -> Sub(a, b) [] e.op = "*" -> Mul(a, b) [] e.op = "/" -> Div(a, b) [] e.op = "%" -> Mod(a, b))
     [] e.k = "wrap" -> (CASE e.op = "wrapping_add" -> WAdd(a, b) [] e.op = "wrapping_sub" -> WSub(a, b) [] e.op = "wrapping_mul" -> WMul(a, b))
     [] e.k = "shift" -> Shift(e.op, e.ty, a, b)
Cmp(op, a, b) == CASE op = "<" -> Lt(a, b) [] op = "<=" -> ~Lt(b, a) [] op = ">" -> Lt(b, a) [] op = ">=" -> ~Lt(a, b)
                   [] op = "==" -> (a.c = b.c /\ a.o = b.o) [] op = "!=" -> ~(a.c = b.c /\ a.o = b.o)
\* evaluate a list of expressions left to right; result [vs |-> Seq, s |-> state]
EvalList(es, i, acc, s) == IF i > Len(es) \/ ~Ok(s) THEN [vs |-> acc, s |-> s]
                           ELSE LET r == Eval(es[i], s) IN EvalList(es, i + 1, Append(acc, r.v), r.s)
Eval(e, s) ==
  IF ~Ok(s) THEN R(Dummy, s) ELSE
  CASE e.k = "lit" -> R(IF e.ty = "bool" THEN B(e.b) ELSE V(e.c, e.o), s)
    [] e.k = "var" -> R(s.env[e.n], s)
    [] e.k = "glob" -> R(s.glob[e.n], s)
    [] e.k \in {"bin", "wrap", "shift"} ->
         LET a == Eval(e.l, s) b == Eval(e.r, a.s) IN
         IF ~Ok(b.s) THEN b ELSE LET r == Arith(e, a.v, b.v) IN IF IsVal(r) THEN R(r, b.s) ELSE R(Dummy, Trap(b.s, TrapOf(r), e.line))
    [] e.k = "cmp" -> LET a == Eval(e.l, s) b == Eval(e.r, a.s) IN IF ~Ok(b.s) THEN b ELSE R(B(Cmp(e.op, a.v, b.v)), b.s)
    [] e.k = "logic" -> LET a == Eval(e.l, s) IN
         IF ~Ok(a.s) THEN a
         ELSE IF e.op = "&&" THEN (IF a.v.b THEN Eval(e.r, a.s) ELSE a) ELSE (IF a.v.b THEN a ELSE Eval(e.r, a.s))
    [] e.k = "un" -> LET a == Eval(e.e, s) IN
         IF ~Ok(a.s) THEN a ELSE IF e.op = "!" THEN R(B(~a.v.b), a.s)
         ELSE LET r == Neg(a.v) IN IF IsVal(r) THEN R(r, a.s) ELSE R(Dummy, Trap(a.s, TrapOf(r), e.line))
    [] e.k = "conv" -> LET a == Eval(e.e, s) IN
         IF ~Ok(a.s) THEN a ELSE LET r == Conv(e.ty, a.v) IN IF IsVal(r) THEN R(r, a.s) ELSE R(Dummy, Trap(a.s, "unrep", e.line))
    [] e.k = "if" -> LET c == Eval(e.c, s) IN IF ~Ok(c.s) THEN c ELSE IF c.v.b THEN Eval(e.t, c.s) ELSE Eval(e.e, c.s)
    [] e.k = "tuple" -> LET r == EvalList(e.es, 1, <<>>, s) IN R([k |-> "t", e |-> r.vs], r.s)
    [] e.k = "tget" -> LET a == Eval(e.e, s) IN IF ~Ok(a.s) THEN a ELSE R(a.v.e[e.i + 1], a.s)
    [] e.k = "new" -> LET r == EvalList([i \in 1..Len(e.fs) |-> e.fs[i][2]], 1, <<>>, s) IN
         IF ~Ok(r.s) THEN R(Dummy, r.s)
         ELSE IF e.ref THEN R([k |-> "r", a |-> Len(r.s.heap) + 1], [r.s EXCEPT !.heap = Append(@, [f |-> Fields(e.fs, r.vs)])])
         ELSE R([k |-> "s", f |-> Fields(e.fs, r.vs)], r.s)
    [] e.k = "fget" -> LET a == Eval(e.e, s) IN
         IF ~Ok(a.s) THEN a ELSE IF e.ref THEN R(GetF(a.s.heap[a.v.a].f, e.f), a.s) ELSE R(GetF(a.v.f, e.f), a.s)
    [] e.k = "enew" -> LET r == EvalList(e.args, 1, <<>>, s) IN R([k |-> "e", v |-> e.v, a |-> r.vs], r.s)
    [] e.k = "index" -> LET i == Eval(e.i, s) IN
         IF ~Ok(i.s) THEN i
         ELSE LET arr == i.s.heap[i.s.env[e.a].a].a IN
              IF i.v.c = 0 /\ i.v.o >= 0 /\ i.v.o < Len(arr) THEN R(arr[i.v.o + 1], i.s) ELSE R(Dummy, Trap(i.s, "oob", e.line))
    [] e.k = "call" -> LET r == EvalList(e.args, 1, <<>>, s) IN IF ~Ok(r.s) THEN R(Dummy, r.s) ELSE CallFn(e.fn, r.vs, e.line, r.s)
    [] e.k = "invoke" -> LET r == EvalList(e.args, 1, <<>>, s) IN
         IF ~Ok(r.s) THEN R(Dummy, r.s)
         ELSE LET lam == r.s.env[e.n].lam
                  \* the body runs in the defining activation: captured variables are shared with it
                  pb == [n \in {lam.params[i][1] : i \in 1..Len(lam.params)} |->
                             r.vs[CHOOSE i \in 1..Len(lam.params) : lam.params[i][1] = n]]
                  s2 == [r.s EXCEPT !.env = pb @@ @, !.stack = Append(@, [fn |-> "lambda", line |-> e.line])]
                  s3 == ExecSeq(lam.body, 1, s2)
                  res == Eval(lam.res, s3)
              IN IF ~Ok(res.s) THEN R(Dummy, res.s)
                 ELSE R(res.v, [res.s EXCEPT !.stack = r.s.stack,
                                             !.env = [n \in DOMAIN r.s.env |-> res.s.env[n]]])
\* call of a user function: fresh environment, frame pushed with the call line
CallFn(fname, args, line, s) ==
   LET f == s.fns[fname]
       s1 == [s EXCEPT !.env = [n \in {f.params[i] : i \in 1..Len(f.params)} |-> args[CHOOSE i \in 1..Len(f.params) : f.params[i] = n]],
                       !.stack = Append(@, [fn |-> fname, line |-> line]), !.depth = @ + 1]
   IN IF s.depth > 40 THEN R(Dummy, Trap(s, "unrep", line))
      ELSE LET s2 == ExecSeq(f.body, 1, s1) IN
           IF ~Ok(s2) THEN R(Dummy, s2)
           ELSE IF s2.ctl = "return" THEN R(s2.ret, [s2 EXCEPT !.env = s.env, !.stack = s.stack, !.ctl = "", !.depth = s.depth])
           ELSE LET res == Eval(f.res, s2) IN
                IF ~Ok(res.s) THEN R(Dummy, res.s) ELSE R(res.v, [res.s EXCEPT !.env = s.env, !.stack = s.stack, !.depth = s.depth])
Tok(v) == IF v.k = "b" THEN (IF v.b THEN "true" ELSE "false") ELSE <<v.c, v.o>>
ExecSeq(ss, j, s) == IF j > Len(ss) \/ ~Running(s) THEN s ELSE ExecSeq(ss, j + 1, Exec(ss[j], s))
\* counted loop: `let mut c = 0; while c < n { c = c + 1; body }`
Loop(st, s) == IF ~Running(s) THEN s
               ELSE IF ~(s.env[st.c].o < st.n) THEN s
               ELSE LET s1 == [s EXCEPT !.env[st.c] = V(0, @.o + 1)]
                        s2 == ExecSeq(st.body, 1, s1)
                    IN IF ~Ok(s2) THEN s2
                       ELSE IF s2.ctl = "break" THEN [s2 EXCEPT !.ctl = ""]
                       ELSE IF s2.ctl = "return" THEN s2
                       ELSE Loop(st, [s2 EXCEPT !.ctl = ""])
Restrict(s2, s) == IF ~Ok(s2) THEN s2 ELSE [s2 EXCEPT !.env = [n \in DOMAIN s.env |-> s2.env[n]]]
Arms(st, v, i, s) == IF i > Len(st.arms) THEN Trap(s, "unrep", st.line)
                     ELSE LET a == st.arms[i] IN
                          IF a.v = "_" \/ a.v = v.v
                          THEN LET s1 == IF a.v = "_" THEN s
                                         ELSE [s EXCEPT !.env = [n \in {a.binds[k] : k \in 1..Len(a.binds)} |-> v.a[CHOOSE k \in 1..Len(a.binds) : a.binds[k] = n]] @@ @]
                                   s2 == ExecSeq(a.body, 1, s1)
                               IN IF ~Ok(s2) THEN s2 ELSE [s2 EXCEPT !.env = [n \in DOMAIN s.env |-> s2.env[n]]]
                          ELSE Arms(st, v, i + 1, s)
Exec(st, s) ==
  IF ~Running(s) THEN s ELSE
  CASE st.k = "let" -> LET r == Eval(st.e, s) IN IF ~Ok(r.s) THEN r.s ELSE [r.s EXCEPT !.env = Bind(@, st.n, r.v)]
    [] st.k = "set" -> LET r == Eval(st.e, s) IN IF ~Ok(r.s) THEN r.s ELSE [r.s EXCEPT !.env = Bind(@, st.n, r.v)]
    [] st.k = "gset" -> LET r == Eval(st.e, s) IN IF ~Ok(r.s) THEN r.s ELSE [r.s EXCEPT !.glob = Bind(@, st.n, r.v)]
    [] st.k = "leta" -> LET r == Eval(st.e, s) IN
         IF ~Ok(r.s) THEN r.s
         ELSE [r.s EXCEPT !.heap = Append(@, [a |-> [x \in 1..st.len |-> r.v]]), !.env = Bind(@, st.n, [k |-> "r", a |-> Len(r.s.heap) + 1])]
    [] st.k = "fset" -> LET r == Eval(st.e, s) IN
         IF ~Ok(r.s) THEN r.s
         ELSE IF st.ref THEN [r.s EXCEPT !.heap[r.s.env[st.n].a].f = SetF(@, st.f, r.v)]
         ELSE [r.s EXCEPT !.env[st.n].f = SetF(@, st.f, r.v)]
    [] st.k = "seta" -> LET i == Eval(st.i, s) r == Eval(st.e, i.s) IN
         IF ~Ok(r.s) THEN r.s
         ELSE LET addr == r.s.env[st.a].a IN
              IF i.v.c = 0 /\ i.v.o >= 0 /\ i.v.o < Len(r.s.heap[addr].a) THEN [r.s EXCEPT !.heap[addr].a[i.v.o + 1] = r.v]
              ELSE Trap(r.s, "oob", st.line)
    [] st.k = "print" -> LET r == EvalList(st.es, 1, <<>>, s) IN
         IF ~Ok(r.s) THEN r.s
         ELSE LET toks == [i \in 1..Len(r.vs) |-> Tok(r.vs[i])] IN
              IF st.nl THEN [r.s EXCEPT !.out = Append(@, r.s.cur \o toks), !.cur = <<>>]
              ELSE [r.s EXCEPT !.cur = @ \o toks]
    [] st.k = "assert" -> LET r == Eval(st.e, s) IN IF ~Ok(r.s) THEN r.s ELSE IF r.v.b THEN r.s ELSE Trap(r.s, "assert", st.line)
    [] st.k = "return" -> LET r == Eval(st.e, s) IN IF ~Ok(r.s) THEN r.s ELSE [r.s EXCEPT !.ctl = "return", !.ret = r.v]
    [] st.k \in {"break", "continue"} -> [s EXCEPT !.ctl = st.k]
    [] st.k = "ifs" -> LET c == Eval(st.c, s) IN
         IF ~Ok(c.s) THEN c.s ELSE Restrict(ExecSeq(IF c.v.b THEN st.t ELSE st.e, 1, c.s), c.s)
    [] st.k = "loop" -> Restrict(Loop(st, [s EXCEPT !.env = Bind(@, st.c, V(0, 0))]), [s EXCEPT !.env = Bind(@, st.c, V(0, 0))])
    [] st.k = "match" -> Arms(st, s.env[st.n], 1, s)
    [] st.k = "lamlet" -> [s EXCEPT !.env = Bind(@, st.n, [k |-> "l", lam |-> st])]
\* ---------- whole program ----------
RECURSIVE InitGlobals(_, _, _)
InitGlobals(gs, i, s) == IF i > Len(gs) THEN s
                         ELSE LET r == Eval(gs[i][2], s) IN InitGlobals(gs, i + 1, [r.s EXCEPT !.glob = Bind(@, gs[i][1], r.v)])
EmptyFn == [x \in {} |-> 0]
Run(c) == LET s0 == [env |-> EmptyFn, heap |-> <<>>, glob |-> EmptyFn, out |-> <<>>, cur |-> <<>>, st |-> "ok", trapline |-> 0,
                     ctl |-> "", ret |-> Dummy, stack |-> <<[fn |-> "main", line |-> 0], [fn |-> "run", line |-> c.ast.main_line]>>,
                     depth |-> 0, fns |-> c.ast.fns]
          IN ExecSeq(c.ast.run, 1, InitGlobals(c.ast.globals, 1, s0))
Status(st) == CASE st = "ok" -> 0 [] st = "div0" -> 101 [] st = "assert" -> 102 [] st = "oob" -> 103 [] st = "ovf" -> 109 [] st = "shift" -> 110 [] st = "unrep" -> -1
\* expected trap report: innermost frame first; each frame = <<function, line>>; the frame of a function is reported
\* at the line where it was executing: the trapping line for the innermost one, the call line for its callers
Frames(r) == LET n == Len(r.stack) IN
             [i \in 1..n |-> <<r.stack[n - i + 1].fn, IF i = 1 THEN r.trapline ELSE r.stack[n - i + 2].line>>]
\* stdout seen through a pipe: complete lines, plus the unfinished last line (text printed without newline)
Expected(r) == [out |-> r.out, tail |-> r.cur, status |-> Status(r.st), frames |-> IF r.st = "ok" THEN <<>> ELSE Frames(r)]
Judge(c) == LET r == Run(c) ex == Expected(r) IN
            IF r.st = "unrep" THEN [v |-> "discard"]
            ELSE IF ex.status # c.obs.status THEN [v |-> "MISMATCH-status", exp |-> ex]
            ELSE IF ex.out # c.obs.out THEN [v |-> "MISMATCH-output", exp |-> ex]
            ELSE IF ex.tail # c.obs.tail THEN [v |-> "MISMATCH-unflushed-output", exp |-> ex]
            ELSE IF ex.frames # c.obs.frames THEN [v |-> "MISMATCH-trap-report", exp |-> ex]
            ELSE [v |-> "ok"]
VARIABLE n
Init == n \in 1..Len(Cases)
Next == UNCHANGED n
Verdict == PrintT(ToJson([id |-> Cases[n].id, cfg |-> Cases[n].cfg, j |-> Judge(Cases[n])]))
=============================================================================
