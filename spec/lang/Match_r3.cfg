CONSTANTS Types = {"bool", "e3", "opt", "int"}
Rows = 3
Depth = 2
WithAlts = FALSE
INIT Init
NEXT Next
INVARIANTS UnreachableMonotone ExhaustiveNeverFallsThrough EmitRow
CHECK_DEADLOCK FALSE
