------------------------------ MODULE Outcome ------------------------------
(* C02 / C13: classification of how a run may end, and agreement between the two code generators.
   A record = one case with the observed runs [cfg, status, signal, timed_out, err0 (first stderr line), panic
   (stderr contains a Rust panic), out (stdout hash)] and, for exhaustion scenarios, the set of allowed endings.
   One TLC state per record; the verdict row is emitted from an invariant.

   Documented endings (dora-runtime/src/stdlib.rs): return from main (0) or explicit exit; a trap with status
   101 + kind and its message; fatal_error / unreachable / abort (status 1 with their message).
   Never: a signal, a Rust panic of the runtime, a time-out.                                               *)
EXTENDS Integers, Sequences, FiniteSets, TLC, Json, IOUtils
Recs == ndJsonDeserialize(IOEnv.RECS)
TrapMsg == [k \in 101..110 |-> CASE k = 101 -> "division by 0" [] k = 102 -> "assert failed" [] k = 103 -> "array index out of bounds"
                                  [] k = 104 -> "nil check failed" [] k = 105 -> "cast failed" [] k = 106 -> "out of memory"
                                  [] k = 107 -> "stack overflow" [] k = 108 -> "illegal state" [] k = 109 -> "overflow"
                                  [] k = 110 -> "shift amount out of bounds"]
Prefix(s, p) == Len(s) >= Len(p) /\ SubSeq(s, 1, Len(p)) = p
Defined(r) == /\ ~r.timed_out /\ r.signal = 0 /\ ~r.panic
              /\ \/ r.status = 0
                 \/ r.status \in 101..110 /\ r.err0 = TrapMsg[r.status]
                 \/ r.status = 1 /\ (Prefix(r.err0, "fatal error: ") \/ Prefix(r.err0, "unreachable code executed") \/ Prefix(r.err0, "program aborted"))
Ending(r) == IF ~Defined(r) THEN "undefined" ELSE IF r.status = 0 THEN "ok" ELSE IF r.status \in 101..110 THEN "trap" \o ToString(r.status) ELSE "fatal"
Agree(c) == \A i, j \in 1..Len(c.runs) : (c.runs[i].group = c.runs[j].group) => (c.runs[i].status = c.runs[j].status /\ c.runs[i].out = c.runs[j].out)
Allowed(c) == c.expect = <<>> \/ \A i \in 1..Len(c.runs) : \E k \in 1..Len(c.expect) : Ending(c.runs[i]) = c.expect[k]
Judge(c) == [undefined |-> {i \in 1..Len(c.runs) : ~Defined(c.runs[i])},
             disagree |-> ~Agree(c),
             unexpected |-> {i \in 1..Len(c.runs) : Defined(c.runs[i]) /\ c.expect # <<>> /\ ~\E k \in 1..Len(c.expect) : Ending(c.runs[i]) = c.expect[k]}]
VARIABLE n
Init == n \in 1..Len(Recs)
Next == UNCHANGED n
Verdict == PrintT(ToJson([id |-> Recs[n].id, j |-> Judge(Recs[n])]))
=============================================================================
