CONSTANTS Types = {"i64d", "i32d"}
Rows = 4
Depth = 1
Dense = TRUE
WithAlts = FALSE
INIT Init
NEXT Next
INVARIANTS UnreachableMonotone ExhaustiveNeverFallsThrough EmitRow
CHECK_DEADLOCK FALSE
