SPECIFICATION Spec
CONSTANTS
  Numerators = {1, 4, 8, 12, 20, 36, 800}
  Kinds = {"cmp", "bin", "un", "conv", "sorts"}
INVARIANTS Emit Trichotomy Commutes NegInvolution RoundIsIntegral SortsRefinesCmp
CHECK_DEADLOCK FALSE
