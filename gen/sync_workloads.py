"""Multi-threaded Dora workloads for C09 with computable expected output and trace markers.
Markers go through the String#compare_to channel: `"@V|..." < ""` logs the text after the prefix."""
import random


def mk(s):
    return f'("@V|{s}" < "");'


def counter(rng):
    t = rng.randint(2, 4); k = rng.randint(20, 120)
    src = f"""
class Counter {{ value: Int64 }}
fn main() {{
    let m = std::thread::Mutex::new();
    let c = Counter(value = 0);
    let threads = Vec[std::thread::Thread]::new();
    let mut i = 0;
    while i < {t} {{
        threads.push(std::thread::spawn(|| {{
            let mut j = 0;
            while j < {k} {{
                m.lock[()](|| {{
                    {mk('acq')}
                    let v = c.value;
                    if j % 7 == 0 {{ let tmp = Array[Int64]::zero(8); tmp(0) = v; }}
                    c.value = v + 1;
                    {mk('rel')}
                }});
                j = j + 1;
            }}
        }}));
        i = i + 1;
    }}
    for th in threads {{ th.join(); }}
    println("${{c.value}}");
}}
"""
    return src, f"{t * k}\n", {"kind": "counter", "threads": t, "rounds": k}


def permits(rng):
    """each consumer needs its own permit; one notify_one per permit (all waiters must eventually be woken)"""
    n = rng.randint(2, 4); use_all = rng.random() < 0.3
    notify = "cv.notify_all();" if use_all else "cv.notify_one();"
    src = f"""
class St {{ permits: Int64, waiting: Int64, done: Int64 }}
fn main() {{
    let m = std::thread::Mutex::new();
    let cv = std::thread::Condition::new();
    let st = St(permits = 0, waiting = 0, done = 0);
    let threads = Vec[std::thread::Thread]::new();
    let mut i = 0;
    while i < {n} {{
        threads.push(std::thread::spawn(|| {{
            m.lock[()](|| {{
                {mk('acq')}
                st.waiting = st.waiting + 1;
                while st.permits == 0 {{ {mk('rel')} cv.wait(m); {mk('acq')} }}
                st.permits = st.permits - 1;
                st.done = st.done + 1;
                {mk('rel')}
            }});
        }}));
        i = i + 1;
    }}
    let mut posted = 0;
    while posted < {n} {{
        let ready = m.lock[Bool](|| {{ {mk('acq')} let r = st.waiting >= {rng.randint(1, n)} || posted > 0; {mk('rel')} r }});
        if ready {{
            m.lock[()](|| {{ {mk('acq')} st.permits = st.permits + 1; {mk('rel')} }});
            {notify}
            posted = posted + 1;
        }}
    }}
    for th in threads {{ th.join(); }}
    println("${{st.done}} ${{st.permits}}");
}}
"""
    return src, f"{n} 0\n", {"kind": "permits", "consumers": n, "notify": "all" if use_all else "one"}


def queue(rng):
    p = rng.randint(1, 2); c = rng.randint(1, 3); cap = rng.randint(1, 3); per = rng.randint(10, 40)
    total = p * per
    # consumers take until a shared count reaches total
    src = f"""
class Q {{ buf: Array[Int64], head: Int64, len: Int64, taken: Int64, sum: Int64 }}
fn main() {{
    let m = std::thread::Mutex::new();
    let not_empty = std::thread::Condition::new();
    let not_full = std::thread::Condition::new();
    let q = Q(buf = Array[Int64]::zero({cap}), head = 0, len = 0, taken = 0, sum = 0);
    let threads = Vec[std::thread::Thread]::new();
    let mut i = 0;
    while i < {p} {{
        let base = i * 1000;
        threads.push(std::thread::spawn(|| {{
            let mut j = 0;
            while j < {per} {{
                m.lock[()](|| {{
                    {mk('acq')}
                    while q.len == {cap} {{ {mk('rel')} not_full.wait(m); {mk('acq')} }}
                    q.buf((q.head + q.len) % {cap}) = base + j;
                    q.len = q.len + 1;
                    {mk('rel')}
                }});
                not_empty.notify_all();
                j = j + 1;
            }}
        }}));
        i = i + 1;
    }}
    i = 0;
    while i < {c} {{
        threads.push(std::thread::spawn(|| {{
            let mut fin = false;
            while !fin {{
                m.lock[()](|| {{
                    {mk('acq')}
                    while q.len == 0 && q.taken < {total} {{ {mk('rel')} not_empty.wait(m); {mk('acq')} }}
                    if q.len > 0 {{
                        q.sum = q.sum + q.buf(q.head);
                        q.head = (q.head + 1) % {cap};
                        q.len = q.len - 1;
                        q.taken = q.taken + 1;
                    }}
                    if q.taken >= {total} {{ fin = true; }}
                    {mk('rel')}
                }});
                not_full.notify_all();
                if fin {{ not_empty.notify_all(); }}
            }}
        }}));
        i = i + 1;
    }}
    for th in threads {{ th.join(); }}
    println("${{q.taken}} ${{q.sum}} ${{q.len}}");
}}
"""
    s = sum(i * 1000 + j for i in range(p) for j in range(per))
    return src, f"{total} {s} 0\n", {"kind": "queue", "producers": p, "consumers": c, "cap": cap}


def atomics(rng):
    t = rng.randint(2, 4); k = rng.randint(50, 300)
    src = f"""
class Box {{ a: std::thread::AtomicInt64, b: std::thread::AtomicInt32, token: std::thread::AtomicInt32, plain: Int64 }}
fn main() {{
    let bx = Box(a = std::thread::AtomicInt64::new(0), b = std::thread::AtomicInt32::new(0i32), token = std::thread::AtomicInt32::new(1i32), plain = 0);
    let threads = Vec[std::thread::Thread]::new();
    let mut i = 0;
    while i < {t} {{
        threads.push(std::thread::spawn(|| {{
            let mut j = 0;
            while j < {k} {{
                bx.a.fetch_add(3);
                let mut ok = false;
                while !ok {{ let cur = bx.b.get(); ok = bx.b.compare_exchange(cur, cur + 1i32) == cur; }}
                // token passing: exchange makes a spin lock; the plain field is only touched by the holder
                while bx.token.exchange(0i32) == 0i32 {{ }}
                bx.plain = bx.plain + 1;
                bx.token.set(1i32);
                j = j + 1;
            }}
        }}));
        i = i + 1;
    }}
    for th in threads {{ th.join(); }}
    println("${{bx.a.get()}} ${{bx.b.get()}} ${{bx.plain}} ${{bx.token.get()}}");
}}
"""
    return src, f"{3 * t * k} {t * k} {t * k} 1\n", {"kind": "atomics", "threads": t, "rounds": k}


def join_vis(rng):
    t = rng.randint(2, 4); n = rng.randint(10, 200)
    src = f"""
fn main() {{
    let data = Array[Int64]::zero({t * n});
    let threads = Vec[std::thread::Thread]::new();
    let mut i = 0;
    while i < {t} {{
        let base = i * {n};
        threads.push(std::thread::spawn(|| {{
            let mut j = 0;
            while j < {n} {{ data(base + j) = base + j + 1; j = j + 1; }}
            {mk('fin')}
        }}));
        i = i + 1;
    }}
    let mut sum = 0;
    i = 0;
    for th in threads {{ th.join(); {mk('joined')} }}
    while i < {t * n} {{ sum = sum + data(i); i = i + 1; }}
    println("${{sum}}");
}}
"""
    tot = t * n
    return src, f"{tot * (tot + 1) // 2}\n", {"kind": "join", "threads": t, "n": n}


def gates(rng):
    """many condition objects with queued threads at once: every worker parks on its OWN mutex/condition pair; when all are
    provably queued the main thread forces a collection (the wait table is keyed by object addresses, which a moving
    collection rewrites) and then opens every gate with notify_all / notify_one"""
    n = rng.randint(8, 13); rounds = rng.randint(2, 3)
    notify = rng.choice(["notify_all", "notify_all", "notify_one"])
    collect = rng.choice(["std::force_minor_collect();", "std::force_collect();", "std::force_minor_collect(); std::force_collect();"])
    src = f"""
class Gate {{ mtx: std::thread::Mutex, cond: std::thread::Condition, queued: Bool, open: Bool, passed: Bool }}
fn worker(gate: Gate) {{
    gate.mtx.lock[()](|| {{
        gate.queued = true;
        while !gate.open {{ gate.cond.wait(gate.mtx); }}
        gate.passed = true;
    }});
}}
fn main() {{
    let mut round = 0;
    let mut passed = 0;
    while round < {rounds} {{
        let gates = Vec[Gate]::new();
        let threads = Vec[std::thread::Thread]::new();
        let mut i = 0;
        while i < {n} {{
            let gate = Gate(mtx = std::thread::Mutex::new(), cond = std::thread::Condition::new(), queued = false, open = false, passed = false);
            gates.push(gate);
            threads.push(std::thread::spawn(|| {{ worker(gate); }}));
            i = i + 1;
        }}
        // a worker sets `queued` under its mutex and gives the mutex up only inside wait(), after it is on the wait list
        for gate in gates {{
            let mut queued = false;
            while !queued {{ queued = gate.mtx.lock[Bool](||: Bool {{ gate.queued }}); }}
        }}
        let junk = Array[Int64]::zero(round * 3 + 1);
        {collect}
        for gate in gates {{
            gate.mtx.lock[()](|| {{ gate.open = true; }});
            gate.cond.{notify}();
        }}
        for thread in threads {{ thread.join(); }}
        for gate in gates {{ if gate.passed {{ passed = passed + 1; }} }}
        round = round + 1 + junk.size() - junk.size();
    }}
    println("${{passed}}");
}}
"""
    return src, f"{n * rounds}\n", {"kind": "gates", "workers": n, "rounds": rounds, "notify": notify}


KINDS = [counter, permits, queue, atomics, join_vis, gates]


def program(seed, kind=None):
    rng = random.Random(seed)
    f = KINDS[kind] if kind is not None else rng.choice(KINDS)
    return f(rng)


if __name__ == "__main__":
    import sys
    src, exp, meta = program(int(sys.argv[1]), int(sys.argv[2]) if len(sys.argv) > 2 else None)
    print(src)
