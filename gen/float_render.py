"""Renders the rows of spec/lang/DoraFloat.tla as Dora programs (C01, floating point fragment).

Each program prints lines `<tag> <tokens...>`; expected(rows) yields the same lines from the specification. Operands reach
the operations at run time (through arrays: nothing to fold) in the "rt" programs and as literals in the "const" programs
(so that compile-time evaluation in either code generator is exercised as well). Results are observed as bit patterns.
"""
import json

T = {64: "Float64", 32: "Float32"}
OPN = {"<": "lt", "<=": "le", ">": "gt", ">=": "ge", "==": "eq", "!=": "ne", "+": "add", "-": "sub", "*": "mul", "/": "div"}
CTXS = ["if", "ifnot", "val", "while", "and", "or", "else_first", "ret"]


def load_rows(out):
    rows = []
    for line in out.splitlines():
        if line.startswith('"{'):
            rows.append(json.loads(json.loads(line)))
    return rows


def vkey(v):
    return (v["c"], v["s"], v["n"])


def values(rows):
    vs = sorted({vkey(r["a"]) for r in rows}, key=lambda k: ({"nan": 0, "inf": 1, "fin": 2}[k[0]], k[1], k[2]))
    return vs


def lit(v, w):
    c, s, n = v
    t = T[w]
    if c == "nan": return f"{t}::not_a_number()"
    if c == "inf": return f"{t}::infinity_negative()" if s else f"{t}::infinity_positive()"
    txt = f"{n // 8}.{(n % 8) * 125:03d}" + ("f32" if w == 32 else "")
    return f"(-{txt})" if s else txt


def obs_token(e):
    if e == "nan": return "n"
    return ".".join(str(x) for x in e)


PRINTERS = '''
let mut TT: Bool = true;
let mut FF: Bool = false;
fn tt(): Bool { TT }
fn ff(): Bool { FF }
fn pb64(x: Float64) {
    let b = x.as_int64();
    let e = (b >>> 52i32) & 2047i64;
    let hi = (b >>> 26i32) & 67108863i64;
    let lo = b & 67108863i64;
    if e == 2047i64 && (hi != 0i64 || lo != 0i64) { print("n "); } else { print("${(b >>> 63i32) & 1i64}.${e}.${hi}.${lo} "); }
}
fn pb32(x: Float32) {
    let b = x.as_int32();
    let e = (b >>> 23i32) & 255i32;
    let m = b & 8388607i32;
    if e == 255i32 && m != 0i32 { print("n "); } else { print("${(b >>> 31i32) & 1i32}.${e}.${m}.0 "); }
}
'''


def vals_fn(vs, w):
    return f"fn vals{w}(): Array[{T[w]}] {{ Array[{T[w]}]::new(" + ", ".join(lit(v, w) for v in vs) + ") }\n"


def cmp_fn(op, ctx, w):
    t = T[w]; name = f"c_{OPN[op]}_{ctx}_{w}"
    body = {
        "if": f"if a {op} b {{ 1i32 }} else {{ 0i32 }}",
        "ifnot": f"if !(a {op} b) {{ 0i32 }} else {{ 1i32 }}",
        "val": f"let r: Bool = a {op} b; r.to_int32()",
        "while": f"let mut k = 0i32; while a {op} b {{ k = 1i32; break; }} k",
        "and": f"if a {op} b && tt() {{ 1i32 }} else {{ 0i32 }}",
        "or": f"if a {op} b || ff() {{ 1i32 }} else {{ 0i32 }}",
        "else_first": f"if a {op} b {{ }} else {{ return 0i32; }} 1i32",
        "ret": f"rb_{OPN[op]}_{w}(a, b).to_int32()",
    }[ctx]
    pre = f"fn rb_{OPN[op]}_{w}(a: {t}, b: {t}): Bool {{ return a {op} b; }}\n" if ctx == "ret" else ""
    return pre + f"fn {name}(a: {t}, b: {t}): Int32 {{ {body} }}\n", name


def loop2(w, inner):
    return (f"    let v = vals{w}();\n    let mut i = 0i64;\n    while i < v.size() {{\n        let mut j = 0i64;\n        while j < v.size() {{\n"
            f"            {inner}\n            j = j + 1i64;\n        }}\n        i = i + 1i64;\n    }}\n")


def loop1(w, inner):
    return f"    let v = vals{w}();\n    let mut i = 0i64;\n    while i < v.size() {{\n        {inner}\n        i = i + 1i64;\n    }}\n"


def programs(rows, ctxs=CTXS):
    """-> dict name -> (source, expected lines)"""
    vs = values(rows)
    idx = {(r["kind"], r["op"], r["w"], vkey(r["a"]), vkey(r["b"])): r["exp"] for r in rows}
    progs = {}
    head = PRINTERS + vals_fn(vs, 64) + vals_fn(vs, 32)
    nanv = ("nan", 0, 0)
    # --- run-time comparisons, one program per context
    for ctx in ctxs:
        src = head; main = ""; exp = []
        for w in (64, 32):
            for op in OPN:
                if op not in ("<", "<=", ">", ">=", "==", "!="): continue
                f, name = cmp_fn(op, ctx, w)
                src += f
                main += f"fn m_{name}() {{\n    print(\"cmp {OPN[op]} {ctx} {w} \");\n" + loop2(w, f"print(\"${{{name}(v(i), v(j))}}\");") + "    println(\"\");\n}\n"
                exp.append(f"cmp {OPN[op]} {ctx} {w} " + "".join(str(idx[("cmp", op, w, a, b)]) for a in vs for b in vs))
        src += main + "fn main() {\n" + "".join(f"    m_c_{OPN[op]}_{ctx}_{w}();\n" for w in (64, 32) for op in ("<", "<=", ">", ">=", "==", "!=")) + "}\n"
        progs["cmp_" + ctx] = (src, exp)
    # --- run-time arithmetic, unary, conversions, sorts_as
    src = head; main = ""; exp = []; calls = []
    for w in (64, 32):
        t = T[w]; pb = f"pb{w}"
        for op in ("+", "-", "*", "/"):
            name = f"b_{OPN[op]}_{w}"
            src += f"fn {name}(a: {t}, b: {t}): {t} {{ a {op} b }}\n"
            main += f"fn m_{name}() {{\n    print(\"bin {OPN[op]} {w} \");\n" + loop2(w, f"{pb}({name}(v(i), v(j)));") + "    println(\"\");\n}\n"
            calls.append("m_" + name)
            exp.append((f"bin {OPN[op]} {w}", [idx[("bin", op, w, a, b)] for a in vs for b in vs]))
        for op in ("neg", "abs", "sqrt", "round_to_zero", "round_up", "round_down", "round_half_even"):
            name = f"u_{op}_{w}"
            e = "-a" if op == "neg" else f"a.{op}()"
            src += f"fn {name}(a: {t}): {t} {{ {e} }}\n"
            main += f"fn m_{name}() {{\n    print(\"un {op} {w} \");\n" + loop1(w, f"{pb}({name}(v(i)));") + "    println(\"\");\n}\n"
            calls.append("m_" + name)
            exp.append((f"un {op} {w}", [idx[("un", op, w, a, nanv)] for a in vs]))
        other = 32 if w == 64 else 64
        name = f"k_widen_narrow_{w}"
        src += f"fn {name}(a: {t}): {T[other]} {{ a.to_float{other}() }}\n"
        main += f"fn m_{name}() {{\n    print(\"conv widen_narrow {w} \");\n" + loop1(w, f"pb{other}({name}(v(i)));") + "    println(\"\");\n}\n"
        calls.append("m_" + name)
        exp.append((f"conv widen_narrow {w}", [idx[("conv", "widen_narrow", w, a, nanv)] for a in vs]))
        name = f"k_is_nan_{w}"
        src += f"fn {name}(a: {t}): Int32 {{ a.is_nan().to_int32() }}\n"
        main += f"fn m_{name}() {{\n    print(\"conv is_nan {w} \");\n" + loop1(w, f"print(\"${{{name}(v(i))}} \");") + "    println(\"\");\n}\n"
        calls.append("m_" + name)
        exp.append((f"conv is_nan {w}", [str(idx[("conv", "is_nan", w, a, nanv)]) for a in vs]))
        for op, it in (("to_int32", "Int32"), ("to_int64", "Int64")):
            name = f"k_{op}_{w}"
            src += f"fn {name}(a: {t}): {it} {{ a.{op}() }}\n"
            # only finite operands have a defined conversion: the others are passed over by index
            fin = [k for k, a in enumerate(vs) if a[0] == "fin"]
            cond = " || ".join(f"i == {k}i64" for k in fin)
            main += f"fn m_{name}() {{\n    print(\"conv {op} {w} \");\n" + loop1(w, f"if {cond} {{ print(\"${{{name}(v(i))}} \"); }}") + "    println(\"\");\n}\n"
            calls.append("m_" + name)
            exp.append((f"conv {op} {w}", [str(idx[("conv", op, w, vs[k], nanv)]) for k in fin]))
        name = f"s_sorts_{w}"
        src += f"fn {name}(a: {t}, b: {t}): Int32 {{ a.sorts_as(b) }}\n"
        nn = [k for k, a in enumerate(vs) if a[0] != "nan"]
        cond = " && ".join(f"i != {k}i64 && j != {k}i64" for k, a in enumerate(vs) if a[0] == "nan") or "true"
        main += f"fn m_{name}() {{\n    print(\"sorts sorts_as {w} \");\n" + loop2(w, f"if {cond} {{ print(\"${{{name}(v(i), v(j))}} \"); }}") + "    println(\"\");\n}\n"
        calls.append("m_" + name)
        exp.append((f"sorts sorts_as {w}", [str(idx[("sorts", "sorts_as", w, vs[a], vs[b])]) for a in nn for b in nn]))
    src += main + "fn main() {\n" + "".join(f"    {c}();\n" for c in calls) + "}\n"
    progs["arith"] = (src, exp)
    # --- literals: comparisons and arithmetic on constant operands
    for w in (64, 32):
        src = PRINTERS; fns = []; exp = []
        stm = []
        for op in ("<", "<=", ">", ">=", "==", "!="):
            for a in vs:
                line = "".join(str(idx[("cmp", op, w, a, b)]) for b in vs)
                body = "".join(f"    print(if {lit(a, w)} {op} {lit(b, w)} {{ \"1\" }} else {{ \"0\" }});\n" for b in vs)
                fn = f"kc{len(fns)}"
                src += f"fn {fn}() {{\n    print(\"ccmp {OPN[op]} {w} {vs.index(a)} \");\n{body}    println(\"\");\n}}\n"
                fns.append(fn)
                exp.append(f"ccmp {OPN[op]} {w} {vs.index(a)} {line}")
        progs[f"const_cmp_{w}"] = (src + "fn main() {\n" + "".join(f"    {f}();\n" for f in fns) + "}\n", exp)
        src = PRINTERS; fns = []; exp = []
        for op in ("+", "-", "*", "/"):
            for a in vs:
                body = "".join(f"    pb{w}({lit(a, w)} {op} {lit(b, w)});\n" for b in vs)
                fn = f"kb{len(fns)}"
                src += f"fn {fn}() {{\n    print(\"cbin {OPN[op]} {w} {vs.index(a)} \");\n{body}    println(\"\");\n}}\n"
                fns.append(fn)
                exp.append((f"cbin {OPN[op]} {w} {vs.index(a)}", [idx[("bin", op, w, a, b)] for b in vs]))
        progs[f"const_bin_{w}"] = (src + "fn main() {\n" + "".join(f"    {f}();\n" for f in fns) + "}\n", exp)
    return progs, vs


def compare(expected, lines):
    """expected: list of str | (tag, [tokens or 'unrep']); lines: observed stdout lines. -> list of (tag, position, expected, observed)"""
    out = []
    if len(lines) != len(expected):
        out.append(("line-count", 0, len(expected), len(lines)))
    for e, l in zip(expected, lines):
        if isinstance(e, str):
            if e != l.rstrip():
                tag = " ".join(e.split(" ")[:-1])
                ed, ld = e.split(" ")[-1], l.rstrip().split(" ")[-1]
                pos = next((k for k, (x, y) in enumerate(zip(ed, ld)) if x != y), min(len(ed), len(ld)))
                out.append((tag, pos, ed[pos:pos + 1], ld[pos:pos + 1] if l.startswith(tag) else l[:60]))
            continue
        tag, toks = e
        if not l.startswith(tag + " "):
            out.append((tag, 0, "line", l[:60])); continue
        got = l[len(tag) + 1:].split()
        if len(got) != len(toks):
            out.append((tag, 0, f"{len(toks)} tokens", f"{len(got)} tokens")); continue
        for k, (x, y) in enumerate(zip(toks, got)):
            if x == "unrep":
                continue
            xs = x if isinstance(x, str) and x != "nan" else obs_token(x)
            if xs != y:
                out.append((tag, k, xs, y)); break
    return out
