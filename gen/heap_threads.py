"""Multi-threaded object-graph programs for C03: objects reachable only from another thread's closure / handles
at spawn time, from a blocked thread's stack, while other threads allocate and collect."""
import random


def program(seed):
    rng = random.Random(seed)
    spawns = rng.randint(30, 80)
    alloc_iters = rng.randint(200, 600)
    depth = rng.randint(2, 5)
    return f"""
class Node {{ id: Int64, next: Option[Node] }}
class Shared {{ ok: std::thread::AtomicInt64, stop: std::thread::AtomicInt32 }}
fn chain(id: Int64, n: Int64): Node {{
    let mut cur = Node(id = id, next = None[Node]);
    let mut i = 1;
    while i < n {{ cur = Node(id = id + i, next = Some[Node](cur)); i = i + 1; }}
    cur
}}
fn sum(n: Node): Int64 {{
    let mut s = 0;
    let mut cur: Option[Node] = Some[Node](n);
    while cur.is_some() {{ let c = cur.get_or_panic(); s = s + c.id; cur = c.next; }}
    s
}}
fn expect(id: Int64, n: Int64): Int64 {{ n * id + n * (n - 1) / 2 }}
fn main() {{
    let sh = Shared(ok = std::thread::AtomicInt64::new(0), stop = std::thread::AtomicInt32::new(0i32));
    let churn = std::thread::spawn(|| {{
        let mut i = 0;
        let mut keep = chain(7, 3);
        while sh.stop.get() == 0i32 && i < {alloc_iters * 50} {{
            let tmp = chain(i, {depth});
            if i % 5 == 0 {{ keep = tmp; }}
            i = i + 1;
        }}
        std::assert(sum(keep) > 0);
    }});
    let mut k = 0;
    while k < {spawns} {{
        let mine = chain(k * 100, {depth});          // reachable only from the closure of the thread being spawned
        let other = chain(k * 100 + 50, 2);
        let t = std::thread::spawn(|| {{
            let tmp = chain(1, {depth});              // allocate in the new thread: may trigger a collection
            if sum(mine) == expect(k * 100, {depth}) && sum(other) == expect(k * 100 + 50, 2) && sum(tmp) == expect(1, {depth}) {{
                sh.ok.fetch_add(1);
            }}
        }});
        t.join();
        k = k + 1;
    }}
    sh.stop.set(1i32);
    churn.join();
    println("${{sh.ok.get()}}");
}}
""", f"{spawns}\n"
