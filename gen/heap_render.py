"""Renders behaviours of spec/gc/HeapGen.tla as Dora object-graph programs (one module per behaviour, dispatch on
argv) together with the output the model state prescribes after every step (canonical dump of the reachable graph)."""
import json, random

DEPTH = 4


def expected_dump(root, fld, nr, nf):
    """root: list indexed by slot-1, fld: list (by obj-1) of lists (by field-1): TLC prints functions over 1..n as arrays"""
    def node(o, d):
        if o == 0:
            return "-"
        if d == 0:
            return f"{o}.."
        return f"{o}(" + ",".join(node(fld[o - 1][f - 1], d - 1) for f in range(1, nf + 1)) + ")"
    return " ".join(node(root[r - 1], DEPTH) for r in range(1, nr + 1))


def render(behaviours, seed, nr, nf):
    rng = random.Random(seed)
    out = []
    fields = ", ".join(f"f{f}: Option[Node]" for f in range(1, nf + 1))
    out.append(f"class Node {{ id: Int32, pad: Int64, {fields} }}")
    out.append("class Holder { slot: Option[Node] }")
    out.append("struct Pair { tag: Int32, item: Option[Node] }")
    out.append("fn show(x: Option[Node], d: Int32) {")
    out.append("    match x {")
    out.append("        None => print(\"-\"),")
    out.append("        Some(n) => {")
    out.append("            print(\"${n.id}\");")
    out.append("            if d == 0i32 { print(\"..\"); } else {")
    out.append("                print(\"(\");")
    for f in range(1, nf + 1):
        if f > 1:
            out.append("                print(\",\");")
        out.append(f"                show(n.f{f}, d - 1i32);")
    out.append("                print(\")\");")
    out.append("            }")
    out.append("        }")
    out.append("    }")
    out.append("}")
    none_fields = ", ".join(f"f{f} = None[Node]" for f in range(1, nf + 1))
    out.append(f"fn mk(id: Int32): Node {{ Node(id = id, pad = id.to_int64() * 1000, {none_fields}) }}")
    # helper that collects a few frames below the caller (roots live in caller frames across the call)
    out.append("fn deep_collect(n: Int32, minor: Bool) { if n > 0i32 { deep_collect(n - 1i32, minor); } else if minor { std::force_minor_collect(); } else { std::force_collect(); } }")
    expected = {}
    for bi, beh in enumerate(behaviours):
        kinds = {r: rng.choice(["local", "local", "global", "array", "holder", "struct"]) for r in range(1, nr + 1)}
        cid = f"b{bi}"
        out.append(f"mod {cid} {{")
        out.append("    use super::{Node, Holder, Pair, show, mk, deep_collect};")
        for r, k in kinds.items():
            if k == "global":
                out.append(f"    let mut G{r}: Option[Node] = None[Node];")
        out.append("    pub fn run() {")
        get = {}; setf = {}
        for r, k in kinds.items():
            if k == "local":
                out.append(f"        let mut r{r}: Option[Node] = None[Node];")
                get[r] = f"r{r}"; setf[r] = lambda e, r=r: f"r{r} = {e};"
            elif k == "global":
                get[r] = f"G{r}"; setf[r] = lambda e, r=r: f"G{r} = {e};"
            elif k == "array":
                out.append(f"        let a{r} = Array[Option[Node]]::fill(3i64, None[Node]);")
                get[r] = f"a{r}(1i64)"; setf[r] = lambda e, r=r: f"a{r}(1i64) = {e};"
            elif k == "holder":
                out.append(f"        let h{r} = Holder(slot = None[Node]);")
                get[r] = f"h{r}.slot"; setf[r] = lambda e, r=r: f"h{r}.slot = {e};"
            else:
                out.append(f"        let mut p{r} = Pair(tag = {r}i32, item = None[Node]);")
                get[r] = f"p{r}.item"; setf[r] = lambda e, r=r: f"p{r}.item = {e};"
        dump = " print(\" \"); ".join(f"show({get[r]}, {DEPTH}i32);" for r in range(1, nr + 1)) + " println(\"\");"
        lines = []
        for st in beh:
            op = st["op"]
            if op == "alloc":
                out.append("        " + setf[st["a"]](f"Some[Node](mk({st['b']}i32))"))
            elif op == "write":
                out.append(f"        {get[st['a']]}.get_or_panic().f{st['b']} = {get[st['c']]};")
            elif op == "read":
                out.append(f"        let tmp = {get[st['a']]}.get_or_panic().f{st['b']};")
                out.append("        " + setf[st["c"]]("tmp"))
            elif op == "drop":
                out.append("        " + setf[st["a"]]("None[Node]"))
            elif op == "minor":
                out.append(f"        deep_collect({rng.randint(0, 3)}i32, true);")
            elif op == "full":
                out.append(f"        deep_collect({rng.randint(0, 3)}i32, false);")
            out.append("        " + dump)
            lines.append(expected_dump(st["root"], st["fld"], nr, nf))
        out.append("    }")
        out.append("}")
        expected[cid] = lines
    out.append("fn main() {")
    out.append("    let which = std::argv(0i32);")
    for bi in range(len(behaviours)):
        out.append(f'    {"if" if bi == 0 else "else if"} which == "b{bi}" {{ b{bi}::run(); }}')
    out.append("    else { std::exit(2i32); }")
    out.append("}")
    return "\n".join(out) + "\n", expected
