"""Renders behaviours of spec/gc/HeapGen.tla as Dora object-graph programs (one module per behaviour, dispatch on
argv) together with the output the model state prescribes after every step (canonical dump of the reachable graph)."""
import json, random

DEPTH = 4


def expected_dump(root, fld, nr, nf):
    """root: list indexed by slot-1, fld: list (by obj-1) of lists (by field-1): TLC prints functions over 1..n as arrays"""
    def node(o, d):
        if o == 0:
            return "-"
        if d == 0:
            return f"{o}.."
        return f"{o}(" + ",".join(node(fld[o - 1][f - 1], d - 1) for f in range(1, nf + 1)) + ")"
    return " ".join(node(root[r - 1], DEPTH) for r in range(1, nr + 1))


# number of Int64 fields in front of the reference fields of a behaviour's Node class: the reference fields then sit at
# object words 3+k ..; the sweep straddles the boundary between the two encodings of the per-class reference map
# (a bitmap for references up to word 62, an offset list beyond) - every collector visits references through that map
PADS = [0, 56, 57, 58, 59, 60, 61, 62, 63, 70, 1, 30, 64, 100]


def classes(out, ind, nf, k, N="Node", H="Holder", P="Pair"):
    """(type names are unique per behaviour: equally named types of different modules collide in linker symbols of generic
    instantiations - a C19 finding of its own)"""
    fields = ", ".join(f"f{f}: Option[{N}]" for f in range(1, nf + 1))
    pads = "".join(f"p{j}: Int64, " for j in range(k))
    out.append(f"{ind}class {N} {{ id: Int32, {pads}pad: Int64, {fields} }}")
    out.append(f"{ind}class {H} {{ slot: Option[{N}] }}")
    out.append(f"{ind}struct {P} {{ tag: Int32, item: Option[{N}] }}")
    out.append(f"{ind}fn show(x: Option[{N}], d: Int32) {{")
    out.append(f"{ind}    match x {{")
    out.append(f"{ind}        None => print(\"-\"),")
    out.append(f"{ind}        Some(n) => {{")
    out.append(f"{ind}            print(\"${{n.id}}\");")
    out.append(f"{ind}            if d == 0i32 {{ print(\"..\"); }} else {{")
    out.append(f"{ind}                print(\"(\");")
    for f in range(1, nf + 1):
        if f > 1:
            out.append(f"{ind}                print(\",\");")
        out.append(f"{ind}                show(n.f{f}, d - 1i32);")
    out.append(f"{ind}                print(\")\");")
    out.append(f"{ind}            }}")
    out.append(f"{ind}        }}")
    out.append(f"{ind}    }}")
    out.append(f"{ind}}}")
    none_fields = ", ".join(f"f{f} = None[{N}]" for f in range(1, nf + 1))
    padinit = "".join(f"p{j} = {j}, " for j in range(k))
    out.append(f"{ind}fn mk(id: Int32): {N} {{ {N}(id = id, {padinit}pad = id.to_int64() * 1000, {none_fields}) }}")


def render(behaviours, seed, nr, nf):
    rng = random.Random(seed)
    out = []
    # helper that collects a few frames below the caller (roots live in caller frames across the call)
    out.append("fn deep_collect(n: Int32, minor: Bool) { if n > 0i32 { deep_collect(n - 1i32, minor); } else if minor { std::force_minor_collect(); } else { std::force_collect(); } }")
    expected = {}
    for bi, beh in enumerate(behaviours):
        kinds = {r: rng.choice(["local", "local", "global", "array", "holder", "struct"]) for r in range(1, nr + 1)}
        cid = f"b{bi}"
        out.append(f"mod {cid} {{")
        out.append("    use super::deep_collect;")
        N, H, P = f"Node{bi}", f"Holder{bi}", f"Pair{bi}"
        classes(out, "    ", nf, PADS[bi % len(PADS)], N, H, P)
        for r, k in kinds.items():
            if k == "global":
                out.append(f"    let mut G{r}: Option[{N}] = None[{N}];")
        out.append("    pub fn run() {")
        get = {}; setf = {}
        for r, k in kinds.items():
            if k == "local":
                out.append(f"        let mut r{r}: Option[{N}] = None[{N}];")
                get[r] = f"r{r}"; setf[r] = lambda e, r=r: f"r{r} = {e};"
            elif k == "global":
                get[r] = f"G{r}"; setf[r] = lambda e, r=r: f"G{r} = {e};"
            elif k == "array":
                out.append(f"        let a{r} = Array[Option[{N}]]::fill(3i64, None[{N}]);")
                get[r] = f"a{r}(1i64)"; setf[r] = lambda e, r=r: f"a{r}(1i64) = {e};"
            elif k == "holder":
                out.append(f"        let h{r} = {H}(slot = None[{N}]);")
                get[r] = f"h{r}.slot"; setf[r] = lambda e, r=r: f"h{r}.slot = {e};"
            else:
                out.append(f"        let mut p{r} = {P}(tag = {r}i32, item = None[{N}]);")
                get[r] = f"p{r}.item"; setf[r] = lambda e, r=r: f"p{r}.item = {e};"
        dump = " print(\" \"); ".join(f"show({get[r]}, {DEPTH}i32);" for r in range(1, nr + 1)) + " println(\"\");"
        lines = []
        for st in beh:
            op = st["op"]
            if op == "alloc":
                out.append("        " + setf[st["a"]](f"Some[{N}](mk({st['b']}i32))"))
            elif op == "write":
                out.append(f"        {get[st['a']]}.get_or_panic().f{st['b']} = {get[st['c']]};")
            elif op == "read":
                out.append(f"        let tmp = {get[st['a']]}.get_or_panic().f{st['b']};")
                out.append("        " + setf[st["c"]]("tmp"))
            elif op == "drop":
                out.append("        " + setf[st["a"]](f"None[{N}]"))
            elif op == "minor":
                out.append(f"        deep_collect({rng.randint(0, 3)}i32, true);")
            elif op == "full":
                out.append(f"        deep_collect({rng.randint(0, 3)}i32, false);")
            out.append("        " + dump)
            lines.append(expected_dump(st["root"], st["fld"], nr, nf))
        out.append("    }")
        out.append("}")
        expected[cid] = lines
    out.append("fn main() {")
    out.append("    let which = std::argv(0i32);")
    for bi in range(len(behaviours)):
        out.append(f'    {"if" if bi == 0 else "else if"} which == "b{bi}" {{ b{bi}::run(); }}')
    out.append("    else { std::exit(2i32); }")
    out.append("}")
    return "\n".join(out) + "\n", expected
