"""Renders Match.tla verdict rows as Dora sources: (a) one function per matrix for the diagnostics half,
(b) a runnable program that calls accepted matrices on every value x guard valuation (run-time half)."""
import json

TY = {"bool": "Bool", "e3": "E3", "opt": "Option[Bool]", "pair": "(Bool, E3)", "p": "P", "int": "Int32", "i64d": "Int64", "i32d": "Int32"}
BASE = {"i64d": 0, "i32d": 0}      # dense integer matches: literal k is rendered as BASE + k


def dense_val(tag, ty):
    b = BASE[ty]
    far = 4294967296 if ty == "i64d" else 1000000
    if tag in ("0", "1", "2", "3", "4"): return b + int(tag)
    if tag == "m1": return b - 1
    if tag.startswith("lo"): return b + int(tag[2:]) - far
    if tag.startswith("hi"):
        v = b + int(tag[2:]) + far
        if ty == "i32d" and v > 2147483647:
            v -= 4294967296          # stays an Int32 that matches no literal (bases near the top of the range)
        return v
    return None


def dense_lit(v, ty):
    suf = "i64" if ty == "i64d" else "i32"
    return f"{v}{suf}" if v >= 0 else f"(-{-v}{suf})"
PRELUDE = ["enum E3 { A, B, C }", "enum P { X(Bool), Y, Z(Bool, Bool) }", "let mut GM: Int32 = 0i32;",
           "fn g(i: Int32): Bool { (GM >> i) & 1i32 == 1i32 }"]


def pat(p, ty, names):
    if p["k"] == "wild":
        if names is not None and names[0] % 3 == 1:      # a binding instead of `_`
            names[0] += 1
            return f"b{names[0]}"
        if names is not None:
            names[0] += 1
        return "_"
    c = p["c"]; a = p["a"]
    if ty == "bool": return c
    if ty == "int": return c + "i32"
    if ty in ("i64d", "i32d"): return dense_lit(BASE[ty] + int(c), ty)
    if ty == "e3": return f"E3::{c}"
    if ty == "opt": return "None" if c == "None" else f"Some({pat(a[0], 'bool', names)})"
    if ty == "pair": return f"({pat(a[0], 'bool', names)}, {pat(a[1], 'e3', names)})"
    if ty == "p":
        if c == "Y": return "P::Y"
        return f"P::{c}(" + ", ".join(pat(x, 'bool', names) for x in a) + ")"
    raise ValueError(ty)


def val(v, ty):
    c = v["c"]; a = v["a"]
    if ty == "bool": return c
    if ty == "int": return {"0": "0i32", "1": "1i32", "other": "77i32"}[c]
    if ty in ("i64d", "i32d"):
        if c == "min": return "Int64::min_value()" if ty == "i64d" else "Int32::min_value()"
        if c == "max": return "Int64::max_value()" if ty == "i64d" else "Int32::max_value()"
        return dense_lit(dense_val(c, ty), ty)
    if ty == "e3": return f"E3::{c}"
    if ty == "opt": return "None[Bool]" if c == "None" else f"Some[Bool]({val(a[0], 'bool')})"
    if ty == "pair": return f"({val(a[0], 'bool')}, {val(a[1], 'e3')})"
    if ty == "p":
        if c == "Y": return "P::Y"
        return f"P::{c}(" + ", ".join(val(x, 'bool') for x in a) + ")"


def load_rows(text):
    rows = []
    for line in text.splitlines():
        if line.startswith('"{'):
            rows.append(json.loads(json.loads(line)))
    return rows


def expected_useless(row):
    """set of (arm, alt) pairs the checker must flag; alt 0 = a plain arm"""
    out = set()
    for i in row["unreach"]:
        arm = row["arms"][i - 1]
        if arm["p"]["k"] == "alt":
            out.add((i, 1)); out.add((i, 2))
        else:
            out.add((i, 0))
    for i, k in row["uselessalt"]:
        out.add((i, k))
    return out


# expression / declaration contexts a `match` can stand in: (text before `match x {`, text after the closing `}`), inside
# `fn m<k>(x: T): Int32 { ... }` unless the entry is marked "decl" (then {k}, {T} are substituted and it is a whole declaration).
# Every context keeps the match well typed (its arms are Int32) so that the only diagnostics are the match's own.
CONTEXTS = {
    "fn":          ("", ""),
    "assign":      ("let mut r = 0i32;\n    r = ", ";\n    r"),
    "opassign":    ("let mut r = 0i32;\n    r += ", ";\n    r"),
    "let":         ("let r: Int32 = ", ";\n    r"),
    "return":      ("return ", ";"),
    "callarg":     ("idf(", ")"),
    "binop_r":     ("1i32 + ", ""),
    "binop_l":     ("(", ") + 1i32"),
    "cmp":         ("if (", ") == 1i32 { 1i32 } else { 2i32 }"),
    "unary":       ("-(", ")"),
    "tuple":       ("(0i32, ", ").1"),
    "ifthen":      ("if g(9i32) { ", " } else { 0i32 }"),
    "ifelse":      ("if g(9i32) { 0i32 } else { ", " }"),
    "whilebody":   ("let mut r = 0i32;\n    while r < 1i32 { r = r + 1i32 + ", "; }\n    r"),
    "whilecond":   ("while (", ") == 99i32 { }\n    0i32"),
    "forbody":     ("let mut r = 0i32;\n    for i in std::range(0i64, 1i64) { r = ", "; }\n    r"),
    "nested_arm":  ("match g(9i32) { true => ", ", false => 0i32 }"),
    "nested_scrut": ("match (", ") { 1i32 => 1i32, _ => 2i32 }"),
    "field_assign": ("let h = H(f = 0i32);\n    h.f = ", ";\n    h.f"),
    "ctor_arg":    ("H(f = ", ").f"),
    "struct_arg":  ("W(", ").0"),
    "index_arg":   ("let a = Array[Int32]::fill(8i64, 0i32);\n    a((", ").to_int64())"),
    "index_assign": ("let a = Array[Int32]::fill(8i64, 0i32);\n    a(0i64) = ", ";\n    a(0i64)"),
    "method_recv": ("(", ").to_int64().to_int32()"),
    "method_arg":  ("1i32.wrapping_add(", ")"),
    "block":       ("{ let q = 0i32; ", " }"),
    "paren":       ("(", ")"),
    "template":    ("\"${", "}\".size().to_int32()"),
    "lambda_capture": ("let f = ||: Int32 { ", " };\n    f()"),
    "let_in_block_stmt": ("if g(9i32) { let q = ", "; }\n    0i32"),
    "expr_stmt":   ("", ";\n    0i32"),
    "implmethod":  ("decl", "impl W {{ fn m{k}(x: {T}): Int32 {{\n    ", "\n}} }}\n"),
    "staticmethod": ("decl", "impl W {{ static fn s{k}(x: {T}): Int32 {{\n    ", "\n}} }}\n"),
    "traitdefault": ("decl", "trait Tr{k} {{ fn m(x: {T}): Int32 {{\n    ", "\n}} }}\n"),
    "traitimpl":   ("decl", "trait Tr{k} {{ fn m(x: {T}): Int32; }}\nimpl Tr{k} for W {{ fn m(x: {T}): Int32 {{\n    ", "\n}} }}\n"),
    "modfn":       ("decl", "mod md{k} {{ use super::{{E3, P, g}}; pub fn m(x: {T}): Int32 {{\n    ", "\n}} }}\n"),
}
CTX_PRELUDE = ["class H { f: Int32 }", "struct W(Int32)", "fn idf(a: Int32): Int32 { a }"]


def render_diag(rows, position="fn"):
    """returns (source, meta): meta[k] = {first,last (byte offsets of the function), arms: [{alts: [(start,end)], pat:(start,end)}]}"""
    src = "\n".join(PRELUDE + CTX_PRELUDE) + "\nfn main() {}\n"
    meta = []
    for k, row in enumerate(rows):
        ty = row["ty"]
        first = len(src.encode())
        tail = None
        if position == "global":
            src += f"let G{k}: Int32 = match mk{k}() {{\n"
        elif position == "lambda":
            src += f"fn m{k}(x: {TY[ty]}): Int32 {{\n    let f = |y: {TY[ty]}|: Int32 {{ match y {{\n"
        else:
            c = CONTEXTS[position]
            if c[0] == "decl":
                src += c[1].format(k=k, T=TY[ty]) + "match x {\n"
                tail = "    }" + c[2].format(k=k, T=TY[ty])
            else:
                src += f"fn m{k}(x: {TY[ty]}): Int32 {{\n    {c[0]}match x {{\n"
                tail = "    }" + c[1] + "\n}\n"
        arms = []
        names = [k]
        for i, a in enumerate(row["arms"]):
            src += "        "
            ps = len(src.encode())
            alts = []
            if a["p"]["k"] == "alt":
                for j, q in enumerate(a["p"]["alts"]):
                    s0 = len(src.encode())
                    src += pat(q, ty, None)
                    alts.append((s0, len(src.encode())))
                    if j == 0:
                        src += " |\n            "
            else:
                s0 = len(src.encode())
                src += pat(a["p"], ty, names)
                alts.append((s0, len(src.encode())))
            pe = len(src.encode())
            src += (f" if g({i}i32)" if a["g"] else "") + f" => {i + 1}i32,\n"
            arms.append({"pat": (ps, pe), "alts": alts})
        if position == "global":
            src += f"}};\nfn mk{k}(): {TY[ty]} {{ {val(row_first_value(row), ty)} }}\n"
        elif position == "lambda":
            src += "    } };\n    f(x)\n}\n"
        else:
            src += tail
        meta.append({"k": k, "first": first, "last": len(src.encode()), "arms": arms})
    return src, meta


def row_first_value(row):
    from itertools import product
    ty = row["ty"]
    return {"bool": {"c": "true", "a": []}, "int": {"c": "0", "a": []}, "e3": {"c": "A", "a": []},
            "opt": {"c": "None", "a": []}, "pair": {"c": "tuple", "a": [{"c": "true", "a": []}, {"c": "A", "a": []}]},
            "p": {"c": "Y", "a": []}, "i64d": {"c": "0", "a": []}, "i32d": {"c": "0", "a": []}}[ty]


def render_run(rows):
    """program printing `k vi mask arm` for every accepted matrix k, value index vi, guard mask; returns (src, expected_lines)"""
    src = "\n".join(PRELUDE) + "\n"
    calls = []
    expected = []
    for k, row in enumerate(rows):
        ty = row["ty"]
        src += f"fn m{k}(x: {TY[ty]}): Int32 {{\n    match x {{\n"
        names = [k]
        for i, a in enumerate(row["arms"]):
            if a["p"]["k"] == "alt":
                p = " | ".join(pat(q, ty, None) for q in a["p"]["alts"])
            else:
                p = pat(a["p"], ty, names)
            src += f"        {p}" + (f" if g({i}i32)" if a["g"] else "") + f" => {i + 1}i32,\n"
        src += "    }\n}\n"
        for vi, ent in enumerate(row["table"]):
            for e in ent["arms"]:
                mask = sum(1 << (i - 1) for i in e["gs"])
                calls.append(f"    GM = {mask}i32; println(\"{k} {vi} {mask} ${{m{k}({val(ent['v'], ty)})}}\");")
                expected.append(f"{k} {vi} {mask} {e['arm']}")
    # split main into chunks to keep functions small
    chunks = [calls[i:i + 200] for i in range(0, len(calls), 200)]
    for ci, ch in enumerate(chunks):
        src += f"fn run{ci}() {{\n" + "\n".join(ch) + "\n}\n"
    src += "fn main() {\n" + "\n".join(f"    run{ci}();" for ci in range(len(chunks))) + "\n}\n"
    return src, expected
